"""Scenario machinery shared by the engine properties (C04-C08, C14, C20, C05).

A scenario = one CID (format, allowed characters, fields, checks, header) + a history of runs
(reads through `cutplace.rows` / `validio.Reader`, writes through `validio.Writer`) that share the
CID object.  The same scenario is sent to the Lean engine model (`engine` op) and executed on the
real code; both produce a canonical trace per run.
"""
import csv
import io
import os
import shutil
import tempfile
import re

import core
from core import enc


# ----------------------------------------------------------------------------- scenario -> protocol
def rows_str(rows):
    if not rows:
        return "~"
    return ";".join("E" if not r else ",".join(enc(c) for c in r) for r in rows)


def scenario_line(scn):
    fields = ";".join("%s:%s:%s:%s" % (f["type"], "1" if f["empty"] else "0", enc(f["length"]), enc(f["rule"])) for f in scn["fields"])
    names = ",".join(enc(f["name"]) for f in scn["fields"])
    checks = []
    for c in scn["checks"]:
        if c["kind"] == "U":
            checks.append("U:" + enc(c["rule"]))
        elif c["kind"] == "D":
            checks.append("D:" + enc(c["rule"]))
        else:
            checks.append("S:%d:%s:%s" % (c["col"], enc(c["veto"]), "1" if c["fail"] else "0"))
    runs = []
    for r in scn["runs"]:
        if r["kind"] == "R":
            runs.append("R:%s:%s:%s:%s:%s:%s:%s" % (r["api"], r["mode"], "n" if r["limit"] is None else r["limit"],
                                                   "1" if r.get("fault") else "0", "n" if r.get("stop") is None else r["stop"],
                                                   "1" if r.get("close", True) else "0", rows_str(r.get("model_rows", r["rows"]))))
        else:
            runs.append("W:%s:%s" % ("1" if r.get("close", True) else "0", rows_str(r["rows"])))
    return core.line("engine", scn["format"], "n" if scn.get("allowed") is None else enc(scn["allowed"]), fields or "~", names or "~",
                     ";".join(checks) or "~", str(scn["header"]), "|".join(runs) or "~")


# ----------------------------------------------------------------------------- real CID
LINE_NAMES = {"lf": "LF", "cr": "CR", "crlf": "CRLF", "any": "Any", "none": "None"}
LINE_TEXT = {"lf": "\n", "cr": "\r", "crlf": "\r\n", "any": "\n", "none": ""}


def cid_rows(scn):
    rows = [["D", "Format", {"delimited": "Delimited", "fixed": "Fixed", "excel": "Excel", "ods": "ODS"}[scn["format"]]]]
    if scn["header"]:
        rows.append(["D", "Header", str(scn["header"])])
    if scn.get("allowed") is not None and not scn.get("late_allowed"):
        rows.append(["D", "Allowed characters", scn["allowed"]])
    if scn["format"] == "fixed":
        rows.append(["D", "Line delimiter", LINE_NAMES[scn.get("line", "lf")]])
    for f in scn["fields"]:
        rows.append(["F", f["name"], "", "X" if f["empty"] else "", f["length"], f["type"], f["rule"]])
    if scn.get("allowed") is not None and scn.get("late_allowed"):
        # a data format property may follow the fields it applies to
        rows.append(["D", "Allowed characters", scn["allowed"]])
    for i, c in enumerate(scn["checks"]):
        if c["kind"] == "U":
            rows.append(["C", "c%d" % i, "IsUnique", c["rule"]])
        elif c["kind"] == "D":
            rows.append(["C", "c%d" % i, "DistinctCount", c["rule"]])
        else:
            rows.append(["C", "c%d" % i, "Scripted", "%s;%s;%s" % (scn["fields"][c["col"]]["name"], c["veto"], "fail" if c["fail"] else "")])
    return rows


def build_cid(scn):
    import plugin_types  # noqa: F401  (registers the scripted classes before the Cid looks for subclasses)
    from cutplace import interface

    cid = interface.Cid()
    cid.read("scenario-cid", cid_rows(scn))
    return cid


def container_text(scn, rows, fault):
    """the raw rows stored in the CID's data format; `fault` appends a malformed tail"""
    if scn["format"] == "delimited":
        out = io.StringIO()
        w = csv.writer(out, lineterminator="\n")
        for r in rows:
            w.writerow(r)
        text = out.getvalue()
        if fault:
            text += '"unterminated'
        return text
    if scn["format"] == "fixed":
        sep = LINE_TEXT[scn.get("line", "lf")]
        if isinstance(fault, dict) and fault["kind"] == "nodelim":
            # the last record is followed by one stray character instead of its line delimiter
            return "".join("".join(r) + sep for r in rows[:-1]) + "".join(rows[-1]) + "x"
        if isinstance(fault, dict) and fault["kind"] == "wrongdelim":
            # record `at` is followed by other characters where its line delimiter should be
            at = fault["at"]
            return "".join("".join(r) + sep for r in rows[:at]) + "".join(rows[at]) + "x" * len(sep) + "".join("".join(r) + sep for r in rows[at + 1:])
        text = "".join("".join(r) + sep for r in rows)
        if isinstance(fault, dict) and fault["kind"] == "blanktail":
            text += " "  # an incomplete record that consists of a blank
        elif fault:
            text += "x"  # an incomplete record
        return text
    raise core.MachineryError("container for %s not available here" % scn["format"])


# ----------------------------------------------------------------------------- canonical traces
def check_index(scn, error):
    msg = error.message if hasattr(error, "message") else str(error)
    cands = []
    for i, c in enumerate(scn["checks"]):
        if c["kind"] == "S" and re.search(r"by c%d\b" % i, msg):
            cands.append(i)
        elif c["kind"] == "U" and "must be unique" in msg:
            names = [n.strip() for n in c["rule"].split(",")]
            if repr(names) in msg:
                cands.append(i)
        elif c["kind"] == "D" and "distinct count" in msg:
            expr = "count" + c["rule"].strip()[len(c["rule"].strip().split()[0].split("<")[0].split(">")[0].split("=")[0].split("!")[0]):]
            if repr(expr) in msg:
                cands.append(i)
    return str(cands[0]) if len(cands) == 1 else "*"


def enc_error(scn, error):
    from cutplace import errors

    loc = error.location
    line = "?" if loc is None else str(loc.line)
    if isinstance(error, errors.FieldValueError):
        return "e%s:F%d" % (line, loc.cell)
    if isinstance(error, errors.CheckError):
        see = error.see_also_location
        return "e%s:C%s:%s" % (line, check_index(scn, error), "n" if see is None else str(see.line))
    if isinstance(error, errors.DataFormatError):
        return "format"
    if isinstance(error, errors.DataError):
        return "e%s:N" % line
    return "!" + core.classify_exception(error)


def close_tag(scn, error):
    from cutplace import errors

    if isinstance(error, errors.CheckError):
        return "chk" + check_index(scn, error)
    return "!" + core.classify_exception(error)


def drain_log(scn):
    """canonical call log restricted to the scripted plugin classes"""
    import plugin_types

    names = [f["name"] for f in scn["fields"]]
    out = []
    for entry in plugin_types.CALL_LOG:
        if entry[0] == "hook":
            out.append("h%d:%s" % (names.index(entry[1]), enc(entry[2])))
        elif entry[0] == "reset":
            out.append("z" + entry[1][1:])
        elif entry[0] == "row":
            out.append("c%s@%d" % (entry[1][1:], entry[3]))
        elif entry[0] == "end":
            out.append("a" + entry[1][1:])
        elif entry[0] == "cleanup":
            out.append("x" + entry[1][1:])
    del plugin_types.CALL_LOG[:]
    return out


def filter_model_log(scn, log):
    """keep the model's calls that concern scripted fields / checks (the only ones the harness can observe)"""
    if log == "~":
        return []
    scripted_cols = set(i for i, f in enumerate(scn["fields"]) if f["type"] == "Scripted")
    scripted_checks = set(i for i, c in enumerate(scn["checks"]) if c["kind"] == "S")
    out = []
    for e in log.split(","):
        if e[0] == "h":
            if int(e[1:].split(":")[0]) in scripted_cols:
                out.append(e)
        else:
            idx = int(re.match(r"[zcax](\d+)", e).group(1))
            if idx in scripted_checks:
                out.append(e)
    return out


def impl_read(scn, cid, run):
    from cutplace import errors, validio

    import plugin_types

    del plugin_types.CALL_LOG[:]
    tmp_dir = None
    if run.get("fault") == "bytes":
        # undecodable bytes in a file read through its path: a record that starts with two bytes no code page 1252 text contains
        good = container_text(scn, run["rows"], None).encode("cp1252")
        lines = good.splitlines(True)
        at = min(run.get("fault_at", len(lines)), len(lines))
        blob = b"".join(lines[:at]) + b"\x81\x8d" + b"".join(lines[at:])
        tmp_dir = tempfile.mkdtemp(prefix="c06-")
        source = os.path.join(tmp_dir, "data.txt")
        with open(source, "wb") as f:
            f.write(blob)
    else:
        text = container_text(scn, run["rows"], run.get("fault"))
        source = io.StringIO(text, newline="")
    try:
        return _impl_read(scn, cid, run, source)
    finally:
        if tmp_dir is not None:
            shutil.rmtree(tmp_dir, ignore_errors=True)


def _impl_read(scn, cid, run, source):
    from cutplace import errors, validio

    import plugin_types

    events, fin, acc, rej, close = [], "done", "n", "n", "skipped"
    stop = run.get("stop")
    if stop == 0:
        if run["api"] == "f":
            gen = validio.rows(cid, source, on_error=run["mode"], validate_until=run["limit"])
            gen.close()
        else:
            reader = validio.Reader(cid, source, on_error=run["mode"], validate_until=run["limit"])
            reader.rows()
        return {"ev": "~", "fin": "unstarted", "acc": "n", "rej": "n", "close": "skipped", "log": drain_log(scn)}
    reader = None
    if run["api"] == "f":
        gen = validio.rows(cid, source, on_error=run["mode"], validate_until=run["limit"])
    else:
        if run.get("_reader") is not None:
            # Reader object built before the history started (the run itself still begins with rows())
            reader, source = run["_reader"]
        else:
            reader = validio.Reader(cid, source, on_error=run["mode"], validate_until=run["limit"])
        if run.get("pre"):
            # the same Reader object was already used for a pass that was abandoned after `pre` rows
            first_pass = reader.rows()
            try:
                for _ in range(run["pre"]):
                    next(first_pass, None)
            except Exception:  # noqa
                pass   # whatever stops the first pass is reported by the pass that is compared
            del first_pass
            source.seek(0)
            del plugin_types.CALL_LOG[:]
        gen = reader.rows()
    raw = list(run["rows"])
    yielded = []
    try:
        for item in gen:
            yielded.append(item)
            if stop is not None and len(yielded) >= stop:
                fin = "abandoned"
                break
    except errors.DataFormatError as error:
        fin = "format"
    except errors.CheckError as error:
        # function API: close() inside the generator may replace / produce the error
        if run["api"] == "f" and error.location is not None and getattr(error, "_from_close", False):
            pass
        fin = "raised:" + enc_error(scn, error)[1:]
    except errors.DataError as error:
        fin = "raised:" + enc_error(scn, error)[1:]
    except Exception as error:  # noqa
        fin = "!" + core.classify_exception(error)
    # events: rows must be the unchanged input rows, in order
    row_iter = iter(raw)
    for item in yielded:
        if isinstance(item, Exception):
            events.append(enc_error(scn, item))
        else:
            events.append("r" if item in raw else "r!")
    if run["api"] == "f":
        if fin == "abandoned":
            try:
                gen.close()
                close = "ok"
            except Exception as error:  # noqa
                close = close_tag(scn, error)
        # otherwise close() already ran inside the generator; its failure (if any) is what was raised
    else:
        acc, rej = str(reader.accepted_rows_count), str(reader.rejected_rows_count)
        if run.get("close", True):
            try:
                reader.close()
                close = "ok"
            except Exception as error:  # noqa
                close = close_tag(scn, error)
    return {"ev": ",".join(events) or "~", "fin": fin, "acc": acc, "rej": rej, "close": close, "log": drain_log(scn), "yielded": yielded}


def impl_write(scn, cid, run):
    from cutplace import errors, validio

    import plugin_types

    del plugin_types.CALL_LOG[:]
    target = io.StringIO()
    verdicts = []
    try:
        writer = validio.Writer(cid, target)
    except Exception as error:  # noqa
        return {"w": "!" + core.classify_exception(error), "text": "", "close": "skipped", "log": drain_log(scn)}
    if run.get("batch"):
        # Writer.write_rows(): the same as write_row() for each row, stopping at the first rejection; the batch is
        # handed over as an iterator so that the number of rows taken before the error is observable
        rows, pos = run["rows"], 0
        while pos < len(rows):
            taken = [0]

            def batch(start=pos, taken=taken):
                for r in rows[start:]:
                    taken[0] += 1
                    yield r
            try:
                writer.write_rows(batch())
                verdicts.extend(["k"] * taken[0])
            except errors.DataError as error:
                verdicts.extend(["k"] * (taken[0] - 1) + [enc_error(scn, error).split(":", 1)[1]])
            except Exception as error:  # noqa
                verdicts.extend(["k"] * (taken[0] - 1) + ["!" + core.classify_exception(error)])
            pos += max(taken[0], 1)
    else:
        for row in run["rows"]:
            try:
                writer.write_row(row)
                verdicts.append("k")
            except errors.DataError as error:
                verdicts.append(enc_error(scn, error).split(":", 1)[1])
            except Exception as error:  # noqa
                verdicts.append("!" + core.classify_exception(error))
    close = "skipped"
    if run.get("close", True):
        try:
            writer.close()
            close = "ok"
        except Exception as error:  # noqa
            close = close_tag(scn, error)
    return {"w": ",".join(verdicts) or "~", "text": target.getvalue(), "close": close, "log": drain_log(scn)}


def parse_model_run(txt):
    tag, kv = core.parse_kv("x " + txt)
    return kv


def model_final_to_impl(fin):
    """model: raised<line>:<err> / format<line>; impl: raised:<line>:<err> / format"""
    m = re.match(r"raised(\d+):(.*)", fin)
    if m:
        return "raised:%s:%s" % (m.group(1), m.group(2))
    if fin.startswith("format"):
        return "format"
    return fin


def same_modulo_star(a, b):
    """compare traces where the implementation could not name the check index ('*')"""
    if a == b:
        return True
    pa, pb = re.split(r"([,:])", a), re.split(r"([,:])", b)
    if len(pa) != len(pb):
        return False
    for x, y in zip(pa, pb):
        if x != y and not ((x.startswith("C*") and y.startswith("C")) or (y.startswith("C*") and x.startswith("C"))
                           or x == "chk*" and y.startswith("chk") or y == "chk*" and x.startswith("chk")):
            return False
    return True


def run_scenarios(scns):
    """returns list of (scenario, model_runs or tag, impl_runs or tag)"""
    outs = core.run_driver([scenario_line(s) for s in scns])
    results = []
    for scn, mo in zip(scns, outs):
        if not mo.startswith("ok "):
            mruns = mo
        else:
            mruns = [parse_model_run(t) for t in mo[3:].split(" | ")] if scn["runs"] else []
        try:
            cid = build_cid(scn)
        except Exception as error:  # noqa
            results.append((scn, mruns, "decl:" + core.classify_exception(error)))
            continue
        iruns = []
        for run in scn["runs"]:
            if run["kind"] == "R" and run.get("early"):
                from cutplace import validio
                early_source = io.StringIO(container_text(scn, run["rows"], run.get("fault")), newline="")
                run["_reader"] = (validio.Reader(cid, early_source, on_error=run["mode"], validate_until=run["limit"]), early_source)
        for run in scn["runs"]:
            if run["kind"] == "R" and run["api"] == "v":
                iruns.append(impl_validate(scn, cid, run))
            elif run["kind"] == "R":
                iruns.append(impl_read(scn, cid, run))
            else:
                iruns.append(impl_write(scn, cid, run))
        results.append((scn, mruns, iruns))
    return results


# ----------------------------------------------------------------------------- generators
FIELD_POOL = [
    # type, length, rule, accepted cells, rejected cells (delimited); cells never need csv quoting surprises
    ("Text", "1...3", "", ["ab", "x", "xyz"], ["abcd", "toolong"]),
    ("Text", "", "", ["any", "thing"], []),
    ("Integer", "", "1...50", ["7", "50", "1"], ["0", "x", "51", "-3"]),
    ("Integer", "1...2", "", ["7", "42", "-5"], ["123", "1x", "-15"]),
    ("Choice", "", "red,green,blue", ["red", "green", "blue"], ["RED", "pink", "re"]),
    ("Constant", "", "K", ["K"], ["k", "KK"]),
    ("Scripted", "", "", ["ok", "fine", "a"], ["n!", "!"]),
    ("Scripted", "2...4", "", ["okay", "ab"], ["x!y", "toolong", "a"]),
]


def pad(cell, width):
    return cell + " " * (width - len(cell))


def gen_fields(rnd, n, fmt):
    fields = []
    for i in range(n):
        ty, length, rule, good, bad = rnd.choice(FIELD_POOL)
        empty = rnd.random() < 0.3 and ty != "Constant"
        f = {"name": "f%d" % i, "type": ty, "empty": empty, "length": length, "rule": rule, "good": list(good), "bad": list(bad)}
        if fmt == "fixed":
            width = max(len(c) for c in good + bad)
            # within a fixed width field the declared length is the width; cells longer than a narrower logical
            # length do not exist, so "too long" rejections come from the type only
            if ty == "Integer" and rule == "":
                f["rule"] = "-99...99"
                f["bad"] = ["123", "1x"]
                width = 3
            if ty == "Text" and length:
                f["bad"] = []
            if ty == "Constant":
                f["bad"] = ["k"]
                width = 1
            if ty == "Scripted" and length:
                f["bad"] = ["x!y"]
                f["good"] = ["okay", "ab"]
                width = 4
            f["length"] = str(width)
            f["width"] = width
        if empty:
            f["good"].append("")
        else:
            f["bad"].append("")
        fields.append(f)
    return fields


def gen_checks(rnd, fields, maxn=2):
    checks = []
    for _ in range(rnd.randint(0, maxn)):
        k = rnd.random()
        if k < 0.45:
            cols = rnd.sample(range(len(fields)), rnd.randint(1, min(3, len(fields))))
            rule = ", ".join(fields[c]["name"] for c in cols)
            if any(c["kind"] == "U" and c["rule"] == rule for c in checks):
                continue
            checks.append({"kind": "U", "rule": rule})
        elif k < 0.75:
            col = rnd.randrange(len(fields))
            op = rnd.choice(["<", "<=", "==", "!=", ">=", ">"])
            rule = "%s %s %d" % (fields[col]["name"], op, rnd.randint(0, 4))
            if any(c["kind"] == "D" and c["rule"] == rule for c in checks):
                continue
            checks.append({"kind": "D", "rule": rule})
        else:
            col = rnd.randrange(len(fields))
            checks.append({"kind": "S", "col": col, "veto": rnd.choice(["", "a", "x", "7"]), "fail": rnd.random() < 0.25})
    return checks


def gen_row(rnd, fields, fmt, p_bad=0.2, p_ragged=0.1):
    row = []
    for f in fields:
        if f["bad"] and rnd.random() < p_bad:
            c = rnd.choice(f["bad"])
        else:
            c = rnd.choice(f["good"])
        if fmt == "fixed":
            c = pad(c, f["width"])
        elif rnd.random() < 0.04:
            c = rnd.choice([" ", "  ", "\t"])   # white space only: not an empty cell outside fixed-width data
        row.append(c)
    if fmt != "fixed" and rnd.random() < p_ragged:
        if rnd.random() < 0.5 and row:
            row = row[:rnd.randrange(len(row))]
        else:
            # surplus items of every kind: text, empty (what spreadsheets pad rows with), blank, a copy of a good cell
            k = rnd.random()
            surplus = "extra" if k < 0.4 else ("" if k < 0.75 else (" " if k < 0.85 else row[-1] if row else "x"))
            row = row + [surplus] * rnd.randint(1, 2)
    return row


def gen_table(rnd, fields, fmt, nrows, **kw):
    return [gen_row(rnd, fields, fmt, **kw) for _ in range(nrows)]


def strip_scn(scn):
    """scenario without generator-only keys (for evidence / replay files)"""
    s = dict(scn)
    s["fields"] = [{k: v for k, v in f.items() if k not in ("good", "bad")} for f in scn["fields"]]
    return s


# ----------------------------------------------------------------------------- comparison
def impl_validate(scn, cid, run):
    """`cutplace.validate(cid, source, validate_until=N)`: outcome only"""
    from cutplace import errors, validio

    import plugin_types

    del plugin_types.CALL_LOG[:]
    text = container_text(scn, run["rows"], run.get("fault"))
    try:
        validio.validate(cid, io.StringIO(text, newline=""), validate_until=run["limit"])
        outcome = "ok"
    except errors.DataFormatError:
        outcome = "format"
    except errors.CheckError as error:
        outcome = "check:" + enc_error(scn, error)[1:]
    except errors.DataError as error:
        outcome = "raised:" + enc_error(scn, error)[1:]
    except Exception as error:  # noqa
        outcome = "!" + core.classify_exception(error)
    return {"outcome": outcome, "log": drain_log(scn)}


def model_validate_outcome(m):
    """what `validate()` shows of a model run: the error raised inside the loop, else the close verdict"""
    fin = model_final_to_impl(m["fin"])
    if fin.startswith("raised:"):
        body = fin[len("raised:"):]
        return ("check:" if ":C" in body else "raised:") + body
    if fin == "format":
        return "format"
    if m["close"].startswith("chk"):
        return "check-at-end:" + m["close"][3:]
    return "ok"


def function_api_view(run, m):
    """`cutplace.rows()` closes the reader inside the generator: a failing end check surfaces as the error that
    ends the iteration (at the line after the last raw row), unless another error is already propagating or the
    generator was abandoned."""
    fin = model_final_to_impl(m["fin"])
    if fin == "done" and m["close"].startswith("chk"):
        return {"fin": "raised:%d:C%s:n" % (len(run["rows"]), m["close"][3:]), "close": "skipped"}
    if fin == "abandoned":
        return {"fin": fin, "close": "ok"}
    return {"fin": fin, "close": "skipped"}


def compare_run(scn, run, m, i):
    """list of observable names on which model and implementation differ for one run"""
    diffs = []
    if run["kind"] == "R" and run["api"] == "v":
        want = model_validate_outcome(m)
        got = i["outcome"]
        if want.startswith("check-at-end:"):
            ok = got.startswith("check:") and got.split(":")[2] in ("C" + want.split(":")[1], "C*")
        else:
            ok = same_modulo_star(got, want)
        if not ok:
            diffs.append("outcome")
    elif run["kind"] == "R":
        mm = {"ev": m["ev"], "fin": model_final_to_impl(m["fin"]), "acc": m["acc"], "rej": m["rej"], "close": m["close"]}
        if run["api"] == "f":
            mm.update(function_api_view(run, m))
        for k in ("ev", "fin", "acc", "rej", "close"):
            if k in ("acc", "rej") and (i[k] == "n" or mm[k] == "n"):
                continue
            if not same_modulo_star(i[k], mm[k]):
                diffs.append(k)
    else:
        if not same_modulo_star(i["w"], m["w"]):
            diffs.append("w")
        if not same_modulo_star(i["close"], m["close"]):
            diffs.append("close")
    if i["log"] != filter_model_log(scn, m["log"]):
        diffs.append("log")
    return diffs


def public_impl(i):
    return {k: v for k, v in i.items() if k != "yielded"}
