"""CID generation, decoration, defect injection and canonical comparison (C09, C10, C17)."""
import codecs
import re

import core
from core import enc

FORMAT_NAMES = {"delimited": "Delimited", "fixed": "Fixed", "excel": "Excel", "ods": "ODS"}


def rows_str(rows):
    if not rows:
        return "~"
    return ";".join("E" if not r else ",".join(enc(c) for c in r) for r in rows)


def encoding_known(v):
    """the name of a codec that can be used for text (the codec registry is a parameter of the model)"""
    try:
        codecs.lookup(v)
        "".encode(v)
        return True
    except Exception:  # noqa
        return False


def model_line(rows, plugins=False):
    known = sorted(set(r[2] for r in rows if len(r) >= 3 and r[0].strip().lower() == "d" and r[1].lower().replace(" ", "_") == "encoding" and encoding_known(r[2])))
    return core.line("cid.read", "1" if plugins else "0", ",".join(enc(k) for k in known) or "~", rows_str(rows))


def impl_canonical(rows, plugins=False, via_text=False):
    """canonical outcome of Cid().read on the real code; `via_text`: the rows stored as comma separated text first"""
    from cutplace import errors, interface
    import props.c11 as c11

    if plugins:
        import plugin_types  # noqa
    cid = interface.Cid()
    try:
        if via_text:
            import csv
            import io
            out = io.StringIO()
            csv.writer(out, lineterminator="\n").writerows([list(r) for r in rows])
            cid = interface.create_cid_from_string(out.getvalue())
        else:
            cid.read("generated-cid", [list(r) for r in rows])
    except errors.CutplaceError as error:
        tag = core.classify_exception(error)
        loc = error.location
        if loc is not None and hasattr(loc, "line"):
            return "%s@%d" % (tag, loc.line)
        m = re.search(r"\(R(\d+)C\d+\)", str(error))
        return "%s@%s" % (tag, str(int(m.group(1)) - 1) if m else "n")
    except Exception as error:  # noqa
        return "%s@?" % core.classify_exception(error)
    fields = []
    for f in cid.field_formats:
        items = f.length.items
        if items is None:
            its = "n"
        else:
            def num(x):
                return "n" if x is None else core.optint(int(x))
            its = ";".join("%s:%s" % (num(a), num(b)) for a, b in items) or "~"
        stem = type(f).__name__[:-len("FieldFormat")]
        rule = "-" if stem == "Decimal" else enc(f.rule)
        fields.append("%s:%s:%d:%s:%s" % (enc(f.field_name), stem, 1 if f.is_allowed_to_be_empty else 0, its, rule))
    checks = ["%s:%s" % (enc(n), type(cid.check_map[n]).__name__[:-len("Check")]) for n in cid.check_names]
    return "ok df=%s fields=%s checks=%s" % (c11.impl_attrs(cid.data_format).replace(" ", "|"), "/".join(fields) or "~", "/".join(checks) or "~")


def normalise_model(mo):
    """the model prints the rule of Decimal fields too; the implementation's `.rule` attribute is empty there"""
    if not mo.startswith("ok "):
        # the model does not know the location of errors it cannot attribute: '@?' never appears
        return mo
    def fix(m):
        parts = m.group(0).split(":")
        return m.group(0)
    out = []
    for tok in mo.split(" "):
        if tok.startswith("fields=") and tok != "fields=~":
            fs = []
            for f in tok[len("fields="):].split("/"):
                p = f.split(":")
                # name:Type:empty:items(lo:hi;...):rule  -> items may contain ':'
                name, ty, empty = p[0], p[1], p[2]
                rule = p[-1]
                items = ":".join(p[3:-1])
                if ty == "Decimal":
                    rule = "-"
                fs.append(":".join([name, ty, empty, items, rule]))
            tok = "fields=" + "/".join(fs)
        out.append(tok)
    return " ".join(out)


# ----------------------------------------------------------------------------- generation of valid CIDs
FIELD_TEMPLATES = [
    # type, rule, length (non-fixed), example (accepted) ; width for fixed
    ("Text", "", "", "hello", 8),
    ("Text", "", "1...20", "hello", 8),
    ("Integer", "1...999", "", "17", 4),
    ("Integer", "", "1...3", "17", 3),
    ("Integer", "-50...50, 100", "", "-5", 4),
    ("Choice", "red, green, blue", "", "red", 5),
    ("Choice", "'a b', \"c\"", "", "c", 3),
    ("Constant", "K", "", "K", 1),
    ("DateTime", "YYYY-MM-DD", "", "2024-02-29", 10),
    ("DateTime", "DD.MM.YY hh:mm", "", "31.12.99 23:59", 14),
    ("DateTime", "YYYY-MM-DD hh:mm:ss", "", "2024-02-29 00:00:00", 19),
    # an example with a leading blank: part of the cell, whatever storage the CID comes from
    ("Text", "", "3", " 38", 3),
    ("Pattern", "A*z", "", "Abcz", 6),
    ("RegEx", "[a-c]+[0-9]?", "", "abc1", 6),
    # rules full of characters that are item delimiters elsewhere (a CID stored as text is comma separated, whatever its cells contain)
    ("RegEx", "^(AT|BE|CH|DE|DK|ES|FI|FR|GB|IT|NL|NO|PL|PT|SE|SK)$", "", "DE", 2),
    ("Choice", "'a;b', 'c;d', 'e;f;g;h;i;j;k;l;m'", "", "a;b", 17),
    ("Decimal", "0...999.99", "", "12.50", 7),
    ("Decimal", "", "", "3.14", 7),
]


def gen_valid_cid(rnd, fmt=None, max_fields=6, allow_decimal=True):
    """returns (rows, info) with info = {'format', 'field_rows': indices, 'check_rows': indices, 'prop_rows': indices}"""
    fmt = fmt or rnd.choice(["delimited", "delimited", "fixed", "excel", "ods"])
    rows = [["D", "Format", FORMAT_NAMES[fmt]]]
    props = []
    if rnd.random() < 0.5:
        props.append(["D", "Header", str(rnd.randint(0, 3))])
    if rnd.random() < 0.3:
        props.append(["D", "Encoding", rnd.choice(["utf-8", "latin-1", "cp1252"])])
    if rnd.random() < 0.3:
        props.append(["D", "Allowed characters", rnd.choice(["32...126", "32...", "9, 32...255"])])
    if fmt == "delimited":
        if rnd.random() < 0.5:
            props.append(["D", "Item delimiter", rnd.choice([";", "tab", "124", "0x7c", "'|'"])])
        if rnd.random() < 0.3:
            props.append(["D", "Quote character", rnd.choice(['"', "'"])])
        if rnd.random() < 0.3:
            props.append(["D", "Escape character", rnd.choice(['"', "\\"])])
        if rnd.random() < 0.2:
            props.append(["D", "Quoting", rnd.choice(["all", "minimal"])])
    if fmt in ("delimited", "fixed"):
        if rnd.random() < 0.4:
            props.append(["D", "Line delimiter", rnd.choice(["LF", "CR", "CRLF", "Any"])])
        if rnd.random() < 0.3:
            props.append(["D", "Decimal separator", ","])
            props.append(["D", "Thousands separator", "."])
    else:
        if rnd.random() < 0.4:
            props.append(["D", "Sheet", str(rnd.randint(1, 3))])
    rnd.shuffle(props)
    # decimal separator must stay consistent whatever the order: keep the pair adjacent order irrelevant (validated at completion)
    rows += props
    info = {"format": fmt, "prop_rows": list(range(1, len(rows))), "field_rows": [], "check_rows": []}
    names = []
    decimal_comma = any(r[1] == "Decimal separator" for r in props)
    for k in range(rnd.randint(1, max_fields)):
        ty, rule, length, example, width = rnd.choice(FIELD_TEMPLATES)
        if ty == "Decimal" and (not allow_decimal or fmt != "delimited"):
            ty, rule, length, example, width = FIELD_TEMPLATES[0]
        if ty == "Decimal" and decimal_comma:
            example = example.replace(".", ",")
        if fmt == "fixed":
            length = str(width)
        name = "%s%d" % (rnd.choice(["id", "name", "value", "kind", "when", "code"]), k)
        names.append(name)
        empty = rnd.random() < 0.3 and ty != "Constant"
        info["field_rows"].append(len(rows))
        rows.append(["F", name, example if rnd.random() < 0.6 else "", "X" if empty else "", length, ty if (ty != "Text" or rnd.random() < 0.5) else "", rule])
    for k in range(rnd.randint(0, 3)):
        info["check_rows"].append(len(rows))
        if rnd.random() < 0.6:
            cols = rnd.sample(names, rnd.randint(1, min(2, len(names))))
            rows.append(["C", "check %d" % k, "IsUnique", ", ".join(cols)])
        else:
            rows.append(["C", "check %d" % k, "DistinctCount", "%s %s %d" % (rnd.choice(names), rnd.choice(["<", "<=", "==", "!=", ">=", ">"]), rnd.randint(0, 9))])
    return rows, info


# ----------------------------------------------------------------------------- meaning-preserving decoration
def decorate(rnd, rows, info):
    """returns (new_rows, index_map old_row -> new_row)"""
    out = []
    index_map = {}
    for i, r in enumerate(rows):
        while rnd.random() < 0.25:
            out.append(rnd.choice([[], [""], ["", "a comment"], ["  ", "F", "looks like a field"], ["", "", ""], [" \t"]]))
        r = list(r)
        if not r or r[0].strip() == "":
            # a comment or blank row of the input itself stays as it is
            index_map[i] = len(out)
            out.append(r)
            continue
        kind = r[0].lower()
        # row marker: case and surrounding blanks
        r[0] = rnd.choice([r[0], r[0].lower(), r[0].upper(), " " + r[0], r[0] + "  ", " " + r[0].lower() + " "])
        if kind == "d":
            r[1] = rnd.choice([r[1], r[1].lower(), r[1].upper(), r[1].title()])
            if r[1].lower() == "format":
                r[2] = rnd.choice([r[2], r[2].lower(), r[2].upper()])
            r += [""] * rnd.choice([0, 0, 1, 3]) + (["ignored", "cells"] if rnd.random() < 0.2 else [])
        elif kind == "f":
            r = (r + [""] * 7)[:7]
            r[1] = rnd.choice([r[1], " " + r[1], r[1] + " "])           # name is stripped
            r[3] = rnd.choice([r[3], r[3].lower(), " " + r[3] + " "])    # empty mark is stripped and case-insensitive
            r[5] = rnd.choice([r[5], " " + r[5], r[5] + " "])           # type is stripped
            r[6] = rnd.choice([r[6], "  " + r[6], r[6] + "  "])         # rule is stripped
            if rnd.random() < 0.4:
                r += ["a comment beyond the parsed columns", "x"]
        elif kind == "c":
            r = (r + [""] * 7)[:7]
            if rnd.random() < 0.3:
                r += ["trailing"]
        index_map[i] = len(out)
        out.append(r)
    while rnd.random() < 0.3:
        out.append(rnd.choice([[], ["", "the end"]]))
    return out, index_map


def random_length_text(rnd):
    """a length declaration of any shape: well-formed ones mostly (single, ranges, open ends, lists, other
    spellings of the numbers), some malformed; whether a CID may carry it is for the model to say"""
    def num():
        v = rnd.choice([0, 1, 1, 2, 3, 3, 5, 8, 10, 12])
        if rnd.random() < 0.08:
            v = -v
        return rnd.choice(["%d", "%d", "%d", "%d", "0x%x"])  % v if v >= 0 else "%d" % v

    def item():
        k = rnd.random()
        if k < 0.4:
            return num()
        if k < 0.65:
            return "%s...%s" % (num(), num())
        if k < 0.8:
            return "%s..." % num()
        if k < 0.92:
            return "...%s" % num()
        return rnd.choice(["", "x", "1..2", "...", "1 2"])
    sep = rnd.choice([", ", ",", " , "])
    return sep.join(item() for _ in range(rnd.choice([1, 1, 1, 2, 2, 3])))


def length_variants(rnd, rows, info, count=4):
    """yield (new_rows, row index): a field row with another length declaration (example removed)"""
    for _ in range(count):
        i = rnd.choice(info["field_rows"])
        r = [list(x) for x in rows]
        r[i][2] = ""
        r[i][4] = random_length_text(rnd)
        yield r, i


# ----------------------------------------------------------------------------- structural defects
def defects(rnd, rows, info):
    """yield (name, new_rows, offending_row_index or None)"""
    fmt = info["format"]
    frows, crows, prows = info["field_rows"], info["check_rows"], info["prop_rows"]

    def with_row(i, new):
        r = [list(x) for x in rows]
        r[i] = new
        return r

    def inserted(i, new):
        r = [list(x) for x in rows]
        r.insert(i, new)
        return r
    # data format
    yield "no-format-row", [list(x) for x in rows[1:]], 0 if len(rows) > 1 else None
    # nothing but comments and blank rows: "data format must be specified", reported after the last row
    yield "no-rows", [], 0
    yield "only-comments", [["", "a comment"], [], [" ", "", "another"]], 3
    yield "unknown-format", with_row(0, ["D", "Format", "Spreadsheet"]), 0
    yield "duplicate-format", inserted(1, ["D", "Format", FORMAT_NAMES[fmt]]), 1
    yield "first-property-not-format", inserted(0, ["D", "Header", "1"]), 0
    yield "empty-property-name", inserted(1, ["D", "", "x"]), 1
    yield "unknown-property", inserted(1, ["D", "Colour", "red"]), 1
    inapplicable = {"delimited": ("Sheet", "1"), "fixed": ("Item delimiter", ";"), "excel": ("Line delimiter", "LF"), "ods": ("Quote character", '"')}[fmt]
    yield "inapplicable-property", inserted(1, ["D", inapplicable[0], inapplicable[1]]), 1
    yield "bad-header", inserted(1, ["D", "Header", "-1"]), 1
    yield "bad-header-text", inserted(1, ["D", "Header", "two"]), 1
    yield "bad-encoding", inserted(1, ["D", "Encoding", "no-such-encoding"]), 1
    yield "bad-allowed-characters", inserted(1, ["D", "Allowed characters", "5...1"]), 1
    if fmt == "delimited":
        yield "bad-quote", inserted(1, ["D", "Quote character", "x"]), 1
        yield "bad-escape", inserted(1, ["D", "Escape character", "/"]), 1
        yield "bad-item-delimiter", inserted(1, ["D", "Item delimiter", "ab"]), 1
        yield "zero-item-delimiter", inserted(1, ["D", "Item delimiter", "0"]), 1
        yield "bad-quoting", inserted(1, ["D", "Quoting", "some"]), 1
        yield "bad-skip-initial-space", inserted(1, ["D", "Skip initial space", "maybe"]), 1
    if fmt in ("delimited", "fixed"):
        yield "bad-line-delimiter", inserted(1, ["D", "Line delimiter", "newline"]), 1
        yield "bad-decimal-separator", inserted(1, ["D", "Decimal separator", ";"]), 1
    else:
        yield "bad-sheet", inserted(1, ["D", "Sheet", "0"]), 1
    yield "field-before-format", inserted(0, ["F", "early"]), 0
    yield "unknown-row-marker", inserted(rnd.randint(1, len(rows)), ["X", "what"]), None  # index filled by caller
    # fields: at every field row
    for i in frows:
        base = (list(rows[i]) + [""] * 7)[:7]

        def mod(col, value, b=base):
            x = list(b)
            x[col] = value
            return x
        yield "empty-field-name", with_row(i, mod(1, "")), i
        yield "bad-field-name", with_row(i, mod(1, "1st")), i
        yield "special-field-name", with_row(i, mod(1, "na-me")), i
        yield "keyword-field-name", with_row(i, mod(1, rnd.choice(["class", "for", "None", "lambda"]))), i
        yield "non-ascii-field-name", with_row(i, mod(1, "näme")), i
        yield "non-ascii-digit-field-name", with_row(i, mod(1, rnd.choice(["a\u0663", "id_\uff11", "n\u0967\u0968_x", "x\u00b2"]))), i
        yield "bad-empty-mark", with_row(i, mod(3, "Y")), i
        yield "unknown-type", with_row(i, mod(5, "NoSuchType")), i
        yield "broken-type", with_row(i, mod(5, "Te xt")), i
        yield "untokenizable-type", with_row(i, mod(5, "Te'xt")), i
        yield "untokenizable-length", with_row(i, mod(4, "'1")), i
        yield "malformed-length", with_row(i, mod(4, "3...1")), i
        # the length counts characters, also for a Decimal field
        yield "fractional-decimal-length", with_row(i, [rows[i][0], rows[i][1], "", "", "2.5" if fmt == "fixed" else "1.5...3.7", "Decimal", ""]), i
        yield "negative-length", with_row(i, mod(4, "-2") if fmt == "fixed" else mod(4, "-2...")), i
        if fmt != "fixed":
            # no lower limit, negative upper limit
            yield "negative-upper-length", with_row(i, mod(4, "...-2")), i
        if fmt == "fixed":
            yield "fixed-without-length", with_row(i, mod(4, "")), i
            yield "fixed-length-range", with_row(i, mod(4, "1...5")), i
            yield "fixed-length-zero", with_row(i, mod(4, "0")), i
            a, b = rnd.randint(1, 9), rnd.randint(1, 9)
            if a == b:
                b += 1
            yield "fixed-length-list", with_row(i, mod(4, "%d, %d" % (a, b))), i
            yield "fixed-length-list-open", with_row(i, mod(4, "%d, %d..." % (min(a, b), max(a, b)))), i
            yield "fixed-length-list-range-first", with_row(i, mod(4, "%d...%d, %d" % (min(a, b), max(a, b), max(a, b) + 2))), i
        ty = base[5] or "Text"
        if ty == "Integer":
            yield "malformed-rule", with_row(i, mod(6, "1...x")), i
            yield "rule-lower-above-upper", with_row(i, mod(6, "9...1")), i
        if ty == "Choice":
            yield "malformed-rule", with_row(i, mod(6, "a,,b")), i
            yield "choice-trailing-comma", with_row(i, mod(6, "a,")), i
        if ty == "Constant":
            yield "constant-two-tokens", with_row(i, mod(6, "a b")), i
        if ty == "Decimal":
            yield "malformed-rule", with_row(i, mod(6, "1...abc")), i
        if base[2]:
            bad_example = {"Integer": "x", "Choice": "nope", "Constant": "other", "DateTime": "nonsense", "Pattern": "nomatch!", "RegEx": "!!", "Decimal": "x"}.get(ty)
            if bad_example:
                yield "example-rejected", with_row(i, mod(2, bad_example)), i
        if i != frows[0]:
            first_name = rows[frows[0]][1]
            yield "duplicate-field-name", with_row(i, mod(1, first_name)), i
    yield "no-fields", [r for k, r in enumerate(rows) if k not in frows and k not in crows], None
    # checks
    first_field = rows[frows[0]][1]
    yield "check-before-fields", inserted(frows[0], ["C", "too early", "IsUnique", first_field]), frows[0]
    end = len(rows)
    yield "check-without-description", inserted(end, ["C", "", "IsUnique", first_field]), end
    yield "unknown-check-type", inserted(end, ["C", "strange", "NoSuchCheck", first_field]), end
    yield "check-without-type", inserted(end, ["C", "typeless"]), end
    yield "check-unknown-field", inserted(end, ["C", "unknown field", "IsUnique", "no_such_field"]), end
    yield "check-duplicate-field", inserted(end, ["C", "twice", "IsUnique", "%s, %s" % (first_field, first_field)]), end
    yield "check-empty-rule", inserted(end, ["C", "no rule", "IsUnique", ""]), end
    yield "check-malformed-rule", inserted(end, ["C", "malformed", "IsUnique", "%s %s" % (first_field, first_field)]), end
    yield "check-untokenizable-rule", inserted(end, ["C", "untokenizable", "IsUnique", "%s, 'b" % first_field]), end
    yield "check-untokenizable-count-rule", inserted(end, ["C", "untokenizable count", "DistinctCount", "%s < 'b" % first_field]), end
    yield "check-untokenizable-type", inserted(end, ["C", "untokenizable type", "Is'Unique", first_field]), end
    yield "distinct-unknown-field", inserted(end, ["C", "distinct", "DistinctCount", "no_such_field < 3"]), end
    yield "distinct-bad-expression", inserted(end, ["C", "distinct", "DistinctCount", "%s <" % first_field]), end
    for i in crows[1:]:
        yield "duplicate-check-description", with_row(i, [rows[i][0], rows[crows[0]][1]] + list(rows[i][2:])), i
