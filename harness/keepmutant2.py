#!/usr/bin/env python3
"""store a confirmed round-8 seeded change: keepmutant2.py <worktree> <A|B> <seeded-id> <breaks> <needs> <caught_by text>  (by hand, not registered)"""
import json, os, shutil, sys
wt, x, sid, breaks, needs, caught = sys.argv[1:7]
dst = os.path.join(os.path.dirname(os.path.abspath(__file__)), "..", "seeded", sid)
os.makedirs(dst, exist_ok=True)
shutil.copy(os.path.join(wt, x + ".diff"), os.path.join(dst, "patch.diff"))
shutil.copy(os.path.join(wt, x + "_demo.py"), os.path.join(dst, "demo.py"))
shutil.copy(os.path.join(wt, x + "_notes.txt"), os.path.join(dst, "notes.txt"))
pid = sid.split("-")[0]
meta = {"property": pid, "breaks": breaks, "needs": needs, "caught_by": {pid: caught},
        "origin": "independent sub-agent given only the property text",
        "confirmed": "pytest in scratch worktree: 2 failed, 342 passed (same as unpatched); demo.py exits 1 with the patch, 0 without; ./check %s run against the patched worktree (CUTPLACE_REPO) and, in the kill-matrix run, against /repo with the patch applied, then reverted" % pid}
json.dump(meta, open(os.path.join(dst, "meta.json"), "w"), indent=1)
print("stored", sid)
