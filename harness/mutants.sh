#!/bin/bash
# kill matrix: apply every seeded change to /repo in turn, run the check of its property, undo; used by hand, not registered
cd "$(dirname "$0")/.."
if [ -n "$(git -C /repo status --porcelain)" ]; then echo "/repo not clean"; exit 2; fi
for d in seeded/*/; do
  id=$(basename $d); pid=${id%%-*}
  # a change whose own property check cannot see it (it lives in a different layer) names the check that does
  alt=$(python3 -c "import json,sys; print(' '.join(json.load(open('$d/meta.json')).get('check_with', [])))")
  if [ -n "$alt" ]; then pid=$alt; fi
  git -C /repo apply "$PWD/$d/patch.diff" || { echo "$id apply-failed"; continue; }
  res=""
  for tier in quick thorough; do
    out=$(./check $pid $tier 2>&1); code=$?
    res="$res $tier=$code"
    if [ $code -eq 1 ]; then break; fi
  done
  git -C /repo checkout -- .
  echo "$id$res $(echo "$out" | grep -A1 '^VIOLATION' | tail -1 | cut -c1-160)"
done
git -C /repo status --porcelain
