"""How much of the modelled Python code do the correspondence runs reach?

The tie between the Lean model and /repo is behavioural: model and implementation are run on the same
inputs.  A line of a modelled function that no input reaches is a line the tie says nothing about.
This tool runs every check's quick tier under coverage.py (line + branch, cutplace/*.py only), cuts the
result down to the functions listed in harness/anchors.py (the ones the model transcribes) and writes
/verif/tie_coverage.json: per function the statements, the lines and the branches no check reached.

    /venv/bin/python harness/tiecoverage.py [Cnn ...]      # by hand, not a registered check (3-4 min)

It is a measurement about the machinery, not a verdict about cutplace: nothing fails here.
"""
import json
import os
import subprocess
import sys
import tempfile

HERE = os.path.dirname(os.path.abspath(__file__))
VERIF = os.path.dirname(HERE)
REPO = os.environ.get("CUTPLACE_REPO", "/repo")
sys.path.insert(0, HERE)
import anchors  # noqa: E402

PIDS = ["C%02d" % i for i in range(1, 21)]


def main(argv):
    pids = [a for a in argv if a.startswith("C")] or PIDS
    scratch = tempfile.mkdtemp(prefix="tiecov")
    data_files = []
    for pid in pids:
        data = os.path.join(scratch, ".coverage." + pid)
        cmd = ["/venv/bin/python", "-m", "coverage", "run", "--branch", "--include=%s/cutplace/*" % REPO,
               "--data-file=" + data, os.path.join(HERE, "run.py"), pid, "--tier", "quick"]
        env = dict(os.environ, VERIF_SEED=os.environ.get("VERIF_SEED", "1"))
        proc = subprocess.run(cmd, cwd=VERIF, env=env, capture_output=True, text=True)
        last = [line for line in proc.stdout.splitlines() if not line.startswith("KNOWN-FINDING")][-1:]
        print(pid, "exit=%d" % proc.returncode, *last, flush=True)
        if os.path.exists(data):
            data_files.append(data)
    import coverage
    combined = os.path.join(scratch, ".coverage")
    cov = coverage.Coverage(data_file=combined, branch=True, include=["%s/cutplace/*" % REPO])
    cov.combine(data_files, keep=True)
    cov.save()
    report = os.path.join(scratch, "report.json")
    cov.json_report(outfile=report)
    with open(report) as f:
        rep = json.load(f)
    by_function = {}
    for path, info in rep["files"].items():
        module = "cutplace." + os.path.splitext(os.path.basename(path))[0]
        for fname, finfo in info.get("functions", {}).items():
            by_function[module + "." + fname] = (path, finfo)
    result = {"repo_head": subprocess.run(["git", "-C", REPO, "rev-parse", "--short", "HEAD"], capture_output=True,
                                          text=True).stdout.strip(),
              "checks": pids, "functions": {}, "not_found": []}
    total_statements = total_missing = total_branches = total_missing_branches = 0
    for name in sorted(anchors.MODEL_MAP):
        if name not in by_function:
            result["not_found"].append(name)
            continue
        path, finfo = by_function[name]
        summary = finfo["summary"]
        result["functions"][name] = {
            "statements": summary["num_statements"],
            "missing_lines": finfo["missing_lines"],
            "branches": summary.get("num_branches", 0),
            "missing_branches": finfo.get("missing_branches", []),
        }
        total_statements += summary["num_statements"]
        total_missing += len(finfo["missing_lines"])
        total_branches += summary.get("num_branches", 0)
        total_missing_branches += len(finfo.get("missing_branches", []))
    result["totals"] = {"functions": len(result["functions"]), "statements": total_statements,
                        "statements_not_reached": total_missing, "branches": total_branches,
                        "branches_not_taken": total_missing_branches}
    # the whole package, for orientation
    result["package_totals"] = {k: rep["totals"][k] for k in ("num_statements", "missing_lines", "num_branches",
                                                               "missing_branches") if k in rep["totals"]}
    out = os.path.join(VERIF, "tie_coverage.json")
    with open(out, "w") as f:
        json.dump(result, f, indent=1, sort_keys=True)
        f.write("\n")
    print(json.dumps(result["totals"]))
    for name, info in sorted(result["functions"].items()):
        if info["missing_lines"] or info["missing_branches"]:
            print("%-62s lines %s branches %s" % (name, info["missing_lines"], info["missing_branches"]))
    if result["not_found"]:
        print("not found in the coverage report:", result["not_found"])
    subprocess.run(["rm", "-rf", scratch])


if __name__ == "__main__":
    main(sys.argv[1:])
