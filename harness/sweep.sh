#!/bin/bash
# run every check over several seeds; print one line per run; used by hand, not registered
cd "$(dirname "$0")/.."
tier="${1:-quick}"; shift
seeds="${@:-1 2 3 4 5}"
for s in $seeds; do
  for p in C01 C02 C03 C04 C05 C06 C07 C08 C09 C10 C11 C12 C13 C14 C15 C16 C17 C18 C19 C20; do
    out=$(VERIF_SEED=$s ./check $p $tier 2>&1); code=$?
    echo "seed=$s $p exit=$code $(echo "$out" | grep -v KNOWN | tail -1)"
    if [ $code -ne 0 ]; then echo "$out" | grep -v KNOWN-FINDING | head -8; fi
  done
done
