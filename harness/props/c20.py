"""C20  User-defined field formats and checks are driven by the documented call protocol."""
import os
import subprocess
import sys
import tempfile

import core
import engine


def hook_preconditions(ctx, scn, i, case):
    """every recorded value-hook call satisfies the documented preconditions"""
    for e in i["log"]:
        if e[0] != "h":
            continue
        col, arg = e[1:].split(":")
        f = scn["fields"][int(col)]
        arg = core.dec(arg)
        if arg == "":
            ctx.violation("C20:hook-called-with-empty", "validated_value('') called for field %s" % f["name"], case)
        if scn["format"] == "fixed" and arg != arg.strip():
            ctx.violation("C20:hook-unstripped", "validated_value(%r) called with padding blanks in fixed format" % arg, case)
        lo_hi = {"33...126": (33, 126), "'a'...'z'": (97, 122), "'A'...'Z'": (65, 90)}.get(scn.get("allowed"))
        if lo_hi is not None and any(not (lo_hi[0] <= ord(c) <= lo_hi[1]) for c in arg):
            ctx.violation("C20:hook-disallowed-character", "validated_value(%r) called with a disallowed character" % arg, case)


def resolution_cases(ctx):
    """class-name resolution: last dotted component + suffix, for plugins exactly like built-ins"""
    import plugin_types  # noqa
    from cutplace import interface

    for type_name, expect_ok in [("Scripted", True), ("plugin_types.Scripted", True), ("a.b.Scripted", True), ("Integer", True),
                                 ("fields.Integer", True), ("a.b.Integer", True), ("scripted", False), ("ScriptedFieldFormat", False), ("Nope", False)]:
        cid = interface.Cid()
        try:
            cid.read("r", [["D", "Format", "Delimited"], ["F", "a", "", "", "", type_name, ""]])
            ok = type(cid.field_formats[0]).__name__ == type_name.split(".")[-1] + "FieldFormat"
            got = "ok" if ok else "wrong-class"
        except Exception as error:  # noqa
            got = core.classify_exception(error)
        ctx.count(key=("resolve-field", type_name), branch="resolve")
        if (got == "ok") != expect_ok or (not expect_ok and got != "iface"):
            ctx.violation("C20:resolution:field:" + type_name, "field type %r -> %s" % (type_name, got), {"type": type_name, "got": got})
    for type_name, expect_ok in [("Scripted", True), ("IsUnique", True), ("Nope", False), ("scripted", False)]:
        cid = interface.Cid()
        try:
            cid.read("r", [["D", "Format", "Delimited"], ["F", "a"], ["C", "c0", type_name, "a" if type_name != "Scripted" else "a;;"]])
            got = "ok" if type(cid.check_map["c0"]).__name__ == type_name + "Check" else "wrong-class"
        except Exception as error:  # noqa
            got = core.classify_exception(error)
        ctx.count(key=("resolve-check", type_name), branch="resolve")
        if (got == "ok") != expect_ok or (not expect_ok and got != "iface"):
            ctx.violation("C20:resolution:check:" + type_name, "check type %r -> %s" % (type_name, got), {"type": type_name, "got": got})


_LATE_CLASSES = []


def late_definition_cases(ctx):
    """a user class that comes into existence after CIDs have already been created in this process resolves like any other"""
    from cutplace import checks, fields, interface

    n = len(_LATE_CLASSES)
    name = "LateDefined%d" % n
    warm = interface.Cid()
    warm.read("warm", [["D", "Format", "Delimited"], ["F", "a", "", "", "", "Integer", ""], ["C", "c0", "IsUnique", "a"]])
    late_field = type(name + "FieldFormat", (fields.AbstractFieldFormat,), {"validated_value": lambda self, value: value})
    late_check = type(name + "Check", (checks.AbstractCheck,), {})
    _LATE_CLASSES.extend([late_field, late_check])
    for kind, rows, pick in (("field", [["D", "Format", "Delimited"], ["F", "a", "", "", "", name, ""]], lambda c: type(c.field_formats[0])),
                             ("check", [["D", "Format", "Delimited"], ["F", "a"], ["C", "c0", name, "a"]], lambda c: type(c.check_map["c0"]))):
        cid = interface.Cid()
        try:
            cid.read("late", rows)
            got = "ok" if pick(cid) is (late_field if kind == "field" else late_check) else "wrong-class"
        except Exception as error:  # noqa
            got = core.classify_exception(error)
        ctx.count(key=("resolve-late", kind), branch="resolve")
        if got != "ok":
            ctx.violation("C20:resolution:late-defined-%s" % kind, "%s class %s defined after other CIDs were created -> %s" % (kind, name, got), {"kind": kind, "got": got})


PLUGIN_SOURCE = '''
from cutplace import checks, errors, fields

LOG = []

class FolderFieldFormat(fields.AbstractFieldFormat):
    def __init__(self, field_name, is_allowed_to_be_empty, length, rule, data_format, empty_value=""):
        super().__init__(field_name, is_allowed_to_be_empty, length, rule, data_format, empty_value)
    def validated_value(self, value):
        LOG.append("hook:" + value)
        if value == "bad":
            raise errors.FieldValueError("bad")
        return value

class FolderCheck(checks.AbstractCheck):
    def reset(self):
        LOG.append("reset")
    def check_row(self, field_name_to_value_map, location):
        LOG.append("row:%d" % location.line)
    def check_at_end(self, location):
        LOG.append("end")
    def cleanup(self):
        LOG.append("cleanup")
'''

SUBPROCESS_SCRIPT = '''
import io, sys, warnings
warnings.filterwarnings("ignore")
sys.path.insert(0, %(repo)r)
import logging
from cutplace import interface, validio
logging.getLogger("cutplace").setLevel(logging.CRITICAL)
interface.import_plugins(%(folder)r)
cid = interface.Cid()
cid.read("p", [["D", "Format", "Delimited"], ["D", "Header", "1"], ["F", "a", "", "", "", "Folder", ""], ["C", "chk", "Folder", "a"]])
out = []
for item in validio.rows(cid, io.StringIO("head\\nx\\nbad\\ny\\n"), on_error="yield"):
    out.append("E" if isinstance(item, Exception) else "R")
import sys as _s
mod = [m for n, m in _s.modules.items() if n == "folder_plugin"]
log = type(cid.check_map["chk"]).__module__
import importlib
print(",".join(out))
print(",".join(_s.modules[type(cid.check_map["chk"]).__module__].LOG if type(cid.check_map["chk"]).__module__ in _s.modules else type(cid.check_map["chk"]).check_row.__globals__["LOG"]))
'''


def plugin_folder_case(ctx):
    folder = tempfile.mkdtemp(prefix="c20plugins")
    try:
        with open(os.path.join(folder, "folder_plugin.py"), "w") as f:
            f.write(PLUGIN_SOURCE)
        r = subprocess.run([sys.executable, "-c", SUBPROCESS_SCRIPT % {"repo": core.REPO, "folder": folder}], capture_output=True, text=True, timeout=120)
        got = r.stdout.strip().split("\n")
        want = ["R,E,R", "reset,hook:x,row:1,hook:bad,hook:y,row:3,end,cleanup"]
        ctx.count(key="plugin-folder", branch="import_plugins")
        if r.returncode != 0 or got != want:
            ctx.violation("C20:import-plugins", "plugin folder run gives %r (exit %s, %s), protocol predicts %r" % (got, r.returncode, r.stderr[-300:], want),
                          {"got": got, "want": want})
    finally:
        for name in os.listdir(folder):
            p = os.path.join(folder, name)
            if os.path.isdir(p):
                for n2 in os.listdir(p):
                    os.remove(os.path.join(p, n2))
                os.rmdir(p)
            else:
                os.remove(p)
        os.rmdir(folder)


def run(ctx):
    rnd = ctx.rnd
    ctx.rule = ("CIDs with 1-4 harness-defined recording fields (empty flag, length, allowed characters varied) and 0-3 recording checks (accepting, vetoing, "
                "failing at the end) x tables of 0-6 rows x header 0-2 x validation limit x three modes x reader (class / function API) and writer x two runs "
                "on one CID; recorded call sequence vs the model's log; plus class-name resolution cases (qualified names, wrong case, classes defined after other CIDs were created) and an import_plugins() subprocess; "
                "distinct = distinct scenario; non-trivial = at least one call recorded")
    n = 1200 if ctx.tier == "quick" else 15000
    scns = []
    for _ in range(n):
        fmt = rnd.choice(["delimited", "delimited", "fixed"])
        nf = rnd.randint(1, 4)
        # in fixed-width data the range without the blank also refuses every padded cell (the hook must not see them)
        allowed = rnd.choice([None, None, "33...126"])
        if fmt == "delimited" and rnd.random() < 0.25:
            # ranges written with quoted characters; the two differ only in the case of the quoted letters
            allowed = rnd.choice(["'a'...'z'", "'A'...'Z'"])
        fields = []
        for j in range(nf):
            length = rnd.choice(["", "", "2...4", "...3"])
            good, bad = ["ok", "abc", "zz"], ["n!", "toolongvalue" if length else "x!"]
            f = {"name": "f%d" % j, "type": "Scripted", "empty": rnd.random() < 0.4, "length": length, "rule": "", "good": good, "bad": bad}
            if fmt == "fixed":
                f["length"], f["width"], f["bad"] = "4", 4, ["n!"]
                f["good"] = good + ["okay", "abcd"]
            if allowed:
                f["bad"] = f["bad"] + ["a b"]
            (f["good"] if f["empty"] else f["bad"]).append("")
            fields.append(f)
        checks = [{"kind": "S", "col": rnd.randrange(nf), "veto": rnd.choice(["", "ab", "zz", "ok"]), "fail": rnd.random() < 0.2}
                  for _ in range(rnd.randint(0, 3))]
        header = rnd.choice([0, 0, 1, 2])
        runs = []
        for _ in range(2):
            table = engine.gen_table(rnd, fields, fmt, rnd.randint(0, 6), p_bad=0.2, p_ragged=0.08)
            if rnd.random() < 0.7:
                api = rnd.choice(["c", "f"])
                runs.append({"kind": "R", "api": api, "mode": rnd.choice(["raise", "yield", "continue"]), "limit": rnd.choice([None, None, 0, 1, 2, 3, 5]),
                             "rows": table, "close": rnd.random() < 0.85, "stop": rnd.choice([None, None, None, 1, 2])})
            else:
                if fmt == "delimited" and header >= 1 and table and table[0] and allowed is None and rnd.random() < 0.4:
                    # a heading that spans two lines of the written file is still one header row
                    table[0][0] = "two\nlines"
                runs.append({"kind": "W", "rows": table, "close": rnd.random() < 0.85})
        scns.append({"format": fmt, "line": rnd.choice(["lf", "cr", "crlf", "any", "none"]), "allowed": allowed, "late_allowed": rnd.random() < 0.4, "fields": fields, "checks": checks, "header": header, "runs": runs})
    for scn, mruns, iruns in engine.run_scenarios(scns):
        sc = engine.strip_scn(scn)
        if isinstance(mruns, str) or isinstance(iruns, str):
            ctx.count(key=repr(sc), nontrivial=False, branch="decl")
            if mruns == "unsupported":
                ctx.skip(sc)
            elif isinstance(mruns, str) != isinstance(iruns, str):
                ctx.machinery_error("scenario declaration disagrees: model=%r impl=%r %r" % (mruns, iruns, sc))
            continue
        case = {"scenario": sc, "model": mruns, "impl": [engine.public_impl(i) for i in iruns]}
        calls = sum(len(i["log"]) for i in iruns)
        ctx.count(key=repr(sc), nontrivial=calls > 0, branch="%s:%s" % (scn["format"], "+".join(r["kind"] + r.get("api", "") for r in scn["runs"])))
        ctx.sample(case)
        for k, (run, m, i) in enumerate(zip(scn["runs"], mruns, iruns)):
            hook_preconditions(ctx, scn, i, case)
            diffs = engine.compare_run(scn, run, m, i)
            if "log" in diffs:
                ml = engine.filter_model_log(scn, m["log"])
                kind = "reader" if run["kind"] == "R" else "writer"
                extra = [e[0] for e in i["log"] if e not in ml][:1] + [e[0] for e in ml if e not in i["log"]][:1]
                ctx.violation("C20:log:%s:%s" % (kind, "".join(sorted(set(extra))) or "order"),
                              "run %d call log %r differs from the protocol's %r" % (k, i["log"], ml), case)
            elif diffs:
                ctx.note_drift({"diffs": diffs, "case": case})
    resolution_cases(ctx)
    late_definition_cases(ctx)
    plugin_folder_case(ctx)


def replay(ctx, case):
    print(case["case"])
