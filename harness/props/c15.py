"""C15  ODS sheets are read as the logical table they contain."""
import itertools
import os
import shutil
import tempfile

import core
import ods_enc
from core import enc, line

FEATURES = ["colRuns", "rowRuns", "whitespace", "spans", "paragraphs"]


def rows_str(rows):
    if not rows:
        return "~"
    return ";".join("E" if not r else ",".join(enc(c) for c in r) for r in rows)


def impl_rows(path, sheet):
    from cutplace import errors, rowio

    try:
        rows = list(rowio.ods_rows(path, sheet))
    except errors.DataFormatError:
        return "data:Format"
    except Exception as error:  # noqa
        return core.classify_exception(error)
    if not rows:
        return "ok ~"
    return "ok " + ";".join("E" if not r else ",".join("N" if c is None else enc(c) for c in r) for r in rows)


def needs(text):
    """which mark-up a faithful ODF encoder must use for this text"""
    return ("  " in text or "\t" in text or "\n" in text)


def gen_table(rnd, alphabet, plain):
    rows = []
    for _ in range(rnd.randint(0, 6)):
        if rows and rnd.random() < 0.3:
            rows.append(list(rows[-1]))   # duplicate adjacent rows
            continue
        row = []
        for _ in range(rnd.randint(0, 8)):
            if row and rnd.random() < 0.35:
                row.append(row[-1])       # runs of equal cells
            else:
                row.append(rnd.choice(alphabet))
        if rnd.random() < 0.25:
            row += [""] * rnd.randint(1, 3)      # rows ending in a run of empty cells
        elif rnd.random() < 0.1:
            row = [""] * rnd.randint(1, 4)       # rows made of empty cells only
        rows.append(row)
    if plain:
        rows = [[c for c in r] for r in rows]
    return rows


def run(ctx):
    rnd = ctx.rnd
    ctx.rule = ("tables of 0-6 rows x 0-8 cells over an alphabet with empty cells, XML-special and non-ASCII characters, runs of equal cells, duplicate adjacent rows, "
                "double blanks, tabs and line breaks; 1-3 sheets x requested sheet 1-4; written by an independent ODF encoder with every subset of the five optional "
                "features {column runs, row runs, white-space elements, spans, paragraphs} and content.xml serialised as UTF-8 / UTF-16 with BOM / ISO-8859-1 with "
                "character references; archives truncated at every 64th byte, content.xml cut at tag boundaries, non-zip files (also ones that still end in a zip directory record), missing content.xml, runs of more than 1024 equal cells, bad repeat "
                "counts; distinct = distinct (document, features, charset, sheet); non-trivial = document has at least one cell")
    n = 300 if ctx.tier == "quick" else 3000
    plain_alpha = ["", "a", "b", "x y", "<&>", "\"q'", "é", "€uro", "日本", "1", "0.5", "A"]
    ws_alpha = plain_alpha + ["a  b", "  lead", "trail  ", "t\tab", "l1\nl2", "a \n b", "\t", "   "]
    tmp = tempfile.mkdtemp(prefix="c15-")
    try:
        cases = []
        for _ in range(n):
            fbits = [rnd.random() < 0.4 for _ in FEATURES]
            f = dict(zip(FEATURES, fbits))
            rich = f["whitespace"] or f["paragraphs"]
            nsheets = rnd.randint(1, 3)
            doc = [gen_table(rnd, ws_alpha if rich else plain_alpha, not rich) for _ in range(nsheets)]
            if f["paragraphs"] and not f["whitespace"]:
                # without white-space elements only line breaks (as paragraphs) can be expressed
                doc = [[[c for c in r if "  " not in c and "\t" not in c] for r in rows] for rows in doc]
            if f["spans"]:
                doc = [[[c for c in r if not needs(c)] for r in rows] for rows in doc]
            sheet = rnd.randint(1, nsheets + 1)
            charset = rnd.choice(["utf-8", "utf-8", "utf-16", "iso-8859-1"])
            cases.append((f, doc, sheet, charset))
        # every single feature on its own on one fixed document (so each known gap is always exercised)
        fixed_doc = [[["a", "a", "a", "b", ""], ["a", "a", "a", "b", ""], ["x", "", "", "y"], ["1", "x", "", ""], ["", "", ""], ["z", "z"]], [["s2"]]]
        for k, name in enumerate(FEATURES):
            f = {n_: (n_ == name) for n_ in FEATURES}
            cases.append((f, fixed_doc, 1, "utf-8"))
        # long runs: more equal cells in a row than any fixed sheet width an implementation might assume
        wide_doc = [[["w"] * 1500 + ["end"], [""] * 1100 + ["z"], ["a"] + ["b"] * 1025]]
        cases.append(({n_: (n_ == "colRuns") for n_ in FEATURES}, wide_doc, 1, "utf-8"))
        ws_doc = [[["a  b", "t\tab", "l1\nl2"], ["x", "y", "z"]]]
        for combo in ({"whitespace"}, {"paragraphs"}, {"whitespace", "paragraphs"}, {"spans", "whitespace"}, {"spans", "paragraphs"},
                      {"spans", "whitespace", "paragraphs"}, {"spans", "whitespace", "paragraphs", "colRuns"}):
            cases.append(({n_: (n_ in combo) for n_ in FEATURES}, [[["l1\nl2", "p"]]] if combo == {"paragraphs"} else ws_doc, 1, "utf-8"))
        lines_ = [line("ods", "".join("1" if f[n_] else "0" for n_ in FEATURES), str(sheet), "|".join(rows_str(rows) for rows in doc)) for f, doc, sheet, charset in cases]
        outs = core.run_driver(lines_)
        for k, ((f, doc, sheet, charset), mo) in enumerate(zip(cases, outs)):
            m, x = mo.split("\t")
            m, x = m[2:], x[2:]
            tree = ods_enc.encode_doc(f, doc)
            if ods_enc.canonical(tree) != x:
                ctx.machinery_error("the harness encoder and Lean's encodeDoc produce different trees: %r" % ((f, doc),))
                continue
            path = os.path.join(tmp, "case.ods")   # the same path for every document: what is read is what the file holds now
            ods_enc.write_ods(path, tree, charset)
            impl = impl_rows(path, sheet)
            os.remove(path)
            want = ("ok " + rows_str(doc[sheet - 1])) if sheet <= len(doc) else "data:Format"
            feats = "+".join(n_ for n_ in FEATURES if f[n_]) or "plain"
            case = {"features": feats, "doc": doc, "sheet": sheet, "charset": charset, "impl": impl, "model": m, "logical": want}
            ctx.count(key=(feats, repr(doc), sheet, charset), nontrivial=any(len(r) for rows in doc for r in rows), branch=feats if len(feats) < 25 else "several")
            ctx.sample(case)
            if m == "unsupported":
                ctx.skip(case)
                continue
            if impl != want:
                # name the feature(s) of the encoding the reader does not decode
                blame = []
                if f["rowRuns"] and any(a == b for rows in doc for a, b in zip(rows, rows[1:])):
                    blame.append("number-rows-repeated")
                if f["whitespace"] and any(needs(c) for rows in doc for r in rows for c in r):
                    blame.append("whitespace-elements")
                if f["spans"] and any(c for rows in doc for r in rows for c in r):
                    blame.append("spans")
                if f["paragraphs"] and any("\n" in c for rows in doc for r in rows for c in r):
                    blame.append("paragraphs")
                # (several candidates: each one is blamed only if the same table encoded with that feature alone is misread as well)
                if len(blame) > 1:
                    feature_of = {"number-rows-repeated": "rowRuns", "whitespace-elements": "whitespace", "spans": "spans", "paragraphs": "paragraphs"}
                    confirmed = []
                    for b in blame:
                        ods_enc.write_ods(path, ods_enc.encode_doc({n_: (n_ == feature_of[b]) for n_ in FEATURES}, doc), charset)
                        alone = impl_rows(path, sheet)
                        os.remove(path)
                        if alone != want:
                            confirmed.append(b)
                    blame = confirmed or ["other"]
                for b in (blame or ["other"]):
                    ctx.violation("C15:decode:%s" % b, "sheet %d of %r (%s, %s): read %s, logical table %s" % (sheet, doc, feats, charset, impl, want), case)
            if impl != m:
                ctx.violation("C15:model:%s" % feats, "implementation %s, model %s" % (impl, m), case)
        # ---- rows inside row containers (header rows, outline groups, plain row groups) ---------------------------------------------
        group_docs = [fixed_doc, ws_doc + [[["only"]]], [[["r%d" % k_, "x"] for k_ in range(7)]], [[["a"], ["b"], ["c"]]], [[["a"], ["b"]]]]
        group_cases = [(dict(zip(FEATURES, bits)), gd) for gd in group_docs
                       for bits in ((False,) * 5, (True, False, False, False, False), (True, False, True, True, True), (False, False, True, False, True))]
        group_outs = core.run_driver([line("odsg", "".join("1" if f[n_] else "0" for n_ in FEATURES), "1", "|".join(rows_str(rows) for rows in gd)) for f, gd in group_cases])
        for (f, gd), mo in zip(group_cases, group_outs):
            m, x = mo.split("\t")
            m, x = m[2:], x[2:]
            tree = ods_enc.regroup(ods_enc.encode_doc(f, gd))
            if ods_enc.canonical(tree) != x:
                ctx.machinery_error("the harness's regroup and Lean's regroupDoc produce different trees: %r" % ((f, gd),))
                continue
            path = os.path.join(tmp, "case.ods")
            ods_enc.write_ods(path, tree)
            impl = impl_rows(path, 1)
            os.remove(path)
            want = "ok " + rows_str(gd[0])
            feats = "+".join(n_ for n_ in FEATURES if f[n_]) or "plain"
            ctx.count(key=("row-containers", feats, repr(gd)), nontrivial=True, branch="row-containers")
            if impl != want:
                ctx.violation("C15:decode:row-containers", "sheet 1 of %r (%s, rows in containers): read %s, logical table %s" % (gd, feats, impl, want), {"doc": gd, "features": feats, "impl": impl})
            if impl != m:
                ctx.violation("C15:model:row-containers", "implementation %s, model %s" % (impl, m), {"doc": gd, "features": feats})
        # ---- cells covered by a merged cell still take up a column -----------------------------------------------------------------------
        cover_outs = core.run_driver([line("odsc", "".join("1" if f[n_] else "0" for n_ in FEATURES), "1", "|".join(rows_str(rows) for rows in gd)) for f, gd in group_cases])
        for (f, gd), mo in zip(group_cases, cover_outs):
            m, x = mo.split("\t")
            m, x = m[2:], x[2:]
            tree = ods_enc.cover(ods_enc.encode_doc(f, gd))
            if ods_enc.canonical(tree) != x:
                ctx.machinery_error("the harness's cover and Lean's coverDoc produce different trees: %r" % ((f, gd),))
                continue
            path = os.path.join(tmp, "case.ods")
            ods_enc.write_ods(path, tree)
            impl = impl_rows(path, 1)
            os.remove(path)
            want = "ok " + rows_str(gd[0])
            feats = "+".join(n_ for n_ in FEATURES if f[n_]) or "plain"
            ctx.count(key=("covered-cells", feats, repr(gd)), nontrivial=True, branch="covered-cells")
            if impl != want:
                ctx.violation("C15:decode:covered-cells", "sheet 1 of %r (%s, every second cell covered): read %s, logical table %s" % (gd, feats, impl, want), {"doc": gd, "features": feats, "impl": impl})
            if impl != m:
                ctx.violation("C15:model:covered-cells", "implementation %s, model %s" % (impl, m), {"doc": gd, "features": feats})
        # ---- both at once: covered cells in rows that sit in row containers (implementation against the logical table) ------------------
        for f, gd in group_cases:
            tree = ods_enc.regroup(ods_enc.cover(ods_enc.encode_doc(f, gd)))
            path = os.path.join(tmp, "case.ods")
            ods_enc.write_ods(path, tree)
            impl = impl_rows(path, 1)
            os.remove(path)
            want = "ok " + rows_str(gd[0])
            feats = "+".join(n_ for n_ in FEATURES if f[n_]) or "plain"
            ctx.count(key=("containers+covered", feats, repr(gd)), nontrivial=True, branch="containers+covered")
            if impl != want:
                ctx.violation("C15:decode:containers+covered", "sheet 1 of %r (%s, rows in containers, every second cell covered): read %s, logical table %s" % (gd, feats, impl, want),
                              {"doc": gd, "features": feats, "impl": impl})
        # ---- fault paths --------------------------------------------------------------------------------------------
        tree = ods_enc.encode_doc({n_: False for n_ in FEATURES}, [[["a", "b"], ["c", "d"]]])
        good = os.path.join(tmp, "good.ods")
        ods_enc.write_ods(good, tree)
        blob = open(good, "rb").read()
        faults = {}
        for cut in range(0, len(blob), 64):
            faults["truncated@%d" % cut] = blob[:cut]
        faults["not-a-zip"] = b"a,b\nc,d\n"
        # files that still end in a zip end-of-central-directory record but are not readable archives
        eocd = blob[blob.rfind(b"PK\x05\x06"):]
        faults["text-with-zip-tail"] = b"a,b\nc,d\n" + eocd
        cd_at = blob.rfind(b"PK\x01\x02")
        faults["central-directory-overwritten"] = blob[:cd_at] + b"\x00" * 46 + blob[cd_at + 46:]
        faults["middle-missing"] = blob[:len(blob) // 3] + blob[len(blob) // 2:]
        faults["empty-file"] = b""
        # an intact archive whose directory entry of content.xml asks for something the zip library does not do: zipfile answers with
        # NotImplementedError / RuntimeError rather than BadZipFile
        pos = blob.find(b"PK\x01\x02")
        while pos >= 0:
            name_len = int.from_bytes(blob[pos + 28:pos + 30], "little")
            if blob[pos + 46:pos + 46 + name_len] == b"content.xml":
                def patched(offset, value, blob=blob, pos=pos):
                    return blob[:pos + offset] + value.to_bytes(2, "little") + blob[pos + offset + 2:]
                flags = int.from_bytes(blob[pos + 8:pos + 10], "little")
                faults["content-version-needed-25.5"] = patched(6, 255)
                faults["content-flag-encrypted"] = patched(8, flags | 0x1)
                faults["content-flag-patched-data"] = patched(8, flags | 0x20)
                faults["content-flag-strong-encryption"] = patched(8, flags | 0x40)
                faults["content-compression-method-99"] = patched(10, 99)
                faults["content-compression-method-bzip2"] = patched(10, 12)
                faults["content-compression-method-lzma"] = patched(10, 14)
                break
            pos = blob.find(b"PK\x01\x02", pos + 4)
        for name, data in faults.items():
            path = os.path.join(tmp, "fault.ods")
            with open(path, "wb") as fh:
                fh.write(data)
            impl = impl_rows(path, 1)
            ctx.count(key=("fault", name), branch="fault:" + impl.split(" ")[0])
            if impl != "data:Format":
                ctx.violation("C15:fault:%s:%s" % (name.split("@")[0], impl.split(" ")[0]), "%s -> %s instead of a data-format error" % (name, impl), {"fault": name})
        content = ods_enc.content_bytes(tree)
        xml_faults = {"no-content-xml": None}
        text = content.decode("utf-8")
        for pos in [i for i, ch in enumerate(text) if ch == "<"][1::3]:
            xml_faults["content-cut@%d" % pos] = text[:pos].encode("utf-8")
        # non-positive or non-numeric repeat counts, including texts for which str.isdigit() and int() disagree
        for bad in ("0", "-1", "x", "1.5", "", "-0", "+0", "--2", "+-2", "\u00b2", "\u2460", "\u00bd", "1e2", "0x2", "2.0", " ", "1 2", "\u0661x", "\u0660", "2-",
                    "9223372036854775808", "99999999999999999999"):
            xml_faults["repeat=%s" % bad] = content.replace(b"<table:table-cell ", b'<table:table-cell table:number-columns-repeated="%s" ' % bad.encode(), 1)
        # counts of blanks (text:s text:c="...") that are no numbers: a data-format error as well
        ws_content = ods_enc.content_bytes(ods_enc.encode_doc({n_: (n_ == "whitespace") for n_ in FEATURES}, [[["a   b", "c"]]]))
        if b'text:c="2"' not in ws_content:
            ctx.machinery_error("the harness encoder no longer writes a blank count of 2 for a run of three blanks")
        for bad in ("x", "1.5", "", "--2", "\u00bd", "1e2", "0x2", " ", "2-", "9223372036854775808", "99999999999999999999"):
            xml_faults["blank-count=%s" % bad] = ws_content.replace(b'text:c="2"', ('text:c="%s"' % bad).encode("utf-8"), 1)
        xml_faults["nested-spans=3000"] = ws_content.replace(b"<text:p>", b"<text:p>" + b"<text:span>" * 3000, 1).replace(b"</text:p>", b"</text:span>" * 3000 + b"</text:p>", 1)
        # content.xml declaring an encoding the XML parser does not know, cannot use, or that is no text encoding: either it is
        # read correctly or it is a data-format error
        body = text.split("?>", 1)[1] if text.startswith("<?xml") else text
        for enc_name in ("no-such-encoding", "Shift_JIS", "Big5", "rot13", "undefined", "utf-7", "hex", "idna"):
            xml_faults["declared-encoding=%s" % enc_name] = ('<?xml version="1.0" encoding="%s"?>' % enc_name + body).encode("ascii", "xmlcharrefreplace")
        for name, data in xml_faults.items():
            path = os.path.join(tmp, "fault.ods")
            import zipfile
            with zipfile.ZipFile(path, "w") as z:
                z.writestr("mimetype", "application/vnd.oasis.opendocument.spreadsheet")
                if data is not None:
                    z.writestr("content.xml", data)
            impl = impl_rows(path, 1)
            ctx.count(key=("xmlfault", name), branch="fault:" + impl.split(" ")[0])
            if name.startswith("declared-encoding=") and impl.startswith("ok "):
                continue
            if impl != "data:Format":
                ctx.violation("C15:fault:%s:%s" % (name.split("@")[0].split("=")[0], impl.split(" ")[0]), "%s -> %s instead of a data-format error" % (name, impl), {"fault": name})
        # through the validating reader with an ODS format CID
        from cutplace import interface, validio
        cid = interface.Cid()
        cid.read("c15", [["D", "Format", "ODS"], ["D", "Sheet", "2"], ["F", "a"], ["F", "b", "", "X"]])
        tree2 = ods_enc.encode_doc({n_: n_ == "colRuns" for n_ in FEATURES}, [[["no"]], [["x", "y"], ["z", ""]]])
        p2 = os.path.join(tmp, "two.ods")
        ods_enc.write_ods(p2, tree2)
        got = list(validio.rows(cid, p2))
        ctx.count(key="validio-sheet2", branch="validio")
        if got != [["x", "y"], ["z", ""]]:
            ctx.violation("C15:validio-sheet", "cutplace.rows with Sheet 2 returns %r" % got, {"got": got})
        # malformed containers through the validating reader: a data-format error in every mode, never an item, never swallowed
        for name, data in list(faults.items())[::7] + [(n_, d_) for n_, d_ in xml_faults.items() if not n_.startswith("content-cut@")][:12] + [("missing-sheet", None)]:
            pf = os.path.join(tmp, "fault2.ods")
            if name == "missing-sheet":
                ods_enc.write_ods(pf, ods_enc.encode_doc({n_: False for n_ in FEATURES}, [[["only", "sheet"]]]))
            elif name in faults:
                with open(pf, "wb") as fh:
                    fh.write(data)
            else:
                with zipfile.ZipFile(pf, "w") as z:
                    z.writestr("mimetype", "application/vnd.oasis.opendocument.spreadsheet")
                    if data is not None:
                        z.writestr("content.xml", data)
            # (also under a CID whose end-of-data check fails on what was read before the fault: the data-format error must not get lost)
            cid_end = interface.Cid()
            cid_end.read("c15e", [["D", "Format", "ODS"], ["D", "Sheet", "2"], ["F", "a"], ["F", "b", "", "X"], ["C", "many", "DistinctCount", "a > 99"]])
            for mode, cid_used in [(m_, c_) for c_ in (cid, cid_end) for m_ in ("raise", "yield", "continue")]:
                try:
                    items = list(validio.rows(cid_used, pf, on_error=mode))
                    got_m = "ok:%d items%s" % (len(items), ", an error among them" if any(isinstance(i_, Exception) for i_ in items) else "")
                except Exception as error:  # noqa
                    got_m = core.classify_exception(error)
                ctx.count(key=("fault-mode", name, mode, cid_used is cid_end), branch="fault-mode:" + got_m.split(":")[0])
                if got_m != "data:Format" and not (name.startswith("declared-encoding=") and got_m.startswith("ok:") and "error" not in got_m):
                    ctx.violation("C15:fault-through-reader:%s:%s" % (mode, got_m.split(" ")[0].split(":")[0]), "%s read with on_error=%s: %s instead of a data-format error" % (name, mode, got_m),
                                  {"fault": name, "mode": mode, "got": got_m})
        # sheet numbers with more than one digit, requested through the CID's Sheet property
        many = [[["sheet%d" % (k_ + 1), "x"]] for k_ in range(12)]
        p3 = os.path.join(tmp, "many.ods")
        ods_enc.write_ods(p3, ods_enc.encode_doc({n_: False for n_ in FEATURES}, many))
        for want_sheet in (9, 10, 11, 12, 13, 20, 100):
            cid_n = interface.Cid()
            cid_n.read("c15n", [["D", "Format", "ODS"], ["D", "Sheet", str(want_sheet)], ["F", "a"], ["F", "b", "", "X"]])
            try:
                got_n = "ok %r" % list(validio.rows(cid_n, p3))
            except Exception as error:  # noqa
                got_n = core.classify_exception(error)
            want_n = ("ok %r" % many[want_sheet - 1]) if want_sheet <= 12 else "data:Format"
            ctx.count(key=("validio-sheet", want_sheet), branch="validio")
            if got_n != want_n:
                ctx.violation("C15:validio-sheet:%d" % want_sheet, "Sheet %d of a 12 sheet document through a CID: %s, expected %s" % (want_sheet, got_n, want_n), {"sheet": want_sheet, "got": got_n})
    finally:
        shutil.rmtree(tmp, ignore_errors=True)


def replay(ctx, case):
    print(case["case"])
