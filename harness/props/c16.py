"""C16  Excel cells render as documented text and the requested sheet is read."""
import datetime
import os
import shutil
import tempfile

import core
from core import enc, line


def rows_str(rows):
    if not rows:
        return "~"
    return ";".join("E" if not r else ",".join(enc(c) for c in r) for r in rows)


def impl_rows(path, sheet):
    from cutplace import errors, rowio

    try:
        rows = list(rowio.excel_rows(path, sheet))
    except errors.DataFormatError:
        return "data:Format"
    except Exception as error:  # noqa
        return core.classify_exception(error)
    return "ok " + rows_str(rows)


def gen_cell(rnd):
    k = rnd.random()
    if k < 0.2:
        return ("T", rnd.choice(["text", "a b", "é€日本", "<&>", "=1+1", " lead", "1.0", "007", "x" * 40]))
    if k < 0.4:
        mag = rnd.choice([0, 1, 5, 99, 2 ** 31, 2 ** 53, 10 ** 15, 123456789])
        return ("W", rnd.choice([-1, 1]) * (mag + rnd.randint(0, 3) if mag < 2 ** 53 else mag))
    if k < 0.55:
        return ("N", rnd.choice([2.5, -0.125, 1e-7, 123456789.125, 3.14159, 1e16, 1.5e300, 0.1, 1 / 3, 2 ** 53 + 2.0, 1e22]))
    if k < 0.62:
        return ("B", rnd.random() < 0.5)
    if k < 0.8:
        day = datetime.date(1900, 3, 1) + datetime.timedelta(days=rnd.choice([0, 1, rnd.randint(0, 2958400), rnd.randint(0, 60000), 2958404 - 1]))
        sec = rnd.choice([0, 1, 59, 60, 3599, 3600, 43200, 86399, rnd.randint(0, 86399)])
        return ("D", day, sec)
    if k < 0.88:
        return ("TIME", rnd.choice([0, 1, 59, 3661, 43200, 86399, rnd.randint(0, 86399)]))
    if k < 0.93:
        # an error cell: a formula whose cached result is one of Excel's error values
        return ("ERR", rnd.choice(sorted(ERROR_FORMULAS)))
    return ("E",)


# error text -> a formula that evaluates to it (xlsxwriter stores the cached value as a cell of type "e")
ERROR_FORMULAS = {"#NULL!": "=A1 B2", "#DIV/0!": "=1/0", "#VALUE!": '="a"+1', "#REF!": "=#REF!", "#NAME?": "=nosuchname", "#NUM!": "=SQRT(-1)",
                  "#N/A": "=NA()"}


def month_ends(y):
    import calendar
    return [datetime.date(y, m, calendar.monthrange(y, m)[1]) for m in range(1, 13)]


def write_workbook(path, sheets):
    import xlsxwriter

    wb = xlsxwriter.Workbook(path)
    datef = wb.add_format({"num_format": "yyyy-mm-dd hh:mm:ss"})
    timef = wb.add_format({"num_format": "hh:mm:ss"})
    for grid in sheets:
        ws = wb.add_worksheet()
        for y, row in enumerate(grid):
            for x, c in enumerate(row):
                if c[0] == "T":
                    ws.write_string(y, x, c[1])
                elif c[0] in ("W", "N"):
                    ws.write_number(y, x, c[1])
                elif c[0] == "B":
                    ws.write_boolean(y, x, c[1])
                elif c[0] == "D":
                    ws.write_datetime(y, x, datetime.datetime.combine(c[1], datetime.time(0)) + datetime.timedelta(seconds=c[2], milliseconds=ms_of(c)), datef)
                elif c[0] == "ERR":
                    ws.write_formula(y, x, ERROR_FORMULAS[c[1]], None, c[1])
                elif c[0] == "TIME":
                    ws.write_datetime(y, x, (datetime.datetime(1900, 1, 1) + datetime.timedelta(seconds=c[1], milliseconds=ms_of(c))).time(), timef)
    wb.close()


def ms_of(c):
    """optional fraction of a second (milliseconds) of a date / time cell"""
    n = 4 if c[0] == "D" else 3
    return c[n - 1] if len(c) >= n else 0


def nearest_second(c):
    """the cell with its fraction rounded to the nearest whole second (fractions used are never within 0.1 s of a half)"""
    if ms_of(c) == 0:
        return c
    up = 1 if ms_of(c) >= 500 else 0
    if c[0] == "TIME":
        return ("TIME", c[1] + up)
    t = datetime.datetime.combine(c[1], datetime.time(0)) + datetime.timedelta(seconds=c[2] + up)
    return ("D", t.date(), t.hour * 3600 + t.minute * 60 + t.second)


def documented_text(c):
    c = nearest_second(c)
    """C16's reading, computed directly from the value"""
    if c[0] == "T":
        return c[1]
    if c[0] == "W":
        r = repr(float(c[1]))
        return r[:-2] if r.endswith(".0") else r
    if c[0] == "N":
        r = repr(float(c[1]))
        return r[:-2] if r.endswith(".0") else r
    if c[0] == "B":
        return "1" if c[1] else "0"
    if c[0] == "D":
        t = datetime.datetime.combine(c[1], datetime.time(0)) + datetime.timedelta(seconds=c[2])
        return t.strftime("%Y-%m-%d %H:%M:%S") if t.year >= 1000 else "%04d-%s" % (t.year, t.strftime("%m-%d %H:%M:%S"))
    if c[0] == "TIME":
        return "%02d:%02d:%02d" % (c[1] // 3600, c[1] // 60 % 60, c[1] % 60)
    if c[0] == "ERR":
        # not named by C16's statement; the code renders Excel's own text of the error
        return c[1]
    return ""


def model_cell(c):
    c = nearest_second(c)
    if c[0] == "T":
        return "T" + enc(c[1])
    if c[0] == "W":
        f = float(c[1])
        if abs(f) < 1e16 and f == int(f):
            return "W%d" % int(f)
        return "N" + enc(documented_text(c))
    if c[0] == "N":
        f = float(c[1])
        if abs(f) < 1e16 and f == int(f):
            return "W%d" % int(f)
        return "N" + enc(documented_text(c))
    if c[0] == "B":
        return "B1" if c[1] else "B0"
    if c[0] == "D":
        # as civil date: Lean's calendar specification (`excelSerial`) supplies the serial number, so that function is
        # compared with what xlsxwriter / xlrd make of the same date
        return "C%d-%d-%d:%d" % (c[1].year, c[1].month, c[1].day, c[2])
    if c[0] == "TIME":
        return "D0:%d" % c[1]
    if c[0] == "ERR":
        return "X" + enc(c[1])
    return "E"


def run(ctx):
    rnd = ctx.rnd
    ctx.rule = ("workbooks written with xlsxwriter: 1-3 sheets of 0-5 rows x 1-6 cells over all cell kinds (strings, whole numbers up to 2^53, finite floats, booleans, "
                "dates sampled over 1900-03-01..9999-12-31 incl. every month end of sampled years, seconds of a day, pure times, date and time cells with a fraction of a second, error cells (all 7 error values), blanks) x Sheet 1..4; documented "
                "rendering computed from the values; the Lean model on the same typed cells; XlsxRowWriter round trip on string tables; truncated / corrupted "
                "workbooks; distinct = distinct (workbook, sheet); non-trivial = workbook has at least one cell")
    n = 250 if ctx.tier == "quick" else 1500
    tmp = tempfile.mkdtemp(prefix="c16-")
    try:
        cases = []
        for _ in range(n):
            sheets = []
            for _ in range(rnd.randint(1, 3)):
                w = rnd.randint(1, 6)
                grid = [[gen_cell(rnd) for _ in range(w)] for _ in range(rnd.randint(0, 5))]
                # xlrd reports the used range: make the last column and row non-empty so the width is what we wrote
                for row in grid:
                    if row[-1][0] == "E":
                        row[-1] = ("T", "end")
                sheets.append(grid)
            cases.append((sheets, rnd.randint(1, len(sheets) + 1)))
        # every month end of sampled years, one sheet per year
        for y in [1900, 1904, 2000, 2023, 2024, 2100, 9999] + ([rnd.randint(1901, 9998) for _ in range(10)] if ctx.tier == "thorough" else []):
            ends = [d for d in month_ends(y) if d >= datetime.date(1900, 3, 1)]
            cases.append(([[[("D", d, rnd.choice([0, 86399])) for d in ends]]], 1))
        # date and time cells carrying a fraction of a second (e.g. =NOW(), imported timestamps): the documented text has whole seconds
        frac_from = len(cases)
        for _ in range(6 if ctx.tier == "quick" else 60):
            row = []
            for _ in range(6):
                ms = rnd.choice([123, 250, 400, 600, 750, 877])
                if rnd.random() < 0.6:
                    day = datetime.date(1900, 3, 1) + datetime.timedelta(days=rnd.randint(0, 2958400))
                    row.append(("D", day, rnd.choice([0, 59, 3599, 43200, 86398, rnd.randint(0, 86398)]), ms))
                else:
                    row.append(("TIME", rnd.choice([0, 59, 3661, 43200, 86398, rnd.randint(0, 86398)]), ms))
            cases.append(([[row]], 1))
        lines_ = []
        for sheets, k in cases:
            wb = "|".join(";".join(",".join(model_cell(c) for c in row) for row in grid) or "~" for grid in sheets)
            lines_.append(line("excel", str(k), wb))
        outs = core.run_driver(lines_)
        for idx, ((sheets, k), mo) in enumerate(zip(cases, outs)):
            path = os.path.join(tmp, "wb%d.xlsx" % idx)
            write_workbook(path, sheets)
            impl = impl_rows(path, k)
            os.remove(path)
            want = ("ok " + rows_str([[documented_text(c) for c in row] for row in sheets[k - 1]])) if k <= len(sheets) else "data:Format"
            case = {"sheets": [[[repr(c) for c in row] for row in grid] for grid in sheets], "sheet": k, "impl": impl, "documented": want, "model": mo}
            ctx.count(key=(repr(case["sheets"]), k), nontrivial=any(row for grid in sheets for row in grid), branch="sheet%d-of-%d" % (k, len(sheets)))
            ctx.sample(case)
            if mo != want:
                ctx.machinery_error("model != documented rendering: %r" % case)
            if impl != want and idx >= frac_from:
                # which whole second a fraction is rendered as is not fixed by the statement; the shape of the text is
                import re
                cells = impl[3:].split(",") if impl.startswith("ok ") else None
                shapes = [r"\d{4}-\d\d-\d\d \d\d:\d\d:\d\d" if c[0] == "D" else r"\d\d:\d\d:\d\d" for c in sheets[0][0]]
                if cells is None or len(cells) != len(shapes) or not all(re.fullmatch(sh, core.dec(t)) for sh, t in zip(shapes, cells)):
                    ctx.violation("C16:rendering:fraction-of-second", "date / time cells with a fraction of a second read as %s, documented %s" % (impl, want), case)
                else:
                    ctx.note_drift(case)
            elif impl != want:
                if k > 1 and k <= len(sheets) and impl == ("ok " + rows_str([[documented_text(c) for c in row] for row in sheets[0]])):
                    sig = "C16:sheet-ignored"
                elif k > len(sheets):
                    sig = "C16:missing-sheet:%s" % impl.split(" ")[0]
                else:
                    sig = "C16:rendering"
                ctx.violation(sig, "Sheet %d of a %d sheet workbook: read %s, documented %s" % (k, len(sheets), impl, want), case)
        # ---- sheet numbers with more than one digit, requested through the CID's Sheet property --------------------------------
        from cutplace import interface, validio
        many_path = os.path.join(tmp, "many.xlsx")
        write_workbook(many_path, [[[("T", "sheet%d" % (k_ + 1)), ("T", "x")]] for k_ in range(12)])
        for want_sheet in (9, 10, 11, 12, 13, 20, 100):
            cid_n = interface.Cid()
            cid_n.read("c16n", [["D", "Format", "Excel"], ["D", "Sheet", str(want_sheet)], ["F", "a"], ["F", "b", "", "X"]])
            try:
                got_n = "ok %r" % list(validio.rows(cid_n, many_path))
            except Exception as error:  # noqa
                got_n = core.classify_exception(error)
            want_n = ("ok %r" % [["sheet%d" % want_sheet, "x"]]) if want_sheet <= 12 else "data:Format"
            ctx.count(key=("validio-sheet", want_sheet), branch="validio-sheet")
            if got_n != want_n:
                ctx.violation("C16:validio-sheet:%d" % want_sheet, "Sheet %d of a 12 sheet workbook through a CID: %s, expected %s" % (want_sheet, got_n, want_n), {"sheet": want_sheet, "got": got_n})
        os.remove(many_path)
        # ---- writer round trip -----------------------------------------------------------------------------------------
        from cutplace import rowio
        for _ in range(20 if ctx.tier == "quick" else 200):
            w = rnd.randint(1, 4)
            table = [[rnd.choice(["a", "b c", "é", "=x", "1", "", "<>"]) for _ in range(w)] for _ in range(rnd.randint(1, 5))]
            path = os.path.join(tmp, "rt.xlsx")
            with rowio.XlsxRowWriter(path) as writer:
                for row in table:
                    writer.write_row(row)
            back = impl_rows(path, 1)
            os.remove(path)
            trailing_empty = all(r[-1] == "" for r in table) or all(c == "" for c in table[-1])
            ctx.count(key=("rt", repr(table)), branch="writer-roundtrip")
            if back != "ok " + rows_str(table):
                ctx.violation("C16:writer-roundtrip:%s" % ("trailing-empty-cells-lost" if trailing_empty else "other"),
                              "XlsxRowWriter wrote %r, read back %s" % (table, back), {"table": table, "back": back})
        # ---- corrupted workbooks -----------------------------------------------------------------------------------------
        good = os.path.join(tmp, "good.xlsx")
        write_workbook(good, [[[("T", "a"), ("W", 1)]]])
        blob = open(good, "rb").read()
        for cut in list(range(0, len(blob), 512)) + [len(blob) - 1]:
            path = os.path.join(tmp, "bad.xlsx")
            with open(path, "wb") as f:
                f.write(blob[:cut])
            impl = impl_rows(path, 1)
            ctx.count(key=("trunc", cut), branch="fault:" + impl.split(" ")[0])
            if impl != "data:Format":
                ctx.violation("C16:fault:truncated:%s" % impl.split(" ")[0], "workbook truncated at %d -> %s" % (cut, impl), {"cut": cut})
        eocd = blob[blob.rfind(b"PK\x05\x06"):]
        cd_at = blob.rfind(b"PK\x01\x02")
        # malformed workbooks through the validating reader: a data-format error in every mode
        cid_f = interface.Cid()
        cid_f.read("c16f", [["D", "Format", "Excel"], ["F", "a"], ["F", "b", "", "X"]])
        for cut in (0, 100, len(blob) // 2, len(blob) - 1):
            path = os.path.join(tmp, "bad2.xlsx")
            with open(path, "wb") as f:
                f.write(blob[:cut])
            # (also under a CID whose end-of-data check fails on what was read before the fault: the data-format error must not get lost)
            cid_end = interface.Cid()
            cid_end.read("c16e", [["D", "Format", "Excel"], ["F", "a"], ["F", "b", "", "X"], ["C", "many", "DistinctCount", "a > 99"]])
            for mode, cid_used in [(m_, c_) for c_ in (cid_f, cid_end) for m_ in ("raise", "yield", "continue")]:
                try:
                    items = list(validio.rows(cid_used, path, on_error=mode))
                    got_m = "ok:%d items%s" % (len(items), ", an error among them" if any(isinstance(i_, Exception) for i_ in items) else "")
                except Exception as error:  # noqa
                    got_m = core.classify_exception(error)
                ctx.count(key=("fault-mode", cut, mode, cid_used is cid_end), branch="fault-mode:" + got_m.split(":")[0])
                if got_m != "data:Format":
                    ctx.violation("C16:fault-through-reader:%s:%s" % (mode, got_m.split(" ")[0].split(":")[0]), "workbook truncated at %d read with on_error=%s: %s" % (cut, mode, got_m),
                                  {"cut": cut, "mode": mode, "got": got_m})
        for name, data in (("csv-as-xlsx", b"a,b\n1,2\n"), ("empty", b""), ("text-with-zip-tail", b"a,b\n1,2\n" + eocd),
                           ("central-directory-overwritten", blob[:cd_at] + b"\x00" * 46 + blob[cd_at + 46:]),
                           ("middle-missing", blob[:len(blob) // 3] + blob[len(blob) // 2:])):
            path = os.path.join(tmp, "bad.xlsx")
            with open(path, "wb") as f:
                f.write(data)
            impl = impl_rows(path, 1)
            ctx.count(key=("fault", name), branch="fault:" + impl.split(" ")[0])
            if impl != "data:Format":
                ctx.violation("C16:fault:%s:%s" % (name, impl.split(" ")[0]), "%s -> %s" % (name, impl), {"fault": name})
    finally:
        shutil.rmtree(tmp, ignore_errors=True)


def replay(ctx, case):
    print(case["case"])
