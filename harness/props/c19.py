"""C19  Generated SQL DDL mirrors the CID."""
import json
import os
import re

import core
from core import line, parse_kv

DIALECTS = ["ANSI", "DB2", "Transact-SQL", "PL/SQL"]
KEYWORDS = json.load(open(os.path.join(os.path.dirname(os.path.dirname(os.path.abspath(__file__))), "data", "sql_keywords.json")))


def boundary_values():
    vals = set([0, 1, 5, 9, 10, 99, 100])
    for p in (7, 8, 15, 16, 31, 32, 63):
        for d in (-1, 0, 1):
            vals.add(2 ** p + d)
    out = set()
    for v in vals:
        out.add(v)
        out.add(-v)
    return sorted(out)


def parse_columns(statement):
    """columns of a `create table` statement: (name, quoted, type, args, not_null)"""
    body = statement[statement.index("(\n") + 2:statement.rindex("\n);")]
    cols = []
    for raw in body.split(",\n"):
        m = re.match(r'^\s+("?)([^" ]+)\1 ([a-z0-9]+)(?:\(([^)]*)\))?( not null)?( default .*)?$', raw)
        if not m:
            cols.append(("?", False, raw, [], False))
            continue
        args = [int(a.strip()) if a.strip().lstrip("-").isdigit() else a.strip() for a in m.group(4).split(",")] if m.group(4) else []
        cols.append((m.group(2), m.group(1) == '"', m.group(3), args, m.group(5) is not None))
    return cols


def make_cid(fields):
    from cutplace import interface

    cid = interface.Cid()
    rows = [["D", "Format", "Delimited"]]
    for f in fields:
        rows.append(["F", f["name"], "", "X" if f["empty"] else "", f["length"], f["type"], f["rule"]])
    cid.read("sql-cid", rows)
    return cid


def statement_for(cid, dialect):
    from cutplace import sql

    return sql.SqlFactory(cid, "t", sql.SQL_NAME_TO_DIALECT_MAP[dialect]).create_table_statement()


def can_store_py(dialect, tname, args, x):
    if tname == "tinyint":
        return 0 <= x <= 255
    if tname == "smallint":
        return -2 ** 15 <= x < 2 ** 15
    if tname in ("int", "integer"):
        return -2 ** 31 <= x < 2 ** 31
    if tname == "bigint":
        return -2 ** 63 <= x < 2 ** 63
    if tname in ("decimal", "number"):
        if not args or not isinstance(args[0], int):
            return False
        p = args[0]
        return 1 <= p <= (31 if dialect == "DB2" else 38) and abs(x) < 10 ** p
    return False


def run(ctx):
    rnd = ctx.rnd
    ctx.rule = ("exhaustive: every integer range lower...upper with both limits in the boundary set {0, +-1, +-5, ..., +-(2^p + {-1,0,1}) for p in 7,8,15,16,31,32,63} "
                "x the four dialects, through Cid.read + SqlFactory.create_table_statement parsed back into columns; random CIDs of 1-6 fields of all types "
                "(keyword and non-keyword names, empty flag, lengths, decimal rules); distinct = distinct (range, dialect) / (CID, dialect); non-trivial = every case")
    ctx.exhaustive = True
    vals = boundary_values()
    pairs = [(lo, hi) for lo in vals for hi in vals if lo <= hi]
    if ctx.tier == "quick":
        pairs = [p for k, p in enumerate(pairs) if k % 3 == 0 or abs(p[0]) <= 300 or p[0] == -p[1] - 1 or p[0] == 0]
    lines = [line("sql.int", d, str(lo), str(hi)) for lo, hi in pairs for d in DIALECTS]
    outs = core.run_driver(lines)
    k = 0
    for lo, hi in pairs:
        rule_text = "%d...%d" % (lo, hi)
        if hi - lo > 20 and (lo + hi) % 3 == 0:
            # the same overall limits written in several parts, the one with the upper limit first
            rule_text = "%d...%d, %d...%d" % (hi - 3, hi, lo, lo + 2)
        cid = make_cid([{"name": "n", "empty": False, "length": "", "type": "Integer", "rule": rule_text}])
        for d in DIALECTS:
            _, mkv = parse_kv("x " + outs[k])
            k += 1
            try:
                st = statement_for(cid, d)
                cols = parse_columns(st)
            except Exception as error:  # noqa
                ctx.violation("C19:int:exception:%s" % d, "SqlFactory fails for %d...%d: %r" % (lo, hi, error), {"lo": lo, "hi": hi, "dialect": d})
                continue
            name, quoted, tname, args, not_null = cols[0]
            margs = [] if mkv["args"] == "~" else [int(a) for a in mkv["args"].split(",")]
            case = {"range": rule_text, "dialect": d, "statement": st, "model": outs[k - 1]}
            ctx.count(key=(lo, hi, d), branch="%s:%s" % (d, tname))
            ctx.sample(case)
            if (tname, args) != (mkv["type"], margs):
                ctx.violation("C19:int:type-choice:%s:%s-vs-%s" % (d, tname, mkv["type"]),
                              "%s: range %d...%d gives %s%r, model %s%r" % (d, lo, hi, tname, args, mkv["type"], margs), case)
                continue
            ok_lo, ok_hi = can_store_py(d, tname, args, lo), can_store_py(d, tname, args, hi)
            if (ok_lo, ok_hi) != (mkv["lo"] == "1", mkv["hi"] == "1"):
                ctx.machinery_error("capacity oracle of the harness and Lean's canStore disagree: %r" % case)
            if not (ok_lo and ok_hi):
                if tname == "tinyint":
                    sig = "C19:int-capacity:%s:tinyint:negative-lower" % d
                elif tname in ("decimal", "number"):
                    sig = "C19:int-capacity:%s:%s:limit-used-as-precision" % (d, tname)
                else:
                    sig = "C19:int-capacity:%s:%s:beyond-type" % (d, tname)
                ctx.violation(sig, "%s: Integer %d...%d becomes %s%s which cannot store %s" % (
                    d, lo, hi, tname, "(%s)" % ", ".join(map(str, args)) if args else "", lo if not ok_lo else hi), case)
    # Integer fields that declare a length and no rule: the column must store the limits of the length-derived range
    len_lines, len_meta = [], []
    for n_chars in range(1, 21):
        lo_, hi_ = -(10 ** (n_chars - 1) - 1), 10 ** n_chars - 1
        for d in DIALECTS:
            len_lines.append(line("sql.int", d, str(lo_), str(hi_)))
            len_meta.append((n_chars, lo_, hi_, d))
    for (n_chars, lo_, hi_, d), mo in zip(len_meta, core.run_driver(len_lines)):
        _, mkv = parse_kv("x " + mo)
        cid = make_cid([{"name": "n", "empty": False, "length": "1...%d" % n_chars, "type": "Integer", "rule": ""}])
        try:
            name, quoted, tname, args, not_null = parse_columns(statement_for(cid, d))[0]
        except Exception as error:  # noqa
            ctx.violation("C19:int:exception:%s" % d, "SqlFactory fails for Integer of length 1...%d: %r" % (n_chars, error), {"length": n_chars, "dialect": d})
            continue
        margs = [] if mkv["args"] == "~" else [int(a) for a in mkv["args"].split(",")]
        ctx.count(key=("int-length", n_chars, d), branch="%s:%s" % (d, tname))
        if (tname, args) != (mkv["type"], margs):
            ctx.violation("C19:int:type-choice:%s:length-only" % d, "%s: Integer with length 1...%d (range %d...%d) gives %s%r, model %s%r" % (d, n_chars, lo_, hi_, tname, args, mkv["type"], margs),
                          {"length": n_chars, "dialect": d})
    # generated CIDs: columns, order, quoting, not null, decimal digits, text length
    names_pool = ["id", "customer", "select", "table", "order", "amount", "name", "user", "value", "date", "Level", "Key", "x1", "comment", "number", "size"]
    n = 300 if ctx.tier == "quick" else 3000
    for _ in range(n):
        nf = rnd.randint(1, 6)
        names = rnd.sample(names_pool, nf)
        fields = []
        for name in names:
            ty = rnd.choice(["Text", "Integer", "Decimal", "Choice", "DateTime", "Pattern"])
            f = {"name": name, "empty": rnd.random() < 0.4, "length": "", "type": ty, "rule": ""}
            if ty == "Text":
                f["length"] = rnd.choice(["", "5", "1...20", "...30", "3...", "0...10", "0, 3...5", "0...4", "10...20, 1...5", "12, 3", "7...9, 2", "1...4001", "10...32000", "5000", "...70000"])
            elif ty == "Integer":
                f["rule"] = "%d...%d" % (rnd.randint(-100, 0), rnd.randint(1, 10 ** rnd.randint(1, 12)))
                if rnd.random() < 0.3:
                    # several parts, the widest one not last
                    f["rule"] = rnd.choice(["40000...50000, 1...9", "70000, -5...5", "1...3, 3000000000...4000000000, 10", "-40000...-30000, -9...-1"])
            elif ty == "Decimal":
                a, b = rnd.randint(0, 4), rnd.randint(1, 6)
                f["rule"] = "0.%s...%s.%s" % ("0" * a if a else "0", "9" * b, "9" * a if a else "0")
                f["digits"] = (b + max(a, 1), max(a, 1))
            elif ty == "Choice":
                f["rule"] = "a, b"
                f["length"] = rnd.choice(["", "", "0...1", "1"])
            elif ty == "DateTime":
                f["rule"] = "YYYY-MM-DD"
            else:
                f["rule"] = "a*"
            fields.append(f)
        try:
            cid = make_cid(fields)
        except Exception as error:  # noqa
            ctx.machinery_error("generated CID rejected: %r %r" % (fields, error))
            continue
        for d in DIALECTS:
            st = statement_for(cid, d)
            cols = parse_columns(st)
            case = {"fields": fields, "dialect": d, "statement": st}
            ctx.count(key=(repr(fields), d), branch="cid:" + d)
            ctx.sample(case)
            if [c[0] for c in cols] != names:
                ctx.violation("C19:columns:%s" % d, "columns %r, fields %r" % ([c[0] for c in cols], names), case)
                continue
            for f, (cname, quoted, tname, args, not_null) in zip(fields, cols):
                if quoted != (cname.lower() in KEYWORDS[d]):
                    ctx.violation("C19:quoting:%s:%s" % (d, "missing" if not quoted else "spurious"), "column %s quoted=%s" % (cname, quoted), case)
                if not_null != (not f["empty"]):
                    ctx.violation("C19:not-null:%s" % d, "column %s not null=%s but empty flag=%s" % (cname, not_null, f["empty"]), case)
                if f["type"] == "Decimal" and list(args) != list(f["digits"]):
                    ctx.violation("C19:decimal-digits:%s" % d, "column %s %s%r, rule %s implies %r" % (cname, tname, args, f["rule"], f["digits"]), case)
                if f["type"] == "Text":
                    upper = None
                    parts = [p_.strip() for p_ in f["length"].split(",") if p_.strip()]
                    if parts and not any(p_.endswith("...") for p_ in parts):
                        upper = max(int(p_.split("...")[-1]) for p_ in parts)
                    if (args[:1] or [None])[0] != upper:
                        ctx.violation("C19:text-length:%s" % d, "column %s %s%r, upper length limit %r" % (cname, tname, args, upper), case)


def replay(ctx, case):
    print(case["case"])
