"""C01  Range descriptions accept exactly the values they describe.

Cases are description ASTs + spellings.  Lean renders the text with the `render` function the
theorems talk about, evaluates the declarative spec (membership in some item, min/max limits) and
the model (`Range.parse`/`validate`, a transcription of ranges.py); the real `cutplace.ranges.Range`
is run on the same text.  impl != spec on a well-formed description is a violation.
"""
import itertools

import core
from core import enc, line, optint, parse_kv

LIMS = [-2, -1, 0, 1, 2]


def item_str(it):
    k = it[0]
    if k == "s":
        return "s%d" % it[1]
    if k == "c":
        return "c%d:%d" % (it[1], it[2])
    if k == "f":
        return "f%d" % it[1]
    return "u%d" % it[1]


def item_tuple(it):
    k = it[0]
    if k == "s":
        return (it[1], it[1])
    if k == "c":
        return (it[1], it[2])
    if k == "f":
        return (it[1], None)
    return (None, it[1])


def spell_str(sp):
    lo, hi, sep, pads = sp
    return "%s/%s/%s/%s" % (lo, hi, sep, ",".join(str(p) for p in pads))


def small_items():
    items = [("s", v) for v in LIMS]
    items += [("c", l, u) for l in LIMS for u in LIMS if l <= u]
    items += [("f", l) for l in LIMS] + [("u", u) for u in LIMS]
    return items


def legal_limit_spellings(rnd, v):
    """all LimitSp codes that can express v"""
    out = ["d", "h%d%d" % (rnd.randint(0, 1), rnd.randint(0, 1))]
    if 9 <= v <= 13:
        out.append("y%d" % rnd.randint(0, 1))
    for dq in (0, 1):
        if 32 <= v < 0x110000 and not (0xD800 <= v <= 0xDFFF) and v not in (127, 92) and v != (34 if dq else 39):
            out.append("q%d" % dq)
    return out


def random_spelling(rnd, it, plain=False):
    def one(v):
        if plain or v is None:
            return "d"
        c = legal_limit_spellings(rnd, v)
        # bias: half decimal, rest uniformly over what is legal
        return "d" if rnd.random() < 0.4 else rnd.choice(c)

    lo, hi = item_tuple(it)
    pads = [0] * 5 if plain or rnd.random() < 0.5 else [rnd.choice([0, 0, 1, 2]) for _ in range(5)]
    return (one(lo), one(hi), rnd.choice("dce"), pads)


def boundary_values(items, rnd):
    vals = set()
    for it in items:
        for b in item_tuple(it):
            if b is not None:
                vals.update([b - 1, b, b + 1])
    vals.update([0, -1, 1, rnd.randint(-10**6, 10**6), 2**40, -(2**40), 10**25, -(10**25)])
    return sorted(vals)


def random_desc(rnd):
    """1-4 items, mostly disjoint and ascending, limits from varied magnitudes"""
    n = rnd.randint(1, 4)
    mode = rnd.random()
    if mode < 0.3:
        pool = sorted(rnd.sample(range(-40, 200), 2 * n + 2))
    elif mode < 0.6:
        pool = sorted(rnd.sample(range(0, 0x3000), 2 * n + 2))
    elif mode < 0.8:
        pool = sorted(set(rnd.choice([1, -1]) * rnd.choice([2**7, 2**8, 2**15, 2**16, 2**31, 2**32, 2**63, 2**64, 10**30]) + rnd.randint(-2, 2) for _ in range(2 * n + 6)))
    else:
        pool = sorted(rnd.sample(range(5, 16), min(11, 2 * n + 2)))
    items = []
    i = 0
    for k in range(n):
        if i + 1 >= len(pool):
            break
        kind = rnd.choice("sccc")
        if k == 0 and rnd.random() < 0.25:
            items.append(("u", pool[i])); i += 1
        elif k == n - 1 and rnd.random() < 0.25:
            items.append(("f", pool[i])); i += 1
        elif kind == "s":
            items.append(("s", pool[i])); i += 1
        else:
            items.append(("c", pool[i], pool[i + 1])); i += 2
    if rnd.random() < 0.3:
        rnd.shuffle(items)
    if rnd.random() < 0.08 and len(items) >= 1:
        # occasionally make it overlapping / ill-formed on purpose (outside the statement; drift only)
        items.append(items[0])
    return items


def impl_range(text, values, default=None):
    from cutplace import errors, ranges

    try:
        r = ranges.Range(text, default) if default is not None else ranges.Range(text)
    except Exception as error:  # noqa
        return core.classify_exception(error), None
    bits = ""
    for v in values:
        try:
            r.validate("x", v)
            bits += "1"
        except errors.RangeValueError:
            bits += "0"
    return "ok", {"items": r.items, "lo": r.lower_limit, "hi": r.upper_limit, "bits": bits}


def items_str(items):
    if items is None:
        return None
    return ";".join("%s:%s" % (optint(a), optint(b)) for a, b in items) if items else "~"


def shape_of(items, spells):
    kinds = "".join(sorted(set(it[0] for it in items)))
    sps = "".join(sorted(set(s[0][0] + s[1][0] for s in spells)))
    return "%d[%s|%s]" % (len(items), kinds, sps)


def check_cases(ctx, cases, exhaustive_tag=None):
    """cases: list of (items, spells, values)"""
    spec_lines = [line("range.spec", ";".join(item_str(i) for i in items) or "~", ";".join(spell_str(s) for s in spells) or "~",
                       ",".join(str(v) for v in values)) for items, spells, values in cases]
    spec_out = core.run_driver(spec_lines)
    texts = []
    for o in spec_out:
        _, kv = parse_kv("x " + o)
        texts.append(core.dec(kv["text"]))
    model_lines = [line("range.model", enc(t), ",".join(str(v) for v in c[2])) for t, c in zip(texts, cases)]
    model_out = core.run_driver(model_lines)
    for (items, spells, values), so, mo, text in zip(cases, spec_out, model_out, texts):
        _, skv = parse_kv("x " + so)
        mtag, mkv = parse_kv(mo)
        itag, ival = impl_range(text, values)
        wf = skv["wf"] == "1"
        case = {"text": text, "items": [item_str(i) for i in items], "spelling": [spell_str(s) for s in spells],
                "values": [str(v) for v in values], "spec": so, "model": mo,
                "impl": itag if ival is None else {"items": items_str(ival["items"]), "lo": optint(ival["lo"]), "hi": optint(ival["hi"]), "bits": ival["bits"]}}
        ctx.count(key=(text, tuple(values)), nontrivial=len(items) > 0, branch=("wf:" if wf else "nwf:") + mtag)
        ctx.sample(case)
        if mtag == "unsupported":
            ctx.skip(case)
            if wf:
                ctx.machinery_error("model leaves its fragment on a well-formed description: %r" % text)
            continue
        # impl vs model (tie between model and code)
        if ival is None:
            impl_repr = itag
        else:
            impl_repr = "ok items=%s lo=%s hi=%s bits=%s" % (items_str(ival["items"]), optint(ival["lo"]), optint(ival["hi"]), ival["bits"])
        model_repr = mo
        agree_model = impl_repr == model_repr
        if wf:
            spec_repr = "ok items=%s lo=%s hi=%s bits=%s" % (skv["items"], skv["lo"], skv["hi"], skv["bits"])
            if model_repr != spec_repr:
                ctx.machinery_error("model != spec inside the theorem's hypotheses: %r model=%s spec=%s" % (text, model_repr, spec_repr))
            if impl_repr != spec_repr:
                if ival is None:
                    kind = "rejects-wellformed:" + itag
                elif items_str(ival["items"]) != skv["items"]:
                    kind = "items"
                elif ival["bits"] != skv["bits"]:
                    kind = "membership"
                else:
                    kind = "limits"
                ctx.violation("C01:%s:%s" % (kind, shape_of(items, spells)),
                              "Range(%r): implementation %s, specification %s" % (text, impl_repr, spec_repr), case)
        elif not agree_model:
            ctx.note_drift(case)


# ----------------------------------------------------------------------------- decimal ranges
def lit(neg, coeff, frac):
    return ("n" if neg else "p") + "%de%d" % (coeff, frac)


def lit_of_text(text):
    """'-1.50' -> literal code"""
    neg = text.startswith("-")
    body = text.lstrip("-")
    ip, _, fp = body.partition(".")
    return lit(neg, int(ip + fp), len(fp))


def lit_value(code):
    from fractions import Fraction
    c, f = code[1:].split("e")
    v = Fraction(int(c), 10 ** int(f))
    return -v if code[0] == "n" else v


def ditem_str(it):
    if it[0] == "c":
        return "c%s:%s" % (it[1], it[2])
    return it[0] + it[1]


def dec_str(d):
    if d is None:
        return "n"
    t = d.as_tuple()
    if not isinstance(t.exponent, int):
        return "special"
    return "%d:%d:%d" % (t.sign, int("".join(str(x) for x in t.digits) or "0"), t.exponent)


def impl_drange(text, value_texts):
    from cutplace import errors, ranges
    import decimal
    try:
        r = ranges.DecimalRange(text)
    except Exception as error:  # noqa
        return core.classify_exception(error), None
    bits = ""
    for v in value_texts:
        try:
            r.validate("x", v)
            bits += "1"
        except errors.RangeValueError:
            bits += "0"
        except decimal.InvalidOperation:
            bits += "!"
    if r.items is None:
        return "ok", None
    return "ok", {"items": ";".join("%s/%s" % (dec_str(a), dec_str(b)) for a, b in r.items) or "~", "prec": r.precision, "scale": r.scale,
                  "lo": dec_str(r.lower_limit), "hi": dec_str(r.upper_limit), "bits": bits}


def probe_lits(items, rnd):
    """every limit, its neighbours one unit in the last place and one place finer, the same number at another scale"""
    out = []
    for it in items:
        for code in it[1:]:
            neg, (c, f) = code[0] == "n", [int(x) for x in code[1:].split("e")]
            signed = -c if neg else c
            for delta, extra in ((0, 0), (1, 0), (-1, 0), (1, 1), (-1, 1), (0, 2)):
                v = signed * 10 ** extra + delta
                out.append(lit(v < 0 or (v == 0 and neg and delta == 0), abs(v), f + extra))
    out += [lit(False, 0, 0), lit(True, 1, 3), lit(False, rnd.randint(0, 10 ** 6), rnd.randint(0, 4)), lit(True, 10 ** 25, 0), lit(False, 10 ** 25, 2)]
    seen, res = set(), []
    for o in out:
        if o not in seen:
            seen.add(o)
            res.append(o)
    return res


def random_ddesc(rnd):
    n = rnd.randint(1, 4)
    mode = rnd.random()
    if mode < 0.5:
        pool = sorted(set(rnd.randint(-4000, 4000) for _ in range(2 * n + 4)))
        pool = [(v, 2) for v in pool]
    elif mode < 0.8:
        pool = sorted(set(rnd.randint(-50, 50) for _ in range(2 * n + 4)))
        pool = [(v, 0) for v in pool]
    else:
        pool = sorted(set(rnd.choice([1, -1]) * rnd.choice([10 ** 5, 10 ** 12, 10 ** 19, 10 ** 25]) + rnd.randint(-3, 3) for _ in range(2 * n + 6)))
        pool = [(v, 6) for v in pool]

    def mk(vf):
        v, f = vf
        # the same number may be written with more fraction digits (trailing zeros)
        extra = rnd.choice([0, 0, 0, 1, 2])
        return lit(v < 0, abs(v) * 10 ** extra, f + extra)

    items, i = [], 0
    for k in range(n):
        if i + 1 >= len(pool):
            break
        kind = rnd.choice("sccc")
        if k == 0 and rnd.random() < 0.25:
            items.append(("u", mk(pool[i]))); i += 1
        elif k == n - 1 and rnd.random() < 0.25:
            items.append(("f", mk(pool[i]))); i += 1
        elif kind == "s":
            items.append(("s", mk(pool[i]))); i += 1
        else:
            items.append(("c", mk(pool[i]), mk(pool[i + 1]))); i += 2
    if rnd.random() < 0.3:
        rnd.shuffle(items)
    if rnd.random() < 0.06 and items:
        items.append(items[0])   # overlapping on purpose: outside the statement
    return items


def check_decimal_cases(ctx, cases):
    """cases: list of (items, spells, probe literals)"""
    spec_lines = [line("drange.spec", ";".join(ditem_str(i) for i in items) or "~", ";".join("%s/%s" % (sp[0], ",".join(str(p) for p in sp[1])) for sp in spells) or "~",
                       ",".join(vals)) for items, spells, vals in cases]
    spec_out = core.run_driver(spec_lines)
    parsed = []
    for o in spec_out:
        _, kv = parse_kv("x " + o)
        parsed.append(kv)
    model_lines = [line("drange.model", kv["text"], kv["vtexts"]) for kv in parsed]
    model_out = core.run_driver(model_lines)
    for (items, spells, vals), skv, so, mo in zip(cases, parsed, spec_out, model_out):
        text = core.dec(skv["text"])
        vtexts = [core.dec(v) for v in skv["vtexts"].split(",")] if skv["vtexts"] else []
        mtag, mkv = parse_kv(mo)
        itag, ival = impl_drange(text, vtexts)
        wf = skv["wf"] == "1"
        case = {"text": text, "items": [ditem_str(i) for i in items], "values": vtexts, "spec": so, "model": mo, "impl": itag if ival is None else ival}
        ctx.count(key=("decimal", text, tuple(vals)), nontrivial=len(items) > 0, branch=("dwf:" if wf else "dnwf:") + mtag)
        ctx.sample(case)
        if mtag == "unsupported":
            ctx.skip(case)
            if wf:
                ctx.machinery_error("decimal model leaves its fragment on a well-formed description: %r" % text)
            continue
        impl_repr = itag if ival is None else "ok items=%s lo=%s hi=%s bits=%s" % (ival["items"], ival["lo"], ival["hi"], ival["bits"])
        model_repr = mtag if mtag != "ok" else "ok items=%s lo=%s hi=%s bits=%s" % (mkv.get("items"), mkv.get("lo"), mkv.get("hi"), mkv.get("bits"))
        if wf:
            spec_repr = "ok items=%s lo=%s hi=%s bits=%s" % (skv["items"], skv["lo"], skv["hi"], skv["bits"])
            if model_repr != spec_repr:
                ctx.machinery_error("decimal model != spec on a well-formed description: %r model=%s spec=%s" % (text, model_repr, spec_repr))
            if impl_repr != spec_repr:
                if ival is None:
                    kind = "rejects-wellformed:" + itag
                elif ival["items"] != skv["items"]:
                    kind = "items"
                elif ival["bits"] != skv["bits"]:
                    kind = "membership"
                else:
                    kind = "limits"
                ctx.violation("C01:decimal:%s:%d[%s]" % (kind, len(items), "".join(sorted(set(i[0] for i in items)))),
                              "DecimalRange(%r): implementation %s, specification %s" % (text, impl_repr, spec_repr), case)
            elif ival is not None and (str(ival["prec"]), str(ival["scale"])) != (mkv.get("prec"), mkv.get("scale")):
                ctx.note_drift(case)
        elif impl_repr != model_repr:
            ctx.note_drift(case)


def decimal_cases(ctx):
    rnd = ctx.rnd
    cases = []
    pool = [lit_of_text(t) for t in ("-1.5", "-1", "-0.5", "0", "0.25", "1", "1.50", "2")]
    smalls = [("s", v) for v in pool] + [("c", a, b) for a in pool for b in pool if lit_value(a) <= lit_value(b)] + [("f", v) for v in pool] + [("u", v) for v in pool]
    probes = [lit_of_text(t) for t in ("-2", "-1.51", "-1.5", "-1.50", "-1.49", "-1", "-0.5", "-0.0", "0", "0.24", "0.25", "0.250", "0.26", "1", "1.0", "1.5", "1.500", "1.51", "2", "2.01")]
    plain = ("d", [0] * 5)
    for a in smalls:
        for sep in "dce":
            cases.append(([a], [(sep, [0] * 5)], probes))
    pairs = [(a, b) for a in smalls for b in smalls]
    step = 1 if ctx.tier == "thorough" else 7
    for k in range(0, len(pairs), step):
        a, b = pairs[k]
        cases.append(([a, b], [plain, plain], probes))
    n_exh = len(cases)
    for _ in range(1500 if ctx.tier == "quick" else 20000):
        items = random_ddesc(rnd)
        spells = [(rnd.choice("dce"), [0] * 5 if rnd.random() < 0.5 else [rnd.choice([0, 0, 1, 2]) for _ in range(5)]) for _ in items]
        cases.append((items, spells, probe_lits(items, rnd)))
    ctx.notes["decimal_small_cases"] = n_exh
    for i in range(0, len(cases), 10000):
        check_decimal_cases(ctx, cases[i:i + 10000])


def default_cases(ctx):
    """`Range(description, default)`: a blank description stands for the default, any other description wins"""
    descriptions = ["", " ", "\t ", "5", "1...3", " 7... "]
    defaults = ["1...9", "2, 4...", "'a'...'z'", "...0", "0x10:0x20", "tab", "3...1", "x"]
    values = [-1, 0, 1, 2, 3, 4, 5, 7, 9, 10, 16, 32, 97, 122]
    lines = [line("range.model", enc(d), ",".join(str(v) for v in values), enc(f)) for d in descriptions for f in defaults]
    out = core.run_driver(lines)
    k = 0
    for d in descriptions:
        for f in defaults:
            mo = out[k]
            k += 1
            itag, ival = impl_range(d, values, default=f)
            impl_repr = itag if ival is None else "ok items=%s lo=%s hi=%s bits=%s" % (items_str(ival["items"]), optint(ival["lo"]), optint(ival["hi"]), ival["bits"])
            # what the statement says: the range of the text that applies
            applies = f if d.strip() == "" else d
            atag, aval = impl_range(applies, values)
            applies_repr = atag if aval is None else "ok items=%s lo=%s hi=%s bits=%s" % (items_str(aval["items"]), optint(aval["lo"]), optint(aval["hi"]), aval["bits"])
            case = {"text": d, "default": f, "values": [str(v) for v in values], "model": mo, "impl": impl_repr, "applies": applies_repr}
            ctx.count(key=("default", d, f), nontrivial=True, branch="default:" + mo.split(" ")[0])
            if impl_repr != mo:
                ctx.violation("C01:default:%s" % ("blank" if d.strip() == "" else "given"),
                              "Range(%r, default=%r): implementation %s, model %s" % (d, f, impl_repr, mo), case)
            elif impl_repr != applies_repr:
                ctx.violation("C01:default-differs:%s" % ("blank" if d.strip() == "" else "given"),
                              "Range(%r, default=%r) is %s but Range(%r) is %s" % (d, f, impl_repr, applies, applies_repr), case)


def blank_decimal_cases(ctx):
    """`DecimalRange("")` and friends: no items, every value is accepted, non-decimal texts are refused as values"""
    from cutplace import errors, ranges
    import decimal
    blanks_ = ["", " ", "\t ", "   "]
    outs = core.run_driver([line("drange.model", enc(b), "~") for b in blanks_])
    for b, mo in zip(blanks_, outs):
        tag, val = impl_drange(b, ["0", "-1.5", "1e3"])
        ctx.count(key=("blank-decimal", b), nontrivial=True, branch="blank-decimal:" + mo.split(" ")[0])
        if not (tag == "ok" and val is None and mo.strip() == "ok none"):
            ctx.violation("C01:decimal:blank", "DecimalRange(%r): implementation %s %s, model %s" % (b, tag, val, mo), {"text": b, "model": mo})
    # the value handed to validate() must be a decimal number: anything else is a range value error, not an exception of decimal
    rng = ranges.DecimalRange("0.5...9.75")
    for bad in ("abc", "", "1,5", "--1", "1e"):
        try:
            rng.validate("x", bad)
            outcome = "accepted"
        except errors.RangeValueError:
            outcome = "range-error"
        except (decimal.DecimalException, Exception) as error:  # noqa
            outcome = core.classify_exception(error)
        ctx.count(key=("bad-decimal-value", bad), nontrivial=True, branch="bad-decimal-value:" + outcome.split(":")[0])
        if outcome != "range-error":
            ctx.violation("C01:decimal:bad-value", "DecimalRange('0.5...9.75').validate(%r): %s" % (bad, outcome), {"value": bad})


def run(ctx):
    rnd = ctx.rnd
    ctx.rule = ("exhaustive: all 1-2 item descriptions with limits in {-2..2, none} x 3 separators x values -4..4 (plain decimal spelling); "
                "grammar stream: 1-4 items, every limit spelling (decimal, hex, quoted, symbolic), separators, blanks, magnitudes up to 10^30, "
                "probes = every boundary and its neighbours; decimal ranges: all 1 item and a seventh (thorough: all) of the 2 item descriptions over 8 decimal limits x 20 probe values, "
                "and a grammar stream of 1-4 items with 0-6 fraction digits, trailing zeros, magnitudes up to 10^25, blanks, three separators, probes = every limit, one unit in the last "
                "place and one place finer on either side, the same number at another scale; Range(description, default) for blank and given descriptions x 8 defaults; distinct = distinct (text, probe list); non-trivial = at least one item")
    cases = []
    smalls = small_items()
    values = list(range(-4, 5))
    for sep in "dce":
        for a in smalls:
            cases.append(([a], [("d", "d", sep, [0] * 5)], values))
        for a, b in itertools.product(smalls, smalls):
            cases.append(([a, b], [("d", "d", sep, [0] * 5), ("d", "d", sep, [0] * 5)], values))
    # descriptions that differ only in the case of quoted letters denote different characters (in one process, in this order)
    for lo_, hi_ in ((97, 122), (65, 90), (120, 120), (88, 88), (71, 103), (103, 122)):
        for dq in "01":
            it_ = ("s", lo_) if lo_ == hi_ else ("c", lo_, hi_)
            cases.append(([it_], [("q" + dq, "q" + dq, "d", [0] * 5)], [64, 65, 88, 90, 91, 96, 97, 103, 120, 122, 123]))
    n_exh = len(cases)
    n_rand = 4000 if ctx.tier == "quick" else 60000
    for _ in range(n_rand):
        items = random_desc(rnd)
        spells = [random_spelling(rnd, it) for it in items]
        cases.append((items, spells, boundary_values(items, rnd)))
    ctx.notes["exhaustive_cases"] = n_exh
    ctx.notes["random_cases"] = n_rand
    ctx.exhaustive = False
    ctx.notes["exhaustive_part"] = "1-2 item sweep is complete and seed independent; the grammar stream is sampled"
    for i in range(0, len(cases), 20000):
        check_cases(ctx, cases[i:i + 20000])
    decimal_cases(ctx)
    blank_decimal_cases(ctx)
    default_cases(ctx)
    # the hypothesis `BoundedLimits` of C01_parse_render: CPython's int() refuses decimal strings of more than 4300 digits
    for ndigits, inside in ((4300, True), (4301, False)):
        text = "1..." + "9" * ndigits
        itag, ival = impl_range(text, [5])
        case = {"text": "1...<%d nines>" % ndigits, "impl": itag if ival is None else "ok"}
        ctx.count(key=("int-limit", ndigits), nontrivial=True, branch="int-limit:%s" % itag)
        if ival is None:
            ctx.violation("C01:rejects-wellformed:%s" % ("decimal-limit-beyond-4300-digits" if not inside else "decimal-limit-of-4300-digits"),
                          "Range('1...' + '9' * %d) is refused (%s) although the description is well-formed" % (ndigits, itag), case)
    ctx.assumptions = ["well-formed = non-empty, closed items with lower <= upper, pairwise non-overlapping; spellings as in Spec.LegalSpelling"]


def replay(ctx, case):
    c = case["case"]
    print("text=%r" % c["text"])
    print("impl :", impl_range(c["text"], [int(v) for v in c["values"]]))
    print("model:", core.run_driver([line("range.model", enc(c["text"]), ",".join(c["values"]))])[0])
    print("spec :", c.get("spec"))
