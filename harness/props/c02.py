"""C02  Each field type accepts exactly the values its rule describes.

Declarations are drawn from per-type rule grammars; cells are generated from the rule (must accept,
value equal to what the text denotes) and by single mutations (must reject).  Every declaration and
cell goes through the real `<Type>FieldFormat` and through the Lean model; for the types whose
acceptance set has a direct arithmetic reading (Integer by rule / length / default, Decimal, Choice,
Constant, Text, DateTime calendar validity) the harness also evaluates that reading itself.
"""
import datetime
import decimal
import itertools

import core
from core import enc, line, parse_kv

FORMATS = ["delimited", "fixed", "excel", "ods"]


def impl_value(v):
    import time
    if v is None:
        return "N"
    if isinstance(v, str):
        return "S" + enc(v)
    if isinstance(v, int) and not isinstance(v, bool):
        return "I%d" % v
    if isinstance(v, decimal.Decimal):
        t = v.as_tuple()
        if isinstance(t.exponent, str):
            return "O" + enc("nan" if t.exponent in "nN" else "%d:0:F" % t.sign)
        return "O" + enc("%d:%s:%d" % (t.sign, str(int("".join(map(str, t.digits)) or "0")), t.exponent))
    if isinstance(v, time.struct_time):
        return "O" + enc("%d-%d-%d %d:%d:%d" % (v.tm_year, v.tm_mon, v.tm_mday, v.tm_hour, v.tm_min, v.tm_sec))
    return "O" + enc(repr(v))


def impl_field(ty, fmt, empty, length, rule, dec, thou, cells):
    from cutplace import data, errors, fields

    try:
        df = data.DataFormat(fmt)
        if fmt in ("delimited", "fixed"):
            if dec != ".":
                df.set_property(data.KEY_DECIMAL_SEPARATOR, dec)
            if thou:
                df.set_property(data.KEY_THOUSANDS_SEPARATOR, thou)
        df.validate()
        f = getattr(fields, ty + "FieldFormat")("f", empty, length, rule, df)
    except Exception as error:  # noqa
        return core.classify_exception(error), None
    out = []
    for c in cells:
        try:
            out.append(impl_value(f.validated(c)))
        except errors.FieldValueError:
            out.append("R")
        except Exception as error:  # noqa
            out.append("!" + core.classify_exception(error))
    return "ok", out


class Batch(object):
    def __init__(self, ctx):
        self.ctx = ctx
        self.items = []

    def add(self, ty, fmt, empty, length, rule, cells, expect=None, dec=".", thou="", tag=""):
        """expect: optional list parallel to cells: True (must accept), False (must reject), None (type model decides),
        or ('value', text) for must accept with that canonical value"""
        self.items.append((ty, fmt, empty, length, rule, dec, thou, list(cells), expect, tag))

    def run(self):
        ctx = self.ctx
        lines_ = [line("field.declx", ty, fmt, "n", "1" if empty else "0", enc(length), enc(rule), enc(dec), enc(thou) if thou else "-",
                       ",".join(enc(c) for c in cells)) for ty, fmt, empty, length, rule, dec, thou, cells, expect, tag in self.items]
        outs = core.run_driver(lines_)
        for (ty, fmt, empty, length, rule, dec, thou, cells, expect, tag), mo in zip(self.items, outs):
            mtag, mkv = parse_kv(mo)
            itag, ivals = impl_field(ty, fmt, empty, length, rule, dec, thou, cells)
            decl = {"type": ty, "format": fmt, "empty": empty, "length": length, "rule": rule, "decimal": dec, "thousands": thou}
            if mtag == "unsupported":
                ctx.skip(decl)
                ctx.count(key=("decl", repr(decl)), nontrivial=False, branch=tag + ":unsupported-decl")
                continue
            if itag != mtag:
                ctx.count(key=("decl", repr(decl)), branch=tag + ":decl")
                if itag == "ok" or mtag == "ok":
                    ctx.violation("C02:declaration:%s:%s-vs-%s" % (ty, itag, mtag), "%sFieldFormat(%r): implementation %s, model %s" % (ty, decl, itag, mtag), decl)
                else:
                    ctx.note_drift({"decl": decl, "impl": itag, "model": mtag})
                continue
            if ivals is None:
                ctx.count(key=("decl", repr(decl)), branch=tag + ":decl-rejected")
                continue
            mvals = mkv["M"].split(",")
            gvals = mkv["G"].split(",")
            for k, (c, iv, mv, gv) in enumerate(zip(cells, ivals, mvals, gvals)):
                case = dict(decl, cell=c, impl=iv, model=mv)
                ctx.count(key=(repr(decl), c), branch="%s:%s" % (tag, "acc" if iv != "R" else "rej"))
                ctx.sample(case)
                if mv == "U":
                    ctx.skip(case)
                    continue
                if gv != "?":
                    continue  # the guards decide (C03)
                want = expect[k] if expect else None
                if want is True and iv in ("R",) or want is False and iv != "R" or isinstance(want, tuple) and iv != want[1]:
                    kind = "rejects-member" if iv == "R" else ("accepts-non-member" if want is False else "wrong-value")
                    ctx.violation("C02:%s:%s:%s" % (ty, tag, kind), "%s %r cell %r -> %s, the rule says %s" % (ty, decl, c, iv, want), case)
                elif iv != mv:
                    kind = "verdict" if (iv == "R") != (mv == "R") else "value"
                    ctx.violation("C02:%s:%s:model-%s" % (ty, tag, kind), "%s %r cell %r -> %s, model %s" % (ty, decl, c, iv, mv), case)


def length_decls(maxv):
    vals = list(range(0, maxv + 1))
    items = ["%d" % v for v in vals] + ["%d...%d" % (a, b) for a in vals for b in vals if a <= b] + ["%d..." % a for a in vals] + ["...%d" % b for b in vals]
    out = list(items)
    singles = ["%d" % v for v in vals]
    for a, b in itertools.combinations(singles, 2):
        out.append("%s, %s" % (a, b))
    out += ["1...2, 4...5", "...1, 3", "1, 3..."]
    return out


def length_members(text):
    """set of lengths denoted by a (well-formed) length declaration, as predicate"""
    parts = [p.strip() for p in text.split(",")]
    preds = []
    for p in parts:
        if "..." in p:
            a, b = p.split("...")
            lo = int(a) if a.strip() else None
            hi = int(b) if b.strip() else None
        else:
            lo = hi = int(p)
        preds.append((lo, hi))
    return lambda n: any((lo is None or lo <= n) and (hi is None or n <= hi) for lo, hi in preds)


def run(ctx):
    rnd = ctx.rnd
    ctx.rule = ("per-type rule grammars: Integer (default 32 bit; rules with boundary probes; length-derived ranges swept exhaustively for all length declarations "
                "over 0..3 (quick) / 0..5 (thorough) x all integers of up to 4 / 6 characters), Decimal (4 separator conventions, generated and mutated numbers), "
                "Choice / Constant (quoted and bare values, case flips), DateTime (fixed layouts over DD MM YYYY YY hh mm ss with separators and layouts generated from the placeholder / literal grammar incl. the adjacencies MMmm and YYYYYY; every month end, leap "
                "years, single character mutations), Pattern and RegEx (generated globs / regexes with matching and mutated cells), Text; formats delimited, "
                "fixed, excel, ods; distinct = distinct (declaration, cell); non-trivial = cell decided by the type (guards pass)")
    b = Batch(ctx)
    thorough = ctx.tier == "thorough"

    # ---- Integer: default range ------------------------------------------------------------------------------
    edge = [-2 ** 31 - 1, -2 ** 31, -2 ** 31 + 1, -1, 0, 1, 2 ** 31 - 2, 2 ** 31 - 1, 2 ** 31, 10 ** 12, -10 ** 12]
    cells = [str(v) for v in edge] + ["+5", " 7 ", "1_0", "0x10", "1.0", "1e3", "abc", "-", "--1", "٣"]
    expect = [(-2 ** 31 <= v <= 2 ** 31 - 1) and ("value", "I%d" % v) or False for v in edge] + [("value", "I5"), ("value", "I7"), ("value", "I10"), False, False, False, False, False, False, None]
    for fmt in ("delimited", "excel", "ods"):
        b.add("Integer", fmt, False, "", "", cells, expect, tag="int-default")
    # ---- Integer: rules ---------------------------------------------------------------------------------------
    for _ in range(60 if not thorough else 600):
        n = rnd.randint(1, 3)
        pts = sorted(rnd.sample(range(-500, 500), 2 * n))
        items = [(pts[2 * k], pts[2 * k + 1]) for k in range(n)]
        rule = ", ".join("%d...%d" % it for it in items)
        open_lo, open_hi = rnd.random() < 0.2, rnd.random() < 0.2
        if open_lo:
            rule = "...%d, " % (pts[0] - 5) + rule
        if open_hi:
            rule = rule + ", %d..." % (pts[-1] + 5)
        probes = set()
        for lo, hi in items:
            probes.update([lo - 1, lo, lo + 1, hi - 1, hi, hi + 1])
        probes.update([pts[0] - 5, pts[0] - 6, pts[0] - 4, pts[-1] + 5, pts[-1] + 4, pts[-1] + 6, 0])
        probes = sorted(probes)

        def member(v):
            return any(lo <= v <= hi for lo, hi in items) or (open_lo and v <= pts[0] - 5) or (open_hi and v >= pts[-1] + 5)
        b.add("Integer", rnd.choice(["delimited", "excel", "ods"]), False, "", rule, [str(v) for v in probes],
              [("value", "I%d" % v) if member(v) else False for v in probes], tag="int-rule")
    # ---- Integer: length only (exhaustive) -----------------------------------------------------------------------
    maxlen, maxchars = (5, 6) if thorough else (3, 4)
    ints = list(range(-(10 ** (maxchars - 1)) + 1, 10 ** maxchars))
    if thorough:
        ints = [v for v in ints if abs(v) < 2000 or v % 7 == 0 or len(str(abs(v))) != len(str(abs(v) + 1)) or len(str(abs(v))) != len(str(abs(v) - 1))]
    int_cells = [str(v) for v in ints]
    for decl in length_decls(maxlen):
        mem = length_members(decl)
        # the guard on the cell's own length is C03's; C02's reading: accepted iff the text of the integer fits the length
        b.add("Integer", "delimited", False, decl, "", int_cells, [("value", "I%d" % v) if mem(len(str(v))) else False for v in ints], tag="int-length")
    # ---- Integer: fixed format (length = width, range 1...width) and length+rule -----------------------------------
    for w in (1, 2, 3, 4):
        vals = [0, 5, 9, 10, -1, -9, -10, 99, 100, -99, 999, -100, 1000, -999, 9999]
        cells = [str(v).ljust(w) for v in vals if len(str(v)) <= w] + [str(v) for v in vals if len(str(v)) > w]
        b.add("Integer", "fixed", False, str(w), "", cells, None, tag="int-fixed")
    b.add("Integer", "delimited", False, "1...3", "0...999", ["0", "5", "999", "1000", "-1", "12"], [True, True, True, False, False, True], tag="int-length-rule")
    b.add("Integer", "delimited", False, "1...2", "0...999", ["5"], None, tag="int-length-rule")   # inconsistent: declaration refused
    # ---- Decimal -----------------------------------------------------------------------------------------------------
    conventions = [(".", ""), (",", "."), (".", ","), (",", "")]
    for dec_sep, thou in conventions:
        for rule, lo, hi in [("", decimal.Decimal("-9999999999999999999.999999999999"), decimal.Decimal("9999999999999999999.999999999999")),
                             ("0...999.99", decimal.Decimal(0), decimal.Decimal("999.99")), ("-10.5...10.5", decimal.Decimal("-10.5"), decimal.Decimal("10.5")),
                             ("1000...2000000", decimal.Decimal(1000), decimal.Decimal(2000000))]:
            cells, expect = [], []
            nums = [lo, hi, lo - decimal.Decimal("0.01"), hi + decimal.Decimal("0.01"), decimal.Decimal("0"), decimal.Decimal("1.5"), decimal.Decimal("1234.5"),
                    decimal.Decimal("1234567.25"), decimal.Decimal("-0.5"), decimal.Decimal("12.340")]
            for x in nums:
                plain = format(x, "f")
                ip, _, fp = plain.lstrip("-").partition(".")
                grouped = ip
                if thou:
                    grouped = ""
                    while len(ip) > 3:
                        grouped = thou + ip[-3:] + grouped
                        ip = ip[:-3]
                    grouped = ip + grouped
                text = ("-" if plain.startswith("-") else "") + grouped + (dec_sep + fp if fp else "")
                cells.append(text)
                t = x.as_tuple()
                canon = "O" + enc("%d:%s:%d" % (t.sign, str(int("".join(map(str, t.digits)))), t.exponent))
                expect.append(("value", canon) if lo <= x <= hi else False)
                # mutations: a second decimal separator; thousands separator after the decimal separator
                if fp:
                    cells.append(text + dec_sep + "1"); expect.append(False)
                    if thou:
                        cells.append(text[:-1] + thou + text[-1:]); expect.append(False)
            cells += ["abc", "1e2", "NaN" if rule else "nan-skip", "--1", "1" + dec_sep, dec_sep + "5"]
            expect += [False, None, None, False, None, None]
            for fmt in ("delimited", "fixed"):
                b.add("Decimal", fmt, False, "40" if fmt == "fixed" else "", rule, cells, expect, dec=dec_sep, thou=thou, tag="decimal")
    # ---- Choice / Constant / Text ------------------------------------------------------------------------------------
    for rule, choices in [("red, green, blue", ["red", "green", "blue"]), ("'red', \"green\",blue", ["red", "green", "blue"]),
                          ("\"a b\", 'x,y', z", ["a b", "x,y", "z"]), ("1, 2, 10", ["1", "2", "10"]), ("é, ö", ["é", "ö"]), ("A,a", ["A", "a"]),
                          ("\"5'\", \"6'\"", ["5'", "6'"]), ("'a\"', '\"b', 'c'", ["a\"", "\"b", "c"]), ("\"''\", 'x'", ["''", "x"])]:
        cells = choices + [c.upper() for c in choices] + [c + " " for c in choices] + ["", "nope", choices[0][:-1] or "q"] + [c.strip("'\"") for c in choices]
        expect = [True if c in choices else False for c in cells]
        for fmt in FORMATS[:1] + FORMATS[2:]:
            b.add("Choice", fmt, False, "", rule, cells, expect, tag="choice")
    for rule, const in [("abc", "abc"), ("'a b'", "a b"), ("42", "42"), ("\"x\"", "x"), ("\"'n/a'\"", "'n/a'"), ("'\"q'", "\"q")]:
        cells = [const, const.upper(), const + "x", " " + const, const[:-1] or "z", const.strip("'\"")]
        b.add("Constant", "delimited", False, "", rule, cells, [c == const for c in cells], tag="constant")
    b.add("Text", "delimited", False, "", "", ["x", " ", "anything at all", "é", "1"], [True] * 5, tag="text")
    # ---- DateTime --------------------------------------------------------------------------------------------------
    layouts = ["DD.MM.YYYY", "YYYY-MM-DD", "MM/DD/YY", "YYYYMMDD", "DD.MM.YYYY hh:mm:ss", "hh:mm", "YYYY-MM-DD hh:mm", "DD.MM.YY", "hh:mm:ss", "DD-MM", "YY/MM/DD hh", "100% DD",
               # layouts of the same shape as an earlier one with other placeholders: the same text means something else (or nothing) under them
               "MM.DD.YYYY", "mm:ss", "YY.MM.DD", "DD/MM/YY", "ss:mm:hh"]
    # texts every layout is asked about, whatever it looks like (one field's verdict must not depend on what another field has seen)
    shared_cells = ["13.01.2020", "01.13.2020", "25.11.2023", "30:59", "59:30", "23:59", "12/31/99", "31/12/99", "23:59:60", "60:59:23", "20.12.31"]

    def render(layout, y, mo, d, h, mi, s):
        out = layout
        for k, v in (("YYYY", "%04d" % y), ("YY", "%02d" % (y % 100)), ("DD", "%02d" % d), ("MM", "%02d" % mo), ("hh", "%02d" % h), ("mm", "%02d" % mi), ("ss", "%02d" % s)):
            out = out.replace(k, v)
        return out
    dates = []
    for y in (1900, 1968, 1969, 1999, 2000, 2023, 2024, 2068, 2100):
        for mo in range(1, 13):
            for d in (1, 28, 29, 30, 31):
                dates.append((y, mo, d))
    # layouts from the grammar of C02_layout_translation: placeholders and literal characters (no placeholder letters, no blanks; `%`, digits
    # and other letters included) in any order; and the adjacencies the theorem excludes (`MM` before `mm`, two year placeholders)
    placeholders = ["DD", "MM", "YYYY", "YY", "hh", "mm", "ss"]
    literal_pool = list(".-/:T,_%#dy0HS") + ["%%", "d%"]
    for _ in range(12 if not thorough else 120):
        toks = []
        for _k in range(rnd.randint(2, 6)):
            t = rnd.choice(placeholders)
            if toks and ((toks[-1] in ("YYYY", "YY") and t in ("YYYY", "YY")) or (toks[-1] == "MM" and t == "mm")):
                toks.append(rnd.choice(literal_pool))
            toks.append(t)
            if rnd.random() < 0.6:
                toks.append(rnd.choice(literal_pool))
        layouts.append("".join(toks))
    layouts += ["MMmm", "YYYYYY", "YYYYYYYY", "YYYYMMmm", "DDMMYYYYhhmmss", "hhmmssDDMMYYYY", "mmMM", "ssmmhh%DD%MM%YYYY"]
    for layout in layouts:
        cells, expect = [], []
        sample = dates if thorough else rnd.sample(dates, 60) + [(2024, 2, 29), (2023, 2, 29), (1900, 2, 29), (2000, 2, 29), (2024, 4, 31), (2024, 12, 31)]
        for (y, mo, d) in sample:
            h, mi, s = rnd.choice([(0, 0, 0), (23, 59, 59), (12, 30, 15), (24, 0, 0), (9, 60, 0), (9, 5, 61)])
            text = render(layout, y, mo, d, h, mi, s)
            has_date = "DD" in layout
            try:
                if has_date:
                    datetime.date(y if "YY" in layout else 1904 if (mo, d) == (2, 29) else 1900, mo if "MM" in layout else 1, d)
                ok_time = (("hh" not in layout or h <= 23) and ("mm" not in layout or mi <= 59) and ("ss" not in layout or s <= 61))
                valid = ok_time
            except ValueError:
                valid = False
            cells.append(text)
            # (a layout naming the year twice - YYYY and YY - says nothing definite about which one counts: no expectation, model against code only)
            two_years = "YYYY" in layout and "YY" in layout.replace("YYYY", "")
            expect.append(None if two_years or ("YY" in layout and "YYYY" not in layout and not (1969 <= y <= 2068)) else valid)
            if rnd.random() < 0.3 and text:
                k = rnd.randrange(len(text))
                cells.append(text[:k] + rnd.choice("x9 -") + text[k + 1:]); expect.append(None)
        cells += ["", "x", layout] + shared_cells
        expect += [None, False, None] + [None] * len(shared_cells)
        for fmt in ("delimited", "excel"):
            b.add("DateTime", fmt, False, "", layout, cells + ([c + " 00:00:00" for c in cells[:8]] if fmt == "excel" else []),
                  expect + ([None] * 8 if fmt == "excel" else []), tag="datetime")
    # ---- Pattern / RegEx --------------------------------------------------------------------------------------------
    globs = ["a*", "*.txt", "?b?", "[abc]x", "[!a]*", "a[0-9]b", "file-??.csv", "*", "x", "A*z", "*a*b*", "[a-c][x-z]", "a.b", "a+b", "(x)", "[", "a]b", "te?t*"]
    cell_pool = ["a", "ab", "abc", "x.txt", ".txt", "xbx", "abcd", "ax", "bx", "dx", "a5b", "a55b", "file-01.csv", "file-1.csv", "", "x", "X", "Az", "az", "AXz",
                 "aab", "ba", "bz", "cy", "dz", "a.b", "aXb", "a+b", "aab", "(x)", "[", "a]b", "test", "tent", "text1", "tet", "a\nb", "FILE-AB.CSV"]
    for g in globs:
        b.add("Pattern", "delimited", False, "", g, [c for c in cell_pool if c], None, tag="pattern")
    regexes = ["a+", "^ab?c$", "[0-9]{2,3}", "(ab|cd)*x", "a.c", "\\d+-\\d+", "[A-Z][a-z]*", "x|y|zz", "a{2}", "(?:ab)+", ".*end$", "^$", "a*?b", "[^0-9]+", "\\w+@\\w+\\.com", "ab", "a\\.b", "(a|b)(c|d)"]
    rcells = ["a", "aa", "b", "ac", "abc", "abcd", "12", "123", "1234", "x", "abx", "abcdx", "abc x", "a\nc", "axc", "1-2", "12-345", "1-", "Hello", "hELLO", "y", "zz", "z",
              "aaa", "abab", "the end", "the end.", "b", "aab", "ab", "abc!", "me@host.com", "me@host.org", "a.b", "aXb", "ad", "bc", "bb", "é"]
    for r in regexes:
        b.add("RegEx", "delimited", False, "", r, rcells, None, tag="regex")
    b.run()
    # the hypothesis of C02_int_text_roundtrip: CPython's int() refuses decimal strings of more than 4300 digits
    for ndigits, inside in ((4300, True), (4301, False)):
        tag, out = impl_field("Integer", "delimited", False, "", "0...", ".", "", ["9" * ndigits])
        case = {"type": "Integer", "format": "delimited", "empty": False, "length": "", "rule": "0...", "cell": "<%d nines>" % ndigits, "impl": out if tag == "ok" else tag}
        ctx.count(key=("int-limit", ndigits), nontrivial=True, branch="int-limit")
        if tag != "ok" or not out[0].startswith("I"):
            ctx.violation("C02:Integer:%s" % ("cell-beyond-4300-digits" if not inside else "cell-of-4300-digits"),
                          "Integer field with rule '0...' rejects the cell '9' * %d although it is an integer literal inside the range" % ndigits, case)


def replay(ctx, case):
    c = case["case"]
    print(impl_field(c["type"], c["format"], c["empty"], c["length"], c["rule"], c.get("decimal", "."), c.get("thousands", ""), [c["cell"]]))
    print(c)
