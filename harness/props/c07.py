"""C07  Header rows are skipped; the validation limit bounds validation, not data."""
import core
import engine


def run(ctx):
    rnd = ctx.rnd
    ctx.rule = ("header 0..3 x limit in {none, 0..rows+1} x tables of 1..6 rows with a single bad row at every position (header included), "
                "plus random tables with several bad rows, x APIs {cutplace.rows in yield/raise mode, Reader class, cutplace.validate}; exhaustive over "
                "(header, limit, bad position, rows<=5) for a two-field CID, random CIDs for the rest; distinct = distinct (CID, table, header, limit); "
                "non-trivial = the bad row exists")
    scns = []
    base_fields = [
        {"name": "a", "type": "Integer", "empty": False, "length": "", "rule": "1...50", "good": ["7", "8"], "bad": ["x"]},
        {"name": "b", "type": "Scripted", "empty": False, "length": "", "rule": "", "good": ["ok"], "bad": ["n!"]},
    ]
    checks_variants = [[], [{"kind": "S", "col": 1, "veto": "", "fail": False}], [{"kind": "U", "rule": "a"}]]

    def runs_for(table, limit, with_fault=False):
        runs = [
            {"kind": "R", "api": "f", "mode": "yield", "limit": limit, "rows": table},
            {"kind": "R", "api": "c", "mode": "raise", "limit": limit, "rows": table, "close": True},
            {"kind": "R", "api": "c", "mode": "continue", "limit": limit, "rows": table, "close": True},
            {"kind": "R", "api": "v", "mode": "raise", "limit": limit, "stop": limit, "rows": table},
            # the validate-only API stops after N data rows: what follows them is not even read, so a container that is
            # malformed after its last row is a problem only if the limit lets validate() get there
            # a second pass over the same data with the same Reader object (the first one abandoned after a row)
            {"kind": "R", "api": "c", "mode": "yield", "limit": limit, "rows": table, "close": True, "pre": 1},
        ]
        if with_fault:
            # a container that is malformed after its last row
            runs.append({"kind": "R", "api": "v", "mode": "raise", "limit": limit, "stop": limit, "rows": table, "fault": True})
        return runs

    max_rows = 5 if ctx.tier == "quick" else 6
    for nrows in range(1, max_rows + 1):
        for header in range(0, 4):
            for limit in [None] + list(range(0, nrows + 2)):
                for badpos in range(nrows):
                    for ci, checks in enumerate(checks_variants):
                        if ci > 0 and (nrows + header + badpos) % 3 != ci:
                            continue  # thin out the check variants
                        table = [["%d" % (7 + (k % 2)), "ok"] for k in range(nrows)]
                        table[badpos] = ["x", "ok"] if badpos % 2 == 0 else ["7", "n!"]
                        scns.append({"format": "delimited", "allowed": None, "fields": base_fields, "checks": checks, "header": header,
                                     "runs": runs_for(table, limit, with_fault=True), "bad": badpos})
    n_exh = len(scns)
    n = 300 if ctx.tier == "quick" else 4000
    for _ in range(n):
        fmt = rnd.choice(["delimited", "fixed"])
        fields = engine.gen_fields(rnd, rnd.randint(1, 3), fmt)
        table = engine.gen_table(rnd, fields, fmt, rnd.randint(0, 7), p_bad=0.25)
        limit = rnd.choice([None, 0, 1, 2, 3, 4, 8])
        # the malformed tail of a fixed-width container is an incomplete record: records one character wide have none
        faultable = fmt == "delimited" or sum(f["width"] for f in fields) >= 2
        scns.append({"format": fmt, "line": rnd.choice(["lf", "cr", "crlf", "any", "none"]), "allowed": None, "fields": fields, "checks": engine.gen_checks(rnd, fields), "header": rnd.randint(0, 3),
                     "runs": runs_for(table, limit, with_fault=faultable), "bad": None})
    ctx.notes["exhaustive_cases"] = n_exh
    ctx.notes["random_cases"] = n
    for scn, mruns, iruns in engine.run_scenarios(scns):
        sc = engine.strip_scn(scn)
        table = scn["runs"][0]["rows"]
        limit = scn["runs"][0]["limit"]
        sc["runs"] = [dict(r, rows="<table>") for r in sc["runs"]]
        sc["table"] = table
        if isinstance(mruns, str) or isinstance(iruns, str):
            ctx.count(key=repr(sc), nontrivial=False, branch="decl")
            if mruns == "unsupported":
                ctx.skip(sc)
            elif isinstance(mruns, str) != isinstance(iruns, str):
                ctx.machinery_error("scenario declaration disagrees: model=%r impl=%r" % (mruns, iruns))
            continue
        case = {"scenario": sc, "model": mruns, "impl": [engine.public_impl(i) for i in iruns]}
        bad = scn["bad"]
        where = "none" if bad is None else ("header" if bad < scn["header"] else ("beyond" if (limit is not None and bad + 1 > limit) else "window"))
        ctx.count(key=repr(sc), nontrivial=True, branch="h%d:%s:%s" % (scn["header"], "nolimit" if limit is None else "limit", where))
        ctx.sample(case)
        for k, (run, m, i) in enumerate(zip(scn["runs"], mruns, iruns)):
            diffs = engine.compare_run(scn, run, m, i)
            pinned = [d for d in diffs if d in ("ev", "fin", "outcome", "acc", "rej", "log")]
            if pinned:
                ctx.violation("C07:%s:%s:%s:%s" % (run["api"], run["mode"], where, "+".join(pinned)),
                              "header=%d limit=%r run %d: implementation %r, model/spec %r" % (scn["header"], limit, k, engine.public_impl(i), m), case)
            elif diffs:
                ctx.note_drift({"diffs": diffs, "run": k, "case": case})
        # direct statement checks on the implementation (yield mode through cutplace.rows)
        y = iruns[0]
        yev = [] if y["ev"] == "~" else y["ev"].split(",")
        ndata = max(0, len(table) - scn["header"])
        if y["fin"] in ("done",) or y["fin"].startswith("raised"):
            if len(yev) != ndata and y["fin"] == "done":
                ctx.violation("C07:yield-count", "%d events for %d data rows (header %d)" % (len(yev), ndata, scn["header"]), case)
            for e in yev:
                if e.startswith("e"):
                    line = int(e[1:].split(":")[0])
                    if line < scn["header"]:
                        ctx.violation("C07:header-validated", "a header row was validated: %s" % e, case)
                    if limit is not None and line + 1 > limit:
                        ctx.violation("C07:beyond-limit-validated", "a row beyond the limit %d was validated: %s" % (limit, e), case)
    reused_app_cases(ctx)
    command_line_cases(ctx)


def reused_app_cases(ctx):
    """`--until` of an application object that is configured again: every call of set_options starts from scratch"""
    from cutplace import applications

    import os
    import tempfile
    tmp_dir = tempfile.mkdtemp(prefix="c07-")
    try:
        cid_path = os.path.join(tmp_dir, "cid.csv")
        with open(cid_path, "w") as f:
            f.write("D,Format,Delimited\nF,a,,,,Integer,1...9\n")
        for first, second, want in ((["--until", "1"], [], None), (["--until", "1"], ["--until", "-1"], None), (["--until", "3"], ["-u", "0"], 0),
                                    ([], ["--until", "2"], 2), (["--until", "0"], [], None), (["--until", "2"], ["--until", "5"], 5)):
            app = applications.CutplaceApp()
            try:
                app.set_options(["cutplace"] + first + [cid_path])
                app.set_options(["cutplace"] + second + [cid_path])
                got = app.validate_until
            except SystemExit as error:
                got = "exit:%s" % error.code
            except Exception as error:  # noqa
                got = core.classify_exception(error)
            ctx.count(key=("reused-app", tuple(first), tuple(second)), branch="reused-app")
            if got != want:
                ctx.violation("C07:cli-until:reused-application", "set_options(%r) after set_options(%r) leaves the validation limit %r, the command line asks for %r" % (second, first, got, want),
                              {"first": first, "second": second, "limit": got})
    finally:
        import shutil
        shutil.rmtree(tmp_dir, ignore_errors=True)


def command_line_cases(ctx):
    """`--until N` on the command line: exit code 0 iff no row with number <= N (header rows counted) is rejected"""
    from cutplace import applications

    import logging
    import os
    import shutil
    import sys
    import tempfile
    tmp_dir = tempfile.mkdtemp(prefix="c07-")
    logging.disable(logging.CRITICAL)
    old_err = sys.stderr
    try:
        sys.stderr = open(os.devnull, "w")
        for header in (0, 1, 2):
            cid_path = os.path.join(tmp_dir, "cid%d.csv" % header)
            with open(cid_path, "w") as f:
                f.write("D,Format,Delimited\nD,Header,%d\nF,a,,,,Integer,1...9\n" % header)
            for bad in range(1, 7):
                data_path = os.path.join(tmp_dir, "d%d_%d.csv" % (header, bad))
                with open(data_path, "w") as f:
                    f.write("".join(("x" if row == bad else "5") + "\n" for row in range(1, 7)))
                for until in (None, -1, 0, 1, 2, 3, 4, 5, 6, 7):
                    argv = ["cutplace"] + ([] if until is None else ["--until", str(until)]) + [cid_path, data_path]
                    try:
                        code = applications.main(argv)
                    except SystemExit as error:
                        code = error.code
                    limit = None if until in (None, -1) else until
                    rejected = bad > header and (limit is None or bad <= limit)
                    want = 1 if rejected else 0
                    ctx.count(key=("cli", header, bad, until), branch="cli-until")
                    if code != want:
                        ctx.violation("C07:cli-until:exit-%s-instead-of-%s:%s" % (code, want, "zero" if until == 0 else ("none" if limit is None else "n")),
                                      "header %d, broken row %d, --until %r: exit code %r, expected %r" % (header, bad, until, code, want),
                                      {"header": header, "bad_row": bad, "until": until, "exit": code})
    finally:
        sys.stderr.close()
        sys.stderr = old_err
        logging.disable(logging.NOTSET)
        shutil.rmtree(tmp_dir, ignore_errors=True)


def replay(ctx, case):
    print(case["case"])
