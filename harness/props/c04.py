"""C04  A row is accepted iff all cells and row checks pass; errors name the culprit."""
import core
import engine


def compare_read(ctx, pid, scn, run, m, i, pinned):
    """compare one read run; `pinned` lists the keys the property statement fixes"""
    mm = {"ev": m["ev"], "fin": engine.model_final_to_impl(m["fin"]), "acc": m["acc"], "rej": m["rej"], "close": m["close"]}
    diffs = []
    for k in ("ev", "fin", "acc", "rej", "close"):
        if i[k] == "n" and k in ("acc", "rej"):
            continue
        if not engine.same_modulo_star(i[k], mm[k]):
            diffs.append(k)
    mlog = engine.filter_model_log(scn, m["log"])
    if i["log"] != mlog:
        diffs.append("log")
    return diffs, mm, mlog


def first_diff_kind(iev, mev):
    a, b = iev.split(","), mev.split(",")
    for x, y in zip(a, b):
        if not engine.same_modulo_star(x, y):
            if x[0] != y[0]:
                return "verdict"
            xa, ya = x.split(":"), y.split(":")
            if xa[0] != ya[0]:
                return "row-number"
            return "culprit" if xa[1][0] == ya[1][0] else "kind"
    return "count"


def run(ctx):
    rnd = ctx.rnd
    ctx.rule = ("random CIDs of 1-5 fields drawn from 8 field declarations (Text, Integer, Choice, Constant, plugin) with 0-2 checks, "
                "header 0-2, formats delimited and fixed; tables of 0-8 rows over per-field pools of accepted and rejected cells, ragged widths; "
                "read in 'yield' mode (a quarter of the cases as the second pass of a Reader object whose first pass was abandoned); distinct = distinct (CID, table); non-trivial = table has at least one row")
    n = 1500 if ctx.tier == "quick" else 20000
    scns = []
    for _ in range(n):
        fmt = rnd.choice(["delimited", "delimited", "fixed"])
        fields = engine.gen_fields(rnd, rnd.randint(1, 5), fmt)
        scn = {"format": fmt, "line": rnd.choice(["lf", "cr", "crlf", "any", "none"]), "allowed": None, "fields": fields, "checks": engine.gen_checks(rnd, fields), "header": rnd.choice([0, 0, 1, 2]),
               "runs": [{"kind": "R", "api": "c", "mode": "yield", "limit": None, "rows": engine.gen_table(rnd, fields, fmt, rnd.randint(0, 8), p_bad=0.15)}]}
        if rnd.random() < 0.25:
            scn["runs"][0]["pre"] = rnd.randint(1, 3)   # the Reader object already made a pass that was abandoned after some rows
        scns.append(scn)
    for scn, mruns, iruns in engine.run_scenarios(scns):
        case = {"scenario": engine.strip_scn(scn), "model": mruns if isinstance(mruns, str) else [dict(r) for r in mruns],
                "impl": iruns if isinstance(iruns, str) else [{k: v for k, v in r.items() if k != "yielded"} for r in iruns]}
        rows = scn["runs"][0]["rows"]
        if isinstance(mruns, str) or isinstance(iruns, str):
            ctx.count(key=repr(case["scenario"]), nontrivial=False, branch="decl")
            if mruns == "unsupported":
                ctx.skip(case)
            elif isinstance(mruns, str) != isinstance(iruns, str):
                ctx.machinery_error("scenario declaration disagrees: model=%r impl=%r %r" % (mruns, iruns, case["scenario"]))
            continue
        m, i = mruns[0], iruns[0]
        ctx.count(key=repr(case["scenario"]), nontrivial=len(rows) > 0, branch="%s:%s" % (scn["format"], "err" if "e" in m["ev"] else "clean"))
        ctx.sample(case)
        diffs, mm, mlog = compare_read(ctx, "C04", scn, scn["runs"][0], m, i, None)
        # location string must name the input and R<row>C<col>
        for item in i.get("yielded", []):
            if isinstance(item, Exception) and item.location is not None:
                loc = item.location
                want = "<io> (R%dC%d)" % (loc.line + 1, loc.cell + 1)
                if str(loc) != want or not str(item).startswith(want):
                    ctx.violation("C04:location-text", "error text %r does not start with %r" % (str(item), want), case)
                from cutplace import errors
                if isinstance(item, errors.FieldValueError):
                    fname = scn["fields"][loc.cell]["name"] if loc.cell < len(scn["fields"]) else None
                    if fname is None or ("'%s'" % fname) not in item.message:
                        ctx.violation("C04:field-name", "message %r does not name field %r" % (item.message, fname), case)
        if "ev" in diffs:
            ctx.violation("C04:%s:%s" % (first_diff_kind(i["ev"], mm["ev"]), scn["format"]),
                          "yield-mode events differ: implementation %s, model/spec %s" % (i["ev"], mm["ev"]), case)
        elif diffs:
            ctx.note_drift({"diffs": diffs, "case": case})


def replay(ctx, case):
    scn = case["case"]["scenario"]
    for f in scn["fields"]:
        f.setdefault("good", []); f.setdefault("bad", [])
    for scn2, m, i in engine.run_scenarios([scn]):
        print("model:", m)
        print("impl :", [{k: v for k, v in r.items() if k != "yielded"} for r in i] if not isinstance(i, str) else i)
