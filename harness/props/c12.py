"""C12  Delimited data round-trips through write and read for every accepted format."""
import io
import itertools

import core
from core import enc, line, parse_kv

DELIMS = [",", ";", "\t", "|", " ", ":", "\n", "\r", "a", "'", "\\", "#", ".", '"']
ESCAPES = ['"', "\\"]
QUOTINGS = ["all", "minimal"]
LINE_DELIMS = ["any", "lf", "cr", "crlf"]


def rows_str(rows):
    if not rows:
        return "~"
    return ";".join("E" if not r else ",".join(enc(c) for c in r) for r in rows)


def make_format(d, q, e, quoting, ld):
    from cutplace import data, errors

    f = data.DataFormat("delimited")
    try:
        f.set_property("item_delimiter", "%d" % ord(d))
        f.set_property("quote_character", q)
        f.set_property("escape_character", e)
        f.set_property("quoting", quoting)
        f.set_property("line_delimiter", ld)
        f.validate()
    except errors.InterfaceError:
        return None
    return f


def config_class(d, q, e):
    if d in "\r\n":
        return "item-delimiter-is-line-break"
    if d == e and e != q:
        return "item-delimiter-equals-escape-character"
    return "regular"


def tables_for(rnd, d, q, e, n):
    alphabet = ["", "x", d, q, e, " ", "\n", "\r", "x" + d, q + q, e + q, "x y", " x", e + e, "x" + e, "\r\n", "a\rb", "\n" + q, d + d, q + "x" + q, "x" + q,
                # characters readers of other formats treat specially: the byte order mark (U+FEFF is a legal first character of a cell), characters
                # str.splitlines() breaks at, NUL-free control characters, non-ASCII
                "\ufeff", "\ufeffx", "x\ufeff", "\u2028", "\x85x", "\x0b", "x\x0c", "\x1c", "\xa0", "é\u20ac"]
    tables = [[[a]] for a in alphabet]
    # a cell longer than the csv module's default field size limit (131072 characters) - for the plain quote / escape settings only,
    # the model has to walk through every character
    if q == '"' and e == '"' and d in ",;\t":
        tables.append([["y" * 131073, "b"], ["c", "d"]])
    tables += [[[a, b]] for a in alphabet[:9] for b in alphabet[:6]]
    for _ in range(n):
        ncols = rnd.randint(1, 4)
        tables.append([[rnd.choice(alphabet) for _ in range(ncols)] for _ in range(rnd.randint(0, 5))])
    return tables


def run(ctx):
    rnd = ctx.rnd
    ctx.rule = ("every combination of item delimiter (14 values incl. TAB, blank, CR, LF, backslash, quote characters) x all 20 quote characters x 2 escape characters x "
                "2 quoting modes x 4 line delimiter settings (quick: one line delimiter per combination, rotating) that DataFormat.validate accepts, x tables of 0-5 rows x 1-4 columns over an "
                "alphabet built from the configured special characters, blanks, CR, LF, CRLF, the byte order mark, other line-break-like and non-ASCII characters; written by DelimitedRowWriter and read by delimited_rows (and through "
                "cutplace.Writer / cutplace.rows for a sample); distinct = distinct (configuration, table); non-trivial = table has at least one cell")
    from cutplace import data, errors, rowio

    quotes = sorted("!\"#$%&'*+-/:;=?\\^_`~")
    per_cfg = 8 if ctx.tier == "thorough" else 3
    cases = []
    n_cfg = n_refused = 0
    combos = list(itertools.product(DELIMS, quotes, ESCAPES, QUOTINGS, LINE_DELIMS))
    if ctx.tier == "quick":
        # every (delimiter, quote, escape, quoting) with one line delimiter, rotating so that all four settings are spread over the configurations
        combos = [c for k, c in enumerate(itertools.product(DELIMS, quotes, ESCAPES, QUOTINGS, LINE_DELIMS)) if (k // 4 + k % 4) % 4 == 0]
    for d, q, e, quoting, ld in combos:
        f = make_format(d, q, e, quoting, ld)
        if f is None:
            n_refused += 1
            continue
        n_cfg += 1
        kw = rowio._as_delimited_keywords(f) if hasattr(rowio, "_as_delimited_keywords") else None
        tables = tables_for(rnd, d, q, e, per_cfg)
        if ctx.tier == "quick":
            tables = tables[:21:2] + tables[21::7] + tables[-per_cfg:]
        for t in tables:
            cases.append((d, q, e, quoting, ld, f, t))
    ctx.notes["accepted_configurations"] = n_cfg
    ctx.notes["refused_configurations"] = n_refused
    lines_ = []
    for d, q, e, quoting, ld, f, t in cases:
        dq = e == q
        lines_.append(line("csv.rt", enc(d), enc(q), "-" if dq else enc(e), "1" if dq else "0", "1" if quoting == "all" else "0", "0", rows_str(t)))
    outs = core.run_driver(lines_)
    for (d, q, e, quoting, ld, f, t), mo in zip(cases, outs):
        stream = io.StringIO(newline="")
        try:
            w = rowio.DelimitedRowWriter(stream, f)
            w.write_rows(t)
            text = stream.getvalue()
            wtag = "ok"
        except Exception as error:  # noqa
            text, wtag = None, core.classify_exception(error)
        back = None
        rtag = None
        if text is not None:
            try:
                back = list(rowio.delimited_rows(io.StringIO(text, newline=""), f))
                rtag = "ok"
            except errors.DataFormatError:
                rtag = "data:Format"
            except Exception as error:  # noqa
                rtag = core.classify_exception(error)
        cls = config_class(d, q, e)
        case = {"item_delimiter": d, "quote": q, "escape": e, "quoting": quoting, "line_delimiter": ld, "table": t, "written": text,
                "read_back": back, "write": wtag, "read": rtag, "model": mo}
        ctx.count(key=(d, q, e, quoting, ld, repr(t)), nontrivial=any(len(r) for r in t), branch="%s:%s" % (cls, "dq" if e == q else "esc"))
        ctx.sample(case)
        # the property: reading back yields the identical table
        if back != [list(r) for r in t]:
            what = "write fails: %s" % wtag if text is None else ("read fails: %s" % rtag if back is None else "read back %r" % back)
            ctx.violation("C12:round-trip:%s" % cls,
                          "delimiter %r quote %r escape %r quoting %s: table %r -> %r -> %s" % (d, q, e, quoting, t, text, what), case)
        # tie to the model (written text and parse of it)
        if mo == "werr":
            if wtag == "ok":
                ctx.note_drift(case)
        else:
            _, mkv = parse_kv("x " + mo)
            mtext = core.dec(mkv["text"])
            mback = mkv["back"]
            iback = "error" if back is None else rows_str(back)
            if text != mtext or iback != mback:
                if cls == "regular":
                    ctx.violation("C12:model:%s" % ("written-text" if text != mtext else "read-back"),
                                  "implementation writes %r reads %s; model writes %r reads %s" % (text, iback, mtext, mback), case)
                else:
                    ctx.note_drift(case)
    # the validating writer / reader pair on a sample of configurations
    from cutplace import interface, validio
    for d, q, e in [(",", '"', '"'), (";", "'", "\\"), ("\t", '"', "\\"), ("|", "$", '"')]:
        cid = interface.Cid()
        cid.read("c12", [["D", "Format", "Delimited"], ["D", "Item delimiter", "%d" % ord(d)], ["D", "Quote character", q], ["D", "Escape character", e],
                         ["F", "a", "", "X"], ["F", "b", "", "X"]])
        for t in tables_for(rnd, d, q, e, 4)[21:]:
            t2 = [r[:2] + [""] * (2 - len(r[:2])) for r in t]
            out = io.StringIO(newline="")
            with validio.Writer(cid, out) as w:
                w.write_rows(t2)
            try:
                back = list(validio.rows(cid, io.StringIO(out.getvalue(), newline="")))
            except Exception as error:  # noqa
                back = core.classify_exception(error)
            ctx.count(key=("validio", d, q, e, repr(t2)[:300]), branch="validio")
            if back != t2:
                ctx.violation("C12:round-trip:validio", "cutplace.Writer/rows: %.200r -> %.200r -> %.200r" % (t2, out.getvalue(), back), {"table": [[c_[:50] for c_ in r_] for r_ in t2]})


def replay(ctx, case):
    print(case["case"])
