"""C03  Empty, length and allowed-character guards hold for every field type.

Every declaration (type x format x empty flag x length x allowed characters) is built both by the
real `<Type>FieldFormat` constructor and by the Lean model `declareField`; every cell is pushed
through the real `validated()` and through the model; the declarative guard spec (`Spec.guardSpec`,
the statement of C03) says for which cells the verdict is fixed whatever the type and rule say.
"""
import zlib

import core
from core import enc, line, parse_kv

TYPES = {
    # type -> list of (rule, base cells)
    "Text": [("", ["x", "xy", "xyz", "wxyz", "vwxyz", "a b", " x ", "x  "])],
    "Scripted": [("", ["x", "xy", "x!z", "wxyz", "vwxyz", "!"])],
    "Integer": [("", ["5", "42", "123", "-7", "1234", "12345", "x1", "007", " 42", "-12"]),
                ("10...500", ["5", "42", "123", "500", "501", "1234", "9", " 42 "])],
    "Choice": [("a,ab,abc,abcd,vwxyz", ["a", "ab", "abc", "abcd", "vwxyz", "b", "AB", "ab "])],
    "Constant": [("abc", ["abc", "ab", "abcd", "ABC", "abc ", " abc"])],
}
LENGTHS = ["", "3", "2...", "...4", "1...2, 5", "0...3", "4...5", "0", "...0", "0, 5...7"]
ALLOWED = [None, "32...126", "97...122", "32, 48...57, 97...122", "...64"]
FORMATS = ["delimited", "fixed", "excel", "ods"]


def impl_value(v):
    if v is None:
        return "N"
    if isinstance(v, str):
        return "S" + enc(v)
    if isinstance(v, bool):
        return "O" + enc(repr(v))
    if isinstance(v, int):
        return "I%d" % v
    return "O" + enc(repr(v))


def type_class(name):
    from cutplace import fields
    import plugin_types

    if name == "Scripted":
        return plugin_types.ScriptedFieldFormat
    return getattr(fields, name + "FieldFormat")


def impl_decl(ty, fmt, allowed, allow_empty, length, rule, cells):
    from cutplace import data, errors

    # in every other declaration the allowed-characters property is set after the field exists (a CID may list the
    # property row after the field rows): the range that counts is the data format's, whenever it was declared
    late = allowed is not None and zlib.crc32(repr((ty, fmt, allowed, allow_empty, length, rule)).encode("utf-8")) % 2 == 1
    try:
        df = data.DataFormat(fmt)
        if allowed is not None and not late:
            df.set_property(data.KEY_ALLOWED_CHARACTERS, allowed)
            df.validate()
    except Exception as error:  # noqa
        return "allowed:" + core.classify_exception(error), None
    try:
        f = type_class(ty)("f", allow_empty, length, rule, df)
    except Exception as error:  # noqa
        return core.classify_exception(error), None
    if late:
        try:
            df.set_property(data.KEY_ALLOWED_CHARACTERS, allowed)
            df.validate()
        except Exception as error:  # noqa
            return "allowed:" + core.classify_exception(error), None
    out = []
    for c in cells:
        try:
            out.append(impl_value(f.validated(c)))
        except errors.FieldValueError:
            out.append("R")
        except Exception as error:  # noqa
            out.append("!" + core.classify_exception(error))
    return "ok", out


def cells_for(base, allowed):
    # the length of a cell is its number of characters (code points): combining marks count
    cells = ["", " ", "  ", "   ", "    ", "\t", " \t ", "e\u0301", "cafe\u0301", "a\u0308bc", "cafe\u0301s", "e\u0301e\u0301e\u0301"]
    for b in base:
        cells.append(b)
        # exactly one character outside typical allowed ranges at every position
        for bad in ("#", "é", "Z"):
            for i in range(len(b)):
                cells.append(b[:i] + bad + b[i + 1:])
    seen = set()
    out = []
    for c in cells:
        if c not in seen:
            seen.add(c)
            out.append(c)
    return out


def run(ctx):
    ctx.rule = ("exhaustive product: 5 field types (Text, Integer with/without rule, Choice, Constant, harness plugin) x 4 formats x "
                "{empty allowed, not} x 10 length declarations (incl. upper limit 0) (fixed: exact widths 1..5) x 5 allowed-character ranges x cells {empty, 1-4 blanks, tab, "
                "values inside/outside the length, exactly one disallowed character at every position}; distinct = distinct (declaration, cell); "
                "non-trivial = every case (each is a guard decision)")
    ctx.exhaustive = True
    decls = []
    for ty, variants in TYPES.items():
        for rule, base in variants:
            for fmt in FORMATS:
                lengths = ["1", "2", "3", "4", "5"] if fmt == "fixed" else LENGTHS
                for length in lengths:
                    for allowed in ALLOWED:
                        for allow_empty in (False, True):
                            r = rule
                            if ty == "Constant" and allow_empty:
                                r = ""  # a constant that may be empty must have an empty rule
                            decls.append((ty, fmt, allowed, allow_empty, length, r, cells_for(base, allowed)))
    lines = [line("field.decl", ty, fmt, "n" if al is None else enc(al), "1" if ae else "0", enc(le), enc(ru),
                  ",".join(enc(c) for c in cells)) for ty, fmt, al, ae, le, ru, cells in decls]
    outs = core.run_driver(lines)
    for (ty, fmt, al, ae, le, ru, cells), mo in zip(decls, outs):
        mtag, mkv = parse_kv(mo)
        itag, ivals = impl_decl(ty, fmt, al, ae, le, ru, cells)
        decl = {"type": ty, "format": fmt, "allowed": al, "empty": ae, "length": le, "rule": ru}
        if mtag == "unsupported":
            ctx.skip(decl)
            continue
        if itag != mtag:
            ctx.count(key=("decl", ty, fmt, al, ae, le, ru), branch="decl:" + itag)
            ctx.note_drift({"decl": decl, "impl": itag, "model": mtag})
            continue
        if ivals is None:
            ctx.count(key=("decl", ty, fmt, al, ae, le, ru), branch="decl:" + itag)
            continue
        mvals = mkv["M"].split(",")
        gvals = mkv["G"].split(",")
        empty_value = mkv["E"]
        for c, iv, mv, gv in zip(cells, ivals, mvals, gvals):
            case = dict(decl, cell=c, impl=iv, model=mv, guard_spec=gv)
            ctx.count(key=(ty, fmt, al, ae, le, ru, c), branch="%s:%s" % (gv, "acc" if iv != "R" else "rej"))
            ctx.sample(case)
            if mv == "U":
                ctx.skip(case)
                continue
            if gv != "?":
                want = empty_value if gv == "A" else "R"
                if mv != want:
                    # inside the hypotheses of C03_guards the model equals the spec (that is the theorem)
                    ctx.machinery_error("model != guard spec: %r" % case)
                if iv != want:
                    blank = c != "" and c.strip(" ") == ""
                    sig = "C03:%s:%s:%s" % ("blank-fixed" if (blank and fmt == "fixed") else ("empty" if c == "" else "guard"),
                                            "accepted" if iv != "R" else "rejected", fmt)
                    ctx.violation(sig, "%sFieldFormat(empty=%s, length=%r, rule=%r, format=%s, allowed=%r).validated(%r) -> %s but the guards demand %s"
                                  % (ty, ae, le, ru, fmt, al, c, iv, want), case)
            elif iv != mv:
                ctx.note_drift(case)
    ctx.assumptions = ["fixed-width 'blank' = U+0020 only; blank-only fixed cells wider than the field or containing a disallowed blank are not claimed"]


def replay(ctx, case):
    c = case["case"]
    print(impl_decl(c["type"], c["format"], c["allowed"], c["empty"], c["length"], c["rule"], [c["cell"]]))
    print(c)
