"""C17  The storage format of CID and data does not change the verdict."""
import csv
import os
import shutil
import tempfile

import cidlib
import core
import ods_enc

PLAIN = {n: False for n in ("colRuns", "rowRuns", "whitespace", "spans", "paragraphs")}


def store_rows(tmp, name, rows, kind):
    """store a table of text cells as csv / ods / xlsx; returns the path"""
    width = max([len(r) for r in rows] + [1])
    if kind == "csv":
        path = os.path.join(tmp, name + ".csv")
        with open(path, "w", newline="", encoding="utf-8") as f:
            csv.writer(f).writerows(rows)
    elif kind == "ods":
        path = os.path.join(tmp, name + ".ods")
        ods_enc.write_ods(path, ods_enc.encode_doc(dict(PLAIN, colRuns=True), [rows]))
    else:
        import xlsxwriter
        path = os.path.join(tmp, name + ".xlsx")
        wb = xlsxwriter.Workbook(path)
        ws = wb.add_worksheet()
        for y, r in enumerate(rows):
            for x, c in enumerate(r):
                if c != "":
                    ws.write_string(y, x, c)
        wb.close()
    return path


def cid_canonical(path):
    from cutplace import errors, interface
    import props.c11 as c11

    try:
        cid = interface.Cid(path)
    except errors.CutplaceError as error:
        return core.classify_exception(error) + ": " + str(error)[:80]
    except Exception as error:  # noqa
        return core.classify_exception(error)
    fields = []
    for f in cid.field_formats:
        extra = ""
        if hasattr(f, "valid_range"):
            extra = str(f.valid_range)
        if hasattr(f, "choices"):
            extra = repr(f.choices)
        fields.append((f.field_name, type(f).__name__, f.is_allowed_to_be_empty, str(f.length), f.rule, extra))
    checks = [(n, type(cid.check_map[n]).__name__, cid.check_map[n].rule) for n in cid.check_names]
    return repr((c11.impl_attrs(cid.data_format), fields, checks))


def verdicts(cid, path):
    from cutplace import errors, validio

    out = []
    try:
        for item in validio.Reader(cid, path, on_error="yield").rows():
            if isinstance(item, errors.DataError):
                loc = item.location
                out.append("%s@%s:%s" % (core.classify_exception(item), loc.line if loc else "?", loc.cell if loc else "?"))
            else:
                out.append(("row", tuple(item)))
    except Exception as error:  # noqa
        out.append("!" + core.classify_exception(error))
    return out


def run(ctx):
    rnd = ctx.rnd
    ctx.rule = ("generated CIDs (all 8 field types incl. Decimal and DateTime, checks, property rows; text outside ASCII in examples, choices, constants, check descriptions) stored as CSV, ODS and XLSX and loaded through Cid(path); "
                "generated tables of text cells (accepted and rejected values per field, rows of empty cells only) stored as delimited text, ODS and XLSX and read under CIDs that differ only "
                "in their Format property; distinct = distinct (CID, table); non-trivial = every case")
    n = 120 if ctx.tier == "quick" else 600
    tmp = tempfile.mkdtemp(prefix="c17-")
    try:
        from cutplace import interface
        for it in range(n):
            # ---- (a) CID storage ------------------------------------------------------------------------------------------
            rows, info = cidlib.gen_valid_cid(rnd, fmt=rnd.choice(["delimited", "fixed", "excel", "ods"]))
            rows = [list(r) for r in rows]
            if it < 6:
                # short CIDs whose cells hold more bars, semicolons or tabs than the text form has commas
                filler = [("RegEx", "^(AT|BE|CH|DE|DK|ES|FI|FR|GB|IT|NL|NO|PL|PT|SE|SK|A|B|C|D|E|F|G|H|I|J|K|L|M|N|O|P|Q|R|S|T|U)$"),
                          ("Choice", "'a;b', 'c;d', 'e;f;g;h;i;j;k;l;m;n;o;p;q;r;s;t;u;v;w;x;y;z;1;2;3;4;5;6;7;8;9'"),
                          ("Pattern", "a\tb\tc\td\te\tf\tg\th\ti\tj\tk\tl\tm\tn\to\tp\tq\tr\ts\tt\tu\tv*")][it % 3]
                rows = [["D", "Format", "Delimited"], ["F", "code", "", "X", "", filler[0], filler[1]]]
                info = {"format": "delimited"}
            elif it < 10:
                # text outside ASCII in examples, choices, constants and check descriptions: a CID stored as text is UTF-8
                rows = [[["D", "Format", "Delimited"], ["F", "city", "Zürich", "", "", "Choice", "Zürich, Genève, 'São Paulo', Wien"],
                         ["F", "name", "Müller", "X", "", "Text", ""], ["C", "Schlüssel muss eindeutig sein", "IsUnique", "city, name"]],
                        [["D", "Format", "Delimited"], ["D", "Allowed characters", "32...0x2fff"], ["F", "currency", "€", "", "1", "Constant", "'€'"],
                         ["F", "amount", "1", "", "", "Integer", ""]],
                        [["D", "Format", "Fixed"], ["F", "note", "日本語", "", "3", "Text", ""], ["F", "code", "ß", "", "1", "Pattern", "[ßäöü]"]],
                        [["D", "Format", "Excel"], ["", "Kommentar: größer, кириллица, ελληνικά"], ["F", "when", "", "X", "", "DateTime", "DD.MM.YYYY"],
                         ["C", "höchstens drei", "DistinctCount", "when < 4"]]][it - 6]
                info = {"format": "delimited"}
            # xlsx / ods cannot keep trailing empty cells apart from missing ones: neither can a CID reader care (cells are padded)
            canon = {}
            for kind in ("csv", "ods", "xlsx"):
                path = store_rows(tmp, "cid%d" % it, rows, kind)
                canon[kind] = cid_canonical(path)
                os.remove(path)
            case = {"cid_rows": rows, "loaded": canon}
            ctx.count(key=("cid", repr(rows)), branch="cid:" + info["format"])
            ctx.sample(case)
            if len(set(canon.values())) != 1:
                odd = [k for k in canon if list(canon.values()).count(canon[k]) == 1]
                ctx.violation("C17:cid-storage:%s" % (odd[0] if odd else "all-differ"), "the same CID loads differently from csv / ods / xlsx: %r" % canon, case)
            # ---- (b) data storage ----------------------------------------------------------------------------------------------
            fields = []
            for k in range(rnd.randint(1, 5)):
                ty, rule, length, example, width = rnd.choice(cidlib.FIELD_TEMPLATES)
                good = {"Text": ["hello", "x"], "Integer": ["17", "1", "-5", "100"], "Choice": ["red", "c", "green"], "Constant": ["K"],
                        "DateTime": ["2024-02-29", "31.12.99 23:59", "2023-01-01"], "Pattern": ["Abcz", "az"], "RegEx": ["abc1", "a"], "Decimal": ["12.50", "3.14", "0"]}[ty]
                bad = {"Text": [], "Integer": ["x", "1.5", "99999999"], "Choice": ["RED", "nope"], "Constant": ["k"], "DateTime": ["2023-02-30", "x"],
                       "Pattern": ["Abc", "zA"], "RegEx": ["1abc", "!"], "Decimal": ["1,5", "abc", "99999"]}[ty]
                if ty == "DateTime" and "ss" in rule:
                    # a rule with date and time: midnight is a time like any other, in every format
                    good = ["2024-02-29 00:00:00", "2024-02-29 12:30:15", "1999-12-31 00:00:00"]
                fields.append({"name": "f%d" % k, "type": ty, "rule": rule, "length": length, "empty": rnd.random() < 0.3 and ty != "Constant", "good": good, "bad": bad})
            table = []
            for _ in range(rnd.randint(1, 6)):
                row = [rnd.choice(f["bad"]) if (f["bad"] and rnd.random() < 0.2) else (rnd.choice(f["good"] + ([""] if f["empty"] else []))) for f in fields]
                table.append(row)
            if rnd.random() < 0.5:
                # a row of empty cells only, somewhere before the last row: every storage has to deliver it
                table.insert(rnd.randrange(len(table) + 1), ["" for _ in fields])
            table.append([f["good"][0] for f in fields])  # a full last row keeps the used range rectangular
            checks = [["C", "unique", "IsUnique", fields[0]["name"]]] if rnd.random() < 0.5 else []
            results = {}
            for fmt, kind in (("Delimited", "csv"), ("ODS", "ods"), ("Excel", "xlsx")):
                cid_rows = [["D", "Format", fmt]] + [["F", f["name"], "", "X" if f["empty"] else "", f["length"], f["type"], f["rule"]] for f in fields] + checks
                cid = interface.Cid()
                try:
                    cid.read("c17", cid_rows)
                except Exception as error:  # noqa
                    results[fmt] = ["cid:" + core.classify_exception(error)]
                    continue
                if kind == "csv":
                    cid.data_format.__dict__["_encoding"] = "utf-8" if False else cid.data_format.encoding
                path = store_rows(tmp, "data%d" % it, table, kind)
                if kind == "csv":
                    # the delimited CID reads with its declared encoding (cp1252); the table is ASCII only
                    pass
                results[fmt] = verdicts(cid, path)
                os.remove(path)
            case = {"fields": [{k: v for k, v in f.items() if k not in ("good", "bad")} for f in fields], "checks": checks, "table": table,
                    "verdicts": {k: [repr(x) for x in v] for k, v in results.items()}}
            ctx.count(key=("data", repr(case["fields"]), repr(table)), branch="data:" + "+".join(sorted(set(f["type"] for f in fields))))
            ctx.sample(case)
            if not (results["Delimited"] == results["ODS"] == results["Excel"]):
                types = sorted(set(f["type"] for f in fields))
                odd = [k for k in results if [repr(v) for v in results.values()].count(repr(results[k])) == 1]
                first = next((a for a in zip(*results.values()) if len(set(map(repr, a))) > 1), None)
                blame = "cid" if any(v and isinstance(v[0], str) and v[0].startswith("cid:") for v in results.values()) else "verdict"
                ctx.violation("C17:data-storage:%s:%s" % (blame, odd[0] if odd else "all-differ"),
                              "the same table gets different %s under Delimited / ODS / Excel: %r" % (blame, first or results), case)
    finally:
        shutil.rmtree(tmp, ignore_errors=True)


def replay(ctx, case):
    print(case["case"])
