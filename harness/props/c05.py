"""C05  Uniqueness and distinct-count checks are decided over the whole data set."""
import operator

import core
import engine

OPS = {"<": operator.lt, "<=": operator.le, "==": operator.eq, "!=": operator.ne, ">=": operator.ge, ">": operator.gt}


def statement_check(ctx, scn, run, i, case):
    """the statement of C05 evaluated directly on the implementation's yield-mode trace"""
    if run["mode"] != "yield" or i["fin"] not in ("done",) and not i["fin"].startswith("raised"):
        return
    table = run["rows"][scn["header"]:]
    evs = [] if i["ev"] == "~" else i["ev"].split(",")
    if len(evs) != len(table):
        return
    names = [f["name"] for f in scn["fields"]]
    accepted = [e == "r" for e in evs]
    vetoers = [c for c in scn["checks"] if c["kind"] in ("U", "S")]
    for ci, c in enumerate(scn["checks"]):
        if c["kind"] == "U":
            cols = [names.index(n.strip()) for n in c["rule"].split(",")]
            def key(r):
                return tuple(r[x] for x in cols)
            for k, e in enumerate(evs):
                earlier = [j for j in range(k) if accepted[j] and key(table[j]) == key(table[k])] if len(table[k]) == len(names) else []
                if e.startswith("e") and e.split(":")[1] == "C%d" % ci:
                    see = e.split(":")[2]
                    if not earlier:
                        # rejected although no earlier *accepted* row has this key
                        multi = len(vetoers) > 1
                        ctx.violation("C05:unique:rejected-without-accepted-duplicate:%s" % ("several-vetoing-checks" if multi else "single-check"),
                                      "row %d rejected by IsUnique(%s) but no earlier accepted row has key %r" % (k + scn["header"], c["rule"], key(table[k])), case)
                    elif see != str(earlier[0] + scn["header"]):
                        ctx.violation("C05:unique:see-also:%s" % ("several-vetoing-checks" if len(vetoers) > 1 else "single-check"), "row %d: see-also line %s, first accepted occurrence is line %d" % (k + scn["header"], see, earlier[0] + scn["header"]), case)
                    if int(e[1:].split(":")[0]) != k + scn["header"]:
                        ctx.violation("C05:unique:location", "duplicate at data row %d reported at line %s" % (k, e), case)
                elif e == "r" and earlier:
                    ctx.violation("C05:unique:duplicate-accepted", "row %d accepted although accepted row %d has the same key %r" % (k + scn["header"], earlier[0] + scn["header"], key(table[k])), case)
        elif c["kind"] == "D" and run["api"] == "c" and i["fin"] == "done":
            parts = c["rule"].split()
            col, op, n = names.index(parts[0]), parts[1], int(parts[2])
            reached = []
            unknown = False
            for k, e in enumerate(evs):
                if e == "r":
                    reached.append(table[k][col])
                elif ":C" in e:
                    idx = e.split(":")[1][1:]
                    if idx == "*":
                        unknown = True
                    elif int(idx) > ci:
                        reached.append(table[k][col])
            if unknown:
                continue
            should_fail = not OPS[op](len(set(reached)), n)
            # first failing end check in declaration order decides what close() reports
            earlier_fail = False
            for cj, c2 in enumerate(scn["checks"][:ci]):
                if c2["kind"] == "S" and c2["fail"]:
                    earlier_fail = True
                if c2["kind"] == "D":
                    earlier_fail = None
            if earlier_fail:
                continue
            failed_here = i["close"] in ("chk%d" % ci,)
            if earlier_fail is None:
                if failed_here and not should_fail:
                    ctx.violation("C05:distinct:fails-wrongly", "close fails for %r with %d distinct values" % (c["rule"], len(set(reached))), case)
                continue
            if should_fail != failed_here and not (i["close"] == "chk*"):
                ctx.violation("C05:distinct:%s" % ("missed" if should_fail else "fails-wrongly"),
                              "DistinctCount %r: %d distinct values among rows that reached the check, close -> %s" % (c["rule"], len(set(reached)), i["close"]), case)


def run(ctx):
    rnd = ctx.rnd
    ctx.rule = ("row sequences of 0-10 rows over key alphabets of size 2-3 (duplicates at every pair of positions), key sets of 1-3 fields (Integer, plugin and Text fields whose values contain commas and blanks; a third of them may be empty, the empty cell being one more key value), "
                "DistinctCount with all six operators x thresholds 0-4, interleaved rows rejected by a field or by another check, one or two checks in either order, "
                "three error modes and the validate-only API (with and without validation limit) run one after the other on the same CID object in any order (half of the time with all Reader objects created up front); statement evaluated on the implementation's trace + model comparison; distinct = distinct (CID, table, mode); "
                "non-trivial = at least two data rows")
    n = 1500 if ctx.tier == "quick" else 20000
    scns = []
    for _ in range(n):
        nf = rnd.randint(1, 3)
        fields = []
        for j in range(nf):
            # a third of the fields may be empty: the empty cell is then one more key value (also for keys made of empty cells only)
            may_be_empty = rnd.random() < 0.35
            extra = [""] if may_be_empty else []
            if rnd.random() < 0.3:
                # text keys containing the characters a naive joined key would use as separator
                fields.append({"name": "f%d" % j, "type": "Text", "empty": may_be_empty, "length": "", "rule": "",
                               "good": ["a", "a, b", "b", "b, a", ", ", "a,"] + extra, "bad": []})
            elif rnd.random() < 0.7:
                fields.append({"name": "f%d" % j, "type": "Integer", "empty": may_be_empty, "length": "", "rule": "1...3",
                               "good": ["1", "2", "3"][:rnd.randint(2, 3)] + extra, "bad": ["x", "9"]})
            else:
                fields.append({"name": "f%d" % j, "type": "Scripted", "empty": may_be_empty, "length": "", "rule": "", "good": ["a", "b"] + extra, "bad": ["a!"]})
        checks = []
        kinds = rnd.choice([["U"], ["D"], ["U", "D"], ["D", "U"], ["U", "U"], ["S", "U"], ["U", "S"], ["U", "D", "S"]])
        for kind in kinds:
            if kind == "U":
                cols = rnd.sample(range(nf), rnd.randint(1, nf))
                rule = ", ".join("f%d" % c for c in cols)
                if any(c["kind"] == "U" and c["rule"] == rule for c in checks):
                    continue
                checks.append({"kind": "U", "rule": rule})
            elif kind == "D":
                rule = "f%d %s %d" % (rnd.randrange(nf), rnd.choice(sorted(OPS)), rnd.randint(0, 4))
                if any(c["kind"] == "D" and c["rule"] == rule for c in checks):
                    continue
                checks.append({"kind": "D", "rule": rule})
            else:
                checks.append({"kind": "S", "col": rnd.randrange(nf), "veto": rnd.choice(["1", "a", "2"]), "fail": False})
        table = engine.gen_table(rnd, fields, "delimited", rnd.randint(0, 10), p_bad=rnd.choice([0, 0.1, 0.25]), p_ragged=0.03)
        header = rnd.choice([0, 0, 0, 1])
        # the three passes share the CID object; their order varies, and in half of the cases all three Reader objects exist before the first pass starts
        modes = ["yield", "continue", "raise"]
        rnd.shuffle(modes)
        early = rnd.random() < 0.5
        runs = [{"kind": "R", "api": "c", "mode": mode, "limit": None, "rows": table, "close": True, "early": early} for mode in modes]
        # the validate-only API, without and with a validation limit (rows beyond the limit do not reach the checks)
        vlimit = rnd.choice([None, None] + list(range(1, len(table) + 2)))
        runs.insert(rnd.randint(0, 3), {"kind": "R", "api": "v", "mode": "raise", "limit": vlimit, "stop": vlimit, "rows": table})
        scns.append({"format": "delimited", "allowed": None, "fields": fields, "checks": checks, "header": header, "runs": runs})
    for scn, mruns, iruns in engine.run_scenarios(scns):
        sc = engine.strip_scn(scn)
        table = scn["runs"][0]["rows"]
        sc["runs"] = [dict(r, rows="<table>") for r in sc["runs"]]
        sc["table"] = table
        if isinstance(mruns, str) or isinstance(iruns, str):
            ctx.count(key=repr(sc), nontrivial=False, branch="decl")
            if mruns == "unsupported":
                ctx.skip(sc)
            elif isinstance(mruns, str) != isinstance(iruns, str):
                ctx.machinery_error("scenario declaration disagrees: model=%r impl=%r %r" % (mruns, iruns, sc))
            continue
        case = {"scenario": sc, "model": mruns, "impl": [engine.public_impl(i) for i in iruns]}
        kinds = "".join(c["kind"] for c in scn["checks"])
        ctx.count(key=repr(sc), nontrivial=len(table) - scn["header"] >= 2, branch="%s:%s" % (kinds, "dupl" if ":C" in next(m for m, r in zip(mruns, scn["runs"]) if r["api"] == "c")["ev"] else "nodupl"))
        ctx.sample(case)
        for k, (run, m, i) in enumerate(zip(scn["runs"], mruns, iruns)):
            statement_check(ctx, scn, run, i, case)
            diffs = engine.compare_run(scn, run, m, i)
            pinned = [d for d in diffs if d in ("ev", "fin", "close", "outcome")]
            if pinned:
                ctx.violation("C05:model:%s:%s" % (run["mode"], "+".join(pinned)), "run %d: implementation %r, model %r" % (k, engine.public_impl(i), m), case)
            elif diffs:
                ctx.note_drift({"diffs": diffs, "case": case})


def replay(ctx, case):
    print(case["case"])
