"""C13  Fixed-width reading is lossless and aligned.

Every input string is pushed through the real `rowio.fixed_rows`, the Lean transcription of its
state machine (`fixedRows`, with the one-character push-back) and the executable grammar
(`fixedSpec`, proved equivalent to the inductive language `Parses`).
"""
import io
import zlib
import itertools
import multiprocessing

import core
from core import enc, line

ALPHA = "ab\r\n"
# what str.splitlines() and friends break lines at, apart from CR and LF; plus tab, NUL, no-break space
BREAK_LIKE = ["\x0b", "\x0c", "\x1c", "\x1d", "\x1e", "\x85", "\u2028", "\u2029", "\t", "\x00", "\xa0"]
LDS = {"any": "any", "lf": "\n", "cr": "\r", "crlf": "\r\n", "none": None}


def impl_fixed(text, widths, ld):
    from cutplace import errors, rowio

    fields = [("f%d" % i, w) for i, w in enumerate(widths)]
    try:
        rows = list(rowio.fixed_rows(io.StringIO(text, newline=""), "utf-8", fields, LDS[ld]))
    except errors.DataFormatError:
        return "error"
    except Exception as error:  # noqa
        return "!" + core.classify_exception(error)
    if not rows:
        return "ok ~"
    return "ok " + ";".join(",".join(enc(c) for c in r) for r in rows)


def impl_reader(text, widths, ld, on_error="raise"):
    """the same stream through the validating reader: a fixed-width CID of Text fields with these widths and this setting"""
    from cutplace import errors, interface, validio

    cid = interface.Cid()
    cid.read("c13", [["D", "Format", "Fixed"], ["D", "Line delimiter", {"any": "Any", "lf": "LF", "cr": "CR", "crlf": "CRLF", "none": "None"}[ld]],
                     ["D", "Allowed characters", "0..."]] + [["F", "f%d" % i, "", "X", str(w), "Text", ""] for i, w in enumerate(widths)])
    try:
        rows = list(validio.Reader(cid, io.StringIO(text, newline=""), on_error=on_error).rows())
    except errors.DataFormatError:
        return "error"
    except Exception as error:  # noqa
        return "!" + core.classify_exception(error)
    if not rows:
        return "ok ~"
    return "ok " + ";".join(",".join(enc(c) for c in r) for r in rows)


def impl_path(text, widths, ld):
    """the same characters stored in a file (no newline translation when writing) and read through its path"""
    import os
    import shutil
    import tempfile
    from cutplace import errors, rowio

    fields = [("f%d" % i, w) for i, w in enumerate(widths)]
    tmp_dir = tempfile.mkdtemp(prefix="c13-")
    try:
        path = os.path.join(tmp_dir, "data.txt")
        with open(path, "w", encoding="utf-8", newline="") as f:
            f.write(text)
        try:
            rows = list(rowio.fixed_rows(path, "utf-8", fields, LDS[ld]))
        except errors.DataFormatError:
            return "error"
        except Exception as error:  # noqa
            return "!" + core.classify_exception(error)
    finally:
        shutil.rmtree(tmp_dir, ignore_errors=True)
    if not rows:
        return "ok ~"
    return "ok " + ";".join(",".join(enc(c) for c in r) for r in rows)


def _impl_chunk(args):
    core.import_cutplace()
    return [impl_fixed(t, w, l) for t, w, l in args]


def width_lists(maxn=3, maxw=3):
    out = []
    for n in range(1, maxn + 1):
        out.extend(itertools.product(range(1, maxw + 1), repeat=n))
    return out


def classify(ld, impl, spec, text):
    if spec == "error" and impl.startswith("ok"):
        kind = "accepts-malformed"
    elif spec.startswith("ok") and impl == "error":
        kind = "rejects-wellformed"
    elif impl.startswith("!"):
        kind = "internal-error"
    else:
        kind = "wrong-rows"
    feature = "crlf-boundary" if "\r" in text else ("lf" if "\n" in text else "plain")
    return "C13:%s:%s:%s" % (kind, ld, feature)


def run(ctx):
    rnd = ctx.rnd
    maxlen = 5 if ctx.tier == "quick" else 8
    ctx.rule = ("exhaustive: all strings up to length %d over {a, b, CR, LF} x all width lists with 1-3 fields of width 1-3 x the five line-delimiter settings; "
                "plus random longer well-formed files (widths up to 5, up to 6 rows) with one character deleted, inserted or replaced at every offset; 11 characters other tools treat as line breaks (VT, FF, FS-RS, NEL, U+2028/9, tab, NUL, NBSP) in place of / next to the delimiter and inside records; a sample also through the validating reader (raise and continue mode) and through a file path; "
                "distinct = distinct (text, widths, setting); non-trivial = non-empty text" % maxlen)
    ctx.exhaustive = True
    cases = []
    wl = width_lists()
    for n in range(0, maxlen + 1):
        for chars in itertools.product(ALPHA, repeat=n):
            text = "".join(chars)
            for ws in wl:
                if n > 6 and len(ws) == 3 and sum(ws) > 6:
                    continue
                for ld in LDS:
                    cases.append((text, ws, ld))
    n_exh = len(cases)
    n_rand = 300 if ctx.tier == "quick" else 3000
    for _ in range(n_rand):
        ws = tuple(rnd.randint(1, 5) for _ in range(rnd.randint(1, 4)))
        ld = rnd.choice(sorted(LDS))
        delims = {"any": ["\n", "\r", "\r\n"], "lf": ["\n"], "cr": ["\r"], "crlf": ["\r\n"], "none": [""]}[ld]
        text = ""
        nrows = rnd.randint(1, 6)
        for k in range(nrows):
            text += "".join(rnd.choice("abcde \r\n"[:6 + (2 if rnd.random() < 0.2 else 0)]) for _ in range(sum(ws)))
            if k < nrows - 1 or rnd.random() < 0.5:
                text += rnd.choice(delims)
        cases.append((text, ws, ld))
        for off in range(len(text) + 1):
            op = rnd.choice("dir")
            if op == "d" and off < len(text):
                cases.append((text[:off] + text[off + 1:], ws, ld))
            elif op == "i":
                cases.append((text[:off] + rnd.choice("a\r\n") + text[off:], ws, ld))
            elif off < len(text):
                cases.append((text[:off] + rnd.choice("a\r\n") + text[off + 1:], ws, ld))
    # characters other text tools treat as line breaks (str.splitlines, universal newlines, Unicode) are ordinary characters here:
    # in place of a delimiter they are a wrong delimiter, inside a record they are data
    n_before = len(cases)
    for x in BREAK_LIKE:
        for ws in ((3, 2), (1,), (2, 2, 1)):
            width = sum(ws)
            rows_ = ["abcdefgh"[:width], "ijklmnop"[:width]]
            for ld in LDS:
                d = {"any": "\n", "lf": "\n", "cr": "\r", "crlf": "\r\n", "none": ""}[ld]
                for text in (rows_[0] + x + rows_[1] + d,             # in place of the delimiter
                             rows_[0] + x + d + rows_[1] + d,         # before the delimiter
                             rows_[0] + d + x + rows_[1] + d,         # after the delimiter
                             rows_[0] + d + rows_[1] + x,             # at the very end
                             x + rows_[0][1:] + d + rows_[1][:-1] + x + d,   # first and last character of a record
                             rows_[0] + d + rows_[1][:1] + x + rows_[1][2:] + d):   # inside a record
                    cases.append((text, ws, ld))
    ctx.notes["break_like_cases"] = len(cases) - n_before
    ctx.notes["exhaustive_cases"] = n_exh
    ctx.notes["mutation_cases"] = n_before - n_exh
    # model + spec
    outs = core.run_driver([line("fixed", ",".join(str(w) for w in ws), ld, enc(text)) for text, ws, ld in cases])
    # implementation, in parallel
    chunk = 20000
    chunks = [cases[i:i + chunk] for i in range(0, len(cases), chunk)]
    if len(chunks) > 1:
        with multiprocessing.Pool(min(16, len(chunks))) as pool:
            impl = [x for part in pool.map(_impl_chunk, chunks) for x in part]
    else:
        impl = _impl_chunk(cases)
    for (text, ws, ld), mo, io_ in zip(cases, outs, impl):
        m, s = mo.split("\t")
        m, s = m[2:], s[2:]
        ctx.count(key=(text, ws, ld), nontrivial=text != "", branch="%s:%s" % (ld, "ok" if s.startswith("ok") else "error"))
        case = {"text": text, "widths": list(ws), "line_delimiter": ld, "impl": io_, "model": m, "spec": s}
        ctx.sample(case)
        if m != s:
            ctx.machinery_error("model != spec (refuted theorem C13_model_eq_spec?): %r" % case)
        if io_ != s:
            ctx.violation(classify(ld, io_, s, text), "fixed_rows(%r, widths=%r, %s): implementation %s, grammar %s" % (text, list(ws), ld, io_, s), case)
        elif zlib.crc32(repr((text, ws, ld)).encode("utf-8")) % (61 if ctx.tier == "quick" else 29) == 0:
            # a sample of the cases also through cutplace's validating reader, which hands the CID's settings to fixed_rows
            for mode in ("raise", "continue"):
                # (a malformed file is a data-format error whatever the mode does with rejected rows)
                ir = impl_reader(text, ws, ld, mode)
                ctx.count(key=("reader", mode, text, ws, ld), nontrivial=text != "", branch="reader:%s:%s" % (mode, ld))
                if ir != s:
                    ctx.violation("C13:reader:" + classify(ld, ir, s, text).split(":", 1)[1], "Reader (on_error=%s) over %r (widths %r, %s): %s, grammar %s" % (mode, text, list(ws), ld, ir, s),
                                  dict(case, reader=ir, mode=mode))
            ip = impl_path(text, ws, ld)
            ctx.count(key=("path", text, ws, ld), nontrivial=text != "", branch="path:%s" % ld)
            if ip != s:
                ctx.violation("C13:path:" + classify(ld, ip, s, text).split(":", 1)[1], "fixed_rows over a file holding %r (widths %r, %s): %s, grammar %s" % (text, list(ws), ld, ip, s),
                              dict(case, path=ip))


def replay(ctx, case):
    c = case["case"]
    print("impl :", impl_fixed(c["text"], c["widths"], c["line_delimiter"]))
    print(core.run_driver([line("fixed", ",".join(str(w) for w in c["widths"]), c["line_delimiter"], enc(c["text"]))])[0])
