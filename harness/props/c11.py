"""C11  Data-format properties mean what the CID says; contradictions are refused."""
import codecs
import itertools

import core
from core import enc, line, parse_kv

FORMATS = ["delimited", "fixed", "excel", "ods"]
PROPS = ["allowed characters", "encoding", "header", "escape character", "item delimiter", "quote character", "quoting",
         "skip initial space", "decimal separator", "line delimiter", "thousands separator", "sheet"]
GOOD_VALUE = {"allowed characters": "32...126", "encoding": "utf-8", "header": "1", "escape character": "\\", "item delimiter": ";",
              "quote character": "'", "quoting": "all", "skip initial space": "true", "decimal separator": ",", "line delimiter": "lf",
              "thousands separator": ".", "sheet": "2"}
SPELLINGS = ["L", "D", "H00", "H01", "H10", "H11", "Q0", "Q1", "X0", "X1", "U0", "U1", "S0", "S1"]


def impl_attrs(df):
    from cutplace import data

    def ch(c):
        return "-" if c == "" else enc(c)

    line_names = {"any": "any", "\n": "lf", "\r": "cr", "\r\n": "crlf", None: "none"}
    al = df.allowed_characters
    if al is None or al.items is None:
        allowed = "n"
    else:
        allowed = ";".join("%s:%s" % (core.optint(a), core.optint(b)) for a, b in al.items) or "~"
    out = "format=%s header=%d encoding=%s allowed=%s" % (df.format, df.header, enc(df.encoding), allowed)
    if df.format == data.FORMAT_DELIMITED:
        import csv
        out += " escape=%s item=%s quote=%s quoting=%s skip=%d" % (ch(df.escape_character), ch(df.item_delimiter), ch(df.quote_character),
                                                                   "all" if df.quoting == csv.QUOTE_ALL else "minimal", 1 if df.skip_initial_space else 0)
    if df.format in (data.FORMAT_DELIMITED, data.FORMAT_FIXED):
        out += " decimal=%s line=%s thousands=%s" % (ch(df.decimal_separator), line_names[df.line_delimiter], ch(df.thousands_separator))
    else:
        out += " sheet=%d" % df.sheet
    return out


def encoding_known(value):
    """the documented rule: the name of a codec that can be used for text (since 6cd893e; before: any codec name)"""
    try:
        codecs.lookup(value)
        "".encode(value)
        return True
    except (LookupError, UnicodeError):
        return False
    except Exception:  # noqa
        return None


def impl_steps(fmt, steps):
    from cutplace import data, errors

    try:
        df = data.DataFormat(fmt)
    except Exception as error:  # noqa
        return "create:" + core.classify_exception(error), None, None, None
    outs = []
    for name, value in steps:
        try:
            df.set_property(name, value)
            outs.append("ok")
        except Exception as error:  # noqa
            outs.append(core.classify_exception(error))
    attrs = impl_attrs(df)
    try:
        df.validate()
        valid = "1"
    except errors.InterfaceError:
        valid = "0"
    except Exception as error:  # noqa
        valid = "!" + core.classify_exception(error)
    return "ok", outs, valid, attrs


def cid_steps(fmt, steps):
    """the same property rows through `Cid.add_data_format_row` (what reading a CID does)"""
    from cutplace import errors, interface

    cid = interface.Cid()
    cid.set_location_to_caller()
    try:
        cid.add_data_format_row(["Format", fmt])
    except Exception as error:  # noqa
        return "create:" + core.classify_exception(error), None, None, None
    outs = []
    for name, value in steps:
        try:
            cid.add_data_format_row([name, value])
            outs.append("ok")
        except Exception as error:  # noqa
            outs.append(core.classify_exception(error))
    attrs = impl_attrs(cid.data_format)
    try:
        cid.data_format.validate()
        valid = "1"
    except errors.InterfaceError:
        valid = "0"
    except Exception as error:  # noqa
        valid = "!" + core.classify_exception(error)
    return "ok", outs, valid, attrs


def check_steps(ctx, cases, tag, claim):
    """cases: list of (fmt, steps); `claim(case, model_kv, impl)` raises violations for what the statement fixes"""
    lines_ = []
    for fmt, steps in cases:
        lines_.append(line("df", enc(fmt), ";".join("%s:%s:%s" % (enc(n), enc(v), "1" if (n != "encoding" or encoding_known(v)) else "0") for n, v in steps) or "~"))
    outs = core.run_driver(lines_)
    for (fmt, steps), mo in zip(cases, outs):
        itag, isteps, ivalid, iattrs = impl_steps(fmt, steps)
        case = {"format": fmt, "steps": steps, "model": mo, "impl": {"steps": isteps, "valid": ivalid, "attrs": iattrs}}
        via_cid = cid_steps(fmt, steps)
        if via_cid != (itag, isteps, ivalid, iattrs):
            # a property row of a CID means what DataFormat.set_property makes of its name and value
            ctx.violation("C11:cid-row-differs:%s" % (steps[-1][0].replace(" ", "-") if steps else "format"),
                          "%s: rows %r through Cid.add_data_format_row give %r, through DataFormat.set_property %r" % (fmt, steps, via_cid, (itag, isteps, ivalid, iattrs)), case)
        mtag, mkv = parse_kv(mo)
        ctx.count(key=(tag, fmt, tuple(steps)), branch=tag)
        ctx.sample(case)
        if "unsupported" in mo.split(" ")[1] if len(mo.split(" ")) > 1 else False:
            ctx.skip(case)
            continue
        msteps = [] if mkv.get("steps", "~") == "~" else mkv["steps"].split(",")
        mattrs = mo.split(" ", 4)[4] if mtag == "ok" else None
        agree = (itag == "ok") == (mtag == "ok") and (itag != "ok" or (isteps == msteps and ivalid == mkv["valid"] and iattrs == mattrs))
        claim(ctx, case, mkv, (itag, isteps, ivalid, iattrs), msteps, mattrs, agree)


def run(ctx):
    ctx.rule = ("exhaustive: 14 spelling kinds x a pool of ~150 code points (all printable ASCII, TAB, LF, VT, FF, CR, selected non-ASCII) for the item delimiter; "
                "every property name x 4 formats (applicability); every printable ASCII character and two-character texts over the valid characters as quote / escape / decimal / thousands value; line delimiter, "
                "quoting and bool names in mixed case; header / sheet integers; 30 encoding names; all combinations of item delimiter x quote x line delimiter x "
                "escape x decimal x thousands from small pools for the consistency rules; defaults per format; malformed spellings; distinct = distinct case; "
                "non-trivial = every case")
    ctx.exhaustive = True
    # 1. spellings of characters -------------------------------------------------------------------------------
    pool = list(range(32, 127)) + [9, 10, 11, 12, 13, 1, 0, 127, 0xA0, 0xE9, 0x20AC, 0x2026, 0x3000, 0xFFFF, 0x10000, 0x1F600, 0x10FFFF]
    spell_lines = [line("df.spell", sp, str(c)) for c in pool for sp in SPELLINGS]
    spell_out = core.run_driver(spell_lines)
    from cutplace import data
    k = 0
    for c in pool:
        for sp in SPELLINGS:
            _, kv = parse_kv("x " + spell_out[k])
            k += 1
            text = core.dec(kv["text"])
            df = data.DataFormat("delimited")
            try:
                df.set_property("item_delimiter", text)
                got = "ok:%d" % ord(df.item_delimiter)
            except Exception as error:  # noqa
                got = core.classify_exception(error)
            via = cid_steps("Delimited", [("Item delimiter", text)])
            got_cid = ("ok:%s" % via[3].split(" item=")[1].split(" ")[0]) if via[1] == ["ok"] else via[1][0]
            want_cid = ("ok:%s" % enc(df.item_delimiter)) if got.startswith("ok:") else got
            if got_cid != want_cid:
                ctx.violation("C11:cid-row-differs:item-delimiter", "item delimiter %r: through a CID row %s, through set_property %s" % (text, got_cid, got),
                              {"spelling": sp, "code": c, "text": text})
            case = {"code": c, "spelling": sp, "text": text, "impl": got, "model": kv["model"], "legal": kv["legal"]}
            ctx.count(key=("spell", c, sp), branch="spell:%s:%s" % (sp[0], "legal" if kv["legal"] == "1" else "na"))
            ctx.sample(case)
            if kv["model"] == "unsupported":
                ctx.skip(case)
                continue
            if kv["legal"] == "1" and c != 0:
                if kv["model"] != "ok:%d" % c:
                    ctx.machinery_error("model rejects a legal spelling (refutes C11_spellings): %r" % case)
                if got != "ok:%d" % c:
                    ctx.violation("C11:spelling:%s:%s" % (sp[0], "rejected" if not got.startswith("ok") else "other-character"),
                                  "item delimiter %r (spelling %s of U+%04X) -> %s" % (text, sp, c, got), case)
            elif got != kv["model"]:
                ctx.note_drift(case)

    # 2. applicability ------------------------------------------------------------------------------------------
    def claim_applicable(ctx, case, mkv, impl, msteps, mattrs, agree):
        fmt, (name, value) = case["format"], case["steps"][0]
        spec = core.run_driver([line("df.applies", enc(fmt), name.replace(" ", "_"))])[0]
        applies = "spec=1" in spec
        got = impl[1][0] if impl[1] else impl[0]
        if applies and got != "ok":
            ctx.violation("C11:applicable-refused:%s:%s" % (name.replace(" ", "-"), fmt), "%s refuses applicable property %r=%r: %s" % (fmt, name, value, got), case)
        if not applies and got != "iface":
            ctx.violation("C11:inapplicable-%s:%s:%s" % ("accepted" if got == "ok" else "internal-error", name.replace(" ", "-"), fmt),
                          "%s: property %r that does not apply -> %s" % (fmt, name, got), case)
        if not agree:
            ctx.note_drift(case)

    check_steps(ctx, [(fmt, [(name, GOOD_VALUE.get(name, "x"))]) for fmt in FORMATS for name in PROPS + ["nosuch", "is valid", "valid line delimiter texts"]],
                "applicable", claim_applicable)

    # 3. value sets -----------------------------------------------------------------------------------------------
    valid_sets = {"quote character": set("!\"#$%&'*+-/:;=?\\^_`~"), "escape character": set('"\\'), "decimal separator": set(".,"),
                  "thousands separator": set(",.") | {""}}

    def claim_value(ctx, case, mkv, impl, msteps, mattrs, agree):
        name, value = case["steps"][0]
        got = impl[1][0]
        if name in valid_sets:
            want = "ok" if value in valid_sets[name] else "iface"
        elif name == "line delimiter":
            want = "ok" if value.lower() in ("any", "lf", "cr", "crlf") or (value.lower() == "none" and case["format"] == "fixed") else "iface"
        elif name == "quoting":
            want = "ok" if value.lower() in ("all", "minimal") else "iface"
        elif name == "skip initial space":
            want = "ok" if value.lower() in ("true", "false") else "iface"
        elif name == "header":
            want = "ok" if value.strip().lstrip("+").isdigit() else "iface"
        elif name == "sheet":
            want = "ok" if value.strip().lstrip("+").isdigit() and int(value) >= 1 else "iface"
        elif name == "encoding":
            known = encoding_known(value)
            want = None if known is None else ("ok" if known else "iface")
        else:
            want = None
        if want is not None and got != want:
            kind = "accepted" if got == "ok" else ("refused" if got == "iface" else "internal-error:" + got)
            ctx.violation("C11:value:%s:%s" % (name.replace(" ", "-"), kind), "%s: %r = %r -> %s, documented: %s" % (case["format"], name, value, got, want), case)
        elif name in ("header", "sheet") and want == "ok" and ("%s=%d" % (name, int(value))) not in impl[3].split(" "):
            # the number that takes effect is the number that was written
            ctx.violation("C11:value:%s:other-number" % name, "%s: %r = %r gives %s" % (case["format"], name, value, impl[3]), case)
        elif not agree:
            ctx.note_drift(case)

    cases = []
    printable = [chr(c) for c in range(32, 127)] + ["", "ab", "é"]
    for name in ("quote character", "escape character", "decimal separator", "thousands separator"):
        for v in printable:
            cases.append(("delimited", [(name, v)]))
        # values of more than one character built from the valid ones (and a blank): a set of characters is not a set of texts
        pool = sorted(valid_sets[name] - {""})[:6] + [" "]
        for a in pool:
            for b in pool:
                cases.append(("delimited", [(name, a + b)]))
        for v in ("".join(sorted(valid_sets[name] - {""})), " " + pool[0], pool[0] + " ", pool[0] * 3):
            cases.append(("delimited", [(name, v)]))
    for v in ["any", "LF", "Cr", "crlf", "CRLF", "none", "None", "\\n", "lfcr", "", "x"]:
        cases.append(("delimited", [("line delimiter", v)]))
        cases.append(("fixed", [("line delimiter", v)]))
    for v in ["all", "ALL", "minimal", "Minimal", "none", "nonnumeric", ""]:
        cases.append(("delimited", [("quoting", v)]))
    for v in ["true", "True", "FALSE", "false", "yes", "1", ""]:
        cases.append(("delimited", [("skip initial space", v)]))
    for v in ["0", "1", "17", "-1", "+3", " 2 ", "x", "1.5", "", "0x10", "1e3", "10", "20", "100", "1000", "007", "2.0", "1.", "-0.5", ".7"]:
        for fmt in FORMATS:
            cases.append((fmt, [("header", v)]))
        cases.append(("excel", [("sheet", v)]))
        cases.append(("ods", [("sheet", v)]))
    for v in ["utf-8", "UTF8", "latin-1", "cp1252", "ascii", "iso-8859-15", "utf_16", "cp850", "big5", "nosuch", "utf-99", "", "utf 8", "x" * 40, "cp-1252",
              "mac_roman", "koi8-r", "idna", "hex", "rot13", "utf-8-sig", "utf32", "latin1", "L1", "646", "us-ascii", "shift_jis", "euc-jp", "ebcdic", "ISO_8859-1"]:
        cases.append(("delimited", [("encoding", v)]))
    check_steps(ctx, cases, "value", claim_value)

    # 4. consistency (contradictory settings are refused at completion) ------------------------------------------
    def claim_consistency(ctx, case, mkv, impl, msteps, mattrs, agree):
        if any(s != "ok" for s in impl[1]):
            if not agree:
                ctx.note_drift(case)
            return
        if mkv["valid"] != mkv["spec_valid"]:
            ctx.machinery_error("model validate != spec consistent: %r" % case)
        if impl[2] != mkv["spec_valid"]:
            ctx.violation("C11:consistency:%s" % ("contradiction-accepted" if impl[2] == "1" else "consistent-refused"),
                          "%s with %r: validate -> %s, consistency rules say %s" % (case["format"], case["steps"], impl[2], mkv["spec_valid"]), case)
        elif impl[3] != mattrs:
            ctx.violation("C11:attributes", "effective settings differ: implementation %s, model %s" % (impl[3], mattrs), case)

    cases = []
    for item, quote, linedelim, esc in itertools.product([",", ";", "'", "10", "13", "tab", "\\"], ['"', "'", ";"], ["any", "lf", "cr", "crlf"], ['"', "\\"]):
        cases.append(("delimited", [("item delimiter", item), ("quote character", quote), ("line delimiter", linedelim), ("escape character", esc)]))
    for dec, thou in itertools.product([".", ","], [",", ".", ""]):
        for fmt in ("delimited", "fixed"):
            cases.append((fmt, [("decimal separator", dec), ("thousands separator", thou)]))
            cases.append((fmt, [("thousands separator", thou), ("decimal separator", dec)]))
    # the separators together with every line delimiter setting (fixed-width data may have none at all)
    for linedelim in ("any", "lf", "cr", "crlf", "none"):
        for dec, thou in ((".", "."), (",", ","), (".", ","), (",", "")):
            cases.append(("fixed", [("line delimiter", linedelim), ("decimal separator", dec), ("thousands separator", thou)]))
            cases.append(("fixed", [("decimal separator", dec), ("thousands separator", thou), ("line delimiter", linedelim)]))
            if linedelim != "none":
                cases.append(("delimited", [("line delimiter", linedelim), ("decimal separator", dec), ("thousands separator", thou)]))
    for fmt in FORMATS:
        cases.append((fmt, []))  # defaults
    check_steps(ctx, cases, "consistency", claim_consistency)

    # 4b. quoted strings with escapes: the character the Python string literal denotes -----------------------------------
    from cutplace import data as data_
    for text, code in (("'\\''", 39), ('"\\""', 34), ("'\\\\'", 92), ('"\\t"', 9), ("'\\x41'", 65), ("'\\u00e9'", 233), ("'\\101'", 65), ('"\\x27"', 39),
                       ("'\\x22'", 34), ('"\\\\"', 92), ("'\\U0001F600'", 0x1F600), ('"\\N{SEMICOLON}"', 59)):
        df = data_.DataFormat("delimited")
        try:
            df.set_property("item_delimiter", text)
            got = ord(df.item_delimiter)
        except Exception as error:  # noqa
            got = core.classify_exception(error)
        ctx.count(key=("escape-spelling", text), branch="escape-spelling")
        if got != code:
            ctx.violation("C11:spelling:escape:%s" % ("rejected" if not isinstance(got, int) else "other-character"),
                          "item delimiter %s denotes U+%04X, got %r" % (text, code, got), {"text": text, "code": code, "got": got})

    # 5. malformed spellings (never accepted as some other character silently? compared with the model) ----------
    def claim_malformed(ctx, case, mkv, impl, msteps, mattrs, agree):
        if not agree:
            ctx.note_drift(case)

    bad = ["", " ", "ab", "'ab'", "'", "\"", "0x", "1.5", "tab tab", "65 66", "-5", "1114112", "99999999999", "nosuch", "\\t", "''", "'\\'", " 65", "65 ",
           "0", "00", "0x0", "'\\x4'", "\t", "1_0", "0b11", "0o17", "(", "#", "a,b"]
    check_steps(ctx, [("delimited", [("item delimiter", v)]) for v in bad], "malformed", claim_malformed)


def replay(ctx, case):
    print(case["case"])
