"""C18  The command line's exit code reflects the validation outcome."""
import itertools
import logging
import os
import shutil
import subprocess
import sys
import tempfile

import core
from core import line

CID_VALID = "D,Format,Delimited\nF,key,,,,Integer,1...99\nF,name\nC,unique key,IsUnique,key\n"
# one header row: the validation limit counts physical rows, header included, on the command line exactly as in the API
CID_HEADER = "D,Format,Delimited\nD,Header,1\nF,key,,,,Integer,1...99\nF,name\n"
HEADER_FILES = {"hbad%d" % k: "".join("%s,v\n" % ("x" if row == k else ("key" if row == 1 else str(row))) for row in range(1, 7)) for k in range(2, 7)}
# an end-of-data check that data without rows fails: every file is judged on its own rows
CID_DISTINCT = "D,Format,Delimited\nD,Header,1\nF,key,,,,Integer,1...99\nF,name\nC,two keys,DistinctCount,key >= 2\n"
DISTINCT_FILES = {"dfull": "key,name\n1,a\n2,b\n3,c\n", "dhead": "key,name\n", "dempty": "", "done": "key,name\n5,x\n"}
CID_BROKEN = "D,Format,Delimited\nF,key,,,,NoSuchType\n"
FILES = {
    "acc1": "1,a\n2,b\n3,c\n",
    "acc2": "2,x\n3,y\n",            # shares keys with acc1 (independent files must not interfere)
    "rejf": "1,a\nx,b\n",            # rejected by a field in row 2
    "reju": "1,a\n2,b\n1,c\n",       # rejected by IsUnique in row 3
    "late": "1,a\n2,b\n3,c\nx,d\n",  # bad row 4: accepted with --until <= 3
}


def api_verdict(cid_path, data_path, until):
    """the programmatic API on a freshly loaded CID"""
    from cutplace import errors, interface, validio

    # ground truth first: a path that is not a readable file is "cannot be read", whatever the API makes of it
    if not os.path.isfile(cid_path):
        return "cid-unreadable"
    try:
        cid = interface.Cid(cid_path)
    except (EnvironmentError, OSError):
        return "cid-unreadable"
    except errors.CutplaceError:
        return "cid-rejected"
    if not os.path.isfile(data_path):
        return "u"
    try:
        with validio.Reader(cid, data_path, validate_until=until) as reader:
            reader.validate_rows()
        return "a"
    except (EnvironmentError, OSError):
        return "u"
    except errors.CutplaceError:
        return "r"


def run_main(argv):
    from cutplace import applications

    try:
        return applications.main(argv)
    except SystemExit as error:
        return error.code


def run(ctx):
    ctx.rule = ("CID in {valid, rejected, missing .csv/.ods/.xlsx, directory} x every ordered list of 0-3 data files over {accepted, accepted sharing keys with a "
                "sibling, rejected by a field, rejected by IsUnique, bad row beyond a limit, missing, directory} x --until in {absent, -1, 0, 3}; a CID with one header row x files whose first broken physical row is 2..6 x --until in {absent, -1, 0..7}; a CID with a DistinctCount check x files with rows, with a header only and empty, in every order; unusable argument lists; "
                "exit code of applications.main vs the Lean decision function fed with the per-file verdicts of the programmatic API on a fresh CID; "
                "distinct = distinct command line; non-trivial = at least one data file")
    ctx.exhaustive = True
    logging.disable(logging.CRITICAL)
    devnull = open(os.devnull, "w")
    old_err = sys.stderr
    tmp = tempfile.mkdtemp(prefix="c18-")
    try:
        sys.stderr = devnull
        paths = {}
        for name, text in FILES.items():
            paths[name] = os.path.join(tmp, name + ".csv")
            with open(paths[name], "w", newline="") as f:
                f.write(text)
        paths["missing"] = os.path.join(tmp, "no-such-file.csv")
        paths["dir"] = os.path.join(tmp, "adir")
        os.mkdir(paths["dir"])
        cids = {"valid": os.path.join(tmp, "cid.csv"), "broken": os.path.join(tmp, "broken.csv"),
                "missing-csv": os.path.join(tmp, "nocid.csv"), "missing-ods": os.path.join(tmp, "nocid.ods"),
                "missing-xlsx": os.path.join(tmp, "nocid.xlsx"), "dir": paths["dir"]}
        with open(cids["valid"], "w") as f:
            f.write(CID_VALID)
        with open(cids["broken"], "w") as f:
            f.write(CID_BROKEN)
        cids["header"] = os.path.join(tmp, "cid_header.csv")
        with open(cids["header"], "w") as f:
            f.write(CID_HEADER)
        for name, text in HEADER_FILES.items():
            paths[name] = os.path.join(tmp, name + ".csv")
            with open(paths[name], "w", newline="") as f:
                f.write(text)
        cids["distinct"] = os.path.join(tmp, "cid_distinct.csv")
        with open(cids["distinct"], "w") as f:
            f.write(CID_DISTINCT)
        for name, text in DISTINCT_FILES.items():
            paths[name] = os.path.join(tmp, name + ".csv")
            with open(paths[name], "w", newline="") as f:
                f.write(text)
        cases = []
        # an end-of-data check x files with and without rows, in every order, with and without limit
        for n in (1, 2, 3):
            for combo in itertools.product(sorted(DISTINCT_FILES), repeat=n):
                if n == 3 and len(set(combo)) < 3:
                    continue
                for until in (None, 0, 2):
                    if until is not None and n == 3:
                        continue
                    cases.append(("distinct", combo, until))
        for combo in (("missing",), ("dir",), ("dfull", "missing"), ("missing", "dfull"), ("dhead", "dir")):
            cases.append(("distinct", combo, None))
        # header row + limit: first broken physical row k = 2..6 x --until 0..7 (single files and pairs)
        for until in [None, -1] + list(range(0, 8)):
            for k in sorted(HEADER_FILES):
                cases.append(("header", (k,), until))
            cases.append(("header", ("hbad3", "hbad5"), until))
            cases.append(("header", ("hbad6", "hbad2"), until))
        kinds = sorted(k for k in paths if not k.startswith("hbad") and k not in DISTINCT_FILES)
        for cid_name in cids:
            if cid_name in ("header", "distinct"):
                continue
            max_files = 3 if cid_name == "valid" else 1
            for n in range(0, max_files + 1):
                for combo in itertools.product(kinds, repeat=n):
                    if n == 3 and ctx.tier == "quick" and len(set(combo)) < 3 and combo[0] != "acc1":
                        continue
                    untils = [None, -1, 0, 3] if (cid_name == "valid" and n <= 2) else [None]
                    for until in untils:
                        cases.append((cid_name, combo, until))
        lines, meta = [], []
        for cid_name, combo, until in cases:
            limit = None if until in (None, -1) else until
            cid_state = "ok"
            verdicts = []
            for k in combo:
                v = api_verdict(cids[cid_name], paths[k], limit)
                if v.startswith("cid-"):
                    cid_state = v[4:]
                    break
                verdicts.append(v)
            if not combo:
                v = api_verdict(cids[cid_name], paths["acc1"], None)
                if v.startswith("cid-"):
                    cid_state = v[4:]
            argv = ["cutplace"] + ([] if until is None else ["--until", str(until)]) + [cids[cid_name]] + [paths[k] for k in combo]
            lines.append(line("cli", "0", cid_state, ",".join(verdicts) or "~"))
            meta.append((cid_name, combo, until, cid_state, verdicts, argv))
        # unusable arguments
        for argv in (["cutplace"], ["cutplace", "--no-such-option", cids["valid"]], ["cutplace", "--until", "-2", cids["valid"], paths["acc1"]],
                     ["cutplace", "--until", "x", cids["valid"]], ["cutplace", "--log", "nolevel", cids["valid"]]):
            lines.append(line("cli", "1", "ok", "~"))
            meta.append(("usage", (), None, "ok", [], argv))
        outs = core.run_driver(lines)
        for (cid_name, combo, until, cid_state, verdicts, argv), mo in zip(meta, outs):
            got = run_main(argv)
            want = int(mo)
            case = {"cid": cid_name, "files": list(combo), "until": until, "cid_state": cid_state, "api_verdicts": verdicts, "exit_code": got, "model": want,
                    "argv": [os.path.basename(a) if os.sep in a else a for a in argv]}
            ctx.count(key=(cid_name, combo, until), nontrivial=len(combo) > 0, branch="exit%s" % got)
            ctx.sample(case)
            if got != want:
                if cid_name == "missing-ods" or (got == 1 and want == 3):
                    sig = "C18:missing-file-exit-%s-instead-of-%s:%s" % (got, want, cid_name)
                else:
                    sig = "C18:exit-%s-instead-of-%s:%s:%s" % (got, want, cid_name, "until" if until is not None else "plain")
                ctx.violation(sig, "main(%r) returns %r, the outcome of the programmatic API implies %r" % (case["argv"], got, want), case)
        if ctx.tier == "thorough":
            # the same through a real process
            for cid_name, combo, want in (("valid", ("acc1",), 0), ("valid", ("acc1", "rejf"), 1), ("valid", ("missing",), 3), ("broken", ("acc1",), 1)):
                r = subprocess.run([sys.executable, "-m", "cutplace.applications", cids[cid_name]] + [paths[k] for k in combo],
                                   capture_output=True, text=True, cwd=core.REPO, timeout=120)
                ctx.count(key=("subprocess", cid_name, combo), branch="subprocess")
                if r.returncode != want:
                    ctx.violation("C18:subprocess:%s" % cid_name, "python -m cutplace.applications exits %s instead of %s" % (r.returncode, want),
                                  {"cid": cid_name, "files": list(combo)})
    finally:
        sys.stderr = old_err
        devnull.close()
        logging.disable(logging.NOTSET)
        shutil.rmtree(tmp, ignore_errors=True)


def replay(ctx, case):
    print(case["case"])
