"""C10  CID and data problems surface as cutplace errors, never as internal failures."""
import datetime
import decimal
import io
import logging
import os
import shutil
import sys
import tempfile
import zlib

import core
import cidlib

HOSTILE = ["", " ", "'", '"', "'ab", '"ab', "(", ")", "[", "]", "{", "\\", "-", "--", "...", ",", ";", ":", "#", "$", "?", "!", "`", "*", "+", "%",
           "é", "ß€", "\x00", "\r", "\n", "a\nb", "\t", "NaN", "nan", "Infinity", "-inf", "sNaN", "1e999999", "1e-999999", "99999999999999999999999999",
           "-99999999999999999999", "0x", "0x1g", "1_", "1__0", "007", "1.5", "1,5", "'\\x4'", "'\\u12'", "'\\N{bad}'", "b'a'", "r'a'", "f'{x}'", "'''", "lambda",
           "None", "a b", "a.b", ".", "..", "....", "1...", "...1", "1...2...3", "5...1", "x" * 300, "١٢٣", "²", "1³", "①", "⁵⁶", "9" * 4400, "٣" * 4400, "1٣", "Ⅷ", "½", " ", "﻿", "%Q", "(?P<n>", "[a-", "a{2,1}", "*a", "\\", "DD.DD.YYYY", "hh:hh", "YYYY-YY-YYYY", "%d.%d",
           "1\n  2\n 3", " 1\n2", "a\n\tb\n    c", "(\n1",
           # an empty-mark on fields that must not be empty, empty / missing choices
           "x", " X ", "''", '""', "a,''", "a,,b", ",a", "a,",
           # text no file can hold but the API accepts (lone surrogates), continuation lines
           "\ud800", "a\udfffb", "\\\nid < 3", "id \\\n< 3", "\\\n",
           # what CPython's tokenizer, re and int-to-text conversion refuse in their own ways
           "x\r\u00e9", "\r\u00a0", "\t\t@|\n\x00", " 1\n\x00", "0x" + "f" * 5000, "0...0x" + "f" * 4000, "a{4294967296}", "a{99999999999}", "(?u)(?a)x",
           "(" * 3000 + ")" * 3000, "2.5", "1.5...3.7"]

BASE_CIDS = {
    "delimited": [["D", "Format", "Delimited"], ["D", "Header", "1"], ["D", "Encoding", "utf-8"], ["D", "Allowed characters", "32..."],
                  ["D", "Item delimiter", ";"], ["D", "Quote character", '"'], ["D", "Escape character", "\\"], ["D", "Line delimiter", "LF"],
                  ["D", "Decimal separator", ","], ["D", "Thousands separator", "."], ["D", "Quoting", "all"], ["D", "Skip initial space", "false"],
                  ["F", "id", "17", "", "1...5", "Integer", "1...99999"], ["F", "name", "x", "X", "...20", "Text", ""],
                  ["F", "color", "red", "", "", "Choice", "red, green"], ["F", "const", "K", "", "1", "Constant", "K"],
                  ["F", "amount", "1,50", "", "", "Decimal", "0...1000"], ["F", "day", "31.12.2024", "", "", "DateTime", "DD.MM.YYYY"],
                  ["F", "file", "a.txt", "", "", "Pattern", "*.txt"], ["F", "code", "ab1", "", "", "RegEx", "[a-z]+[0-9]"],
                  ["C", "unique id", "IsUnique", "id"], ["C", "few colors", "DistinctCount", "color < 3"]],
    "fixed": [["D", "Format", "Fixed"], ["D", "Line delimiter", "Any"], ["D", "Decimal separator", "."],
              ["F", "id", "", "", "5", "Integer", ""], ["F", "name", "", "X", "10", "", ""], ["F", "color", "", "", "5", "Choice", "red, green"],
              ["C", "unique id", "IsUnique", "id, name"]],
    "excel": [["D", "Format", "Excel"], ["D", "Sheet", "1"], ["F", "id", "", "", "", "Integer", "1...99"], ["F", "when", "", "X", "", "DateTime", "YYYY-MM-DD"],
              ["C", "distinct", "DistinctCount", "id >= 0"]],
    "ods": [["D", "Format", "ODS"], ["D", "Sheet", "2"], ["D", "Header", "0"], ["F", "id", "", "", "", "Integer", ""], ["F", "what", "", "", "1...", "Pattern", "?*"]],
}

DATA_CID = [["D", "Format", "Delimited"], ["F", "id", "", "", "", "Integer", "1...99999"], ["F", "name", "", "X", "...20", "Text", ""],
            ["F", "color", "", "", "", "Choice", "red, green"], ["F", "amount", "", "X", "", "Decimal", "0...1000"],
            ["F", "day", "", "X", "", "DateTime", "DD.MM.YYYY"], ["F", "file", "", "X", "", "Pattern", "*.txt"], ["F", "code", "", "X", "", "RegEx", "[a-z]+[0-9]"],
            ["C", "unique id", "IsUnique", "id"], ["C", "few colors", "DistinctCount", "color < 3"]]
DATA_ROW = ["17", "x", "red", "1.50", "31.12.2024", "a.txt", "ab1"]
# the same fields in a fixed-width CID (widths = the length column); cells are padded / cut to the width before they are stored
FIXED_DATA_CID = [["D", "Format", "Fixed"], ["D", "Line delimiter", "LF"], ["F", "id", "", "", "5", "Integer", "1...99999"], ["F", "name", "", "X", "8", "Text", ""],
                  ["F", "color", "", "", "5", "Choice", "red, green"], ["F", "amount", "", "X", "8", "Decimal", "0...1000"],
                  ["F", "day", "", "X", "10", "DateTime", "DD.MM.YYYY"], ["F", "file", "", "X", "6", "Pattern", "*.txt"], ["F", "code", "", "X", "4", "RegEx", "[a-z]+[0-9]"],
                  ["C", "unique id", "IsUnique", "id"], ["C", "few colors", "DistinctCount", "color < 3"]]
FIXED_WIDTHS = [5, 8, 5, 8, 10, 6, 4]


def cell_kind(row, col):
    k = (row[0] or "?").strip().lower()[:1]
    names = {"d": ["marker", "property-name", "property-value"], "f": ["marker", "field-name", "example", "empty-mark", "length", "type", "rule"],
             "c": ["marker", "description", "check-type", "check-rule"]}.get(k, ["marker"])
    return "%s.%s" % (k, names[col] if col < len(names) else "extra")


def cid_signature(fmt, rows, i, j, itag):
    """signature of an escaping exception: the single cell that causes it (also inside a pair of hostile cells)"""
    base = BASE_CIDS[fmt]

    def single(i, j):
        kind = cell_kind(base[i], j)
        ty = rows[i][5] if (kind.startswith("f.") and len(rows[i]) > 5) else ""
        return "C10:cid:%s:%s%s" % (kind, itag, (":" + ty) if kind in ("f.rule", "f.example", "f.length") else "")
    if i >= 0:
        return single(i, j)
    changed = [(a, b) for a in range(len(base)) for b in range(len(base[a])) if rows[a][b] != base[a][b]]
    for a, b in changed:
        alone = [list(r) for r in base]
        alone[a][b] = rows[a][b]
        if cidlib.impl_canonical(alone).split("@")[0].split(" ")[0] == itag:
            i, j = a, b
            return single(a, b)
    return "C10:cid:pair:%s" % itag


def run(ctx):
    rnd = ctx.rnd
    ctx.rule = ("exhaustive one-cell-at-a-time: every cell of every row of four base CIDs (all formats, all 8 field types, both checks, all properties) replaced in "
                "turn by each of %d hostile values; the same pool in every cell of a valid data row (yield mode and validate); pairs of hostile cells in the thorough "
                "tier; the same pool in every cell of a fixed-width record (all field types); DistinctCount rules whose evaluation fails only for particular counts x 0-4 distinct values x 5 APIs (validate, rows, Reader closed once / twice, Writer closed twice); date-formatted Excel cells xlrd refuses; xlsx and ods archives damaged at byte level (flip / zero / cut / delete / duplicate at seeded offsets); text containers (delimited and fixed-width files) with undecodable bytes / unterminated quote / short record / NUL / wrong delimiter; the command line on the hostile CIDs; observable: class of "
                "whatever escapes; distinct = distinct (CID or data, position, value); non-trivial = every case" % len(HOSTILE))
    ctx.exhaustive = True
    ctx.level = "proof"
    from cutplace import errors, interface, validio, applications

    # ---- CID cells -----------------------------------------------------------------------------------------------
    cases = []
    for fmt, base in BASE_CIDS.items():
        for i, row in enumerate(base):
            for j in range(len(row)):
                for h in HOSTILE:
                    rows = [list(r) for r in base]
                    rows[i][j] = h
                    cases.append((fmt, i, j, h, rows))
    if ctx.tier == "thorough":
        for _ in range(20000):
            fmt = rnd.choice(sorted(BASE_CIDS))
            rows = [list(r) for r in BASE_CIDS[fmt]]
            for _ in range(2):
                i = rnd.randrange(len(rows))
                rows[i][rnd.randrange(len(rows[i]))] = rnd.choice(HOSTILE)
            cases.append((fmt, -1, -1, "pair", rows))
    outs = core.run_driver([cidlib.model_line(rows) for _, _, _, _, rows in cases])
    for (fmt, i, j, h, rows), mo in zip(cases, outs):
        impl = cidlib.impl_canonical(rows)
        itag = impl.split("@")[0].split(" ")[0]
        kind = cell_kind(BASE_CIDS[fmt][i], j) if i >= 0 else "pair"
        case = {"format": fmt, "row": i, "col": j, "value": h, "rows": rows, "impl": impl, "model": mo}
        ctx.count(key=("cid", fmt, i, j, h, repr(rows) if i < 0 else ""), branch="cid:%s:%s" % (kind, itag))
        ctx.sample(case)
        if itag not in ("ok", "iface") and not itag.startswith("data:"):
            ctx.violation(cid_signature(fmt, rows, i, j, itag), "CID cell %s = %r makes Cid.read raise %s" % (kind, h, impl), case)
        mtag = mo.split("@")[0].split(" ")[0]
        if mtag == "unsupported" or any(0xD800 <= ord(ch_) <= 0xDFFF for ch_ in h) or ("0x" in h and len(h) > 3600) or h.startswith("(" * 500):
            # (hexadecimal numbers beyond 4300 decimal digits: the code refuses them since 10334a3, the model's `int(text, 0)` has no such limit -
            # outside `BoundedLimits`, the hypothesis of C01_parse_render; thousands of nested groups: CPython's parser gives up, the model's does not)
            # (lone surrogates are no characters of the model's strings: the statement is checked above, the class is not compared)
            ctx.skip(case)
        elif mtag != itag:
            ctx.note_drift(case)
    # ---- data cells ------------------------------------------------------------------------------------------------
    cid = interface.Cid()
    cid.read("c10-data", DATA_CID)
    fixed_cid = interface.Cid()
    fixed_cid.read("c10-data-fixed", FIXED_DATA_CID)
    import csv
    for data_cid_name, data_cid in (("delimited", cid), ("fixed", fixed_cid)):
      for j in range(len(DATA_ROW)):
        for h in HOSTILE:
            row = list(DATA_ROW)
            row[j] = h
            if data_cid_name == "delimited":
                text_io = io.StringIO()
                csv.writer(text_io, lineterminator="\n").writerow(row)
                text = text_io.getvalue()
            else:
                if "\n" in h or "\r" in h:
                    continue    # would change the record structure: that is a container fault, covered below
                text = "".join(c[:w].ljust(w) for c, w in zip(row, FIXED_WIDTHS)) + "\n"
            field = DATA_CID[1 + j][1]
            ty = DATA_CID[1 + j][5] + ("" if data_cid_name == "delimited" else "@fixed")
            for api in ("rows", "validate"):
                try:
                    if api == "rows":
                        for item in validio.rows(data_cid, io.StringIO(text, newline=""), on_error="yield"):
                            if isinstance(item, Exception) and not isinstance(item, errors.DataError):
                                raise item
                    else:
                        validio.validate(data_cid, io.StringIO(text, newline=""))
                    tag = "ok"
                except errors.CutplaceError as error:
                    tag = core.classify_exception(error)
                except Exception as error:  # noqa
                    tag = core.classify_exception(error)
                case = {"field": field, "type": ty, "value": h, "api": api, "outcome": tag}
                ctx.count(key=("data", data_cid_name, j, h, api), branch="data:%s:%s" % (ty, tag))
                ctx.sample(case)
                if tag != "ok" and not core.is_cutplace_tag(tag):
                    ctx.violation("C10:data:%s:%s" % (ty, tag), "data cell %r in %s field %s makes %s raise %s" % (h, ty, field, api, tag), case)
    # ---- cells that are no text at all, handed to the Python API: a data error, not a TypeError / AttributeError ---------
    NON_TEXT = [None, 0, 17, 1.5, True, b"17", ["17"], ("a",), {"a": 1}, decimal.Decimal("1.5"), datetime.date(2024, 12, 31), object]
    for data_cid_name, data_cid in (("delimited", cid), ("fixed", fixed_cid)):
        for j in range(len(DATA_ROW)):
            for value in NON_TEXT:
                row = list(DATA_ROW)
                row[j] = value
                for api in ("write_row", "write_rows"):
                    # (the validating writer is the public way to hand over cells that did not come out of a file)
                    try:
                        with validio.Writer(data_cid, io.StringIO()) as writer:
                            if api == "write_row":
                                writer.write_row(row)
                            else:
                                writer.write_rows([list(DATA_ROW), row])
                        tag = "ok"
                    except Exception as error:  # noqa
                        tag = core.classify_exception(error)
                    ty = DATA_CID[1 + j][5] + ("" if data_cid_name == "delimited" else "@fixed")
                    case = {"field": DATA_CID[1 + j][1], "type": ty, "value": repr(value), "api": api, "outcome": tag}
                    ctx.count(key=("non-text", data_cid_name, j, repr(value), api), branch="non-text:%s:%s" % (type(value).__name__, tag))
                    if tag == "ok" or not core.is_cutplace_tag(tag):
                        ctx.violation("C10:data:non-text:%s:%s" % (type(value).__name__, tag),
                                      "cell %r (no text) in %s field %s: %s gives %s" % (value, ty, DATA_CID[1 + j][1], api, tag), case)
    # ---- every codec name the Encoding property might be given: refused as interface error, or usable for reading and writing --------
    ENCODINGS = ["utf-8", "utf-16", "utf-16-le", "utf-32", "utf-8-sig", "latin-1", "ascii", "cp1252", "undefined", "base64", "hex", "rot13", "zlib", "bz2", "uu",
                 "quopri", "idna", "punycode", "unicode_escape", "raw_unicode_escape", "charmap", "utf-7", "cp037", "big5", "shift_jis", "no-such-codec", "utf 8", ""]
    enc_tmp = tempfile.mkdtemp(prefix="c10-enc-")
    try:
        for fmt_name, extra_rows, record in (("Delimited", [], b"ab,17\ncd,18\n"), ("Fixed", [["D", "Line delimiter", "LF"]], b"ab17\ncd18\n")):
            for enc_name in ENCODINGS:
                enc_rows = [["D", "Format", fmt_name]] + extra_rows + [["D", "Encoding", enc_name], ["F", "name", "", "", "2", "Text", ""], ["F", "id", "", "", "2", "Integer", ""]]
                outcomes = []
                try:
                    enc_cid = interface.Cid()
                    enc_cid.read("c10-enc", enc_rows)
                    outcomes.append(("declare", "ok"))
                except Exception as error:  # noqa
                    outcomes.append(("declare", core.classify_exception(error)))
                    enc_cid = None
                if enc_cid is not None:
                    data_path = os.path.join(enc_tmp, "data.txt")
                    with open(data_path, "wb") as data_file:
                        data_file.write(record)
                    for api in ("rows", "validate", "write"):
                        try:
                            if api == "rows":
                                items = list(validio.rows(enc_cid, data_path, on_error="yield"))
                                bad = [i_ for i_ in items if isinstance(i_, Exception) and not isinstance(i_, errors.DataError)]
                                if bad:
                                    raise bad[0]
                            elif api == "validate":
                                validio.validate(enc_cid, data_path)
                            else:
                                with validio.Writer(enc_cid, os.path.join(enc_tmp, "out.txt")) as writer:
                                    writer.write_row(["xy", "42"])
                                    writer.write_row(["\u00e9\u20ac", "43"])
                                    writer.write_row([".." if fmt_name == "Fixed" else "a..b", "44"])
                            outcomes.append((api, "ok"))
                        except Exception as error:  # noqa
                            outcomes.append((api, core.classify_exception(error)))
                for api, tag in outcomes:
                    ctx.count(key=("encoding", fmt_name, enc_name, api), branch="encoding:%s:%s" % (api, tag.split(":")[0]))
                    if tag != "ok" and not core.is_cutplace_tag(tag):
                        ctx.violation("C10:encoding:%s:%s" % (api, tag), "Encoding %r (%s): %s raises %s" % (enc_name, fmt_name, api, tag),
                                      {"encoding": enc_name, "format": fmt_name, "api": api, "outcome": tag})
    finally:
        shutil.rmtree(enc_tmp, ignore_errors=True)
    # ---- secondary entry points of the API on plain, valid input: nothing but the result or a cutplace error ---------------------------
    from cutplace import checks as cutplace_checks, rowio as cutplace_rowio
    api_tmp = tempfile.mkdtemp(prefix="c10-api-")
    try:
        api_cid_path = os.path.join(api_tmp, "cid.csv")
        with open(api_cid_path, "w", encoding="utf-8") as api_file:
            api_file.write("d,format,delimited\nf,v\n")

        def api_writer_from_path():
            with validio.Writer(api_cid_path, io.StringIO()) as writer:
                writer.write_row(["x"])

        def api_add_check():
            api_cid = interface.Cid()
            api_cid.read("c10-api", [["D", "Format", "Delimited"], ["F", "v"]])
            api_cid.add_check(cutplace_checks.IsUniqueCheck("unique v", "v", ["v"]))
            list(validio.rows(api_cid, io.StringIO("a\nb\n")))

        def api_stream(factory, text, fixed_cid_rows):
            def run_():
                stream_cid = interface.Cid()
                stream_cid.read("c10-api", fixed_cid_rows)
                with factory() as stream:
                    stream.write(text)
                    stream.seek(0)
                    list(validio.rows(stream_cid, stream))
            return run_

        def api_xlsx_write_rows():
            path = os.path.join(api_tmp, "out.xlsx")
            with cutplace_rowio.XlsxRowWriter(path) as writer:
                writer.write_rows([["a", "b"], ["c", "d"]])
            if list(cutplace_rowio.excel_rows(path)) != [["a", "b"], ["c", "d"]]:
                raise AssertionError("xlsx written with write_rows() reads back differently")

        fixed_rows_cid = [["D", "Format", "Fixed"], ["D", "Line delimiter", "LF"], ["F", "a", "", "", "2", "Text", ""]]
        delimited_rows_cid = [["D", "Format", "Delimited"], ["F", "a"]]
        entry_points = {
            "Writer(cid_path)": api_writer_from_path, "Cid.add_check": api_add_check, "XlsxRowWriter.write_rows": api_xlsx_write_rows,
            "rows(SpooledTemporaryFile):fixed": api_stream(lambda: tempfile.SpooledTemporaryFile(mode="w+", newline=""), "ab\ncd\n", fixed_rows_cid),
            "rows(SpooledTemporaryFile):fixed:malformed": api_stream(lambda: tempfile.SpooledTemporaryFile(mode="w+", newline=""), "ab\ncdX", fixed_rows_cid),
            "rows(TemporaryFile):fixed:malformed": api_stream(lambda: tempfile.TemporaryFile(mode="w+", newline=""), "ab\ncdX", fixed_rows_cid),
            "rows(TemporaryFile):delimited:malformed": api_stream(lambda: tempfile.TemporaryFile(mode="w+", newline=""), 'a\n"b', delimited_rows_cid),
        }
        for entry_name, entry in entry_points.items():
            try:
                entry()
                tag = "ok"
            except Exception as error:  # noqa
                tag = core.classify_exception(error)
                try:
                    str(error)   # the text of a cutplace error must be printable too
                except Exception as text_error:  # noqa
                    tag = "text-of-error:" + core.classify_exception(text_error)
            ctx.count(key=("api", entry_name), branch="api:%s" % tag.split(":")[0])
            if tag != "ok" and not core.is_cutplace_tag(tag):
                ctx.violation("C10:api:%s:%s" % (entry_name, tag), "%s raises %s" % (entry_name, tag), {"entry": entry_name, "outcome": tag})
    finally:
        shutil.rmtree(api_tmp, ignore_errors=True)
    # ---- end-of-data expressions: DistinctCount rules whose evaluation fails only for particular counts -----------------
    END_EXPRESSIONS = ["% (count - 2) == 0", "/ (count - 1) > 0", "< [5, 6, 7][count]", "== {0: 0, 1: 1}[count]", "< int('1' * (1 + count * 2200))",
                       "< 3 if count < 3 else count.missing", "< 2 or undefined_name", "< 10 and count / (count - 3) != 2", "<= (1, 2)[count - 1]", "< 5"]
    for expr in END_EXPRESSIONS:
        try:
            end_cid = interface.Cid()
            end_cid.read("c10-end", [["D", "Format", "Delimited"], ["F", "v", "", "", "", "Text", ""], ["C", "uniq", "IsUnique", "v"],
                                     ["C", "end", "DistinctCount", "v " + expr]])
        except (errors.InterfaceError, errors.DataError):
            ctx.count(key=("end", expr, "declare"), branch="end:declare:iface")
            continue
        except Exception as error:  # noqa
            ctx.violation("C10:end-expression:declare:%s" % core.classify_exception(error), "DistinctCount rule %r makes Cid.read raise %s" % ("v " + expr, core.classify_exception(error)), {"rule": "v " + expr})
            continue
        for distinct in range(0, 5):
            text = "".join("x%d\n" % k for k in range(distinct))
            for api in ("validate", "rows", "reader-close", "reader-close-twice", "writer-close-twice"):
                try:
                    if api == "validate":
                        validio.validate(end_cid, io.StringIO(text, newline=""))
                    elif api == "rows":
                        list(validio.rows(end_cid, io.StringIO(text, newline=""), on_error="yield"))
                    elif api == "reader-close":
                        reader = validio.Reader(end_cid, io.StringIO(text, newline=""), on_error="continue")
                        list(reader.rows())
                        reader.close()
                    elif api == "reader-close-twice":
                        # close() inside the with block and again when the block is left; a failing end check fails each time
                        with validio.Reader(end_cid, io.StringIO(text, newline=""), on_error="continue") as reader:
                            list(reader.rows())
                            try:
                                reader.close()
                            except errors.CutplaceError:
                                pass
                            try:
                                reader.close()
                            except errors.CutplaceError:
                                pass
                    else:
                        writer = validio.Writer(end_cid, io.StringIO())
                        for cell in text.split("\n")[:-1]:
                            writer.write_row([cell])
                        for _ in range(2):
                            try:
                                writer.close()
                            except errors.CutplaceError:
                                pass
                    tag = "ok"
                except Exception as error:  # noqa
                    tag = core.classify_exception(error)
                ctx.count(key=("end", expr, distinct, api), branch="end:%s" % tag)
                if tag != "ok" and not core.is_cutplace_tag(tag):
                    ctx.violation("C10:end-expression:%s:%s" % (api, tag), "DistinctCount rule %r with %d distinct values: %s raises %s" % ("v " + expr, distinct, api, tag),
                                  {"rule": "v " + expr, "distinct": distinct, "api": api})
    # ---- text containers ---------------------------------------------------------------------------------------------
    tmp = tempfile.mkdtemp(prefix="c10-")
    logging.disable(logging.CRITICAL)
    old_err = sys.stderr
    try:
        sys.stderr = open(os.devnull, "w")
        good = "17,x,red,1.50,31.12.2024,a.txt,ab1\n"
        blobs = {"undecodable": good.encode("cp1252") + b"18,\x81\x8d,red,,,,\n", "unterminated-quote": (good + '19,"x,red,,,,\n').encode("cp1252"),
                 "nul-byte": (good + "20,\x00,red,,,,\n").encode("cp1252"), "only-cr": good.replace("\n", "\r").encode("cp1252"), "empty": b"", "bom": b"\xef\xbb\xbf" + good.encode("cp1252"),
                 # the same faults in the very first line, and in a file of a single line without line end
                 "first-line-text-after-quote": ('17,"x"y,red,,,,\n' + good).encode("cp1252"), "single-line-unterminated-quote": b'17,"x,red',
                 "first-line-undecodable": b"\x81\x8d,x\n" + good.encode("cp1252"), "first-line-nul": ("\x00\n" + good).encode("cp1252"),
                 "single-line-text-after-quote": b'17,"x"y'}
        for name, blob in blobs.items():
            path = os.path.join(tmp, name + ".csv")
            with open(path, "wb") as f:
                f.write(blob)
            for mode in ("raise", "yield", "continue"):
                try:
                    list(validio.rows(cid, path, on_error=mode))
                    tag = "ok"
                except Exception as error:  # noqa
                    tag = core.classify_exception(error)
                ctx.count(key=("container", name, mode), branch="container:%s" % tag)
                if tag != "ok" and not core.is_cutplace_tag(tag):
                    ctx.violation("C10:container:%s:%s" % (name, tag), "container fault %s in mode %s raises %s" % (name, mode, tag), {"fault": name, "mode": mode})
        good_fixed = "".join(c.ljust(w) for c, w in zip(DATA_ROW, FIXED_WIDTHS)) + "\n"
        fixed_blobs = {"undecodable-start": b"\x81\x8d" + good_fixed.encode("cp1252"), "undecodable-later": good_fixed.encode("cp1252") + b"18   \x81\x8d" + good_fixed.encode("cp1252")[7:],
                       "short-record": (good_fixed + "19   x").encode("cp1252"), "nul-byte": (good_fixed + good_fixed.replace("x", "\x00")).encode("cp1252"), "empty": b"",
                       "wrong-delimiter": good_fixed.replace("\n", "\r").encode("cp1252") + good_fixed.encode("cp1252")}
        for name, blob in fixed_blobs.items():
            path = os.path.join(tmp, name + ".txt")
            with open(path, "wb") as f:
                f.write(blob)
            for mode in ("raise", "yield", "continue"):
                for api in ("rows", "validate"):
                    try:
                        if api == "rows":
                            list(validio.rows(fixed_cid, path, on_error=mode))
                        elif mode == "raise":
                            validio.validate(fixed_cid, path)
                        else:
                            continue
                        tag = "ok"
                    except Exception as error:  # noqa
                        tag = core.classify_exception(error)
                    ctx.count(key=("container-fixed", name, mode, api), branch="container-fixed:%s" % tag)
                    if tag != "ok" and not core.is_cutplace_tag(tag):
                        ctx.violation("C10:container-fixed:%s:%s" % (name, tag), "fixed-width container fault %s in mode %s (%s) raises %s" % (name, mode, api, tag), {"fault": name, "mode": mode, "api": api})
        # ---- spreadsheet containers: cells the reader's library refuses, archives damaged at byte level ----------------------
        pass  # datetime is imported at module level
        import random
        import xlsxwriter
        import ods_enc
        from cutplace import rowio

        def read_container(reader, path):
            try:
                list(reader(path))
                return "ok"
            except Exception as error:  # noqa
                return core.classify_exception(error)

        # date-formatted cells whose serial number xlrd cannot turn into a date
        for serial in (1, 30, 59, 60, -1, -5.5, 0.5, 2958465, 2958466, 3000000, 1e10, 1e300):
            xpath = os.path.join(tmp, "dates.xlsx")
            wb = xlsxwriter.Workbook(xpath)
            ws = wb.add_worksheet()
            ws.write_number(0, 0, serial, wb.add_format({"num_format": "yyyy-mm-dd hh:mm:ss"}))
            ws.write_string(0, 1, "x")
            wb.close()
            tag = read_container(rowio.excel_rows, xpath)
            ctx.count(key=("excel-date-serial", serial), branch="excel-date:%s" % tag)
            if tag != "ok" and not core.is_cutplace_tag(tag):
                ctx.violation("C10:excel-cell:date-serial:%s" % tag, "Excel date cell with serial number %r makes excel_rows raise %s" % (serial, tag), {"serial": serial})
        # byte-level damage
        xpath = os.path.join(tmp, "good.xlsx")
        wb = xlsxwriter.Workbook(xpath)
        wb.set_properties({"created": datetime.datetime(2020, 1, 1)})   # the same bytes in every run
        ws = wb.add_worksheet()
        for r_ in range(4):
            ws.write_string(r_, 0, "text%d" % r_)
            ws.write_number(r_, 1, r_ + 0.5)
            ws.write_datetime(r_, 2, datetime.datetime(2024, 2, 26 + r_, 12, 0, r_), wb.add_format({"num_format": "yyyy-mm-dd hh:mm:ss"}))
        wb.close()
        opath = os.path.join(tmp, "good.ods")
        ods_enc.write_ods(opath, ods_enc.encode_doc({"colRuns": True, "rowRuns": False, "whitespace": False, "spans": False, "paragraphs": False},
                                                    [[["a", "a", "b"], ["1", "", ""], ["x", "y", "z"]]]))
        rnd_bytes = random.Random(ctx.seed * 7919 + 11)
        n_damage = 150 if ctx.tier == "quick" else 2500
        for kind, good_path, reader in (("xlsx", xpath, rowio.excel_rows), ("ods", opath, rowio.ods_rows)):
            blob = open(good_path, "rb").read()
            for k in range(n_damage):
                how = rnd_bytes.choice(["flip", "flip", "zero", "cut", "delete", "duplicate"])
                at = rnd_bytes.randrange(len(blob))
                n_ = rnd_bytes.choice([1, 2, 4, 16, 64, 300])
                if how == "flip":
                    bad = blob[:at] + bytes([blob[at] ^ (1 << rnd_bytes.randrange(8))]) + blob[at + 1:]
                elif how == "zero":
                    bad = blob[:at] + b"\x00" * min(n_, len(blob) - at) + blob[at + n_:]
                elif how == "cut":
                    bad = blob[:at]
                elif how == "delete":
                    bad = blob[:at] + blob[at + n_:]
                else:
                    bad = blob[:at] + blob[at:at + n_] + blob[at:]
                bpath = os.path.join(tmp, "damaged." + kind)
                with open(bpath, "wb") as f:
                    f.write(bad)
                tag = read_container(reader, bpath)
                ctx.count(key=("damaged", kind, how, at, n_), branch="damaged-%s:%s" % (kind, "ok" if tag == "ok" else ("cutplace" if core.is_cutplace_tag(tag) else tag)))
                if tag != "ok" and not core.is_cutplace_tag(tag):
                    ctx.violation("C10:damaged-%s:%s" % (kind, tag), "%s archive damaged by %s of %d byte(s) at offset %d makes the reader raise %s" % (kind, how, n_, at, tag),
                                  {"kind": kind, "how": how, "at": at, "n": n_})
        # content.xml that declares an encoding the XML parser cannot use
        import zipfile
        with zipfile.ZipFile(opath) as z:
            content_text = z.read("content.xml").decode("utf-8")
        content_body = content_text.split("?>", 1)[1] if content_text.startswith("<?xml") else content_text
        for enc_name in ("no-such-encoding", "Shift_JIS", "Big5", "rot13", "undefined", "utf-7", "hex", "idna", ""):
            bpath = os.path.join(tmp, "declared.ods")
            with zipfile.ZipFile(bpath, "w") as z:
                z.writestr("mimetype", "application/vnd.oasis.opendocument.spreadsheet")
                z.writestr("content.xml", ('<?xml version="1.0" encoding="%s"?>' % enc_name + content_body).encode("ascii", "xmlcharrefreplace"))
            for api in ("rows", "validate", "cli"):
                if api == "rows":
                    tag = read_container(rowio.ods_rows, bpath)
                else:
                    ods_cid = interface.Cid()
                    ods_cid.read("c10-ods", [["D", "Format", "ODS"], ["F", "a"], ["F", "b", "", "X"], ["F", "c", "", "X"]])
                    if api == "validate":
                        try:
                            validio.validate(ods_cid, bpath)
                            tag = "ok"
                        except Exception as error:  # noqa
                            tag = core.classify_exception(error)
                    else:
                        ods_cid_path = os.path.join(tmp, "ods_cid.csv")
                        with open(ods_cid_path, "w") as f:
                            f.write("D,Format,ODS\nF,a\nF,b,,X\nF,c,,X\n")
                        try:
                            code = applications.main(["cutplace", ods_cid_path, bpath])
                        except SystemExit as error:
                            code = error.code
                        tag = "exn:exit4" if code == 4 else "ok"
                ctx.count(key=("declared-encoding", enc_name, api), branch="declared-encoding:%s" % ("ok" if tag == "ok" else ("cutplace" if core.is_cutplace_tag(tag) else tag)))
                if tag != "ok" and not core.is_cutplace_tag(tag):
                    ctx.violation("C10:ods-declared-encoding:%s" % tag, "content.xml declaring encoding %r: %s gives %s" % (enc_name, api, tag), {"encoding": enc_name, "api": api})
        # ---- the command line never answers CID / data problems with 4 ------------------------------------------------
        data_path = os.path.join(tmp, "data.csv")
        with open(data_path, "w") as f:
            f.write("h\n" + good)
        n_cli = 0
        for (fmt, i, j, h, rows) in cases:
            if fmt != "delimited" or i < 0 or "\x00" in h or any(0xD800 <= ord(ch_) <= 0xDFFF for ch_ in h) or (n_cli >= 400 and ctx.tier == "quick" and zlib.crc32(repr((i, j, h)).encode("utf-8", "replace")) % 7):
                continue
            n_cli += 1
            cid_path = os.path.join(tmp, "cid.csv")
            with open(cid_path, "w", newline="", encoding="utf-8") as f:
                csv.writer(f).writerows(rows)
            try:
                code = applications.main(["cutplace", cid_path, data_path])
            except SystemExit as error:
                code = error.code
            ctx.count(key=("cli", i, j, h), branch="cli:exit%s" % code)
            if code == 4:
                kind = cell_kind(BASE_CIDS[fmt][i], j)
                # the same defect as the escaping exception of Cid.read for this cell: one signature for both
                under = cidlib.impl_canonical(rows).split("@")[0].split(" ")[0]
                ctx.violation(cid_signature(fmt, rows, i, j, under), "command line exits 4 for CID cell %s = %r (%s)" % (kind, h, under), {"row": i, "col": j, "value": h})
    finally:
        sys.stderr.close()
        sys.stderr = old_err
        logging.disable(logging.NOTSET)
        shutil.rmtree(tmp, ignore_errors=True)


def replay(ctx, case):
    c = case["case"]
    if "rows" in c:
        print(cidlib.impl_canonical(c["rows"]))
    print(c)
