"""C09  CIDs are accepted iff structurally sound; rejections name the offending row."""
import zlib

import core
import cidlib


def run(ctx):
    rnd = ctx.rnd
    ctx.rule = ("generated valid CIDs (all four formats, 1-6 fields over 14 declarations of all 8 types, 0-3 checks, random property rows) x (a) stacks of meaning-"
                "preserving rewrites (comment rows, trailing cells, case of row markers / property names / format value, blanks around stripped cells) which must "
                "stay accepted with identical fields, checks and format settings, (b) each of ~55 structural defects at every applicable row, which must be "
                "rejected as interface error at that row, (c) field rows with grammar-generated length declarations (single, ranges, open ends, lists, hex, negative, "
                "malformed) whose verdict must be the model's; every CID also goes through the Lean model of Cid.read, a third of them also stored as comma separated text and loaded through create_cid_from_string; distinct = distinct row list; non-trivial = every case")
    n = 60 if ctx.tier == "quick" else 600
    cases = []   # (kind, rows, expectation)
    for _ in range(n):
        rows, info = cidlib.gen_valid_cid(rnd)
        cases.append(("valid", rows, None))
        for _ in range(3):
            drows, imap = cidlib.decorate(rnd, rows, info)
            cases.append(("decorated", drows, rows))
        for new_rows, where in cidlib.length_variants(rnd, rows, info):
            cases.append(("length", new_rows, where))
        for name, new_rows, where in cidlib.defects(rnd, rows, info):
            if name == "unknown-row-marker":
                where = [k for k, r in enumerate(new_rows) if r and r[0] == "X"][0]
            cases.append(("defect:" + name, new_rows, where))
            if rnd.random() < 0.15:
                # the same defect inside a decorated CID: the offending row moves with the decoration
                info2 = dict(info)
                drows, imap = cidlib.decorate(rnd, new_rows, {"format": info["format"]})
                # (a defect reported after the last row stays after the last row)
                cases.append(("defect+decorated:" + name, drows, None if where is None else imap.get(where, len(drows))))
    outs = core.run_driver([cidlib.model_line(rows) for _, rows, _ in cases])
    canon_cache = {}
    for (kind, rows, expect), mo in zip(cases, outs):
        impl = cidlib.impl_canonical(rows)
        model = cidlib.normalise_model(mo)
        case = {"kind": kind, "rows": rows, "impl": impl, "model": model}
        ctx.count(key=repr(rows), branch=kind.split(":")[0] + (":" + impl.split("@")[0].split(" ")[0]))
        ctx.sample(case)
        if model.startswith("unsupported"):
            ctx.skip(case)
            continue
        if kind == "valid":
            if not impl.startswith("ok "):
                ctx.violation("C09:valid-rejected:%s" % impl.split("@")[0], "structurally sound CID rejected: %s" % impl, case)
        elif kind == "length":
            # the verdict is the model's (C09_fixed_length_exact, C09_length_not_negative describe it); compared below
            if not impl.startswith("ok ") and not impl.startswith("iface@%d" % expect):
                ctx.violation("C09:length-%s" % impl.split("@")[0], "field row %d with another length declaration gives %s" % (expect, impl), case)
        elif kind == "decorated":
            base = cidlib.impl_canonical(expect)
            if impl != base:
                ctx.violation("C09:decoration-changes-%s" % ("verdict" if impl.split(" ")[0] != base.split(" ")[0] else "interface"),
                              "decorated CID gives %s, the plain one %s" % (impl, base), case)
        else:
            name = kind.split(":", 1)[1]
            if impl.startswith("ok "):
                ctx.violation("C09:defect-accepted:%s" % name, "CID with defect %s is accepted" % name, case)
            elif not impl.startswith("iface@"):
                ctx.violation("C09:defect-not-interface-error:%s:%s" % (name, impl.split("@")[0]), "defect %s surfaces as %s" % (name, impl), case)
            elif expect is not None and impl != "iface@%d" % expect:
                ctx.violation("C09:defect-wrong-row:%s" % name, "defect %s in row %d reported as %s" % (name, expect, impl), case)
        if zlib.crc32(repr(rows).encode("utf-8")) % 3 == 0 and not any("\r" in c or "\x00" in c for r in rows for c in r):
            # the same rows stored as comma separated text and loaded through the reader for CID files: same verdict, same row
            impl_text = cidlib.impl_canonical(rows, via_text=True)
            ctx.count(key=("text", repr(rows)), branch="text-route")
            if impl_text != impl:
                ctx.violation("C09:text-route:%s" % ("row" if impl_text.split("@")[0] == impl.split("@")[0] else "verdict"),
                              "the rows given directly: %s; stored as text: %s" % (impl, impl_text), dict(case, impl_text=impl_text))
        if impl != model:
            if impl.split("@")[0].split(" ")[0] != model.split("@")[0].split(" ")[0]:
                ctx.violation("C09:model:%s" % kind.split(":")[0], "implementation %s, model %s" % (impl, model), case)
            else:
                ctx.note_drift(case)


def replay(ctx, case):
    c = case["case"]
    print("impl :", cidlib.impl_canonical(c["rows"]))
    print("model:", cidlib.normalise_model(core.run_driver([cidlib.model_line(c["rows"])])[0]))
