"""C08  Validation outcomes do not depend on what the CID was used for before.

Every history (sequence of reads / writes on one CID object, including abandoned and unclosed
runs) is executed on one shared CID and each run is also executed alone on a freshly loaded CID;
the observable outcomes must be equal.  The same history goes through the Lean model, whose
`readRows`/`writerInit` provably ignore the incoming check state.
"""
import itertools

import core
import engine


def outcome(run, i):
    """what the statement calls the run's outcome: returned rows, rejections, end-of-data result"""
    if run["kind"] == "W":
        return (i["w"], i["close"], i["text"])
    if run["api"] == "v":
        return (i["outcome"],)
    return (i["ev"], i["fin"], i["acc"], i["rej"], i["close"])


def run(ctx):
    rnd = ctx.rnd
    ctx.rule = ("exhaustive: all sequences of 1..4 operations from {read clean file, read file with duplicate key, read and abandon after 1 row, "
                "read without close, read with end-check failing, validate(limit 0), read with limit 0 through the Reader class, read nothing, read through a Reader object created before the history started, rows() called again on a Reader abandoned after one row, write rows, write nothing, write without close} on two CIDs (IsUnique+DistinctCount; "
                "plugin check) over data sets sharing key values; each run re-executed alone on a fresh CID; thorough adds random histories of length 5..10; "
                "distinct = distinct history; non-trivial = history has at least 2 operations")
    fields = [
        {"name": "k", "type": "Integer", "empty": False, "length": "", "rule": "1...50", "good": ["1", "2", "3"], "bad": ["x"]},
        {"name": "v", "type": "Text", "empty": False, "length": "", "rule": "", "good": ["a", "b"], "bad": []},
    ]
    cids = [
        [{"kind": "U", "rule": "k"}, {"kind": "D", "rule": "v < 3"}],
        [{"kind": "S", "col": 1, "veto": "z", "fail": False}, {"kind": "U", "rule": "k, v"}],
    ]
    clean = [["1", "a"], ["2", "b"]]
    clean2 = [["2", "a"], ["3", "b"]]
    dup = [["1", "a"], ["1", "a"], ["2", "b"]]
    three = [["1", "a"], ["2", "b"], ["3", "c"]]
    ops = {
        "read-clean": {"kind": "R", "api": "f", "mode": "yield", "limit": None, "rows": clean},
        "read-dup": {"kind": "R", "api": "f", "mode": "yield", "limit": None, "rows": dup},
        "read-abandon": {"kind": "R", "api": "c", "mode": "yield", "limit": None, "rows": clean2, "stop": 1, "close": False},
        "read-noclose": {"kind": "R", "api": "c", "mode": "continue", "limit": None, "rows": three, "close": False},
        "read-endfail": {"kind": "R", "api": "c", "mode": "raise", "limit": None, "rows": three, "close": True},
        "validate-0": {"kind": "R", "api": "v", "mode": "raise", "limit": 0, "stop": 0, "rows": clean},
        # a Reader with validation limit 0 that is read to the end and closed (nothing is validated; the end checks see no rows)
        "read-limit0": {"kind": "R", "api": "c", "mode": "yield", "limit": 0, "rows": clean, "close": True},
        "read-empty": {"kind": "R", "api": "c", "mode": "yield", "limit": None, "rows": [], "close": True},
        # a Reader object that exists before the history starts; its run begins when rows() is called
        "read-early": {"kind": "R", "api": "c", "mode": "yield", "limit": None, "rows": clean, "close": True, "early": True},
        # rows() called a second time on a Reader whose first pass was abandoned after one row
        "read-again": {"kind": "R", "api": "c", "mode": "yield", "limit": None, "rows": clean2, "close": True, "pre": 1},
        "write-empty": {"kind": "W", "rows": [], "close": True},
        "write": {"kind": "W", "rows": [["1", "a"], ["2", "b"], ["1", "a"]], "close": True},
        "write-noclose": {"kind": "W", "rows": [["2", "a"], ["3", "c"]], "close": False},
    }
    names = sorted(ops)
    histories = []
    maxlen = 3 if ctx.tier == "quick" else 4
    for n in range(1, maxlen + 1):
        for combo in itertools.product(names, repeat=n):
            histories.append(list(combo))
    if ctx.tier == "quick":
        # all length-4 histories are in the thorough tier; quick samples them
        for _ in range(600):
            histories.append([rnd.choice(names) for _ in range(4)])
    else:
        for _ in range(3000):
            histories.append([rnd.choice(names) for _ in range(rnd.randint(5, 10))])
    ctx.exhaustive = True
    ctx.notes["exhaustive_part"] = "all histories up to length %d over %d operations x 2 CIDs" % (maxlen, len(names))
    scns = []
    for h in histories:
        for ci, checks in enumerate(cids):
            scns.append({"format": "delimited", "allowed": None, "fields": fields, "checks": checks, "header": 0,
                         "runs": [dict(ops[name]) for name in h], "history": h, "cid": ci})
    # the same runs alone on a fresh CID (memoised per (cid, op))
    alone = {}
    solo = []
    for ci, checks in enumerate(cids):
        for name in names:
            solo.append({"format": "delimited", "allowed": None, "fields": fields, "checks": checks, "header": 0,
                         "runs": [dict(ops[name])], "history": [name], "cid": ci})
    for scn, mruns, iruns in engine.run_scenarios(solo):
        alone[(scn["cid"], scn["history"][0])] = (mruns[0], iruns[0])
    for scn, mruns, iruns in engine.run_scenarios(scns):
        h = scn["history"]
        case = {"cid_checks": scn["checks"], "history": h, "model": mruns, "impl": [engine.public_impl(i) for i in iruns]}
        ctx.count(key=(scn["cid"], tuple(h)), nontrivial=len(h) >= 2, branch="len%d" % len(h))
        ctx.sample(case)
        for k, (name, run, m, i) in enumerate(zip(h, scn["runs"], mruns, iruns)):
            m0, i0 = alone[(scn["cid"], name)]
            if outcome(run, i) != outcome(run, i0):
                prev = h[k - 1] if k > 0 else "-"
                if name == "validate-0" and i["outcome"].startswith("check:"):
                    sig = "C08:validate-until-0:stale-end-check"
                else:
                    sig = "C08:%s:after:%s" % (name, "writer" if prev.startswith("write") else ("unclosed" if prev in ("read-noclose", "read-abandon") else "any"))
                ctx.violation(sig,
                              "history %r: run %d (%s) gives %r but %r on a fresh CID" % (h, k, name, outcome(run, i), outcome(run, i0)), case)
            diffs = engine.compare_run(scn, run, m, i)
            if diffs:
                # the model (which provably ignores earlier state) disagrees with the code
                pinned = [d for d in diffs if d != "log"]
                if pinned and outcome(run, i) == outcome(run, i0):
                    # the statement holds on this run (same outcome as on a fresh CID): the model is behind the
                    # code here (e.g. a repaired known finding); not a violation of C08
                    ctx.note_drift({"diffs": diffs, "case": case})
                elif pinned:
                    ctx.violation("C08:model:%s:%s" % (name, "+".join(pinned)), "history %r run %d: implementation %r, model %r" % (h, k, engine.public_impl(i), m), case)
                else:
                    ctx.note_drift({"diffs": diffs, "case": case})


def replay(ctx, case):
    print(case["case"])
