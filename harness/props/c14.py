"""C14  A validating writer emits only conforming rows; its output validates again."""
import csv
import io
import os
import shutil
import tempfile

import core
import engine


def expected_text(scn, out_rows):
    """what the delegated writer produces for the rows the model says were emitted"""
    if scn["format"] == "delimited":
        s = io.StringIO(newline="")
        w = csv.writer(s)  # the default format of the scenario CIDs: comma, double quote, CRLF
        for r in out_rows:
            w.writerow(r)
        return s.getvalue()
    sep = os.linesep if scn.get("line", "lf") == "any" else engine.LINE_TEXT[scn.get("line", "lf")]
    return "".join("".join(r) + sep for r in out_rows)  # the declared line delimiter (os.linesep under 'any', nothing under 'none')


def model_out_rows(m):
    if m["out"] == "~":
        return []
    return [[] if r == "E" else [core.dec(c) for c in r.split(",")] for r in m["out"].split(";")]


def run(ctx):
    rnd = ctx.rnd
    ctx.rule = ("sequences of 0-8 rows mixing accepted rows, field errors, wrong item counts and duplicates x delimited and fixed CIDs (fixed: every line delimiter setting LF / CR / CRLF / Any / None; 1-4 fields, IsUnique / "
                "DistinctCount / plugin checks) x header 0-1; outcome of every write_row (half of the scenarios through write_rows batches), stream contents, then cutplace.rows over the produced output, both as a stream and stored in a file read through its path; "
                "rows the target file's encoding cannot represent (3 formats x column x text); distinct = distinct (CID, row sequence); non-trivial = at least one row written")
    n = 1200 if ctx.tier == "quick" else 15000
    scns = []
    for _ in range(n):
        fmt = rnd.choice(["delimited", "fixed"])
        fields = engine.gen_fields(rnd, rnd.randint(1, 4), fmt)
        rows = engine.gen_table(rnd, fields, fmt, rnd.randint(0, 8), p_bad=0.15, p_ragged=0.1)
        if fmt == "fixed":
            # the validating writer pads: hand it unpadded values (and sometimes a wrong item count)
            rows = [[c.rstrip(" ") if rnd.random() < 0.7 else c for c in r] for r in rows]
            rows = [r[:-1] if (rnd.random() < 0.07 and len(r) > 1) else r for r in rows]
            # values that end in white space other than a blank: padding adds blanks, it never replaces characters
            for r in rows:
                for j, f in enumerate(fields):
                    if j < len(r) and f["type"] in ("Text", "Scripted") and rnd.random() < 0.04 and 0 < len(r[j].rstrip(" ")) < f["width"]:
                        r[j] = r[j].rstrip(" ") + rnd.choice(["\t", "\xa0"])
        if rows and rnd.random() < 0.4:
            rows.insert(rnd.randrange(len(rows) + 1), list(rnd.choice(rows)))  # a duplicate
        header = rnd.choice([0, 0, 1, 1, 2])
        for k in range(min(header, len(rows))):
            if len(rows[k]) != len(fields):
                rows[k] = [engine.pad(f["good"][0], f.get("width", 0)) for f in fields]  # header rows are written unvalidated: keep them well-shaped
        if fmt == "delimited" and header >= 1 and rows and rows[0] and rnd.random() < 0.4:
            rows[0][0] = "two\nlines"   # a heading that spans two lines of the written file is still one header row
        scns.append({"format": fmt, "allowed": None, "fields": fields, "checks": engine.gen_checks(rnd, fields), "header": header,
                     "line": rnd.choice(["lf", "cr", "crlf", "any", "none"]),
                     "runs": [{"kind": "W", "rows": rows, "close": True, "batch": rnd.random() < 0.5}]})
    for scn, mruns, iruns in engine.run_scenarios(scns):
        sc = engine.strip_scn(scn)
        if isinstance(mruns, str) or isinstance(iruns, str):
            ctx.count(key=repr(sc), nontrivial=False, branch="decl")
            if mruns == "unsupported":
                ctx.skip(sc)
            elif isinstance(mruns, str) != isinstance(iruns, str):
                ctx.machinery_error("scenario declaration disagrees: model=%r impl=%r %r" % (mruns, iruns, sc))
            continue
        m, i = mruns[0], iruns[0]
        case = {"scenario": sc, "model": m, "impl": i}
        out_rows = model_out_rows(m)
        ctx.count(key=repr(sc), nontrivial=len(out_rows) > 0, branch="%s:%s" % (scn["format"], "rejections" if any(v != "k" for v in m["w"].split(",")) else "clean"))
        ctx.sample(case)
        if i["w"].startswith("!"):
            ctx.violation("C14:writer-construction", "Writer(cid, stream) fails: %s" % i["w"], case)
            continue
        # 1. verdict of every write_row (accept / reject) as the model says
        iv = [v if v == "k" else "rej" for v in ("" if i["w"] == "~" else i["w"]).split(",") if v]
        mv = [v if v == "k" else "rej" for v in ("" if m["w"] == "~" else m["w"]).split(",") if v]
        if iv != mv:
            ctx.violation("C14:verdicts:%s" % scn["format"], "write_row outcomes %s, model/spec %s" % (i["w"], m["w"]), case)
            continue
        if not engine.same_modulo_star(i["w"], m["w"]) or i["close"] != m["close"] and not engine.same_modulo_star(i["close"], m["close"]):
            ctx.note_drift(case)
        # 2. the stream holds exactly the accepted rows, in order, padded, each line properly ended
        want = expected_text(scn, out_rows)
        if i["text"] != want:
            ctx.violation("C14:output:%s" % scn["format"], "stream %r, accepted rows render as %r" % (i["text"], want), case)
            continue
        # 3. reading the output back under the same CID
        if scn["header"] == 0 and out_rows:
            from cutplace import validio
            cid = engine.build_cid(scn)
            back = list(validio.Reader(cid, io.StringIO(i["text"], newline=""), on_error="yield").rows())
            bad = [b for b in back if isinstance(b, Exception)]
            if bad or back != out_rows:
                blanks_matter = scn["format"] == "fixed"
                sig = "C14:read-back:%s:%s" % (scn["format"], "padding-changes-verdict" if blanks_matter else "other")
                ctx.violation(sig, "output %r read back as %r, written rows %r" % (i["text"], [str(b) if isinstance(b, Exception) else b for b in back], out_rows), case)
            else:
                # the same output stored in a file and read back through its path
                tmp_dir = tempfile.mkdtemp(prefix="c14-")
                try:
                    path = os.path.join(tmp_dir, "out.txt")
                    with open(path, "w", newline="", encoding=cid.data_format.encoding) as f:
                        f.write(i["text"])
                    try:
                        back2 = list(validio.Reader(engine.build_cid(scn), path, on_error="yield").rows())
                    except Exception as error:  # noqa
                        back2 = [error]
                finally:
                    shutil.rmtree(tmp_dir, ignore_errors=True)
                if back2 != out_rows:
                    ctx.violation("C14:read-back-from-file:%s:%s" % (scn["format"], scn.get("line", "lf") if scn["format"] == "fixed" else "-"),
                                  "output %r stored in a file reads back as %r, written rows %r" % (i["text"], [str(b) if isinstance(b, Exception) else b for b in back2], out_rows), case)
    unencodable_cases(ctx)


def unencodable_cases(ctx):
    """a row the target's encoding cannot represent is a rejected row: nothing of it reaches the file, the next row does"""
    from cutplace import errors, interface, validio

    for fmt, line_name, sep in (("Fixed", "LF", "\n"), ("Fixed", "CRLF", "\r\n"), ("Delimited", "LF", "\r\n")):
        for bad_col in (0, 1, 2):
            for bad_text in ("\u20ac", "a\u20ac", "\u65e5\u672c"):
                cid = interface.Cid()
                rows_ = [["D", "Format", fmt], ["D", "Encoding", "ascii"], ["D", "Line delimiter", line_name]]
                rows_ += [["F", "a", "", "", "3" if fmt == "Fixed" else "", "Text", ""], ["F", "b", "", "", "3" if fmt == "Fixed" else "", "Text", ""],
                          ["F", "c", "", "", "3" if fmt == "Fixed" else "", "Text", ""]]
                cid.read("c14-enc", rows_)
                good1, good2 = ["ab", "cd", "ef"], ["gh", "ij", "kl"]
                bad = list(good1)
                bad[bad_col] = bad_text
                tmp_dir = tempfile.mkdtemp(prefix="c14-")
                try:
                    path = os.path.join(tmp_dir, "out.txt")
                    verdicts = []
                    with validio.Writer(cid, path) as writer:
                        for row in (good1, bad, good2):
                            try:
                                writer.write_row(row)
                                verdicts.append("k")
                            except errors.DataError:
                                verdicts.append("rejected")
                            except Exception as error:  # noqa
                                verdicts.append("!" + core.classify_exception(error))
                    with open(path, "rb") as f:
                        written = f.read().decode("ascii", "replace")
                finally:
                    shutil.rmtree(tmp_dir, ignore_errors=True)
                if fmt == "Fixed":
                    want = "".join("".join(c.ljust(3) for c in r) + sep for r in (good1, good2))
                else:
                    want = "".join(",".join(r) + sep for r in (good1, good2))
                case = {"format": fmt, "line": line_name, "rows": [good1, bad, good2], "verdicts": verdicts, "written": written}
                ctx.count(key=("unencodable", fmt, line_name, bad_col, bad_text), branch="unencodable:%s" % fmt)
                if verdicts != ["k", "rejected", "k"]:
                    ctx.violation("C14:unencodable-row:verdicts:%s" % fmt, "writing %r under encoding ascii gives %r" % (case["rows"], verdicts), case)
                elif written != want:
                    ctx.violation("C14:unencodable-row:output:%s" % fmt, "file holds %r after a rejected row, accepted rows render as %r" % (written, want), case)


def replay(ctx, case):
    print(case["case"])
