"""C06  Error-handling modes agree with each other and account for every row."""
import core
import engine


def run(ctx):
    rnd = ctx.rnd
    ctx.rule = ("random CIDs (1-4 fields, 0-2 checks incl. end-of-data checks, header 0-2, delimited/fixed) x tables of 0-8 rows with accepted and rejected rows "
                "x {no fault, malformed tail after the last row (unterminated quote / short record), fixed-width: a stray character instead of the last line delimiter, other characters in place of the delimiter of any record, undecodable bytes in front of any record of a file read through its path} x three modes x {Reader class (in half of the cases all three Reader objects are created before the first is used), cutplace.rows function}; relational checks between the runs of one case; "
                "distinct = distinct (CID, table, fault); non-trivial = at least one data row")
    n = 700 if ctx.tier == "quick" else 8000
    scns = []
    for _ in range(n):
        fmt = rnd.choice(["delimited", "delimited", "fixed"])
        line = rnd.choice(["lf", "cr", "crlf", "any", "none"])
        fields = engine.gen_fields(rnd, rnd.randint(1, 4), fmt)
        table = engine.gen_table(rnd, fields, fmt, rnd.randint(0, 8), p_bad=rnd.choice([0.0, 0.15, 0.3]))
        fault = rnd.random() < 0.2
        if fmt == "fixed" and sum(f["width"] for f in fields) < 2:
            fault = False   # a one character tail would be a complete record of this CID, not a short one
        model_rows = None
        if fault and fmt == "fixed" and table and line != "none" and rnd.random() < 0.5:
            if rnd.random() < 0.5:
                fault, model_rows = {"kind": "nodelim"}, table[:-1]
            else:
                at = rnd.randrange(len(table))
                fault, model_rows = {"kind": "wrongdelim", "at": at}, table[:at]
        if fault is True and fmt == "fixed" and rnd.random() < 0.3:
            fault = {"kind": "blanktail"}   # the surplus character of the short record is a blank
        fault_at = None
        if rnd.random() < 0.12:
            # undecodable bytes in front of record `fault_at` of a file that is read through its path
            fault, fault_at = "bytes", rnd.randint(0, len(table))
        # in half of the cases the three Reader objects exist before the first of them is used
        early = fault != "bytes" and rnd.random() < 0.5
        runs = []
        for api in ("c", "f"):
            for mode in ("yield", "continue", "raise"):
                runs.append({"kind": "R", "api": api, "mode": mode, "limit": None, "fault": fault, "rows": table, "close": True})
                if fault_at is not None:
                    runs[-1]["fault_at"] = fault_at
                if model_rows is not None and fault != "bytes":
                    runs[-1]["model_rows"] = model_rows
                if early and api == "c":
                    runs[-1]["early"] = True
        scns.append({"format": fmt, "line": line, "allowed": None, "fields": fields, "checks": engine.gen_checks(rnd, fields), "header": rnd.choice([0, 0, 1, 2]), "runs": runs})
    for scn, mruns, iruns in engine.run_scenarios(scns):
        sc = engine.strip_scn(scn)
        sc["runs"] = [dict(r, rows="<table>") for r in sc["runs"]]
        sc["table"] = scn["runs"][0]["rows"]
        if isinstance(mruns, str) or isinstance(iruns, str):
            ctx.count(key=repr(sc), nontrivial=False, branch="decl")
            if mruns == "unsupported":
                ctx.skip(sc)
            elif isinstance(mruns, str) != isinstance(iruns, str):
                ctx.machinery_error("scenario declaration disagrees: model=%r impl=%r" % (mruns, iruns))
            continue
        case = {"scenario": sc, "model": mruns, "impl": [engine.public_impl(i) for i in iruns]}
        table = scn["runs"][0]["rows"]
        ndata = max(0, len(table) - scn["header"])
        fault = scn["runs"][0]["fault"]
        ctx.count(key=repr(sc), nontrivial=ndata > 0, branch="%s:%s:%s" % (scn["format"], "fault" if fault else "nofault", "err" if "e" in mruns[0]["ev"] else "clean"))
        ctx.sample(case)
        # 1. tie: every run equals the model on the observables the statement pins down
        for k, (run, m, i) in enumerate(zip(scn["runs"], mruns, iruns)):
            if fault == "bytes":
                # where the decoder trips depends on the buffering of the text layer, which the statement leaves open:
                # only the relations below (every mode ends with a data-format error) are decided for these cases
                break
            diffs = engine.compare_run(scn, run, m, i)
            pinned = [d for d in diffs if d in ("ev", "fin", "acc", "rej")]
            if pinned:
                ctx.violation("C06:%s:%s:%s" % (run["mode"], run["api"], "+".join(pinned)),
                              "run %d (%s/%s): implementation %r, model/spec %r" % (k, run["api"], run["mode"], engine.public_impl(i), m), case)
            elif diffs:
                ctx.note_drift({"diffs": diffs, "run": k, "case": case})
        # 2. the relations between the modes, on the implementation itself
        for base in (0, 3):
            y, c, r = iruns[base], iruns[base + 1], iruns[base + 2]
            api = scn["runs"][base]["api"]
            yev = [] if y["ev"] == "~" else y["ev"].split(",")
            cev = [] if c["ev"] == "~" else c["ev"].split(",")
            rev = [] if r["ev"] == "~" else r["ev"].split(",")
            if cev != [e for e in yev if e.startswith("r")]:
                ctx.violation("C06:continue-vs-yield:" + api, "continue %r is not the accepted rows of yield %r" % (c["ev"], y["ev"]), case)
            prefix = []
            first_err = None
            for e in yev:
                if e.startswith("r"):
                    prefix.append(e)
                else:
                    first_err = e
                    break
            if rev != prefix:
                ctx.violation("C06:raise-prefix:" + api, "raise yields %r, rows before the first rejection in yield are %r" % (r["ev"], prefix), case)
            if first_err is not None:
                want = "raised:" + first_err[1:]
                if not engine.same_modulo_star(r["fin"], want):
                    ctx.violation("C06:raise-same-error:%s:%s" % (api, "masked-by-end-check" if ":C" in r["fin"] and ":C" not in want else "other"),
                                  "raise mode ends with %r but the first rejection in yield mode is %r" % (r["fin"], want), case)
            if api == "c" and not fault and y["fin"] == "done":
                for name, run_ in (("yield", y), ("continue", c)):
                    if int(run_["acc"]) + int(run_["rej"]) != ndata:
                        ctx.violation("C06:counters:" + name, "accepted %s + rejected %s != %d data rows" % (run_["acc"], run_["rej"], ndata), case)
            if fault:
                for name, run_ in (("yield", y), ("continue", c), ("raise", r)):
                    if run_["fin"] != "format" and not (name == "raise" and first_err is not None):
                        ctx.violation("C06:fault-not-reported:%s:%s" % (name, api), "malformed container ends with %r instead of a data-format error" % run_["fin"], case)


def replay(ctx, case):
    print(case["case"])
