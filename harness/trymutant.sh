#!/bin/bash
# confirm a sub-agent's seeded change in its scratch worktree and run checks against that worktree (CUTPLACE_REPO);
# used by hand, not registered.   usage: trymutant.sh <worktree> <Cnn> [more Cnn...]
wt="$1"; shift
cd "$wt" || exit 2
PYTHONPATH=$wt /venv/bin/python demo.py >/tmp/demo_with.out 2>&1; w=$?
git stash -q -- cutplace || exit 2
PYTHONPATH=$wt /venv/bin/python demo.py >/tmp/demo_without.out 2>&1; wo=$?
git stash pop -q
echo "demo with-change exit=$w  without exit=$wo"
echo "pytest: $(PYTHONPATH=$wt /venv/bin/python -m pytest -q -p no:cacheprovider --timeout=900 --continue-on-collection-errors 2>&1 | tail -1)"
for pid in "$@"; do
  for tier in quick thorough; do
    out=$(cd /verif && CUTPLACE_REPO=$wt ./check $pid $tier 2>&1); code=$?
    echo "$pid $tier exit=$code $(echo "$out" | grep -A1 '^VIOLATION' | head -2 | tr '\n' ' ' | cut -c1-300)"
    if [ $code -eq 1 ]; then break; fi
  done
done
