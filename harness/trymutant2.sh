#!/bin/bash
# round-8 format: worktree holds A.diff/A_demo.py/A_notes.txt and B.* ; usage: trymutant2.sh <worktree> <A|B> <Cnn> [more Cnn...]
wt="$1"; x="$2"; shift; shift
cd "$wt" || exit 2
git checkout -q -- cutplace; git reset -q --hard
PYTHONPATH=$wt /venv/bin/python ${x}_demo.py >/tmp/demo_without.out 2>&1; wo=$?
git apply ${x}.diff 2>/dev/null || git apply --3way ${x}.diff 2>/dev/null || { echo "apply failed"; exit 2; }
PYTHONPATH=$wt /venv/bin/python ${x}_demo.py >/tmp/demo_with.out 2>&1; w=$?
echo "$x: demo with-change exit=$w  without exit=$wo   pytest: $(PYTHONPATH=$wt /venv/bin/python -m pytest -q -p no:cacheprovider --timeout=900 --continue-on-collection-errors 2>&1 | tail -1)"
for pid in "$@"; do
  for tier in quick thorough; do
    out=$(cd /verif && CUTPLACE_REPO=$wt ./check $pid $tier 2>&1); code=$?
    echo "  $pid $tier exit=$code $(echo "$out" | grep -A1 '^VIOLATION' | head -2 | tr '\n' ' ' | cut -c1-260)"
    if [ $code -eq 1 ]; then break; fi
  done
done
git checkout -q -- cutplace; git reset -q --hard
