"""Regenerates /verif/MANIFEST.json from the table below (kept in one place so it stays valid)."""
import json
import os

VERIF = os.path.dirname(os.path.dirname(os.path.abspath(__file__)))

CLAIMED = {
    "C01": {
        "text": "Lean 4 theorems (Props/C01.lean): C01_parse_render proves for every well-formed description (any number of items, lower <= upper, pairwise "
                "disjoint) in every legal spelling (decimal / 0x-hex limits with optional minus, quoted characters, symbolic names; '...', ':' or the ellipsis "
                "character; any blanks around tokens) that the model of Range.__init__ - str.replace, _tokenizable_description, the tokenizer fragment, "
                "int(text, 0), the token loop with its overlap test - accepts the text and stores exactly the denoted items (three layers: Proofs/RangeNorm, "
                "RangeLex, RangeTokens, composed in RangeParse); C01_validate_iff proves that Range.validate then accepts exactly the members of some item, "
                "and C01_lower/upper_* that the overall limits are the attained min/max or absent when an item is open. The model is tied to /repo by running "
                "model, declarative spec and the real cutplace.ranges.Range on the same rendered descriptions (bounded-exhaustive 1-2 item sweep plus a "
                "spelling-complete grammar stream); the 4300-digit limit of CPython's int(), which the theorem carries as hypothesis, is probed on both sides. "
                "Decimal ranges (C01_decimal_*, Proofs/DecRange.lean, core Rat): the model's Decimal comparison (Dec.le?) is the order of the rational "
                "numbers the literals denote, DecimalRange.validate accepts exactly the values inside some item, is defined for every finite value, and the "
                "overall limits are the minimum / maximum in that order or absent when an item is open; tied to cutplace.ranges.DecimalRange by a "
                "correspondence stream of rendered decimal descriptions and values (model vs rational spec vs implementation). C01_default: a blank "
                "description stands for the default, any other is used as it is (6 descriptions x 8 defaults against the code).",
        "note": "Trusted: Lean kernel; model faithfulness as sampled by the correspondence (the tokenizer / int() / str methods are CPython behaviour "
                "transcribed by hand). For DecimalRange the theorems start from the stored items (comparison, membership, limits); the text -> items parse "
                "has a totality theorem (Props/C10) but no parse = denote theorem, that step is covered by correspondence.",
        "technique": "Lean 4 proof (parse o render = denote through lexer and token loop; membership; limits) over hand-written model + differential correspondence (impl vs model vs spec)",
        "design_ref": "DESIGN.md §6 C01",
    },
    "C03": {
        "text": "Lean 4 theorem C03_guards (with corollaries C03_empty, C03_blank_fixed, C03_length, C03_chars, C03_hook_precondition) proves that the guard "
                "pipeline of AbstractFieldFormat.validated returns the verdict fixed by the statement for every field (any type, rule, hook), "
                "every format and every cell; the model is tied to /repo by an exhaustive product of declarations x cells run through the real "
                "field classes, the Lean model and the declarative guard spec.",
        "note": "Trusted: Lean kernel; faithfulness of Field.validatedWith / declareField to fields.py as exercised by the exhaustive product "
                "(5 of 8 built-in types are modelled so far: Text, Integer, Choice, Constant + a harness plugin; the guards live in the shared base class).",
        "technique": "Lean 4 proof over hand-written model (parametric in the value hook) + exhaustive differential correspondence",
        "design_ref": "DESIGN.md §6 C03",
    },
    "C04": {
        "text": "Lean 4 theorems (Props/C04.lean) prove for every column list (every field type), check list and state that validate_row accepts a row iff "
                "the item count matches, every cell is accepted by its column and no check vetoes; that a field error names the first rejected column "
                "(all earlier cells accepted); that a count error consults nothing; and (with C06_yield_order) that every yielded error carries the line of its "
                "raw row. The engine model is tied to /repo by random CIDs x tables read through the real Reader in delimited and fixed format.",
        "note": "Trusted: Lean kernel; Engine.validateRow/readLoop as a faithful transcription of validio.py (sampled by correspondence, including error "
                "location, culprit column, message naming the field, location text); ODS/XLSX containers are covered by C15/C16, not here.",
        "technique": "Lean 4 proof over parametric engine model + differential correspondence",
        "design_ref": "DESIGN.md §6 C04",
    },
    "C05": {
        "text": "Lean 4 theorems (Props/C05.lean): for every sequence of rows reaching an IsUnique check, the next row is rejected iff an earlier row the check "
                "let pass has the same key, the error refers to the first such row (C05_unique_verdict + C05_lookupKey_spec), rejected rows never register a key; "
                "DistinctCount's end verdict compares the number of distinct values among the rows that reached it with the threshold for all six operators "
                "(C05_distinct). The statement is also evaluated directly on the implementation's traces.",
        "note": "Trusted: Lean kernel; Checks model faithfulness (correspondence); DistinctCount expressions beyond `field <cmp> <int>` are outside the model. "
                "Known finding: with several vetoing checks IsUnique registers keys of rows a later check rejects (C05_unique_accepted_counterexample).",
        "technique": "Lean 4 proof (state invariant over row sequences) + differential correspondence + direct statement check on traces",
        "design_ref": "DESIGN.md §6 C05",
    },
    "C06": {
        "text": "Lean 4 theorems (Props/C06.lean) prove, for every table, header/limit setting, column and check list and starting state: continue = accepted rows "
                "of yield (same final state and calls), raise = rows before the first rejection of yield then that same error, yield has exactly one event per data "
                "row in order located at its line, accepted+rejected = number of data rows, a container fault ends every mode with a data-format error and changes nothing before it is reached (C06_fault_transparent: same events, calls, counters and check states as without it). "
                "Tied to /repo by running all three modes through Reader and cutplace.rows on generated CIDs/tables with and without faults.",
        "note": "Trusted: Lean kernel; readLoop as transcription of Reader.rows (correspondence); container faults are injected as unterminated quote / short record "
                "after the last row only.",
        "technique": "Lean 4 proof by induction over the row list + differential correspondence + relational checks between runs",
        "design_ref": "DESIGN.md §6 C06",
    },
    "C07": {
        "text": "Lean 4 theorems (Props/C07.lean): header rows have no effect whatever they contain (C07_header_skip/_blind), rows beyond the limit are returned "
                "unchanged with no call and counted as accepted (C07_beyond_limit, C07_zero), every reported error lies after the header and within the limit "
                "(C07_errors_in_window), --until mapping (C07_cli_until), what has been read does not depend on the rows or the container fault that follow (C07_prefix_blind, C07_stop_blind: the validate-only API stops after N data rows). Correspondence: exhaustive header x limit x bad-row position sweep through cutplace.rows, "
                "Reader and cutplace.validate.",
        "note": "Trusted: Lean kernel; model faithfulness (correspondence); the command line --until path is exercised in C18.",
        "technique": "Lean 4 proof + exhaustive boundary sweep (header, limit, position) as correspondence",
        "design_ref": "DESIGN.md §6 C07",
    },
    "C08": {
        "text": "Lean 4 theorems (Props/C08.lean): a started read and a writer behave identically from every check state (C08_reader_fresh, C08_writer_fresh, "
                "C08_run_fresh) and every run of any history - reads, writes, abandoned or unclosed runs, validate(limit=0) - equals the same run on a fresh CID "
                "(C08_history, no exclusion; C08_validate0_fresh). Correspondence: all histories up to length 3 (quick) / 4 "
                "(thorough) over 15 operations x 2 CIDs, each run compared with the same run on a fresh CID and with the model.",
        "note": "Trusted: Lean kernel; that Reader.rows/Writer.__init__ reset every check as the model says (correspondence). The former finding validate(limit=0) was repaired (f2ab276) and the theorem restated without the exclusion.",
        "technique": "Lean 4 proof (state independence) + exhaustive history enumeration as correspondence",
        "design_ref": "DESIGN.md §6 C08",
    },
    "C20": {
        "text": "Lean 4 theorems (Props/C20.lean) characterise the call log of the engine model for every configuration: per row hooks in column order up to the "
                "first rejected cell and only for cells passing the guards, checks in declaration order up to the first veto and only if all cells passed "
                "(C20_row_log, C20_hook_precondition), resets once first (C20_resets_first), no calls outside header/limit window, end verdicts in order up to the "
                "first failure then cleanup of all (C20_close_protocol), class-name resolution (C20_resolution). Correspondence: recording plugin classes in the "
                "harness process, recorded call sequence vs model log for readers, writers and repeated runs; import_plugins() in a subprocess.",
        "note": "Trusted: Lean kernel; model faithfulness (correspondence); resolution is checked on the implementation directly, its Lean statement is about the "
                "naming rule only.",
        "technique": "Lean 4 proof about the instrumented engine model + call-log differential correspondence",
        "design_ref": "DESIGN.md §6 C20",
    },
    "C13": {
        "text": "Lean 4 theorems (Props/C13.lean) prove for every input string, every non-empty list of positive widths and each of the five line-delimiter "
                "settings that the transcription of fixed_rows (with its one-character push-back) returns rows iff the input is in the language of aligned "
                "records interleaved with permitted delimiters (C13_sound, C13_complete), fails exactly outside it (C13_no_repair), every item has its width "
                "(C13_aligned) and the reading is unambiguous (C13_unique). Tied to /repo by exhaustive enumeration of all strings up to length 5 (quick) / 8 "
                "(thorough) over {a,b,CR,LF} x 39 width lists x 5 settings plus single-character mutations of longer files: impl vs model vs grammar.",
        "note": "Trusted: Lean kernel; Fixed.fixedRows as transcription of rowio.fixed_rows on text streams opened with newline='' (correspondence); byte decoding "
                "and file handling are not modelled.",
        "technique": "Lean 4 proof (refinement of the reader to a grammar, soundness + completeness) + bounded-exhaustive correspondence",
        "design_ref": "DESIGN.md §6 C13",
    },
    "C18": {
        "text": "Lean 4 theorems (Props/C18.lean) characterise the exit code of the transcription of applications.main/process exactly: 0 iff usable arguments, CID loads "
                "and every file accepted; 1 iff CID rejected or (all files readable and one rejected); 3 iff the CID or a named file cannot be read; 2 iff unusable "
                "arguments; never 4; independent of the order of the files. Correspondence: every ordered list of 0-3 files over 7 kinds x 6 CID states x --until "
                "variants: exit code of the real main vs the model fed with the programmatic API's verdict for each file on a fresh CID.",
        "note": "Trusted: Lean kernel; that the per-file verdict is what Reader(cid, path, validate_until) gives (measured by the harness on a fresh CID per file); "
                "argparse behaviour is observed, not modelled. Known finding: missing .ods CID exits 1.",
        "technique": "Lean 4 proof (decision table) + exhaustive command-line enumeration as correspondence",
        "design_ref": "DESIGN.md §6 C18",
    },
    "C19": {
        "text": "Lean 4 theorems (Props/C19.lean): one column per field in order, quoting iff keyword, NOT NULL iff not allowed to be empty (for every field list), "
                "and per dialect the exact sub-range on which the chosen integer type stores both limits (C19_int_fits_*_partial), beyond the integer types the "
                "decimal / number column whose precision is the number of digits of the limits (C19_int_fits_decimal, every range up to the dialect's maximal "
                "precision; since the repair b3fd201), with proved counterexamples for the two remaining gaps. Correspondence: exhaustive boundary ranges x 4 dialects through Cid.read + SqlFactory, statement parsed back; generated CIDs for columns, "
                "quoting (against keyword lists frozen at the pinned commit), NOT NULL, decimal digits, varchar length.",
        "note": "Trusted: Lean kernel; the capacity table (int/integer = 32 bit, decimal precision <= 38, DB2 31); keyword lists frozen in harness/data. "
                "Two open known findings (tinyint for negative ranges, ANSI int beyond 32 bit); the three 'limit used as decimal precision' findings were repaired (b3fd201).",
        "technique": "Lean 4 proof (threshold ladders, omega) + exhaustive boundary enumeration as correspondence",
        "design_ref": "DESIGN.md §6 C19",
    },
    "C11": {
        "text": "Lean 4 theorems (Props/C11.lean): the applicability table (13 names x 4 formats, decided exhaustively) and refusal of every other name, "
                "validate = the documented consistency rules for every setting (C11_validate_iff), defaults, Header accepted iff integer >= 0, Sheet iff >= 1; "
                "C11_spellings proves for every code point and each of the spellings decimal, 0x/0X hexadecimal, quoted character and symbolic name that "
                "_validated_character (strip, generated_tokens with its INDENT handling, the tokenizer fragment, int(text, 0), code_for_string_token, chr) "
                "returns exactly that character, C11_spelling_literal the same for the literal spelling, C11_escaped_hex for the quoted escape '\\xHH' over all 256 "
                "codes (kernel evaluation of the whole table). Correspondence: 14 spelling kinds x ~110 code "
                "points rendered by the Lean spec and fed to the real set_property, all value sets over printable ASCII, applicability matrix, consistency "
                "product, encodings vs the documented rule (a codec usable for text).",
        "note": "Trusted: Lean kernel; DataFormat model faithfulness (exhaustive correspondence); the codec registry is a parameter; the backslash-escape "
                "spellings inside quotes ('\\x..', '\\u....') are established by exhaustive correspondence over the pool only.",
        "technique": "Lean 4 proof (finite tables by decide, consistency by case analysis, spellings through the lexer model) + exhaustive differential correspondence",
        "design_ref": "DESIGN.md §6 C11",
    },
    "C12": {
        "text": "Lean 4 theorems (Props/C12.lean): for every csv dialect satisfying GoodCfg (both families cutplace can configure: quote doubling, or a distinct "
                "escape character; quote-all or minimal quoting) and every table of any size whose rows have at least one cell, cells over all characters, the "
                "writer produces a text and the reader - the transcription of CPython's _csv reader fused with universal-newline line splitting - returns "
                "exactly that table (C12_roundtrip, by induction over cells, rows and tables; helper lemmas in Proofs/CsvRoundTrip.lean). Every delimited format "
                "DataFormat.validate accepts is a GoodCfg (C12_goodcfg_of_accepted), hence round-trips (C12_accepted_roundtrip); a refused format is shown "
                "not to round-trip (counterexample by decide). Correspondence: all accepted combinations of 14 delimiters x 20 quotes x 2 escapes x 2 quoting "
                "modes x line delimiters x tables built from the configured special characters, written and read by the real code and by the model, texts "
                "and rows compared.",
        "note": "Trusted: Lean kernel; the Lean transcription of the _csv writer/reader and of universal-newline splitting (validated against the real modules on "
                "every case, including the written text); encoding to bytes is modelled as identity on characters (the harness uses utf-8 and the encodings "
                "list for sampled checks).",
        "technique": "Lean 4 proof (induction over cells/rows/tables of the csv writer and reader automaton) + exhaustive configuration x content correspondence",
        "design_ref": "DESIGN.md §6 C12",
    },
    "C14": {
        "text": "Lean 4 theorems (Props/C14.lean) prove for every column/check list, pad function, header and row sequence that the writer's output is exactly the "
                "accepted rows, padded, in order (C14_emits_accepted), that a rejected write emits nothing and leaves the line counter unchanged (C14_write_row), "
                "that the verdict is validate_row's (C14_verdict_is_validation) that padded items have exactly the field widths (C14_padding) and that writing a ++ b is writing a, then b with the writer as a left it, whatever a rejected (C14_incremental). Correspondence: "
                "row sequences mixing accepted/rejected rows through cutplace.Writer for delimited and fixed CIDs, verdict per write, exact stream contents, and "
                "read-back of the output through the real Reader.",
        "note": "Trusted: Lean kernel; engine model faithfulness (correspondence); the read-back half of the statement is checked on the implementation only "
                "(it composes C12/C13 with the engine and needs blanks-stable CIDs: known finding for fixed-width padding).",
        "technique": "Lean 4 proof (induction over the write sequence) + differential correspondence incl. byte-exact output",
        "design_ref": "DESIGN.md §6 C14",
    },
    "C02": {
        "text": "Lean 4 theorems (Props/C02.lean): int(str(n)) = n for every integer within CPython's 4300-digit conversion limit and refusal beyond it "
                "(C02_int_text_roundtrip, C02_int_text_beyond_limit), Integer accepts exactly the integer literals inside the valid range and returns their "
                "value (C02_integer, C02_integer_rule via C01), C02_int_length: for every well-formed length declaration create_range_from_length - which "
                "writes a text of nines and zeros and parses it again - yields a range accepting exactly the integers whose decimal text has an allowed "
                "length (Proofs/LengthRange.lean: digit-count arithmetic, text equality with the rendered description, disjointness by a semantic argument, "
                "then C01's parse theorem); Choice / Constant / Text by exact membership, Decimal separator handling (decimal separator -> point, "
                "thousands separators only before it, one decimal separator). DateTime: C02_datetime_sound (whatever strptime's model accepts for a "
                "translated layout is a date of the calendar with in-range clock fields, the two-digit year pivoted at 69), C02_datetime_complete (every "
                "civil date / time rendered in the layout - two-digit fields, any literal text without blanks - is accepted and returned unchanged) and "
                "C02_datetime_match_exact; C02_layout_translation: for every layout over the placeholders and literal characters (placeholders side by "
                "side included) the replacement pass of DateTimeFieldFormat.__init__ and strptime's reading of the result give exactly the directives of "
                "the layout, and C02_datetime_layout composes the two (rule text in the CID -> every real date written in it is accepted, unchanged); "
                "proving the translation exposed a genuine defect (MMmm -> %%Mm, repaired by f42b7f8). RegEx / Pattern: C02_regex_semantics - the model's "
                "matcher (sets of end positions, closure loops on fuel len+1) succeeds iff the expression matches a prefix in the declarative sense, for every "
                "expression of the subset and every value; the fuel is proved sufficient by a pigeonhole argument; C02_pattern - the expression "
                "fnmatch.translate builds accepts exactly the values the glob denotes, used up entirely (GlobSem). Pattern (fnmatch.translate) and RegEx (subset) are modelled and checked by correspondence: per-type rule grammars, member and mutated "
                "cells, all length declarations over 0..3 x all integers of <= 4 characters (quick; 0..5 x <= 6 characters thorough), 4 formats.",
        "note": "Trusted: Lean kernel; model faithfulness (7.9M cell evaluations in the thorough tier without a disagreement); the text -> expression "
                "parser of the RegEx subset (parseRegex) and CPython's re / fnmatch themselves are tied by correspondence only.",
        "technique": "Lean 4 proof (digits, range membership, length-derived ranges through the range parser, separator translation) + exhaustive/generated differential correspondence",
        "design_ref": "DESIGN.md §6 C02",
    },
    "C09": {
        "text": "Lean 4 theorems (Props/C09.lean) about the transcription of Cid.read (a fold over rows with a line cursor): comment rows are ignored anywhere "
                "(C09_decoration_comment), cells beyond the parsed columns are ignored, the row marker is case-insensitive, each row only appends one field / one "
                "check or updates the format (field order preserved), every rejection carries the line of the offending row, an accepted CID has a consistent "
                "format and at least one field. Correspondence: generated valid CIDs of all formats and all 8 field types, 3 decoration stacks each (identical "
                "interface required), and ~55 structural defects injected at every applicable row (interface error at exactly that row required), all also "
                "compared with the Lean model's outcome and error line.",
        "note": "Trusted: Lean kernel; Cid model faithfulness (no disagreement on ~5.4k CIDs per quick run, error line included); that each catalogued defect is rejected "
                "is shown by enumeration, not by a per-defect theorem; the class registry (__subclasses__) is a parameter.",
        "technique": "Lean 4 proof (fold invariants of the CID reader) + generated/decorated/defect-injected CID correspondence",
        "design_ref": "DESIGN.md §6 C09",
    },
    "C10": {
        "category": "proof",
        "text": "Lean 4 totality theorems over the model of Cid.read + fault enumeration tying the model's exception classes to the code. Every cell of every row kind of four base CIDs (all formats, all 8 field types, both "
                "checks, all properties) is replaced in turn by each of ~80 hostile values; every data cell likewise; text containers with undecodable bytes, "
                "unterminated quotes, NUL bytes; the command line on the hostile CIDs. The class of whatever escapes must be InterfaceError/DataError, and it is "
                "compared with the exception class the Lean model of Cid.read predicts (every assert/int()/chr()/Decimal()/tokenizer failure is a branch of the "
                "model). Lean theorems (Props/C10.lean): C10_cid_read_total - for every list of rows (any number, any cells, any order) the model of Cid.read "
                "ends in a CID, an InterfaceError, the recorded OverflowError finding, or outside the modelled fragment: no StopIteration (token lists "
                "always end in the end marker), no ValueError from chr() (code points are never negative), no InvalidOperation (NUMBER tokens are finite "
                "decimals), no AssertionError, re.error, UnicodeDecodeError or TokenError, through ranges, decimal ranges, all 8 field types, both check "
                "types and every data-format property (Proofs/RangeTotal, DecimalTotal, DeclareTotal, CidTotal); C10_field_value_total - no cell text "
                "can make a field of a CID that was read raise anything but a rejection; plus field names, integer properties, row dispatch, ordering "
                "errors, and that the command line never exits 4 on modelled outcomes. Also enumerated: end-of-data expressions through 5 APIs, Excel date "
                "cells xlrd refuses, byte-level damage of xlsx/ods archives, ODS declared encodings, 28 codec names x declare / rows / validate / write, cells that "
                "are no text handed to the writer, container faults in the first line, lone surrogates / continuation lines / what CPython's tokenizer, re and "
                "int-to-text conversion refuse in their own ways, secondary API entry points on valid input (Writer from a CID path, Cid.add_check, "
                "XlsxRowWriter.write_rows, streams without a usable name). 19 genuine defects of this property were found and repaired in session 3.",
        "note": "The totality theorems are about the model; that the model predicts the class the real code raises rests on the enumeration "
                "(class-by-class comparison for every hostile cell). Exception sources outside the model (MemoryError, library bugs, the readers of "
                "data files) can only be met by the enumeration. "
                "ODS/XLSX container corruption is covered under C15/C16. One open finding (absurdly large Integer length -> OverflowError).",
        "technique": "Lean 4 totality proof over the model of Cid.read and field validation + exhaustive hostile-value enumeration with Lean-model exception-class prediction",
        "design_ref": "DESIGN.md §6 C10",
    },
    "C15": {
        "text": "Lean 4 theorems (Props/C15.lean): for every document, every sheet in it and every ODF encoding that does not use row runs - column runs, blanks / tabs / "
                "line breaks as text:s / text:tab / text:line-break, text:span mark-up, several paragraphs per cell, in any combination - the transcription of ods_rows "
                "returns exactly the rows and cell texts of that sheet (C15_decode_encode, via the run-length lemma C15_runs_lossless and the cell text lemmas of "
                "Proofs/OdsLemmas.lean: white-space mark-up, split/join of lines); a missing sheet, an unreadable container and a bad repeat count give a "
                "data-format error; C15_decode_encode_grouped / C15_decode_encode_covered / C15_decode_encode_grouped_covered (both at once): the same decode = identity theorem for documents whose rows sit in row containers / whose rows store every second cell as a covered cell; C15_row_containers: rows wrapped into table:table-header-rows, table:table-row-group (nested) and table:table-rows are found in "
                "document order (repair 7fe378e), cells covered by a merge take up their column (repair d8cb48e; C15_covered_cells: decoding a row does not depend on which cells are "
                "stored as covered cells); "
                "one proved counterexample: row runs are not expanded (open finding; the three text findings were repaired by "
                "dd17652). Correspondence: an independent ODF encoder (all 32 feature subsets, UTF-8 / UTF-16+BOM / "
                "ISO-8859-1 with character references, 1-3 sheets) writes real .ods files read by the real code; the encoder's tree is compared with Lean's encodeDoc; "
                "archives truncated at every 64th byte, content.xml cut at tag boundaries, non-zip input, bad repeat counts.",
        "note": "Trusted: Lean kernel; zipfile/ElementTree (byte-level parsing is a parameter of the model); the independent encoder. Partial: the full statement is false "
                "of the current code for four of the five optional features (known findings), the proved theorem covers the fifth and the plain encoding.",
        "technique": "Lean 4 proof (decode o encode = id over an abstract XML tree, all features but row runs) + generated-file correspondence + fault enumeration",
        "design_ref": "DESIGN.md §6 C15",
    },
    "C16": {
        "text": "Lean 4 theorems (Props/C16.lean) over an abstract workbook of typed cells: whole numbers render as the integer's decimal text, booleans as 1/0, strings "
                "verbatim, pure times as hh:mm:ss of fixed shape, the sheet read is the requested one with rows as wide as the sheet (C16_sheet, C16_padding), "
                "a sheet outside the workbook is a data-format error; C16_date: for every real calendar date from 1900-03-01 on (no upper bound) the cell whose serial "
                "number is that day renders as YYYY-MM-DD hh:mm:ss of exactly that date - xlrd's Julian-day arithmetic (xldate_as_tuple) is proved to invert the "
                "proleptic Gregorian calendar stated naively (leap-year rule + summed month lengths; Proofs/ExcelDate.lean: century correction, year register, "
                "month split, March-based ordinal). "
                "Correspondence: workbooks written with xlsxwriter (all cell kinds, integers to 2^53, floats, dates over 1900-03-01..9999-12-31 incl. month ends, "
                "seconds of a day, fractions of a second, 1-3 sheets x Sheet 1-4) read by the real code, compared with the documented rendering computed from the values and with "
                "the model, which receives dates as civil dates and computes the serial number with the specification's calendar; XlsxRowWriter round trip; truncated workbooks.",
        "note": "Partial: float shortest-repr, xlrd/xlsxwriter byte formats, cell typing and the rounding of a fraction of a second to whole seconds (done in floating point by xlrd) "
                "are parameters of the model.",
        "technique": "Lean 4 proof over abstract typed cells (date arithmetic for all dates; number repr is a parameter) + generated-workbook correspondence",
        "design_ref": "DESIGN.md §6 C16",
    },
    "C17": {
        "text": "Lean 4 theorems (Props/C17.lean): the interface definition is a function of the CID's rows only (C17_cid_storage, with C12/C15/C16 for the containers), "
                "and a field declaration is literally the same under the delimited, Excel and ODS formats for every type but DateTime (C17_field_format_independent, "
                "C17_decimal_format_independent), DateTime differing only by the documented Excel ' 00:00:00' normalisation (C17_datetime_value). Correspondence: "
                "generated CIDs stored as CSV, ODS and XLSX and loaded through Cid(path); generated tables of accepted and rejected text cells stored as delimited "
                "text, ODS and XLSX and read under CIDs differing only in Format: identical verdicts and values required.",
        "note": "Trusted: Lean kernel; model faithfulness (C02/C09 correspondence); container decoding for text cells is taken from C12/C15/C16; the check "
                "itself compares the implementation with itself across formats (no model needed for the alarm).",
        "technique": "Lean 4 proof (format independence of field declarations) + cross-format differential execution",
        "design_ref": "DESIGN.md §6 C17",
    },
}

NOT_YET = {
}

ALL = ["C%02d" % i for i in range(1, 21)]


def main():
    checks = []
    for pid in ALL:
        if pid not in CLAIMED:
            continue
        c = CLAIMED[pid]
        checks.append({
            "property_id": pid,
            "quick_cmd": "./check %s quick" % pid,
            "thorough_cmd": "./check %s thorough" % pid,
            "evidence_file": "evidence/%s.json" % pid,
            "replay_cmd_template": "./check %s quick --replay {path}" % pid,
            "engine": "lean4-model+correspondence",
            "level_claimed": {"category": c.get("category", "proof"), "text": c["text"], "design_ref": c["design_ref"]},
            "level_note": c["note"],
            "technique": c["technique"],
        })
    na = []
    for pid in ALL:
        if pid in CLAIMED:
            continue
        reason = NOT_YET.get(pid, "not claimed yet: the Lean model, theorems and correspondence check for this property are not built; "
                                  "the technique applies (see DESIGN.md §6) and the property moves to 'checks' once its check is green")
        na.append({"property_id": pid, "reason": reason})
    manifest = {
        "version": 1,
        "setup_cmd": "cd lean && lake build Cutplace driver",
        "hooks": {
            "guard": "ROSKAKORI_CUTPLACE_VERIF",
            "enable": "no hooks are needed: every observable is public API; the guard name is reserved and unused",
            "baseline_off_cmd": "cd /repo && /venv/bin/python -m pytest -ra -q -p no:cacheprovider --timeout=900 --continue-on-collection-errors",
            "source_commits": [],
            "add_only": True,
        },
        "engines": [{
            "name": "lean4-model+correspondence",
            "path": "lean/ (model, spec, theorems, driver) + harness/ (generators, adapters, comparison)",
            "serves_properties": sorted(CLAIMED),
            "kind_free_text": "hand-written Lean 4 model of cutplace with kernel-checked property theorems; compiled model driver compared "
                              "with the real code in-process on generated cases (line protocol)",
        }],
        "checks": checks,
        "not_applicable": na,
        "notes": "Exit codes: 0 held / only known findings, 1 violation, 2 machinery error. Fix commits in /repo: see known_findings.json.",
    }
    with open(os.path.join(VERIF, "MANIFEST.json"), "w") as f:
        json.dump(manifest, f, indent=1)
        f.write("\n")


if __name__ == "__main__":
    main()
