"""Regenerates /verif/MANIFEST.json from the table below (kept in one place so it stays valid)."""
import json
import os

VERIF = os.path.dirname(os.path.dirname(os.path.abspath(__file__)))

CLAIMED = {
    "C01": {
        "text": "Lean 4 theorems (Props/C01.lean) prove for every item list and every integer that Range.validate accepts exactly "
                "the members of some item and that the overall limits are the attained min/max or absent when an item is open; "
                "the hand-written model of ranges.py (tokenizer fragment, token loop, limits) is tied to /repo by running model, "
                "declarative spec and the real cutplace.ranges.Range on the same rendered descriptions (bounded-exhaustive 1-2 item sweep "
                "plus a spelling-complete grammar stream).",
        "note": "Trusted: Lean kernel; model faithfulness as sampled by the correspondence; the tokenizer/int()/unicode_escape fragment is "
                "modelled, not verified. Description parsing (text -> items) is currently validated by correspondence against the spec's "
                "render function, the proved part is items -> verdict/limits.",
        "technique": "Lean 4 proof over hand-written model + differential correspondence (impl vs model vs spec)",
        "design_ref": "DESIGN.md §6 C01",
    },
    "C03": {
        "text": "Lean 4 theorem C03_guards (with corollaries C03_empty, C03_blank_fixed, C03_length, C03_chars, C03_hook_precondition) proves that the guard "
                "pipeline of AbstractFieldFormat.validated returns the verdict fixed by the statement for every field (any type, rule, hook), "
                "every format and every cell; the model is tied to /repo by an exhaustive product of declarations x cells run through the real "
                "field classes, the Lean model and the declarative guard spec.",
        "note": "Trusted: Lean kernel; faithfulness of Field.validatedWith / declareField to fields.py as exercised by the exhaustive product "
                "(5 of 8 built-in types are modelled so far: Text, Integer, Choice, Constant + a harness plugin; the guards live in the shared base class).",
        "technique": "Lean 4 proof over hand-written model (parametric in the value hook) + exhaustive differential correspondence",
        "design_ref": "DESIGN.md §6 C03",
    },
}

NOT_YET = {
}

ALL = ["C%02d" % i for i in range(1, 21)]


def main():
    checks = []
    for pid in ALL:
        if pid not in CLAIMED:
            continue
        c = CLAIMED[pid]
        checks.append({
            "property_id": pid,
            "quick_cmd": "./check %s quick" % pid,
            "thorough_cmd": "./check %s thorough" % pid,
            "evidence_file": "evidence/%s.json" % pid,
            "replay_cmd_template": "./check %s quick --replay {path}" % pid,
            "engine": "lean4-model+correspondence",
            "level_claimed": {"category": "proof", "text": c["text"], "design_ref": c["design_ref"]},
            "level_note": c["note"],
            "technique": c["technique"],
        })
    na = []
    for pid in ALL:
        if pid in CLAIMED:
            continue
        reason = NOT_YET.get(pid, "not claimed yet: the Lean model, theorems and correspondence check for this property are not built; "
                                  "the technique applies (see DESIGN.md §6) and the property moves to 'checks' once its check is green")
        na.append({"property_id": pid, "reason": reason})
    manifest = {
        "version": 1,
        "setup_cmd": "cd lean && lake build Cutplace driver",
        "hooks": {
            "guard": "ROSKAKORI_CUTPLACE_VERIF",
            "enable": "no hooks are needed: every observable is public API; the guard name is reserved and unused",
            "baseline_off_cmd": "cd /repo && /venv/bin/python -m pytest -ra -q -p no:cacheprovider --timeout=900 --continue-on-collection-errors",
            "source_commits": [],
            "add_only": True,
        },
        "engines": [{
            "name": "lean4-model+correspondence",
            "path": "lean/ (model, spec, theorems, driver) + harness/ (generators, adapters, comparison)",
            "serves_properties": sorted(CLAIMED),
            "kind_free_text": "hand-written Lean 4 model of cutplace with kernel-checked property theorems; compiled model driver compared "
                              "with the real code in-process on generated cases (line protocol)",
        }],
        "checks": checks,
        "not_applicable": na,
        "notes": "Exit codes: 0 held / only known findings, 1 violation, 2 machinery error. Fix commits in /repo: see known_findings.json.",
    }
    with open(os.path.join(VERIF, "MANIFEST.json"), "w") as f:
        json.dump(manifest, f, indent=1)
        f.write("\n")


if __name__ == "__main__":
    main()
