"""Entry point: run.py <Cnn> [--tier quick|thorough] [--replay FILE]"""
import argparse
import importlib
import json
import os
import sys
import traceback

sys.path.insert(0, os.path.dirname(os.path.abspath(__file__)))
import core  # noqa: E402


def main():
    ap = argparse.ArgumentParser()
    ap.add_argument("pid")
    ap.add_argument("--tier", default=os.environ.get("VERIF_TIER", "quick"), choices=["quick", "thorough"])
    ap.add_argument("--replay")
    args = ap.parse_args()
    pid = args.pid.upper()
    seed = int(os.environ.get("VERIF_SEED", "1"))
    ctx = core.Ctx(pid, args.tier, seed)
    lean_info = {"checker_cmd": "cd /verif/lean && lake build Cutplace driver && lake env lean <#print axioms for every theorem of Cutplace/Props/%s.lean>" % pid}
    try:
        ok, log, secs = core.build_lean()
        lean_info["build_s"] = round(secs, 2)
        if not ok:
            # The Lean sources live in /verif and do not depend on /repo: a failing build is a defect of the
            # machinery, not a statement about cutplace.
            print("MACHINERY-ERROR: lake build failed\n" + log)
            return 2
        hits = core.forbidden_hits()
        if hits:
            print("MACHINERY-ERROR: forbidden constructs in Lean sources:\n" + "\n".join(hits))
            return 2
        axioms = core.audit(pid)
        lean_info["axioms"] = axioms
        bad = [n for n, a in axioms.items() if a is None or not set(a) <= core.ALLOWED_AXIOMS]
        if bad or not axioms:
            print("MACHINERY-ERROR: axiom audit failed for %s: %r" % (pid, {n: axioms[n] for n in bad}))
            return 2
        if args.tier == "thorough":
            okc, logc = core.leanchecker(pid)
            lean_info["leanchecker"] = "ok" if okc else logc
            lean_info["checker_cmd"] += " && lake env leanchecker Cutplace.Props.%s" % pid
            if not okc:
                print("MACHINERY-ERROR: leanchecker rejected Cutplace.Props.%s\n%s" % (pid, logc))
                return 2
        core.import_cutplace()
        mod = importlib.import_module("props." + pid.lower())
        if args.replay:
            case = json.load(open(args.replay))
            mod.replay(ctx, case)
            return 0
        mod.run(ctx)
    except core.MachineryError as error:
        print("MACHINERY-ERROR: %s" % error)
        return 2
    except Exception:
        print("MACHINERY-ERROR: harness crashed")
        traceback.print_exc()
        return 2
    return core.finish(ctx, lean_info)


if __name__ == "__main__":
    sys.exit(main())
