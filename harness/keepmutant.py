#!/usr/bin/env python3
"""store a confirmed seeded change: keepmutant.py <worktree> <seeded-id> <breaks> <needs> <caught_by text>  (by hand, not registered)"""
import json, os, shutil, subprocess, sys
wt, sid, breaks, needs, caught = sys.argv[1:6]
dst = os.path.join(os.path.dirname(os.path.abspath(__file__)), "..", "seeded", sid)
os.makedirs(dst, exist_ok=True)
diff = subprocess.run(["git", "-C", wt, "diff", "--", "cutplace"], capture_output=True, text=True, check=True).stdout
assert diff.strip()
open(os.path.join(dst, "patch.diff"), "w").write(diff)
for n in ("demo.py", "notes.txt"):
    shutil.copy(os.path.join(wt, n), os.path.join(dst, n))
pid = sid.split("-")[0]
meta = {"property": pid, "breaks": breaks, "needs": needs, "caught_by": {pid: caught},
        "origin": "independent sub-agent given only the property text",
        "confirmed": "pytest in scratch worktree: 2 failed, 342 passed (same as unpatched); demo.py exits 1 with the patch, 0 without; ./check %s run against the patched worktree (CUTPLACE_REPO) and, in the kill-matrix run, against /repo with the patch applied, then reverted" % pid}
json.dump(meta, open(os.path.join(dst, "meta.json"), "w"), indent=1)
print("stored", dst)
