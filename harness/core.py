"""Shared machinery of the cutplace verification harness.

Ties the Lean model (compiled `driver`) to /repo's current working tree:
builds + audits the Lean project, pipes protocol lines to the driver, collects
evidence, classifies disagreements (violation / known finding / drift).
"""
import hashlib
import json
import os
import random
import re
import subprocess
import sys
import time

VERIF = os.path.dirname(os.path.dirname(os.path.abspath(__file__)))
LEAN_DIR = os.path.join(VERIF, "lean")
DRIVER = os.path.join(LEAN_DIR, ".lake", "build", "bin", "driver")
REPO = os.environ.get("CUTPLACE_REPO", "/repo")
ALLOWED_AXIOMS = {"propext", "Classical.choice", "Quot.sound"}
FORBIDDEN = re.compile(r"\b(sorry|admit|native_decide|bv_decide|implemented_by|unsafe)\b|^axiom\s|maxHeartbeats\s+0")

TRUSTED_BASE_COMMON = [
    "Lean 4.33.0 kernel and elaborator (lake build of /verif/lean; leanchecker re-check in the thorough tier)",
    "axioms allowed per theorem: propext, Classical.choice, Quot.sound (audited by #print axioms on every run); no sorry/native_decide/bv_decide",
    "Lean compiler + runtime for the driver executable (used only for correspondence, never to justify a theorem)",
    "faithfulness of the hand-written Lean model to /repo's code, to the extent exercised by the correspondence run recorded in this file",
    "the harness (generators, canonicalisation of outcomes) and CPython 3.12.1 library behaviour modelled in Lean (tokenize, int(), str methods) validated only by correspondence",
]


class MachineryError(Exception):
    pass


# ----------------------------------------------------------------------------- protocol encoding
def enc(s):
    if s is None:
        return "n"
    return ".".join("%x" % ord(c) for c in s) if s else "-"


def dec(h):
    if h in ("-", ""):
        return ""
    return "".join(chr(int(x, 16)) for x in h.split("."))


def optint(v):
    if v is None:
        return "n"
    try:
        return str(v)
    except ValueError:
        # beyond CPython's limit for converting integers to decimal text
        return hex(v)


def parse_kv(line):
    """'ok a=b c=d' -> ('ok', {'a': 'b', 'c': 'd'}); 'iface' -> ('iface', {})"""
    parts = line.split(" ")
    return parts[0], dict(p.split("=", 1) for p in parts[1:] if "=" in p)


# ----------------------------------------------------------------------------- Lean side
def sh(cmd, cwd=None, timeout=3600):
    return subprocess.run(cmd, cwd=cwd, shell=isinstance(cmd, str), capture_output=True, text=True, timeout=timeout)


def lean_sources():
    out = []
    for root, _dirs, files in os.walk(LEAN_DIR):
        if ".lake" in root:
            continue
        for f in files:
            if f.endswith(".lean"):
                out.append(os.path.join(root, f))
    return sorted(out)


def strip_comments(text):
    text = re.sub(r"/-.*?-/", lambda m: "\n" * m.group(0).count("\n"), text, flags=re.S)
    return re.sub(r"--.*", "", text)


def build_lean():
    """lake build (no-op when up to date). Returns (ok, log)."""
    t0 = time.time()
    r = sh(["lake", "build", "Cutplace", "driver"], cwd=LEAN_DIR)
    ok = r.returncode == 0 and os.path.exists(DRIVER)
    return ok, (r.stdout + r.stderr)[-4000:], time.time() - t0


def forbidden_hits():
    hits = []
    for path in lean_sources():
        code = strip_comments(open(path, encoding="utf-8").read())
        for n, line in enumerate(code.split("\n"), 1):
            if FORBIDDEN.search(line):
                hits.append("%s:%d: %s" % (os.path.relpath(path, LEAN_DIR), n, line.strip()))
    return hits


def property_theorems(pid):
    path = os.path.join(LEAN_DIR, "Cutplace", "Props", pid + ".lean")
    if not os.path.exists(path):
        return []
    code = strip_comments(open(path, encoding="utf-8").read())
    return re.findall(r"^theorem\s+([A-Za-z0-9_'.]+)", code, flags=re.M)


def audit(pid):
    """#print axioms for every theorem of Props/<pid>.lean. Returns dict name -> list of axioms (or None if missing)."""
    names = property_theorems(pid)
    if not names:
        return {}
    src = "import Cutplace.Props.%s\nopen Cutplace.Props\n" % pid + "".join("#print axioms %s\n" % n for n in names)
    os.makedirs(os.path.join(LEAN_DIR, ".lake", "audit"), exist_ok=True)
    path = os.path.join(LEAN_DIR, ".lake", "audit", "Audit_%s_%d.lean" % (pid, os.getpid()))
    with open(path, "w") as f:
        f.write(src)
    try:
        r = sh(["lake", "env", "lean", path], cwd=LEAN_DIR)
    finally:
        os.remove(path)
    out = r.stdout + r.stderr
    result = {}
    for n in names:
        m = re.search(r"'(?:Cutplace\.Props\.)?%s' depends on axioms: \[([^\]]*)\]" % re.escape(n), out, flags=re.S)
        if m:
            result[n] = [a.strip() for a in m.group(1).replace("\n", " ").split(",") if a.strip()]
        elif re.search(r"'(?:Cutplace\.Props\.)?%s' does not depend on any axioms" % re.escape(n), out):
            result[n] = []
        else:
            result[n] = None
    return result


def leanchecker(pid):
    r = sh(["lake", "env", "leanchecker", "Cutplace.Props.%s" % pid], cwd=LEAN_DIR, timeout=1800)
    return r.returncode == 0, (r.stdout + r.stderr)[-2000:]


def run_driver(lines):
    """Send protocol lines (list of tab-joined strings) to the compiled model; returns list of output lines."""
    if not lines:
        return []
    data = "\n".join(lines) + "\n"
    r = subprocess.run([DRIVER], input=data, capture_output=True, text=True, timeout=3600)
    if r.returncode != 0:
        raise MachineryError("driver exited with %s: %s" % (r.returncode, r.stderr[-2000:]))
    out = r.stdout.split("\n")
    if out and out[-1] == "":
        out.pop()
    if len(out) != len(lines):
        raise MachineryError("driver returned %d lines for %d requests" % (len(out), len(lines)))
    return out


def line(*fields):
    return "\t".join(fields)


# ----------------------------------------------------------------------------- implementation side
def import_cutplace():
    """Import cutplace from /repo's working tree (never from a cached install)."""
    import logging
    import warnings

    warnings.filterwarnings("ignore")
    if sys.path[0] != REPO:
        sys.path.insert(0, REPO)
    for name in [m for m in sys.modules if m == "cutplace" or m.startswith("cutplace.")]:
        del sys.modules[name]
    import cutplace  # noqa

    logging.getLogger("cutplace").setLevel(logging.CRITICAL)
    path = os.path.dirname(os.path.abspath(cutplace.__file__))
    if os.path.realpath(path) != os.path.realpath(os.path.join(REPO, "cutplace")):
        raise MachineryError("cutplace imported from %s, not from %s" % (path, REPO))
    return cutplace


def classify_exception(error):
    """Canonical outcome tag of an exception escaping the implementation (same alphabet as PyExn.tag)."""
    from cutplace import errors

    if isinstance(error, errors.InterfaceError):
        return "iface"
    if isinstance(error, errors.FieldValueError):
        return "data:Field"
    if isinstance(error, errors.CheckError):
        return "data:Check"
    if isinstance(error, errors.DataFormatError):
        return "data:Format"
    if isinstance(error, errors.RangeValueError):
        return "data:Range"
    if isinstance(error, errors.DataError):
        return "data:Row"
    return "exn:" + type(error).__name__


def is_cutplace_tag(tag):
    return tag == "iface" or tag.startswith("data:")


# ----------------------------------------------------------------------------- run context
class Ctx(object):
    def __init__(self, pid, tier, seed):
        self.pid = pid
        self.tier = tier
        self.seed = seed
        self.rnd = random.Random(seed)
        self._sample_rnd = random.Random(seed + 7919)
        self.t0 = time.time()
        self.evaluations = 0
        self.nontrivial = set()
        self.samples = []
        self.branches = {}
        self.drift = []
        self.skipped = 0
        self.skipped_samples = []
        self.violations = []  # (signature, description, case)
        self.known_hit = {}
        self.machinery = []
        self.notes = {}
        self.exhaustive = False
        self.rule = ""
        self.assumptions = []
        self.extra_trusted = []
        self.partial_theorems = []
        self.findings = load_findings()
        self.level = "proof"

    # -- bookkeeping
    def count(self, key=None, nontrivial=True, branch=None):
        self.evaluations += 1
        if nontrivial and key is not None:
            self.nontrivial.add(hashlib.blake2b(repr(key).encode("utf-8", "replace"), digest_size=8).digest())
        if branch is not None:
            self.branches[branch] = self.branches.get(branch, 0) + 1

    def sample(self, obj, limit=12):
        """reservoir sample so the evidence shows cases from every stream, not just the first ones"""
        self._seen_samples = getattr(self, "_seen_samples", 0) + 1
        if len(self.samples) < limit:
            self.samples.append(obj)
        else:
            j = self._sample_rnd.randrange(self._seen_samples)
            if j < limit:
                self.samples[j] = obj

    def skip(self, case):
        self.skipped += 1
        if len(self.skipped_samples) < 8:
            self.skipped_samples.append(case)

    def note_drift(self, case):
        if len(self.drift) < 40:
            self.drift.append(case)
        self.notes["drift_count"] = self.notes.get("drift_count", 0) + 1

    def machinery_error(self, msg):
        self.machinery.append(msg)

    def violation(self, signature, what, case):
        """impl != spec on a case in the spec's domain."""
        entry = self.findings.get((self.pid, signature))
        if entry is not None and entry.get("status") == "open":
            if signature not in self.known_hit:
                self.known_hit[signature] = {"what": entry.get("description", what), "example": case, "count": 0}
            self.known_hit[signature]["count"] += 1
        else:
            self.violations.append((signature, what, case))


def load_findings():
    path = os.path.join(VERIF, "known_findings.json")
    result = {}
    if os.path.exists(path):
        for e in json.load(open(path)).get("findings", []):
            result[(e["property"], e["signature"])] = e
    return result


def write_replay(ctx, signature, what, case, theorem=None, no_input=False):
    os.makedirs(os.path.join(VERIF, "replays"), exist_ok=True)
    h = hashlib.blake2b(repr((signature, case)).encode("utf-8", "replace"), digest_size=6).hexdigest()
    path = os.path.join(VERIF, "replays", "%s-%s.json" % (ctx.pid, h))
    with open(path, "w") as f:
        json.dump(
            {
                "property": ctx.pid,
                "signature": signature,
                "what": what,
                "seed": ctx.seed,
                "tier": ctx.tier,
                "case": case,
                "theorem_or_correspondence": theorem,
                "no_failing_input_found": no_input,
            },
            f,
            indent=1,
            default=repr,
        )
    return path


def finish(ctx, lean_info):
    """Write evidence, print findings/violations, return exit code."""
    wall = time.time() - ctx.t0
    axioms = lean_info.get("axioms", {})
    obligations = len(axioms)
    discharged = sum(1 for a in axioms.values() if a is not None and set(a) <= ALLOWED_AXIOMS)
    coverage = {
        "obligations": obligations,
        "discharged": discharged,
        "checker_cmd": lean_info.get("checker_cmd", ""),
        "trusted_base": TRUSTED_BASE_COMMON + ctx.extra_trusted,
        "theorems": {k: v for k, v in axioms.items()},
        "partial_theorems": ctx.partial_theorems,
        "evaluations": ctx.evaluations,
        "distinct_nontrivial": len(ctx.nontrivial),
        "rule": ctx.rule,
        "exhaustive": ctx.exhaustive,
        "samples": ctx.samples,
        "branches": ctx.branches,
        "skipped_unsupported": ctx.skipped,
        "skipped_samples": ctx.skipped_samples,
        "drift": ctx.drift,
        "known_findings_hit": {k: {"count": v["count"], "example": v["example"]} for k, v in ctx.known_hit.items()},
        "lean_build_s": lean_info.get("build_s"),
        "leanchecker": lean_info.get("leanchecker"),
    }
    coverage.update(ctx.notes)
    try:
        import anchors
        coverage["source_anchors"] = anchors.report(ctx.pid)
    except Exception as error:  # noqa  (the cross-reference is informational; never fail a check on it)
        coverage["source_anchors"] = {"error": repr(error)}
    code = 0
    lines = []
    for sig, info in sorted(ctx.known_hit.items()):
        lines.append("KNOWN-FINDING: property=%s %s %s" % (ctx.pid, sig, info["what"]))
    seen = set()
    for sig, what, case in ctx.violations:
        if sig in seen:
            continue
        seen.add(sig)
        path = write_replay(ctx, sig, what, case)
        lines.append("VIOLATION property=%s replay=%s" % (ctx.pid, path))
        lines.append("  %s: %s" % (sig, what))
        code = 1
    proof_broken = lean_info.get("broken")
    if proof_broken and code == 0:
        # proof obligation no longer checks and the correspondence found no failing input
        path = write_replay(ctx, "proof-obligation", proof_broken, {"lean_log": lean_info.get("log", "")},
                            theorem=proof_broken, no_input=True)
        lines.append("VIOLATION property=%s replay=%s no-failing-input-found" % (ctx.pid, path))
        code = 1
    if ctx.machinery:
        for m in ctx.machinery[:10]:
            lines.append("MACHINERY-ERROR: %s" % m)
        if code == 0:
            code = 2
    evidence = {
        "property_id": ctx.pid,
        "tier": ctx.tier,
        "seed": ctx.seed,
        "level": ctx.level,
        "coverage": coverage,
        "assumptions": ctx.assumptions,
        "wall_s": round(wall, 2),
        "violations": len(seen) + (1 if proof_broken and not seen else 0),
    }
    os.makedirs(os.path.join(VERIF, "evidence"), exist_ok=True)
    with open(os.path.join(VERIF, "evidence", ctx.pid + ".json"), "w") as f:
        json.dump(evidence, f, indent=1, default=repr)
    for l in lines:
        print(l)
    print("%s tier=%s seed=%d evaluations=%d distinct=%d theorems=%d/%d known=%d violations=%d skipped=%d drift=%d wall=%.1fs"
          % (ctx.pid, ctx.tier, ctx.seed, ctx.evaluations, len(ctx.nontrivial), discharged, obligations,
             len(ctx.known_hit), len(seen), ctx.skipped, ctx.notes.get("drift_count", 0), wall))
    return code
