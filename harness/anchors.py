"""Which Python functions each Lean model definition transcribes, and whether their source changed.

The model is hand-written; the behavioural tie is the correspondence run.  This table adds a static
cross-reference: for every property the functions of /repo the model transcribes, with the hash
of their source at the time the model was last validated (harness/data/anchors.json).  A changed
or missing function does not fail a check - the correspondence decides - it is recorded in the
evidence so that a reader sees which parts of the model may be behind the code.

    python harness/anchors.py --update     # re-record the hashes (after re-validating the model)
"""
import hashlib
import importlib
import inspect
import json
import os
import sys

HERE = os.path.dirname(os.path.abspath(__file__))
BASELINE = os.path.join(HERE, "data", "anchors.json")

# python object -> Lean definitions that transcribe it
MODEL_MAP = {
    "cutplace.ranges.Range.__init__": "Model/Range.lean: Range.parse, itemLoop, decideItem, addItem, parseTokens, lowerLimitLoop, upperLimitLoop",
    "cutplace.ranges.Range.validate": "Model/Range.lean: Range.validate, validateLoop",
    "cutplace.ranges.Range._items_overlap": "Model/Range.lean: itemsOverlap",
    "cutplace.ranges.code_for_number_token": "Model/Range.lean: codeForNumber",
    "cutplace.ranges.code_for_string_token": "Model/Range.lean: codeForString, unicodeEscape",
    "cutplace.ranges.code_for_symbolic_token": "Model/Range.lean: codeForSymbolic, symbolicCode",
    "cutplace.ranges.create_range_from_length": "Model/Range.lean: createRangeFromLength, lengthItemText, rangeTextFromLength",
    "cutplace.ranges.DecimalRange.__init__": "Model/Decimal.lean: DecimalRange.parse, dItemLoop, dParseTokens, dLowerLimitLoop, dUpperLimitLoop",
    "cutplace.ranges.DecimalRange.validate": "Model/Decimal.lean: DecimalRange.validate, dValidateLoop, DItem.contains?",
    "cutplace._tools.generated_tokens": "Model/PyTok.lean: generatedTokens",
    "cutplace._tools.tokenize_without_space": "Model/PyTok.lean: tokenizeWithoutSpace",
    "cutplace.fields.AbstractFieldFormat.validated": "Model/Fields.lean: Field.validatedWith",
    "cutplace.fields.AbstractFieldFormat.validate_characters": "Model/Fields.lean: firstDisallowed",
    "cutplace.fields.AbstractFieldFormat.validate_length": "Model/Fields.lean: Field.lengthOk",
    "cutplace.fields.AbstractFieldFormat.validate_empty": "Model/Fields.lean: Field.validatedWith (empty branch)",
    "cutplace.fields.IntegerFieldFormat.__init__": "Model/Fields.lean: declare (.integer)",
    "cutplace.fields.IntegerFieldFormat.validated_value": "Model/Fields.lean: FieldKind.validatedValue (.integer)",
    "cutplace.fields.DecimalFieldFormat.__init__": "Model/Fields.lean: declare (.decimal)",
    "cutplace.fields.DecimalFieldFormat.validated_value": "Model/Fields.lean: FieldKind.validatedValue (.decimal); Model/Decimal.lean: translateDecimal, pyDecimal",
    "cutplace.fields.ChoiceFieldFormat.__init__": "Model/Fields.lean: declare (.choice)",
    "cutplace.fields.ConstantFieldFormat.__init__": "Model/Fields.lean: declare (.constant)",
    "cutplace.fields.DateTimeFieldFormat.__init__": "Model/Fields.lean: declare (.datetime); Model/DateTime.lean: translateLayout, parseFormat, hasDuplicateDirective",
    "cutplace.fields.DateTimeFieldFormat.validated_value": "Model/DateTime.lean: strptime, matchToks, directiveAlts",
    "cutplace.fields.PatternFieldFormat.__init__": "Model/Regex.lean: globToRx, globClass",
    "cutplace.fields.RegExFieldFormat.__init__": "Model/Regex.lean: parseRegex",
    "cutplace.fields.validated_field_name": "Model/Cid.lean: validatedFieldName",
    "cutplace.validio.BaseValidator.validate_row": "Model/Engine.lean: validateRow",
    "cutplace.validio.BaseValidator.close": "Model/Engine.lean: closeRun",
    "cutplace.validio.Reader.rows": "Model/Engine.lean: readLoop, readRows, inLimit",
    "cutplace.validio.Writer.__init__": "Model/Engine.lean: writerInit",
    "cutplace.validio.Writer.write_row": "Model/Engine.lean: writeRow",
    "cutplace.validio.Writer.write_rows": "Model/Engine.lean: writeRows",
    "cutplace.validio.validate": "Model/Engine.lean: validateApi",
    "cutplace.validio.rows": "Model/Engine.lean: readRows (function API view in the harness)",
    "cutplace.checks.IsUniqueCheck.check_row": "Model/Checks.lean: IsUnique.row, lookupKey",
    "cutplace.checks.IsUniqueCheck.reset": "Model/Checks.lean: IsUnique.reset",
    "cutplace.checks.DistinctCountCheck.check_row": "Model/Checks.lean: DistinctCount.row",
    "cutplace.checks.DistinctCountCheck.check_at_end": "Model/Checks.lean: DistinctCount.atEnd",
    "cutplace.interface.Cid.read": "Model/Cid.lean: Cid.read, readLoop",
    "cutplace.interface.Cid.add_data_format_row": "Model/Cid.lean: addDataFormatRow",
    "cutplace.interface.Cid.add_field_format_row": "Model/Cid.lean: addFieldFormatRow, lengthDeclOk, declareCells, exampleOk",
    "cutplace.interface.Cid.add_check_row": "Model/Cid.lean: addCheckRow, squeezeCheckItems",
    "cutplace.interface.Cid._create_class": "Model/Cid.lean: class lookup by name + suffix",
    "cutplace.interface.field_names_and_lengths": "Model/Fixed.lean: widths of a fixed CID",
    "cutplace.data.DataFormat.__init__": "Model/DataFormat.lean: DataFormat.init",
    "cutplace.data.DataFormat.set_property": "Model/DataFormat.lean: setProperty",
    "cutplace.data.DataFormat._validated_character": "Model/DataFormat.lean: validatedCharacter, tokenCode",
    "cutplace.data.DataFormat.validate": "Model/DataFormat.lean: DataFormat.validate",
    "cutplace.rowio._as_delimited_keywords": "Model/Csv.lean: asDelimitedKeywords",
    "cutplace.rowio.delimited_rows": "Model/Csv.lean: parse (csv reader automaton fused with the universal-newline splitter)",
    "cutplace.rowio.DelimitedRowWriter.write_row": "Model/Csv.lean: renderRow, renderField",
    "cutplace.rowio.fixed_rows": "Model/Fixed.lean: fixedRows, readField, afterDelimiter",
    "cutplace.rowio.FixedRowWriter.write_row": "Model/Engine.lean: padding; harness renders the line delimiter",
    "cutplace.rowio.ods_rows": "Model/Ods.lean: odsRows, odsRowsOf, odsRow, cellValue, joinParas",
    "cutplace.rowio._ods_text_parts": "Model/Ods.lean: textParts, childrenParts",
    "cutplace.rowio._ods_table_rows": "Model/Ods.lean: tableRowsOf, tableRowsIn",
    "cutplace.rowio._excel_cell_value": "Model/Excel.lean: excelCellText, xldateCivil (xlrd.xldate_as_tuple)",
    "cutplace.rowio.excel_rows": "Model/Excel.lean: excelRows",
    "cutplace.rowio.auto_rows": "harness only (C17): CID storage formats",
    "cutplace.applications.CutplaceApp.set_options": "Model/Cli.lean: setOptions",
    "cutplace.applications.CutplaceApp.validate": "Model/Cli.lean: per-file verdict",
    "cutplace.applications.process": "Model/Cli.lean: processFiles",
    "cutplace.applications.main": "Model/Cli.lean: main (exception class -> exit code)",
    "cutplace.sql.SqlFactory.sql_fields": "Model/Sql.lean: sqlFields",
    "cutplace.sql.SqlFactory.create_table_statement": "Model/Sql.lean: createTable",
    "cutplace.fields.IntegerFieldFormat.sql_ansi_type": "Model/Sql.lean: integer limit, signAdjustedLimit",
}

PROPERTY_ANCHORS = {
    "C01": ["cutplace.ranges.Range.", "cutplace.ranges.code_for", "cutplace.ranges.DecimalRange.", "cutplace._tools."],
    "C02": ["cutplace.fields.", "cutplace.ranges.create_range_from_length", "cutplace.ranges.DecimalRange."],
    "C03": ["cutplace.fields.AbstractFieldFormat."],
    "C04": ["cutplace.validio.BaseValidator.validate_row", "cutplace.validio.Reader.rows"],
    "C05": ["cutplace.checks.", "cutplace.validio.BaseValidator."],
    "C06": ["cutplace.validio.Reader.rows", "cutplace.validio.rows", "cutplace.validio.BaseValidator.close", "cutplace.rowio.fixed_rows", "cutplace.rowio.delimited_rows"],
    "C07": ["cutplace.validio.Reader.rows", "cutplace.validio.validate", "cutplace.applications.CutplaceApp.set_options"],
    "C08": ["cutplace.validio.Reader.rows", "cutplace.validio.Writer.__init__", "cutplace.checks."],
    "C09": ["cutplace.interface.Cid.", "cutplace.fields.validated_field_name"],
    "C10": ["cutplace.interface.Cid.", "cutplace._tools.", "cutplace.data.DataFormat.", "cutplace.applications.main"],
    "C11": ["cutplace.data.DataFormat."],
    "C12": ["cutplace.rowio._as_delimited_keywords", "cutplace.rowio.delimited_rows", "cutplace.rowio.DelimitedRowWriter.", "cutplace.data.DataFormat.validate"],
    "C13": ["cutplace.rowio.fixed_rows", "cutplace.interface.field_names_and_lengths"],
    "C14": ["cutplace.validio.Writer.", "cutplace.rowio.FixedRowWriter.", "cutplace.rowio.DelimitedRowWriter."],
    "C15": ["cutplace.rowio.ods_rows", "cutplace.rowio._ods_text_parts", "cutplace.rowio._ods_table_rows"],
    "C16": ["cutplace.rowio._excel_cell_value", "cutplace.rowio.excel_rows"],
    "C17": ["cutplace.rowio.auto_rows", "cutplace.fields.DecimalFieldFormat.__init__", "cutplace.fields.DateTimeFieldFormat."],
    "C18": ["cutplace.applications."],
    "C19": ["cutplace.sql.", "cutplace.fields.IntegerFieldFormat.sql_ansi_type"],
    "C20": ["cutplace.validio.", "cutplace.fields.AbstractFieldFormat.validated", "cutplace.interface.Cid._create_class"],
}


def resolve(name):
    parts = name.split(".")
    for k in range(len(parts) - 1, 0, -1):
        try:
            obj = importlib.import_module(".".join(parts[:k]))
        except ImportError:
            continue
        for attr in parts[k:]:
            obj = getattr(obj, attr)
        return obj
    raise ImportError(name)


def source_hash(name):
    try:
        obj = resolve(name)
        src = inspect.getsource(obj)
    except Exception:  # noqa
        return None
    return hashlib.sha1(src.encode("utf-8")).hexdigest()[:16]


def current():
    return {name: source_hash(name) for name in sorted(MODEL_MAP)}


def report(pid):
    """for the evidence file of one property"""
    try:
        baseline = json.load(open(BASELINE))
    except Exception:  # noqa
        baseline = {"hashes": {}, "commit": None}
    names = [n for n in sorted(MODEL_MAP) if any(n.startswith(p) for p in PROPERTY_ANCHORS.get(pid, []))]
    changed, missing = [], []
    for n in names:
        h = source_hash(n)
        if h is None:
            missing.append(n)
        elif baseline["hashes"].get(n) not in (None, h):
            changed.append(n)
    return {"baseline_commit": baseline.get("commit"), "functions": {n: MODEL_MAP[n] for n in names},
            "source_changed_since_model_was_validated": changed, "missing": missing}


if __name__ == "__main__":
    repo = os.environ.get("CUTPLACE_REPO", "/repo")
    sys.path.insert(0, repo)
    import warnings
    warnings.simplefilter("ignore")
    if "--update" in sys.argv:
        import subprocess
        commit = subprocess.run(["git", "-C", repo, "rev-parse", "--short", "HEAD"], capture_output=True, text=True).stdout.strip()
        hashes = current()
        bad = [n for n, h in hashes.items() if h is None]
        if bad:
            print("cannot resolve:", bad)
            sys.exit(1)
        json.dump({"commit": commit, "hashes": hashes}, open(BASELINE, "w"), indent=1, sort_keys=True)
        print("recorded %d functions at %s" % (len(hashes), commit))
    else:
        for pid in sorted(PROPERTY_ANCHORS):
            r = report(pid)
            print(pid, len(r["functions"]), "changed:", r["source_changed_since_model_was_validated"], "missing:", r["missing"])
