"""Field format / check classes defined by the harness (the "user-defined" plugins of C20/C03)."""
from cutplace import checks, errors, fields

CALL_LOG = []


class ScriptedFieldFormat(fields.AbstractFieldFormat):
    """Accepts every value that does not contain '!'. Records each call of its value hook."""

    def __init__(self, field_name, is_allowed_to_be_empty, length, rule, data_format, empty_value=""):
        super().__init__(field_name, is_allowed_to_be_empty, length, rule, data_format, empty_value)

    def validated_value(self, value):
        CALL_LOG.append(("hook", self.field_name, value))
        if "!" in value:
            raise errors.FieldValueError("scripted rejection of %r" % value)
        return value


class ScriptedCheck(checks.AbstractCheck):
    """rule: '<field>;<veto>;<end>' - vetoes every row whose <field> value contains <veto> (if non-empty),
    fails at the end when <end> == 'fail'. Records every call."""

    def __init__(self, description, rule, available_field_names, location=None):
        super().__init__(description, rule, available_field_names, location)
        parts = (rule.split(";") + ["", "", ""])[:3]
        self._field, self._veto, self._end = parts
        self.reset()

    def reset(self):
        CALL_LOG.append(("reset", self.description))

    def check_row(self, field_name_to_value_map, location):
        CALL_LOG.append(("row", self.description, tuple(field_name_to_value_map.values()), location.line))
        if self._veto and self._veto in field_name_to_value_map[self._field]:
            raise errors.CheckError("scripted veto by %s" % self.description, location)

    def check_at_end(self, location):
        CALL_LOG.append(("end", self.description))
        if self._end == "fail":
            raise errors.CheckError("scripted failure at end by %s" % self.description, location)

    def cleanup(self):
        CALL_LOG.append(("cleanup", self.description))
