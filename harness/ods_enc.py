"""Independent ODF spreadsheet encoder (content.xml + zip) with switchable encoding features."""
import io
import zipfile
from xml.sax.saxutils import escape, quoteattr

NS = {
    "office": "urn:oasis:names:tc:opendocument:xmlns:office:1.0",
    "table": "urn:oasis:names:tc:opendocument:xmlns:table:1.0",
    "text": "urn:oasis:names:tc:opendocument:xmlns:text:1.0",
}


class Node(object):
    def __init__(self, tag, attrs=None, text=None, children=None, tail=None):
        self.tag, self.attrs, self.text, self.children, self.tail = tag, list(attrs or []), text, list(children or []), tail


def runs(items):
    out = []
    for x in items:
        if out and out[-1][0] == x:
            out[-1][1] += 1
        else:
            out.append([x, 1])
    return [(a, n) for a, n in out]


def encode_inline(f, text):
    """returns (text, children) for a text:p"""
    if f["spans"]:
        # the span wraps whatever the other features make of the text: white-space elements end up inside the span
        inner_text, inner_children = encode_inline(dict(f, spans=False), text)
        return None, [Node("text:span", text=inner_text, children=inner_children)]
    if not f["whitespace"]:
        return (text or None), []
    head = None
    children = []
    buf = ""
    i = 0

    def flush(node):
        nonlocal head, buf
        if children:
            children[-1].tail = buf
        else:
            head = buf
        buf = ""
        children.append(node)
    while i < len(text):
        c = text[i]
        if c == "\t":
            flush(Node("text:tab"))
            i += 1
        elif c == "\n":
            flush(Node("text:line-break"))
            i += 1
        elif c == " " and i + 1 < len(text) and text[i + 1] == " ":
            j = i + 1
            while j < len(text) and text[j] == " ":
                j += 1
            buf += " "
            flush(Node("text:s", [("text:c", str(j - i - 1))]))
            i = j
        else:
            buf += c
            i += 1
    if children:
        children[-1].tail = buf
    else:
        head = buf
    # ElementTree reports "no characters" as None
    for ch in children:
        if ch.tail == "":
            ch.tail = None
    return (head or None), children


def encode_cell(f, text, repeat):
    attrs = [("table:number-columns-repeated", str(repeat))] if repeat > 1 else []
    if text == "":
        return Node("table:table-cell", attrs)
    paras = text.split("\n") if f["paragraphs"] else [text]
    kids = []
    for p in paras:
        t, ch = encode_inline(f, p)
        kids.append(Node("text:p", [], t, ch))
    return Node("table:table-cell", attrs + [("office:value-type", "string")], None, kids)


def encode_row(f, row, repeat):
    cells = [encode_cell(f, t, n) for t, n in runs(row)] if f["colRuns"] else [encode_cell(f, t, 1) for t in row]
    return Node("table:table-row", [("table:number-rows-repeated", str(repeat))] if repeat > 1 else [], None, cells)


def encode_doc(f, doc):
    sheets = []
    for i, rows in enumerate(doc):
        rs = [encode_row(f, list(r), n) for r, n in runs([tuple(r) for r in rows])] if f["rowRuns"] else [encode_row(f, r, 1) for r in rows]
        sheets.append(Node("table:table", [("table:name", "Sheet%d" % (i + 1))], None, rs))
    return Node("office:document-content", [], None, [Node("office:body", [], None, [Node("office:spreadsheet", [], None, sheets)])])


def canonical(node):
    """same format as the Lean driver's encXml"""
    import core
    def t(x):
        return "n" if x is None else "T" + core.enc(x)
    return "N(%s|%s|%s|%s|%s)" % (node.tag, ";".join("%s=%s" % kv for kv in node.attrs), t(node.text), "".join(canonical(c) for c in node.children), t(node.tail))


def to_xml(node, charset="utf-8", top=True):
    def esc(s):
        out = escape(s)
        if charset.lower() in ("iso-8859-1", "latin-1"):
            out = "".join(ch if ord(ch) < 256 else "&#%d;" % ord(ch) for ch in out)
        # characters XML cannot carry literally without normalisation
        return out.replace("\r", "&#13;")
    attrs = "".join(" %s=%s" % (k, quoteattr(v)) for k, v in node.attrs)
    if top:
        attrs += "".join(' xmlns:%s="%s"' % kv for kv in sorted(NS.items())) + ' office:version="1.2"'
    inner = (esc(node.text) if node.text else "") + "".join(to_xml(c, charset, False) for c in node.children)
    out = "<%s%s>%s</%s>" % (node.tag, attrs, inner, node.tag) if (inner or top) else "<%s%s/>" % (node.tag, attrs)
    if node.tail:
        out += esc(node.tail)
    return out


def content_bytes(tree, charset="utf-8"):
    body = to_xml(tree, charset)
    decl = '<?xml version="1.0" encoding="%s"?>\n' % {"utf-8": "UTF-8", "utf-16": "UTF-16", "iso-8859-1": "ISO-8859-1"}[charset]
    if charset == "utf-16":
        return (decl + body).encode("utf-16")  # with BOM
    return (decl + body).encode(charset, "xmlcharrefreplace")


def write_ods(path, tree, charset="utf-8", content=None):
    data = content if content is not None else content_bytes(tree, charset)
    with zipfile.ZipFile(path, "w") as z:
        z.writestr(zipfile.ZipInfo("mimetype"), "application/vnd.oasis.opendocument.spreadsheet")
        z.writestr("content.xml", data, zipfile.ZIP_DEFLATED)
        z.writestr("META-INF/manifest.xml", '<?xml version="1.0" encoding="UTF-8"?><manifest:manifest xmlns:manifest="urn:oasis:names:tc:opendocument:xmlns:manifest:1.0">'
                   '<manifest:file-entry manifest:full-path="/" manifest:media-type="application/vnd.oasis.opendocument.spreadsheet"/>'
                   '<manifest:file-entry manifest:full-path="content.xml" manifest:media-type="text/xml"/></manifest:manifest>')


def regroup(tree):
    """the rows of every sheet wrapped into the row containers ODF knows (mirror of Lean's `regroupDoc` / `groupRows`)"""
    for body in tree.children:
        for spreadsheet in body.children:
            for table in spreadsheet.children:
                rows = table.children
                if len(rows) >= 3:
                    a, b, c, rest = rows[0], rows[1], rows[2], rows[3:]
                    table.children = [Node("table:table-header-rows", children=[a]),
                                      Node("table:table-row-group", children=[b, Node("table:table-row-group", children=[c])]),
                                      Node("table:table-rows", children=rest)]
    return tree


def cover(tree):
    """every second cell of every row stored as a cell covered by a merge (mirror of Lean's `coverDoc` / `coverCells`)"""
    def rows_of(element):
        for child in element.children:
            if child.tag == "table:table-row":
                yield child
            else:
                for row in rows_of(child):
                    yield row
    for body in tree.children:
        for spreadsheet in body.children:
            for table in spreadsheet.children:
                for row in table.children:
                    for index, cell in enumerate(row.children):
                        if index % 2 == 1:
                            cell.tag = "table:covered-table-cell"
    return tree
