import Cutplace.Proofs.DateTimeComplete
/-
C02: from the DateTime layout in the CID (`DD.MM.YYYY hh:mm`) to strptime's directives.
-/
set_option linter.unusedSimpArgs false
namespace Cutplace

/-- a token of the human readable layout -/
inductive LTok
  | day | month | year4 | year2 | hour | minute | second
  | lit (c : Char)
  deriving Repr, DecidableEq, Inhabited

def LTok.fmt : LTok → FmtTok
  | .day => .day | .month => .month | .year4 => .year4 | .year2 => .year2
  | .hour => .hour | .minute => .minute | .second => .second | .lit c => .lit c

/-- the text of a layout token after the first `k` replacements of `human_readable_to_strptime` -/
def LTok.chunk (k : Nat) : LTok → Str
  | .lit c => if c = '%' ∧ 1 ≤ k then ['%', '%'] else [c]
  | .day => if 2 ≤ k then ['%', 'd'] else ['D', 'D']
  | .month => if 3 ≤ k then ['%', 'm'] else ['M', 'M']
  | .year4 => if 4 ≤ k then ['%', 'Y'] else ['Y', 'Y', 'Y', 'Y']
  | .year2 => if 5 ≤ k then ['%', 'y'] else ['Y', 'Y']
  | .hour => if 6 ≤ k then ['%', 'H'] else ['h', 'h']
  | .minute => if 7 ≤ k then ['%', 'M'] else ['m', 'm']
  | .second => if 8 ≤ k then ['%', 'S'] else ['s', 's']

def renderAt (k : Nat) : List LTok → Str
  | [] => []
  | t :: rest => t.chunk k ++ renderAt k rest

/-- the layout as the CID spells it -/
def renderLayout (l : List LTok) : Str := renderAt 0 l

def LTok.isYear : LTok → Bool
  | .year4 => true | .year2 => true | _ => false

/-- literal characters that are no letters of a placeholder and no white space (`%` is fine) -/
def SafeLit (c : Char) : Prop :=
  c ≠ 'D' ∧ c ≠ 'M' ∧ c ≠ 'Y' ∧ c ≠ 'h' ∧ c ≠ 'm' ∧ c ≠ 's' ∧ isPySpace c = false

/-- literals are safe; `YY` is not directly followed by another year placeholder (`YYYY` would read as the four-digit year) -/
def SafeLayout : List LTok → Prop
  | [] => True
  | t :: rest =>
    (∀ c, t = .lit c → SafeLit c) ∧
    (match rest with
     | [] => True
     | u :: _ => ¬ (t = .year2 ∧ u.isYear = true)) ∧
    SafeLayout rest

theorem SafeLayout.tail {t : LTok} {rest : List LTok} (h : SafeLayout (t :: rest)) : SafeLayout rest := h.2.2

theorem translateLayout_lit (c : Char) (h : SafeLit c) (hc : c ≠ '%') (r : Str) :
    translateLayout (c :: r) = c :: translateLayout r := by
  obtain ⟨hD, hM, hY, hh, hm, hs, _⟩ := h
  rw [translateLayout.eq_def]
  split <;> simp_all

/-- after `YY` the remaining layout does not go on with `YY` -/
theorem translateLayout_year2 (rest : List LTok) (h : SafeLayout (.year2 :: rest)) :
    translateLayout ('Y' :: 'Y' :: renderAt 0 rest) = '%' :: 'y' :: translateLayout (renderAt 0 rest) := by
  cases rest with
  | nil => simp [renderAt, translateLayout]
  | cons u r =>
    have hadj := h.2.1
    have hu := h.2.2.1
    cases u with
    | lit c =>
      obtain ⟨_, _, hY, _⟩ := hu c rfl
      simp only [renderAt, LTok.chunk, Nat.reduceLeDiff, and_false, if_false, List.cons_append, List.nil_append]
      rw [translateLayout.eq_def]
      split
      all_goals first
        | (simp_all; done)
        | (rename_i h3 _ _ _ heq
           simp only [List.cons.injEq] at heq
           exact absurd heq.2.symm (h3 _ heq.1.symm))
    | year4 => exact absurd ⟨rfl, rfl⟩ hadj
    | year2 => exact absurd ⟨rfl, rfl⟩ hadj
    | _ =>
      simp only [renderAt, LTok.chunk, Nat.reduceLeDiff, if_false, List.cons_append, List.nil_append]
      simp [translateLayout]

/-- the single pass over the layout -/
theorem translateLayout_render (l : List LTok) (h : SafeLayout l) : translateLayout (renderLayout l) = renderAt 8 l := by
  unfold renderLayout
  induction l with
  | nil => simp [renderAt, translateLayout]
  | cons t rest ih =>
    have ih := ih h.tail
    cases t with
    | lit c =>
      by_cases hc : c = '%'
      · subst hc
        simp only [renderAt, LTok.chunk, Nat.reduceLeDiff, and_false, and_true, if_true, if_false, List.cons_append, List.nil_append]
        rw [translateLayout, ih]
      · simp only [renderAt, LTok.chunk, hc, false_and, if_false, List.cons_append, List.nil_append]
        rw [translateLayout_lit c (h.1 c rfl) hc, ih]
    | year2 =>
      simp only [renderAt, LTok.chunk, Nat.reduceLeDiff, if_true, if_false, List.cons_append, List.nil_append]
      rw [translateLayout_year2 rest h, ih]
    | _ =>
      simp only [renderAt, LTok.chunk, Nat.reduceLeDiff, if_true, if_false, List.cons_append, List.nil_append]
      rw [translateLayout, ih]

/-- the translated text parses into the directives of the layout, in order -/
theorem parseFormat_render8 (l : List LTok) (h : SafeLayout l) : parseFormat (renderAt 8 l) = some (some (l.map LTok.fmt)) := by
  induction l with
  | nil => simp [renderAt, parseFormat]
  | cons t rest ih =>
    have ih := ih h.tail
    cases t with
    | lit c =>
      obtain ⟨_, _, _, _, _, _, hsp⟩ := h.1 c rfl
      by_cases hc : c = '%'
      · subst hc
        simp only [renderAt, LTok.chunk, Nat.reduceLeDiff, and_self, and_true, if_true, List.cons_append, List.nil_append]
        rw [parseFormat]
        simp [ih, LTok.fmt]
      · simp only [renderAt, LTok.chunk, hc, false_and, if_false, List.cons_append, List.nil_append]
        rw [parseFormat.eq_def]
        simp only []
        split
        · rename_i heq; cases heq
        · rename_i heq; simp only [List.cons.injEq] at heq; exact absurd heq.1 hc
        · rename_i heq; simp only [List.cons.injEq] at heq; exact absurd heq.1 hc
        · rename_i c' rest' _ _ heq
          simp only [List.cons.injEq] at heq
          obtain ⟨rfl, rfl⟩ := heq
          simp [ih, hsp, LTok.fmt]
    | _ =>
      simp only [renderAt, LTok.chunk, Nat.reduceLeDiff, if_true, if_false, List.cons_append, List.nil_append]
      rw [parseFormat]
      simp [ih, LTok.fmt]

/-- **The layout translation**: for every layout built from the placeholders `DD MM YYYY YY hh mm ss` and literal
characters (anything but the letters of the placeholders and white space; `%` included), in any order - only `YY` must
not be directly followed by another year placeholder, because `YYYY` is the four-digit year - the replacement pass of
`DateTimeFieldFormat.__init__` followed by strptime's reading of the format yield exactly the directives of the layout,
in order. -/
theorem layout_translation (l : List LTok) (h : SafeLayout l) :
    parseFormat (translateLayout (renderLayout l)) = some (some (l.map LTok.fmt)) := by
  rw [translateLayout_render l h, parseFormat_render8 l h]

/-- placeholders side by side are fine, `MM` before `mm` included (mistranslated before f42b7f8); `YY` before `YYYY` reads as
`YYYY` before `YY` -/
example : (parseFormat (translateLayout (renderLayout [.month, .minute])) == some (some [.month, .minute])) = true := by decide +kernel
example : (parseFormat (translateLayout (renderLayout [.year2, .year4])) == some (some [.year4, .year2])) = true := by decide +kernel

theorem noSpace_layout (l : List LTok) : NoSpace (l.map LTok.fmt) := by
  intro t ht
  simp only [List.mem_map] at ht
  obtain ⟨u, _, rfl⟩ := ht
  cases u <;> simp [LTok.fmt]

theorem mem_layout_fmt (l : List LTok) (t : LTok) (h : t ∈ l) : t.fmt ∈ l.map LTok.fmt := List.mem_map_of_mem h

theorem not_mem_layout_year2 (l : List LTok) (h : LTok.year2 ∉ l) : FmtTok.year2 ∉ l.map LTok.fmt := by
  intro hm
  simp only [List.mem_map] at hm
  obtain ⟨u, hu, he⟩ := hm
  cases u <;> simp [LTok.fmt] at he
  exact h hu

/-- from the layout in the CID to the accepted date: the rule text `renderLayout l` is translated into a format that
accepts every real date written in that layout and returns it unchanged -/
theorem layout_accepts (l : List LTok) (h : SafeLayout l) (c : Civil) (hr : c.InRange)
    (hd : .day ∈ l) (hm : .month ∈ l) (hy : .year4 ∈ l) (hy2 : .year2 ∉ l) (hy1 : 1 ≤ c.y) (hdim : c.d ≤ daysInMonth c.y c.mo) :
    ∃ fmt, parseFormat (translateLayout (renderLayout l)) = some (some fmt) ∧
      strptime fmt (renderFmt fmt c) = some (c.y, c.mo, c.d, (if .hour ∈ fmt then c.h else 0),
        (if .minute ∈ fmt then c.mi else 0), (if .second ∈ fmt then c.s else 0)) :=
  ⟨l.map LTok.fmt, layout_translation l h,
    strptime_complete _ c hr (noSpace_layout l) (mem_layout_fmt l _ hd) (mem_layout_fmt l _ hm) (mem_layout_fmt l _ hy)
      (not_mem_layout_year2 l hy2) hy1 hdim⟩

end Cutplace
