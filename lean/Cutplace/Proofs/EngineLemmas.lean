import Cutplace.Model.Engine
namespace Cutplace

@[simp] theorem Event.isRow_row (r : Row) : (Event.row r).isRow = true := rfl
@[simp] theorem Event.isRow_err (l : Nat) (e : RowErr) : (Event.err l e).isRow = false := rfl

/-- the predicate "this cell is rejected by its column" on zipped (column, cell) pairs -/
def rejects (p : Column × Str) : Bool := !p.1.accepts p.2

theorem validateCells_culprit (cols : List Column) (row : Row) (i : Nat) :
    (validateCells cols row i).1 = ((cols.zip row).findIdx? rejects).map (· + i) := by
  induction cols generalizing row i with
  | nil => simp [validateCells]
  | cons c cs ih =>
    cases row with
    | nil => simp [validateCells]
    | cons v vs =>
      simp only [validateCells, List.zip_cons_cons, List.findIdx?_cons, rejects]
      by_cases h : c.accepts v = true
      · simp only [h, if_true, Bool.not_true, Bool.false_eq_true, if_false, ih vs (i + 1)]
        cases (cs.zip vs).findIdx? rejects with
        | none => simp
        | some k => simp; omega
      · simp [h]

/-- hook calls: for the cells up to and including the first rejected one (all cells if none is
rejected), in column order, exactly those whose guards pass -/
def hookCallsFrom (i : Nat) : List (Column × Str) → List Call
  | [] => []
  | p :: ps => hookCall i p.1 p.2 ++ (if rejects p then [] else hookCallsFrom (i + 1) ps)

theorem validateCells_log (cols : List Column) (row : Row) (i : Nat) :
    (validateCells cols row i).2 = hookCallsFrom i (cols.zip row) := by
  induction cols generalizing row i with
  | nil => simp [validateCells, hookCallsFrom]
  | cons c cs ih =>
    cases row with
    | nil => simp [validateCells, hookCallsFrom]
    | cons v vs =>
      simp only [validateCells, List.zip_cons_cons, hookCallsFrom, rejects]
      by_cases h : c.accepts v = true
      · simp [h, ih vs (i + 1)]
      · simp [h]

/-- index of the first vetoing check and the states after the row-check loop, declaratively:
checks are consulted in declaration order until one vetoes -/
theorem runChecks_log {σ} (checks : List (Check σ)) (sts : List σ) (row : Row) (line i : Nat) :
    ∃ k, (runChecks checks sts row line i).2.2 = (List.range' i k).map (fun j => Call.checkRow j row line) ∧
      k ≤ checks.length ∧
      (match (runChecks checks sts row line i).2.1 with
       | some (j, _) => j + 1 = i + k
       | none => k = min checks.length sts.length) := by
  induction checks generalizing sts i with
  | nil => exact ⟨0, by simp [runChecks]⟩
  | cons c cs ih =>
    cases sts with
    | nil => exact ⟨0, by simp [runChecks]⟩
    | cons s ss =>
      simp only [runChecks]
      cases hv : (c.row s row line).2 with
      | some v =>
        refine ⟨1, ?_⟩
        simp [List.range']
      | none =>
        obtain ⟨k, h1, h2, h3⟩ := ih ss (i + 1)
        refine ⟨k + 1, ?_⟩
        simp only [List.length_cons]
        refine ⟨?_, by omega, ?_⟩
        · simp [h1, List.range'_succ]
        · cases hr : (runChecks cs ss row line (i + 1)).2.1 with
          | none => simp [hr] at h3 ⊢; omega
          | some p => simp [hr] at h3 ⊢; omega

end Cutplace

namespace Cutplace

def Call.isReset : Call → Bool
  | .reset _ => true
  | _ => false

def Call.isHook : Call → Bool
  | .hook _ _ => true
  | _ => false

theorem hookCall_isHook (i : Nat) (c : Column) (v : Str) : ∀ x ∈ hookCall i c v, x.isHook = true := by
  intro x hx
  unfold hookCall at hx
  split at hx <;> simp at hx
  subst hx; rfl

theorem hookCallsFrom_isHook (i : Nat) (ps : List (Column × Str)) : ∀ x ∈ hookCallsFrom i ps, x.isHook = true := by
  induction ps generalizing i with
  | nil => simp [hookCallsFrom]
  | cons p ps ih =>
    intro x hx
    simp only [hookCallsFrom, List.mem_append] at hx
    rcases hx with hx | hx
    · exact hookCall_isHook i p.1 p.2 x hx
    · split at hx
      · simp at hx
      · exact ih (i + 1) x hx

/-- the end-of-data loop asks the checks in declaration order and stops at the first failure -/
theorem atEndLoop_log {σ} (checks : List (Check σ)) (sts : List σ) (i : Nat) :
    ∃ k, (atEndLoop checks sts i).2 = (List.range' i k).map Call.atEnd ∧ k ≤ checks.length ∧
      (match (atEndLoop checks sts i).1 with
       | some j => j + 1 = i + k
       | none => k = min checks.length sts.length) := by
  induction checks generalizing sts i with
  | nil => exact ⟨0, by simp [atEndLoop]⟩
  | cons c cs ih =>
    cases sts with
    | nil => exact ⟨0, by simp [atEndLoop]⟩
    | cons s ss =>
      simp only [atEndLoop]
      by_cases h : c.atEnd s = true
      · obtain ⟨k, h1, h2, h3⟩ := ih ss (i + 1)
        refine ⟨k + 1, ?_⟩
        simp only [h, if_true, List.length_cons]
        refine ⟨by simp [h1, List.range'_succ], by omega, ?_⟩
        cases hr : (atEndLoop cs ss (i + 1)).1 with
        | none => simp [hr] at h3 ⊢; omega
        | some p => simp [hr] at h3 ⊢; omega
      · refine ⟨1, ?_⟩
        simp [h, List.range']

/-- what a reader has delivered and called after the rows `a` is the beginning of what it delivers and calls on `a ++ b` -/
theorem readLoop_prefix {σ} (cfg : ReaderCfg) (cols : List Column) (checks : List (Check σ)) (fault : Bool) (b : List Row) :
    ∀ (a : List Row) (n : Nat) (st : RState σ),
      (readLoop cfg cols checks false n a st).events <+: (readLoop cfg cols checks fault n (a ++ b) st).events ∧
      (readLoop cfg cols checks false n a st).log <+: (readLoop cfg cols checks fault n (a ++ b) st).log := by
  intro a
  induction a with
  | nil => intro n st; simp [readLoop]
  | cons row rest ih =>
    intro n st
    rw [List.cons_append, readLoop, readLoop]
    simp only []
    split
    · split
      · split
        · have := ih (n + 1) { st with sts := (validateRow cols checks st.sts row n).1, accepted := st.accepted + 1 }
          exact ⟨(List.cons_prefix_cons).mpr ⟨rfl, this.1⟩, (List.prefix_append_right_inj _).mpr this.2⟩
        · have := ih (n + 1) { st with sts := (validateRow cols checks st.sts row n).1, rejected := st.rejected + 1 }
          cases cfg.mode with
          | raise => exact ⟨List.prefix_refl _, List.prefix_refl _⟩
          | yield => exact ⟨(List.cons_prefix_cons).mpr ⟨rfl, this.1⟩, (List.prefix_append_right_inj _).mpr this.2⟩
          | «continue» => exact ⟨this.1, (List.prefix_append_right_inj _).mpr this.2⟩
      · have := ih (n + 1) { st with accepted := st.accepted + 1 }
        exact ⟨(List.cons_prefix_cons).mpr ⟨rfl, this.1⟩, this.2⟩
    · exact ih (n + 1) st

end Cutplace
