import Cutplace.Proofs.DeclareTotal
import Cutplace.Model.Cid
set_option linter.unusedSimpArgs false
namespace Cutplace

/-! ### tokens handed to the CID's own parsers -/

theorem lexAll_inv (s : Str) (ts : List Tok) (h : lexAll s = .ok ts) : HasEof ts ∧ StrOk ts := by
  unfold lexAll at h
  split at h
  · cases h
  · exact lexLoop_inv _ _ _ _ ts h (by intro x hx; simp at hx)

theorem generatedTokens_inv (s : Str) (ts : List Tok) (h : generatedTokens s = .ok ts) : HasEof ts ∧ StrOk ts := by
  unfold generatedTokens at h
  split at h
  · cases h
  · rename_i ts0 hlex
    obtain ⟨heof, hstr⟩ := lexAll_inv s ts0 hlex
    simp only [] at h
    repeat' split at h
    all_goals first
      | (cases h; exact ⟨heof, hstr⟩)
      | (cases h
         refine ⟨⟨⟨.endmarker, []⟩, by simp, rfl⟩, ?_⟩
         intro x hx hk
         simp only [List.mem_append, List.mem_cons, List.mem_singleton, List.not_mem_nil, or_false] at hx
         rcases hx with (hx | hx) | hx
         · subst hx; cases hk
         · exact hstr x (List.dropLast_subset _ hx) hk
         · rcases hx with rfl | rfl | rfl <;> cases hk)

theorem liftLex_clean {α : Type} (r : Except LexErr α) : Clean (liftLex r) := by
  intro e he; unfold liftLex at he; split at he
  · cases he
  · cases he; exact Or.inl rfl
  · cases he; exact Or.inr rfl

theorem liftLex_generated (s : Str) : Clean (liftLex (generatedTokens s)) ∧
    ∀ toks, liftLex (generatedTokens s) = .ok toks → HasEof toks ∧ StrOk toks := by
  constructor
  · intro e he; unfold liftLex at he; split at he
    · cases he
    · cases he; exact Or.inl rfl
    · cases he; exact Or.inr rfl
  · intro toks h; unfold liftLex at h; split at h
    · rename_i a ha; cases h; exact generatedTokens_inv s _ ha
    · cases h
    · cases h

/-! ### data format rows -/

/-- clean, and a code point that is not negative -/
def CodeOk (o : Out Int) : Prop := Clean o ∧ ∀ c, o = .ok c → 0 ≤ c

theorem CodeOk.iface : CodeOk (.error .iface) := ⟨Clean.iface, by intro c h; cases h⟩
theorem CodeOk.unsupported : CodeOk (.error .unsupported) := ⟨Clean.unsupported, by intro c h; cases h⟩
theorem CodeOk.nat (n : Nat) : CodeOk (.ok (n : Int)) := ⟨Clean.ok _, by intro c h; cases h; exact Int.natCast_nonneg n⟩

theorem symbolicCode_nonneg (v : Str) (c : Int) (h : symbolicCode v = some c) : 0 ≤ c := by
  unfold symbolicCode at h
  simp only [] at h
  repeat' split at h
  all_goals first | (cases h; decide) | cases h

theorem tokenCode_ok (t : Tok) (ht : t.kind = .string → t.text ≠ []) : CodeOk (tokenCode t) := by
  unfold tokenCode
  split
  · refine ⟨codeForSymbolic_clean _, ?_⟩
    intro c h
    unfold codeForSymbolic at h
    split at h
    · cases h
    · split at h
      · rename_i c' hc; cases h; exact symbolicCode_nonneg _ _ hc
      · cases h
  · split
    · refine ⟨codeForNumber_clean _, ?_⟩
      intro c h
      unfold codeForNumber at h
      split at h
      · cases h; exact Int.natCast_nonneg _
      · cases h
    · split
      · rename_i hk
        refine ⟨codeForString_clean _ (ht (by simpa using hk)), ?_⟩
        intro c h
        unfold codeForString at h
        simp only [] at h
        repeat' split at h
        all_goals first | (cases h; exact Int.natCast_nonneg _) | cases h
      · split
        · exact CodeOk.nat _
        · exact CodeOk.iface

theorem viaTokens_ok (value : Str) : CodeOk (validatedCharacterCode.viaTokens value) := by
  unfold validatedCharacterCode.viaTokens
  split
  · exact CodeOk.iface
  · exact CodeOk.unsupported
  · rename_i h
    exact absurd (generatedTokens_inv _ _ h).1 not_hasEof_nil
  · rename_i t rest h
    obtain ⟨heof, hstr⟩ := generatedTokens_inv _ _ h
    by_cases he : t.isEof = true
    · simp only [he, if_true]; exact CodeOk.iface
    · have hne : t.isEof = false := by simpa using he
      simp only [hne, Bool.false_eq_true, if_false]
      obtain ⟨hc, hn⟩ := tokenCode_ok t (hstr t (by simp))
      split
      · rename_i e he'
        exact ⟨by intro e' h'; cases h'; exact hc e he', by intro c h'; cases h'⟩
      · rename_i c hc'
        have h1 := hasEof_tail t rest heof hne
        cases rest with
        | nil => exact absurd h1 not_hasEof_nil
        | cons t2 r2 =>
          simp only []
          split
          · exact ⟨Clean.ok _, by intro c' h'; cases h'; exact hn c hc'⟩
          · exact CodeOk.iface

theorem validatedCharacterCode_ok (value : Str) : CodeOk (validatedCharacterCode value) := by
  unfold validatedCharacterCode
  simp only []
  split
  · split
    · exact CodeOk.nat _
    · exact viaTokens_ok _
  · exact viaTokens_ok _

theorem validatedCharacter_clean (value : Str) : Clean (validatedCharacter value) := by
  unfold validatedCharacter
  obtain ⟨hc, hn⟩ := validatedCharacterCode_ok value
  split
  · rename_i e he; intro e' h'; cases h'; exact hc e he
  · rename_i c hc'
    have := hn c hc'
    unfold pyChr
    have h0 : ¬ c < 0 := by omega
    simp only [h0, if_false]
    repeat' split
    all_goals first | exact Clean.iface | exact Clean.unsupported | exact Clean.ok _

theorem validatedIntAtLeast0_clean (value : Str) : Clean (validatedIntAtLeast0 value) := by
  unfold validatedIntAtLeast0
  repeat' split
  all_goals first | exact Clean.iface | exact Clean.unsupported | exact Clean.ok _

theorem Clean.ite {α : Type} {c : Prop} [Decidable c] {a b : Out α} (ha : Clean a) (hb : Clean b) :
    Clean (if c then a else b) := by split <;> assumption

theorem setKnownProperty_clean (df : DataFormat) (n : String) (value : Str) (k : Bool) : Clean (df.setKnownProperty n value k) := by
  unfold DataFormat.setKnownProperty
  have hi := validatedIntAtLeast0_clean value
  have hr := Range.parse_clean value none
  have hc := validatedCharacter_clean value
  repeat' apply Clean.ite
  all_goals repeat' split
  all_goals (first
    | exact Clean.iface | exact Clean.unsupported | exact Clean.ok _ | exact hi.map _
    | (rename_i e he; intro e' h'; cases h'; first | exact hi e he | exact hr e he | exact hc e he)
    | (rename_i e _ he; intro e' h'; cases h'; first | exact hi e he | exact hr e he | exact hc e he))

theorem setProperty_clean (df : DataFormat) (name value : Str) (k : Bool) : Clean (df.setProperty name value k) := by
  unfold DataFormat.setProperty
  split
  · exact Clean.iface
  · exact setKnownProperty_clean _ _ _ _

theorem create_clean (n : Str) : Clean (DataFormat.create n) := by
  unfold DataFormat.create
  simp only []
  repeat' split
  all_goals first | exact Clean.iface | exact Clean.ok _

theorem Clean.bind {α β : Type} {o : Out α} {f : α → Out β} (h : Clean o) (hf : ∀ a, o = .ok a → Clean (f a)) :
    Clean (o >>= f) := by
  cases o with
  | error e =>
    intro e' he
    have : (Except.error e >>= f) = Except.error e := rfl
    rw [this] at he; cases he; exact h e rfl
  | ok a =>
    have : (Except.ok a >>= f) = f a := rfl
    rw [this]; exact hf a rfl

theorem buildDataFormat_clean (cid : Cid) (cells : List Str) (enc : Str → Bool) : Clean (buildDataFormat cid cells enc) := by
  unfold buildDataFormat
  simp only []
  split
  · exact Clean.bind Clean.iface (fun _ h => by cases h)
  · split
    · exact Clean.bind Clean.unsupported (fun _ h => by cases h)
    · split
      · split
        · exact Clean.iface
        · split
          · exact Clean.bind Clean.unsupported (fun _ h => by cases h)
          · exact create_clean _
      · split
        · exact Clean.iface
        · exact setProperty_clean _ _ _ _

theorem addDataFormatRow_clean (cid : Cid) (cells : List Str) (enc : Str → Bool) : Clean (addDataFormatRow cid cells enc) :=
  (buildDataFormat_clean cid cells enc).map _

/-! ### check rows -/

theorem isUniqueLoop_clean (names : List Str) (fuel : Nat) : ∀ (toks : List Tok) (ac : Bool) (acc : List Str),
    HasEof toks → Clean (isUniqueLoop names fuel toks ac acc) := by
  induction fuel with
  | zero => intro toks ac acc _; unfold isUniqueLoop; exact Clean.unsupported
  | succ fuel ih =>
    intro toks ac acc heof
    cases toks with
    | nil => exact absurd heof not_hasEof_nil
    | cons t ts =>
      unfold isUniqueLoop
      by_cases he : t.isEof = true
      · simp only [he, if_true]; exact Clean.ok _
      · have hne : t.isEof = false := by simpa using he
        have h1 := hasEof_tail t ts heof hne
        simp only [hne, Bool.false_eq_true, if_false]
        repeat' split
        all_goals first | exact Clean.iface | exact ih _ _ _ h1

theorem parseIsUnique_clean (rule : Str) (names : List Str) : Clean (parseIsUnique rule names) := by
  unfold parseIsUnique
  split
  · exact Clean.bind Clean.iface (fun _ h => by cases h)
  · refine Clean.bind (liftLex_generated rule).1 ?_
    intro toks htoks
    refine Clean.bind (isUniqueLoop_clean _ _ _ _ _ ((liftLex_generated rule).2 toks htoks).1) ?_
    intro ks _
    split
    · exact Clean.iface
    · exact Clean.ok _

theorem parseDistinctCount_clean (rule : Str) (names : List Str) : Clean (parseDistinctCount rule names) := by
  unfold parseDistinctCount
  split
  · exact Clean.bind Clean.iface (fun _ h => by cases h)
  · refine Clean.bind (liftLex_generated rule).1 ?_
    intro toks htoks
    have heof := ((liftLex_generated rule).2 toks htoks).1
    cases toks with
    | nil => exact absurd heof not_hasEof_nil
    | cons t ts =>
      simp only []
      repeat' split
      all_goals first
        | exact Clean.iface | exact Clean.unsupported | exact Clean.ok _
        | (rename_i e he; intro e' h'; cases h'; exact liftLex_clean _ e he)

theorem buildCheck_clean (cid : Cid) (cells : List Str) (w : Bool) : Clean (buildCheck cid cells w) := by
  unfold buildCheck
  simp only []
  have tail : ∀ (desc : Str) (tys : String) (decl : CheckDecl),
      Clean (if (cid.checks.any fun c => c.fst == desc) = true then do
          (Except.error PyExn.iface : Out PUnit)
          pure (desc, tys, decl)
        else (pure (desc, tys, decl) : Out _)) := by
    intro desc tys decl
    split
    · exact Clean.bind Clean.iface (fun _ h => by cases h)
    · exact Clean.ok _
  split
  · exact Clean.bind Clean.iface (fun _ h => by cases h)
  · repeat' apply Clean.ite
    · exact Clean.bind ((parseIsUnique_clean _ _).map _) (fun _ _ => tail _ _ _)
    · exact Clean.bind ((parseDistinctCount_clean _ _).map _) (fun _ _ => tail _ _ _)
    · refine Clean.bind ?_ (fun _ _ => tail _ _ _)
      repeat' split
      all_goals first | exact Clean.iface | exact Clean.unsupported | exact Clean.ok _
    · exact Clean.bind Clean.iface (fun _ h => by cases h)

theorem addCheckRow_clean (cid : Cid) (cells : List Str) (w : Bool) : Clean (addCheckRow cid cells w) :=
  (buildCheck_clean cid cells w).map _

/-! ### field rows -/

theorem validatedFieldName_clean (s : Str) : Clean (validatedFieldName s) := by
  unfold validatedFieldName
  simp only []
  repeat' split
  all_goals first | exact Clean.iface | exact Clean.ok _

theorem validatedPythonName_clean (v : Str) : Clean (validatedPythonName v) := by
  unfold validatedPythonName
  split
  · exact Clean.iface
  · exact Clean.unsupported
  · rename_i t rest h
    obtain ⟨heof, _⟩ := generatedTokens_inv _ _ h
    by_cases he : t.isEof = true
    · simp only [he, if_true]; exact Clean.ok _
    · have hne : t.isEof = false := by simpa using he
      have h1 := hasEof_tail t rest heof hne
      simp only [hne, Bool.false_eq_true, if_false]
      split
      · exact Clean.ok _
      · cases rest with
        | nil => exact absurd h1 not_hasEof_nil
        | cons t2 r2 => simp only []; split <;> exact Clean.ok _
  · rename_i h
    exact absurd (generatedTokens_inv _ _ h).1 not_hasEof_nil

theorem fieldTypeStem_check_clean : ∀ ps : List Str, Clean (fieldTypeStem.check ps) := by
  intro ps
  induction ps with
  | nil => unfold fieldTypeStem.check; exact Clean.ok _
  | cons p ps ih =>
    unfold fieldTypeStem.check
    have hp := validatedPythonName_clean p
    split
    · rename_i e he; intro e' h'; cases h'; exact hp e he
    · exact Clean.ok _
    · split
      · exact Clean.ok _
      · exact ih

theorem fieldTypeStem_clean (cell : Str) : Clean (fieldTypeStem cell) := by
  unfold fieldTypeStem
  simp only []
  split
  · exact Clean.ok _
  · exact fieldTypeStem_check_clean _

theorem lengthDeclOk_clean (fmt : Format) (length : Range) : Clean (lengthDeclOk fmt length) := by
  unfold lengthDeclOk
  repeat' split
  all_goals first | exact Clean.iface | exact Clean.ok _

theorem exampleOk_clean (field : Field) (hf : field.kind.WF) (ex : Str) : Clean (exampleOk field ex) := by
  unfold exampleOk
  have hv := Field.validated_clean field hf ex
  repeat' split
  all_goals first
    | exact Clean.iface | exact Clean.ok _
    | (rename_i e he; intro e' h'; cases h'; exact hv e he)

/-- clean (in the wider sense), and a successful result satisfies `P` -/
def Good2 {α : Type} (P : α → Prop) (o : Out α) : Prop := Clean2 o ∧ ∀ a, o = .ok a → P a

theorem Good2.err {α : Type} {P : α → Prop} {e : PyExn} (h : Clean2 (.error e : Out α)) : Good2 P (.error e) :=
  ⟨h, by intro a ha; cases ha⟩
theorem Good2.ok {α : Type} {P : α → Prop} {a : α} (h : P a) : Good2 P (.ok a) :=
  ⟨Clean2.ok a, by intro a' ha; cases ha; exact h⟩

theorem Good2.bind {α β : Type} {P : β → Prop} {o : Out α} {f : α → Out β} (h : Clean2 o)
    (hf : ∀ a, o = .ok a → Good2 P (f a)) : Good2 P (o >>= f) := by
  cases o with
  | error e =>
    have : (Except.error e >>= f) = Except.error e := rfl
    rw [this]
    exact ⟨by intro e' he; cases he; exact h e rfl, by intro b hb; cases hb⟩
  | ok a =>
    have : (Except.ok a >>= f) = f a := rfl
    rw [this]; exact hf a rfl

theorem Good2.ite {α : Type} {P : α → Prop} {c : Prop} [Decidable c] {a b : Out α} (ha : Good2 P a) (hb : Good2 P b) :
    Good2 P (if c then a else b) := by split <;> assumption

theorem Good2.bind_iface {α β : Type} {P : β → Prop} {f : α → Out β} : Good2 P ((Except.error PyExn.iface : Out α) >>= f) :=
  Good2.bind Clean2.iface (fun _ h => by cases h)
theorem Good2.bind_unsupported {α β : Type} {P : β → Prop} {f : α → Out β} : Good2 P ((Except.error PyExn.unsupported : Out α) >>= f) :=
  Good2.bind Clean2.unsupported (fun _ h => by cases h)
theorem Good2.bind_pure {α β : Type} {P : β → Prop} {a : α} {f : α → Out β} (h : Good2 P (f a)) : Good2 P ((pure a : Out α) >>= f) := h

theorem declareCells_rest_good (df : DataFormat) (cells : List Str) (w : Bool) (name : Str) (allowEmpty : Bool) :
    Good2 (fun r : Str × Str × Str × Str × Field => r.2.2.2.2.kind.WF) (do
      let stem ← fieldTypeStem ((padTo6 cells).getD 4 [])
      let stem ← match stem with
        | none => .error .iface
        | some s => pure s
      let tn ← match typeNameOf stem w with
        | none => .error .iface
        | some t => pure t
      let field ← declareFieldIn tn (FormatInfo.mk df.format df.allowed df.decimalSep df.thousandsSep) allowEmpty ((padTo6 cells).getD 3 []) (strip ((padTo6 cells).getD 5 []))
      pure (name, stem, strip ((padTo6 cells).getD 5 []), (padTo6 cells).getD 1 [], field)) := by
  simp only []
  refine Good2.bind (Clean2.of_clean (fieldTypeStem_clean _)) ?_
  intro stem _
  cases stem with
  | none => exact Good2.bind_iface
  | some s =>
    simp only []
    refine Good2.bind_pure ?_
    split
    · exact Good2.bind_iface
    · refine Good2.bind_pure ?_
      refine Good2.bind (declareFieldIn_clean _ _ _ _ _) ?_
      intro field hfield
      exact Good2.ok (declareFieldIn_wf _ _ _ _ _ _ hfield)

theorem declareCells_good (df : DataFormat) (cid : Cid) (cells : List Str) (w : Bool) :
    Good2 (fun r => r.2.2.2.2.kind.WF) (declareCells df cid cells w) := by
  unfold declareCells
  simp only []
  refine Good2.bind (Clean2.of_clean (validatedFieldName_clean _)) ?_
  intro name _
  apply Good2.ite
  · exact Good2.bind_iface
  apply Good2.ite
  · exact Good2.bind_unsupported
  apply Good2.ite
  · exact Good2.bind_pure (declareCells_rest_good df cells w name false)
  · apply Good2.ite
    · exact Good2.bind_pure (declareCells_rest_good df cells w name true)
    · exact Good2.bind_iface

theorem Good2.map {α β : Type} {P : α → Prop} {Q : β → Prop} {o : Out α} (h : Good2 P o) (f : α → β)
    (hf : ∀ a, P a → Q (f a)) : Good2 Q (o.map f) := by
  cases o with
  | error e => exact ⟨by intro e' he; cases he; exact h.1 e rfl, by intro b hb; cases hb⟩
  | ok a => exact ⟨Clean2.ok _, by intro b hb; cases hb; exact hf a (h.2 a rfl)⟩

theorem buildFieldWith_good (df : DataFormat) (cid : Cid) (cells : List Str) (w : Bool) :
    Good2 (fun f : CidField => f.field.kind.WF) (buildFieldWith df cid cells w) := by
  unfold buildFieldWith
  refine Good2.bind (declareCells_good df cid cells w).1 ?_
  intro r hr
  have hwf := (declareCells_good df cid cells w).2 r hr
  obtain ⟨name, stem, rule, ex, field⟩ := r
  simp only []
  refine Good2.bind (Clean2.of_clean (lengthDeclOk_clean _ _)) ?_
  intro _ _
  refine Good2.bind (Clean2.of_clean (exampleOk_clean field hwf ex)) ?_
  intro _ _
  exact Good2.ok hwf

/-- every field of the interface definition validates without internal failures -/
def Cid.WF (cid : Cid) : Prop := ∀ f ∈ cid.fields, f.field.kind.WF

theorem addFieldRow_good (cid : Cid) (hc : cid.WF) (cells : List Str) (w : Bool) : Good2 Cid.WF (addFieldRow cid cells w) := by
  unfold addFieldRow
  refine Good2.map (P := fun f : CidField => f.field.kind.WF) ?_ _ ?_
  · unfold buildField
    split
    · exact Good2.err Clean2.iface
    · exact buildFieldWith_good _ _ _ _
  · intro f hf x hx
    simp only [List.mem_append, List.mem_singleton] at hx
    rcases hx with hx | rfl
    · exact hc x hx
    · exact hf

theorem Good2.of_clean {α : Type} {P : α → Prop} {o : Out α} (h : Clean o) (hp : ∀ a, o = .ok a → P a) : Good2 P o :=
  ⟨Clean2.of_clean h, hp⟩

theorem readRow_good (cid : Cid) (hc : cid.WF) (row : List Str) (w : Bool) (enc : Str → Bool) :
    Good2 Cid.WF (readRow cid row w enc) := by
  unfold readRow
  split
  · exact Good2.ok hc
  · refine Good2.of_clean (addDataFormatRow_clean _ _ _) ?_
    intro c h
    unfold addDataFormatRow at h
    cases hb : buildDataFormat cid (rowData row) enc with
    | error e => rw [hb] at h; cases h
    | ok df => rw [hb] at h; cases h; exact hc
  · exact addFieldRow_good cid hc _ _
  · refine Good2.of_clean (addCheckRow_clean _ _ _) ?_
    intro c h
    unfold addCheckRow at h
    cases hb : buildCheck cid (rowData row) w with
    | error e => rw [hb] at h; cases h
    | ok df => rw [hb] at h; cases h; exact hc
  · exact Good2.err Clean2.iface
  · exact Good2.err Clean2.unsupported

/-- the errors `Cid.read` may end with -/
def CidErrOk (e : CidErr) : Prop := e.exn = .iface ∨ e.exn = .unsupported ∨ e.exn = .overflow

theorem readLoopCid_good (w : Bool) (enc : Str → Bool) : ∀ (rows : List (List Str)) (cid : Cid) (line : Nat), cid.WF →
    (∀ e, readLoopCid w enc cid line rows = .error e → CidErrOk e) ∧
    (∀ c l, readLoopCid w enc cid line rows = .ok (c, l) → c.WF) := by
  intro rows
  induction rows with
  | nil =>
    intro cid line hc
    unfold readLoopCid
    exact ⟨(by intro e h; cases h), (by intro c l h; cases h; exact hc)⟩
  | cons row rest ih =>
    intro cid line hc
    unfold readLoopCid
    obtain ⟨hclean, hwf⟩ := readRow_good cid hc row w enc
    split
    · rename_i e he
      exact ⟨(by intro e' h; cases h; exact hclean e he), (by intro c l h; cases h)⟩
    · rename_i cid' hcid'
      exact ih cid' (line + 1) (hwf cid' hcid')

theorem Cid.read_good (rows : List (List Str)) (w : Bool) (enc : Str → Bool) :
    (∀ e, Cid.read rows w enc = .error e → CidErrOk e) ∧ (∀ cid, Cid.read rows w enc = .ok cid → cid.WF) := by
  unfold Cid.read
  obtain ⟨he, hok⟩ := readLoopCid_good w enc rows {} 0 (by intro f hf; simp at hf)
  split
  · rename_i e h
    exact ⟨(by intro e' h'; cases h'; exact he e h), (by intro c h'; cases h')⟩
  · rename_i cid line h
    have hwf := hok cid line h
    repeat' split
    all_goals first
      | exact ⟨(by intro e' h'; cases h'; exact Or.inl rfl), (by intro c h'; cases h')⟩
      | exact ⟨(by intro e' h'; cases h'), (by intro c h'; cases h'; exact hwf)⟩

end Cutplace
