import Cutplace.Model.Regex
/-
C02 (Pattern, RegEx): the position-set matcher of the model computes the declarative semantics of regular expressions,
and the expression `fnmatch.translate` builds for a glob denotes the glob.
-/
set_option linter.unusedSimpArgs false
set_option linter.unusedVariables false
namespace Cutplace

/-- reflexive transitive closure -/
inductive StarR (R : Nat → Nat → Prop) : Nat → Nat → Prop
  | refl (i : Nat) : StarR R i i
  | step {i k j : Nat} : R i k → StarR R k j → StarR R i j

/-- `n` steps -/
def IterR (R : Nat → Nat → Prop) : Nat → Nat → Nat → Prop
  | 0, i, j => i = j
  | n + 1, i, j => ∃ k, R i k ∧ IterR R n k j

/-- the declarative meaning of a regular expression: `r` matches the text between positions `i` and `j` -/
def Rx.Matches (s : Array Char) : Rx → Nat → Nat → Prop
  | .empty, i, j => i = j
  | .chr c, i, j => ∃ h : i < s.size, foldCase s[i] = foldCase c ∧ j = i + 1
  | .any dotAll, i, j => ∃ h : i < s.size, (dotAll = true ∨ s[i] ≠ '\n') ∧ j = i + 1
  | .cls neg rs, i, j => ∃ h : i < s.size, clsMatch neg rs s[i] = true ∧ j = i + 1
  | .seq a b, i, j => ∃ k, a.Matches s i k ∧ b.Matches s k j
  | .alt a b, i, j => a.Matches s i j ∨ b.Matches s i j
  | .star a, i, j => StarR (a.Matches s) i j
  | .rep a lo hi, i, j => ∃ n, lo ≤ n ∧ (match hi with | none => True | some h => n ≤ max lo h) ∧ IterR (a.Matches s) n i j
  | .bol, i, j => i = j ∧ (i = 0 ∨ ∃ h : i - 1 < s.size, s[i - 1] = '\n')
  | .eol, i, j => i = j ∧ (i = s.size ∨ ∃ h : i < s.size, s[i] = '\n')
  | .eos, i, j => i = j ∧ i = s.size

theorem mem_dedup (l : List Nat) (x : Nat) : x ∈ dedup l ↔ x ∈ l := by
  unfold dedup; exact List.mem_eraseDups

/-- what `ends` has to satisfy for one expression -/
def EndsSpec (s : Array Char) (r : Rx) : Prop :=
  ∀ (ps : List Nat), (∀ p ∈ ps, p ≤ s.size) → ∀ (j : Nat), j ∈ r.ends s ps ↔ ∃ i ∈ ps, r.Matches s i j

theorem StarR.snoc {R : Nat → Nat → Prop} {i k j : Nat} (h : StarR R i k) (hk : R k j) : StarR R i j := by
  induction h with
  | refl i => exact .step hk (.refl _)
  | step h1 _ ih => exact .step h1 (ih hk)

theorem StarR.bound {R : Nat → Nat → Prop} {n : Nat} (hR : ∀ i j, R i j → i ≤ j ∧ (i ≤ n → j ≤ n)) {i j : Nat} (h : StarR R i j) :
    i ≤ j ∧ (i ≤ n → j ≤ n) := by
  induction h with
  | refl i => exact ⟨Nat.le_refl _, id⟩
  | step h1 _ ih =>
    obtain ⟨a1, a2⟩ := hR _ _ h1
    exact ⟨Nat.le_trans a1 ih.1, fun h => ih.2 (a2 h)⟩

theorem IterR.bound {R : Nat → Nat → Prop} {n : Nat} (hR : ∀ i j, R i j → i ≤ j ∧ (i ≤ n → j ≤ n)) :
    ∀ (m i j : Nat), IterR R m i j → i ≤ j ∧ (i ≤ n → j ≤ n) := by
  intro m
  induction m with
  | zero => intro i j h; cases h; exact ⟨Nat.le_refl _, id⟩
  | succ m ih =>
    intro i j ⟨k, h1, h2⟩
    obtain ⟨a1, a2⟩ := hR _ _ h1
    obtain ⟨b1, b2⟩ := ih k j h2
    exact ⟨Nat.le_trans a1 b1, fun h => b2 (a2 h)⟩

/-- a match goes forward and stays inside the text -/
theorem Rx.Matches.bound (s : Array Char) : ∀ (r : Rx) (i j : Nat), r.Matches s i j → i ≤ j ∧ (i ≤ s.size → j ≤ s.size) := by
  intro r
  induction r with
  | empty => intro i j h; cases h; exact ⟨Nat.le_refl _, id⟩
  | chr c => intro i j ⟨h, _, hj⟩; subst hj; exact ⟨Nat.le_succ _, fun _ => h⟩
  | any d => intro i j ⟨h, _, hj⟩; subst hj; exact ⟨Nat.le_succ _, fun _ => h⟩
  | cls neg rs => intro i j ⟨h, _, hj⟩; subst hj; exact ⟨Nat.le_succ _, fun _ => h⟩
  | seq a b iha ihb =>
    intro i j ⟨k, h1, h2⟩
    obtain ⟨a1, a2⟩ := iha _ _ h1
    obtain ⟨b1, b2⟩ := ihb _ _ h2
    exact ⟨Nat.le_trans a1 b1, fun h => b2 (a2 h)⟩
  | alt a b iha ihb =>
    intro i j h
    rcases h with h | h
    · exact iha _ _ h
    · exact ihb _ _ h
  | star a iha => intro i j h; exact StarR.bound iha h
  | rep a lo hi iha => intro i j ⟨n, _, _, h⟩; exact IterR.bound iha n i j h
  | bol => intro i j ⟨h, _⟩; subst h; exact ⟨Nat.le_refl _, id⟩
  | eol => intro i j ⟨h, _⟩; subst h; exact ⟨Nat.le_refl _, id⟩
  | eos => intro i j ⟨h, _⟩; subst h; exact ⟨Nat.le_refl _, id⟩

/-- positions reached from bounded positions are bounded -/
theorem EndsSpec.bounded {s : Array Char} {r : Rx} (h : EndsSpec s r) (ps : List Nat) (hps : ∀ p ∈ ps, p ≤ s.size) :
    ∀ q ∈ r.ends s ps, q ≤ s.size := by
  intro q hq
  obtain ⟨i, hi, hm⟩ := (h ps hps q).mp hq
  exact (Rx.Matches.bound s r i q hm).2 (hps i hi)

theorem ends_chr (s : Array Char) (c : Char) : EndsSpec s (.chr c) := by
  intro ps hps j
  simp only [Rx.ends, List.mem_filterMap, Rx.Matches]
  constructor
  · rintro ⟨p, hp, h⟩
    split at h
    · rename_i hlt
      split at h
      · rename_i hc
        simp only [Option.some.injEq] at h
        exact ⟨p, hp, hlt, by simpa using hc, h.symm⟩
      · cases h
    · cases h
  · rintro ⟨p, hp, hlt, hc, rfl⟩
    exact ⟨p, hp, by simp [hlt, hc]⟩

theorem ends_any (s : Array Char) (d : Bool) : EndsSpec s (.any d) := by
  intro ps hps j
  simp only [Rx.ends, List.mem_filterMap, Rx.Matches]
  constructor
  · rintro ⟨p, hp, h⟩
    split at h
    · rename_i hlt
      split at h
      · rename_i hc
        simp only [Option.some.injEq] at h
        refine ⟨p, hp, hlt, ?_, h.symm⟩
        simpa using hc
      · cases h
    · cases h
  · rintro ⟨p, hp, hlt, hc, rfl⟩
    refine ⟨p, hp, ?_⟩
    have : (d || s[p] != '\n') = true := by simpa using hc
    simp [hlt, this]

theorem ends_cls (s : Array Char) (neg : Bool) (rs : List (Char × Char)) : EndsSpec s (.cls neg rs) := by
  intro ps hps j
  simp only [Rx.ends, List.mem_filterMap, Rx.Matches]
  constructor
  · rintro ⟨p, hp, h⟩
    split at h
    · rename_i hlt
      split at h
      · rename_i hc
        simp only [Option.some.injEq] at h
        exact ⟨p, hp, hlt, hc, h.symm⟩
      · cases h
    · cases h
  · rintro ⟨p, hp, hlt, hc, rfl⟩
    exact ⟨p, hp, by simp [hlt, hc]⟩

theorem ends_empty (s : Array Char) : EndsSpec s .empty := by
  intro ps hps j
  simp only [Rx.ends, Rx.Matches]
  exact ⟨fun h => ⟨j, h, rfl⟩, fun ⟨i, hi, h⟩ => h ▸ hi⟩

theorem ends_seq (s : Array Char) (a b : Rx) (ha : EndsSpec s a) (hb : EndsSpec s b) : EndsSpec s (.seq a b) := by
  intro ps hps j
  simp only [Rx.ends, Rx.Matches]
  rw [hb _ (ha.bounded ps hps)]
  constructor
  · rintro ⟨k, hk, hkj⟩
    obtain ⟨i, hi, hik⟩ := (ha ps hps k).mp hk
    exact ⟨i, hi, k, hik, hkj⟩
  · rintro ⟨i, hi, k, hik, hkj⟩
    exact ⟨k, (ha ps hps k).mpr ⟨i, hi, hik⟩, hkj⟩

theorem ends_alt (s : Array Char) (a b : Rx) (ha : EndsSpec s a) (hb : EndsSpec s b) : EndsSpec s (.alt a b) := by
  intro ps hps j
  simp only [Rx.ends, Rx.Matches, mem_dedup, List.mem_append]
  rw [ha ps hps, hb ps hps]
  constructor
  · rintro (⟨i, hi, h⟩ | ⟨i, hi, h⟩)
    · exact ⟨i, hi, Or.inl h⟩
    · exact ⟨i, hi, Or.inr h⟩
  · rintro ⟨i, hi, h | h⟩
    · exact Or.inl ⟨i, hi, h⟩
    · exact Or.inr ⟨i, hi, h⟩

theorem ends_bol (s : Array Char) : EndsSpec s .bol := by
  intro ps hps j
  simp only [Rx.ends, Rx.Matches, List.mem_filter]
  constructor
  · rintro ⟨hj, h⟩
    refine ⟨j, hj, rfl, ?_⟩
    simp only [Bool.or_eq_true, beq_iff_eq] at h
    rcases h with h | h
    · exact Or.inl h
    · right
      split at h
      · rename_i hlt; exact ⟨hlt, by simpa using h⟩
      · cases h
  · rintro ⟨i, hi, rfl, h⟩
    refine ⟨hi, ?_⟩
    rcases h with h | ⟨hlt, h⟩
    · simp [h]
    · simp [hlt, h]

theorem ends_eol (s : Array Char) : EndsSpec s .eol := by
  intro ps hps j
  simp only [Rx.ends, Rx.Matches, List.mem_filter]
  constructor
  · rintro ⟨hj, h⟩
    refine ⟨j, hj, rfl, ?_⟩
    simp only [Bool.or_eq_true, beq_iff_eq] at h
    rcases h with h | h
    · exact Or.inl h
    · right
      split at h
      · rename_i hlt; exact ⟨hlt, by simpa using h⟩
      · cases h
  · rintro ⟨i, hi, rfl, h⟩
    refine ⟨hi, ?_⟩
    rcases h with h | ⟨hlt, h⟩
    · simp [h]
    · simp [hlt, h]

theorem ends_eos (s : Array Char) : EndsSpec s .eos := by
  intro ps hps j
  simp only [Rx.ends, Rx.Matches, List.mem_filter, beq_iff_eq]
  exact ⟨fun ⟨hj, h⟩ => ⟨j, hj, rfl, h⟩, fun ⟨i, hi, h1, h2⟩ => h1 ▸ ⟨hi, h2⟩⟩

theorem nodup_eraseDups : ∀ (n : Nat) (l : List Nat), l.length ≤ n → l.eraseDups.Nodup := by
  intro n
  induction n with
  | zero =>
    intro l h
    have : l = [] := List.eq_nil_of_length_eq_zero (Nat.le_zero.mp h)
    subst this; simp
  | succ n ih =>
    intro l h
    cases l with
    | nil => simp
    | cons a as =>
      rw [List.eraseDups_cons]
      refine List.nodup_cons.mpr ⟨?_, ih _ ?_⟩
      · intro hm
        have := List.mem_eraseDups.mp hm
        simp at this
      · have := List.length_filter_le (fun b => !b == a) as
        simp only [List.length_cons] at h
        omega

theorem nodup_dedup (l : List Nat) : (dedup l).Nodup := nodup_eraseDups l.length l (Nat.le_refl _)

theorem length_le_of_bounded (l : List Nat) (n : Nat) (hn : l.Nodup) (hb : ∀ x ∈ l, x ≤ n) : l.length ≤ n + 1 := by
  have := List.Nodup.length_le_of_subset (l₂ := List.range (n + 1)) hn (by
    intro x hx
    exact List.mem_range.mpr (Nat.lt_succ_of_le (hb x hx)))
  simpa using this

/-- the closure loop of `star`: what it returns is sound, contains the start positions and is closed under one more match -/
theorem loop_spec (s : Array Char) (a : Rx) (ha : EndsSpec s a) (ps : List Nat) :
    ∀ (fuel : Nat) (acc frontier : List Nat),
      acc.Nodup → (∀ p ∈ acc, p ≤ s.size) → (∀ p ∈ frontier, p ∈ acc) →
      (∀ p ∈ acc, ∃ i ∈ ps, StarR (a.Matches s) i p) →
      (∀ p ∈ ps, p ∈ acc) →
      (∀ p ∈ acc, ∀ q, a.Matches s p q → q ∈ acc ∨ p ∈ frontier) →
      (s.size + 2 ≤ acc.length + fuel ∨ frontier = []) → 1 ≤ fuel →
      (∀ p ∈ Rx.ends.loop s a fuel acc frontier, ∃ i ∈ ps, StarR (a.Matches s) i p) ∧
      (∀ p ∈ ps, p ∈ Rx.ends.loop s a fuel acc frontier) ∧
      (∀ p ∈ Rx.ends.loop s a fuel acc frontier, ∀ q, a.Matches s p q → q ∈ Rx.ends.loop s a fuel acc frontier) := by
  intro fuel
  induction fuel with
  | zero => intro acc frontier _ _ _ _ _ _ _ h1; omega
  | succ fuel ih =>
    intro acc frontier hnd hbd hfr hsound hps hclosed hfuel _
    have hfb : ∀ p ∈ frontier, p ≤ s.size := fun p hp => hbd p (hfr p hp)
    rw [Rx.ends.loop.eq_def]
    simp only []
    have hnext : ∀ q, q ∈ dedup (List.filter (fun p => !acc.contains p) (Rx.ends s a frontier)) ↔
        (∃ p ∈ frontier, a.Matches s p q) ∧ q ∉ acc := by
      intro q
      rw [mem_dedup, List.mem_filter, ha frontier hfb q]
      simp
    by_cases hne : (dedup (List.filter (fun p => !acc.contains p) (Rx.ends s a frontier))).isEmpty = true
    · simp only [hne, if_true]
      refine ⟨hsound, hps, ?_⟩
      intro p hp q hq
      rcases hclosed p hp q hq with h | h
      · exact h
      · apply Classical.byContradiction
        intro hqa
        have : q ∈ dedup (List.filter (fun p => !acc.contains p) (Rx.ends s a frontier)) := (hnext q).mpr ⟨⟨p, h, hq⟩, hqa⟩
        rw [List.isEmpty_iff] at hne
        rw [hne] at this
        cases this
    · simp only [hne, Bool.false_eq_true, if_false]
      generalize hN : dedup (List.filter (fun p => !acc.contains p) (Rx.ends s a frontier)) = next at hne hnext
      have hnn : next ≠ [] := by
        intro h; rw [h] at hne; simp at hne
      have hnd' : (acc ++ next).Nodup := by
        rw [List.nodup_append]
        refine ⟨hnd, hN ▸ nodup_dedup _, ?_⟩
        intro x hx y hy hxy
        subst hxy
        exact ((hnext x).mp hy).2 hx
      have hbd' : ∀ p ∈ acc ++ next, p ≤ s.size := by
        intro p hp
        rcases List.mem_append.mp hp with h | h
        · exact hbd p h
        · obtain ⟨⟨p0, hp0, hm⟩, _⟩ := (hnext p).mp h
          exact (Rx.Matches.bound s a p0 p hm).2 (hfb p0 hp0)
      have hlen := length_le_of_bounded _ _ hnd' hbd'
      have hfuel' : s.size + 2 ≤ (acc ++ next).length + fuel ∨ next = [] := by
        left
        rcases hfuel with h | h
        · have : 1 ≤ next.length := by
            cases next with
            | nil => exact absurd rfl hnn
            | cons _ _ => simp
          simp only [List.length_append]
          omega
        · exfalso
          subst h
          cases next with
          | nil => exact hnn rfl
          | cons x _ =>
            obtain ⟨⟨p0, hp0, _⟩, _⟩ := (hnext x).mp (by simp)
            cases hp0
      have hf1 : 1 ≤ fuel := by
        rcases hfuel' with h | h
        · omega
        · exact absurd h hnn
      refine ih (acc ++ next) next hnd' hbd' (fun p hp => List.mem_append.mpr (Or.inr hp)) ?_ ?_ ?_ hfuel' hf1
      · intro p hp
        rcases List.mem_append.mp hp with h | h
        · exact hsound p h
        · obtain ⟨⟨p0, hp0, hm⟩, _⟩ := (hnext p).mp h
          obtain ⟨i, hi, hst⟩ := hsound p0 (hfr p0 hp0)
          exact ⟨i, hi, hst.snoc hm⟩
      · intro p hp; exact List.mem_append.mpr (Or.inl (hps p hp))
      · intro p hp q hq
        rcases List.mem_append.mp hp with h | h
        · rcases hclosed p h q hq with h2 | h2
          · exact Or.inl (List.mem_append.mpr (Or.inl h2))
          · by_cases hqa : q ∈ acc
            · exact Or.inl (List.mem_append.mpr (Or.inl hqa))
            · exact Or.inl (List.mem_append.mpr (Or.inr ((hnext q).mpr ⟨⟨p, h2, hq⟩, hqa⟩)))
        · exact Or.inr h

theorem ends_star (s : Array Char) (a : Rx) (ha : EndsSpec s a) : EndsSpec s (.star a) := by
  intro ps hps j
  rw [Rx.ends.eq_7]
  have hb : ∀ p ∈ dedup ps, p ≤ s.size := fun p hp => hps p ((mem_dedup _ _).mp hp)
  obtain ⟨hsound, hstart, hclosed⟩ := loop_spec s a ha ps (s.size + 1) (dedup ps) (dedup ps) (nodup_dedup ps) hb (fun p hp => hp)
    (fun p hp => ⟨p, (mem_dedup _ _).mp hp, .refl p⟩) (fun p hp => (mem_dedup _ _).mpr hp) (fun p hp q _ => Or.inr hp)
    (by
      cases hd : dedup ps with
      | nil => exact Or.inr rfl
      | cons x xs => left; simp only [List.length_cons]; omega)
    (by omega)
  constructor
  · intro hj
    exact hsound j hj
  · rintro ⟨i, hi, hst⟩
    have : ∀ i j, StarR (a.Matches s) i j → i ∈ Rx.ends.loop s a (s.size + 1) (dedup ps) (dedup ps) →
        j ∈ Rx.ends.loop s a (s.size + 1) (dedup ps) (dedup ps) := by
      intro i j h
      induction h with
      | refl i => exact id
      | step h1 _ ih => intro hi; exact ih (hclosed _ hi _ h1)
    exact this i j hst (hstart i hi)

theorem IterR.append {R : Nat → Nat → Prop} : ∀ (m n i k j : Nat), IterR R m i k → IterR R n k j → IterR R (m + n) i j := by
  intro m
  induction m with
  | zero => intro n i k j h1 h2; cases h1; simpa using h2
  | succ m ih =>
    intro n i k j ⟨x, hx, h1⟩ h2
    rw [show m + 1 + n = (m + n) + 1 by omega]
    exact ⟨x, hx, ih n x k j h1 h2⟩

theorem IterR.split {R : Nat → Nat → Prop} : ∀ (m n i j : Nat), IterR R (m + n) i j → ∃ k, IterR R m i k ∧ IterR R n k j := by
  intro m
  induction m with
  | zero => intro n i j h; exact ⟨i, rfl, by simpa using h⟩
  | succ m ih =>
    intro n i j h
    rw [show m + 1 + n = (m + n) + 1 by omega] at h
    obtain ⟨x, hx, h1⟩ := h
    obtain ⟨k, hk1, hk2⟩ := ih n x j h1
    exact ⟨k, ⟨x, hx, hk1⟩, hk2⟩

theorem starR_iff_iter {R : Nat → Nat → Prop} (i j : Nat) : StarR R i j ↔ ∃ m, IterR R m i j := by
  constructor
  · intro h
    induction h with
    | refl i => exact ⟨0, rfl⟩
    | step h1 _ ih => obtain ⟨m, hm⟩ := ih; exact ⟨m + 1, _, h1, hm⟩
  · rintro ⟨m, hm⟩
    induction m generalizing i with
    | zero => cases hm; exact .refl _
    | succ m ih => obtain ⟨k, hk, h⟩ := hm; exact .step hk (ih k h)

theorem IterR.bounded_of {s : Array Char} {a : Rx} : ∀ (m i j : Nat), IterR (a.Matches s) m i j → i ≤ s.size → j ≤ s.size :=
  fun m i j h => (IterR.bound (Rx.Matches.bound s a) m i j h).2

theorem times_spec (s : Array Char) (a : Rx) (ha : EndsSpec s a) : ∀ (k : Nat) (qs : List Nat), (∀ p ∈ qs, p ≤ s.size) →
    ∀ j, j ∈ Rx.ends.times s a k qs ↔ ∃ i ∈ qs, IterR (a.Matches s) k i j := by
  intro k
  induction k with
  | zero =>
    intro qs _ j
    rw [Rx.ends.times.eq_def]
    exact ⟨fun h => ⟨j, h, rfl⟩, fun ⟨i, hi, h⟩ => by cases h; exact hi⟩
  | succ k ih =>
    intro qs hqs j
    rw [Rx.ends.times.eq_def]
    simp only []
    have hb : ∀ p ∈ dedup (Rx.ends s a qs), p ≤ s.size := fun p hp => ha.bounded qs hqs p ((mem_dedup _ _).mp hp)
    rw [ih _ hb j]
    constructor
    · rintro ⟨m, hm, h⟩
      obtain ⟨i, hi, him⟩ := (ha qs hqs m).mp ((mem_dedup _ _).mp hm)
      exact ⟨i, hi, m, him, h⟩
    · rintro ⟨i, hi, m, him, h⟩
      exact ⟨m, (mem_dedup _ _).mpr ((ha qs hqs m).mpr ⟨i, hi, him⟩), h⟩

theorem upto_spec (s : Array Char) (a : Rx) (ha : EndsSpec s a) : ∀ (k : Nat) (acc cur : List Nat), (∀ p ∈ cur, p ≤ s.size) →
    ∀ j, j ∈ Rx.ends.upto s a k acc cur ↔ j ∈ acc ∨ ∃ m, 1 ≤ m ∧ m ≤ k ∧ ∃ i ∈ cur, IterR (a.Matches s) m i j := by
  intro k
  induction k with
  | zero =>
    intro acc cur _ j
    rw [Rx.ends.upto.eq_def]
    simp only []
    constructor
    · exact Or.inl
    · rintro (h | ⟨m, h1, h2, _⟩)
      · exact h
      · omega
  | succ k ih =>
    intro acc cur hcur j
    rw [Rx.ends.upto.eq_def]
    simp only []
    have hb : ∀ p ∈ dedup (Rx.ends s a cur), p ≤ s.size := fun p hp => ha.bounded cur hcur p ((mem_dedup _ _).mp hp)
    have hstep : ∀ q, q ∈ dedup (Rx.ends s a cur) ↔ ∃ i ∈ cur, a.Matches s i q := fun q => by rw [mem_dedup, ha cur hcur q]
    rw [ih _ _ hb j, mem_dedup, List.mem_append]
    constructor
    · rintro ((h | h) | ⟨m, h1, h2, x, hx, hm⟩)
      · exact Or.inl h
      · obtain ⟨i, hi, hq⟩ := (hstep j).mp h
        exact Or.inr ⟨1, Nat.le_refl _, by omega, i, hi, j, hq, rfl⟩
      · obtain ⟨i, hi, hq⟩ := (hstep x).mp hx
        exact Or.inr ⟨m + 1, by omega, by omega, i, hi, x, hq, hm⟩
    · rintro (h | ⟨m, h1, h2, i, hi, hm⟩)
      · exact Or.inl (Or.inl h)
      · cases m with
        | zero => omega
        | succ m =>
          obtain ⟨x, hx, hrest⟩ := hm
          have hxm := (hstep x).mpr ⟨i, hi, hx⟩
          cases m with
          | zero => cases hrest; exact Or.inl (Or.inr hxm)
          | succ m => exact Or.inr ⟨m + 1, by omega, by omega, x, hxm, hrest⟩

theorem ends_rep (s : Array Char) (a : Rx) (lo : Nat) (hi : Option Nat) (ha : EndsSpec s a) : EndsSpec s (.rep a lo hi) := by
  intro ps hps j
  rw [Rx.ends.eq_def]
  simp only [Rx.Matches]
  have hbase : ∀ q, q ∈ Rx.ends.times s a lo ps ↔ ∃ i ∈ ps, IterR (a.Matches s) lo i q := times_spec s a ha lo ps hps
  have hbb : ∀ p ∈ Rx.ends.times s a lo ps, p ≤ s.size := by
    intro p hp
    obtain ⟨i, hi, h⟩ := (hbase p).mp hp
    exact IterR.bounded_of lo i p h (hps i hi)
  cases hi with
  | none =>
    simp only []
    rw [ends_star s a ha _ hbb j]
    constructor
    · rintro ⟨b, hb, hst⟩
      obtain ⟨i, hi, hib⟩ := (hbase b).mp hb
      obtain ⟨m, hm⟩ := (starR_iff_iter b j).mp hst
      exact ⟨i, hi, lo + m, by omega, trivial, IterR.append lo m i b j hib hm⟩
    · rintro ⟨i, hi, n, hn, _, h⟩
      obtain ⟨b, hb1, hb2⟩ := IterR.split lo (n - lo) i j (by rwa [show lo + (n - lo) = n by omega])
      exact ⟨b, (hbase b).mpr ⟨i, hi, hb1⟩, (starR_iff_iter b j).mpr ⟨_, hb2⟩⟩
  | some h =>
    simp only []
    rw [upto_spec s a ha (h - lo) _ _ hbb j]
    constructor
    · rintro (hb | ⟨m, h1, h2, b, hb, hm⟩)
      · obtain ⟨i, hi, hib⟩ := (hbase j).mp hb
        exact ⟨i, hi, lo, Nat.le_refl _, Nat.le_max_left _ _, hib⟩
      · obtain ⟨i, hi, hib⟩ := (hbase b).mp hb
        refine ⟨i, hi, lo + m, by omega, ?_, IterR.append lo m i b j hib hm⟩
        have : lo + m ≤ h := by omega
        exact Nat.le_trans this (Nat.le_max_right _ _)
    · rintro ⟨i, hi, n, hn, hmax, hit⟩
      obtain ⟨b, hb1, hb2⟩ := IterR.split lo (n - lo) i j (by rwa [show lo + (n - lo) = n by omega])
      by_cases hnl : n = lo
      · left
        subst hnl
        simp only [Nat.sub_self] at hb2
        cases hb2
        exact (hbase _).mpr ⟨i, hi, hb1⟩
      · right
        have hle : n ≤ h := by
          rcases Nat.le_total lo h with hlh | hlh
          · rwa [Nat.max_eq_right hlh] at hmax
          · rw [Nat.max_eq_left hlh] at hmax; omega
        exact ⟨n - lo, by omega, by omega, b, (hbase b).mpr ⟨i, hi, hb1⟩, hb2⟩

/-- **the position-set matcher computes the declarative semantics**: from bounded start positions `ps`, `ends` returns
exactly the positions `j` such that `r` matches the text between some `i ∈ ps` and `j` -/
theorem ends_spec (s : Array Char) : ∀ r : Rx, EndsSpec s r := by
  intro r
  induction r with
  | empty => exact ends_empty s
  | chr c => exact ends_chr s c
  | any d => exact ends_any s d
  | cls neg rs => exact ends_cls s neg rs
  | seq a b iha ihb => exact ends_seq s a b iha ihb
  | alt a b iha ihb => exact ends_alt s a b iha ihb
  | star a iha => exact ends_star s a iha
  | rep a lo hi iha => exact ends_rep s a lo hi iha
  | bol => exact ends_bol s
  | eol => exact ends_eol s
  | eos => exact ends_eos s

/-- `regex.match(value)` succeeds iff the expression matches some prefix of the value -/
theorem matchPrefix_iff (r : Rx) (v : Str) : r.matchPrefix v = true ↔ ∃ j, r.Matches v.toArray 0 j := by
  unfold Rx.matchPrefix
  have h := ends_spec v.toArray r [0] (by intro p hp; simp at hp; omega)
  constructor
  · intro hne
    cases hl : r.ends v.toArray [0] with
    | nil => rw [hl] at hne; simp at hne
    | cons x xs =>
      obtain ⟨i, hi, hm⟩ := (h x).mp (by rw [hl]; simp)
      simp at hi; subst hi
      exact ⟨x, hm⟩
  · rintro ⟨j, hj⟩
    have : j ∈ r.ends v.toArray [0] := (h j).mpr ⟨0, by simp, hj⟩
    cases hl : r.ends v.toArray [0] with
    | nil => rw [hl] at this; cases this
    | cons x xs => simp

/-! ### what a glob denotes -/

/-- the declarative reading of `fnmatch` patterns (as far as the model goes): `*` any text, `?` any one character,
`[...]` one character of the class, anything else itself (ignoring case, as cutplace compiles the pattern) - and the
whole value has to be used up -/
def GlobSem : Nat → Str → Str → Prop
  | 0, _, _ => False
  | _, [], v => v = []
  | fuel + 1, c :: cs, v =>
    if c = '*' then ∃ k, k ≤ v.length ∧ GlobSem fuel cs (v.drop k)
    else if c = '?' then ∃ x v', v = x :: v' ∧ GlobSem fuel cs v'
    else if c = '[' then
      match globClass cs with
      | none => ∃ x v', v = x :: v' ∧ foldCase x = foldCase '[' ∧ GlobSem fuel cs v'
      | some (none, _) => False
      | some (some (neg, rs), rest) => ∃ x v', v = x :: v' ∧ clsMatch neg rs x = true ∧ GlobSem fuel rest v'
    else ∃ x v', v = x :: v' ∧ foldCase x = foldCase c ∧ GlobSem fuel cs v'

theorem matches_seq (s : Array Char) (a b : Rx) (i j : Nat) :
    (Rx.seq a b).Matches s i j ↔ ∃ k, a.Matches s i k ∧ b.Matches s k j := Iff.rfl
theorem matches_star (s : Array Char) (a : Rx) (i j : Nat) : (Rx.star a).Matches s i j ↔ StarR (a.Matches s) i j := Iff.rfl
theorem matches_any (s : Array Char) (d : Bool) (i j : Nat) :
    (Rx.any d).Matches s i j ↔ ∃ h : i < s.size, (d = true ∨ s[i] ≠ '\n') ∧ j = i + 1 := Iff.rfl
theorem matches_chr (s : Array Char) (c : Char) (i j : Nat) :
    (Rx.chr c).Matches s i j ↔ ∃ h : i < s.size, foldCase s[i] = foldCase c ∧ j = i + 1 := Iff.rfl
theorem matches_cls (s : Array Char) (neg : Bool) (rs : List (Char × Char)) (i j : Nat) :
    (Rx.cls neg rs).Matches s i j ↔ ∃ h : i < s.size, clsMatch neg rs s[i] = true ∧ j = i + 1 := Iff.rfl

theorem star_any_iff (s : Array Char) (i j : Nat) (hi : i ≤ s.size) :
    StarR ((Rx.any true).Matches s) i j ↔ i ≤ j ∧ j ≤ s.size := by
  constructor
  · intro h
    have := StarR.bound (Rx.Matches.bound s (.any true)) h
    exact ⟨this.1, this.2 hi⟩
  · rintro ⟨hij, hj⟩
    obtain ⟨d, rfl⟩ := Nat.exists_eq_add_of_le hij
    clear hij
    induction d generalizing i with
    | zero => exact .refl _
    | succ d ih =>
      have hlt : i < s.size := by omega
      refine .step (k := i + 1) ⟨hlt, Or.inl rfl, rfl⟩ ?_
      have := ih (i + 1) (by omega) (by omega)
      rwa [show i + 1 + d = i + (d + 1) by omega] at this

theorem drop_cons_of_lt (v : Str) (i : Nat) (h : i < v.length) : v.drop i = v[i] :: v.drop (i + 1) := by
  exact List.drop_eq_getElem_cons h

/-- one-character steps of the matcher against the list view of the value -/
theorem one_char_step (v : Str) (i : Nat) (P : Char → Prop) (Q : Str → Prop) :
    (∃ h : i < v.toArray.size, P v.toArray[i] ∧ Q (v.drop (i + 1))) ↔ ∃ x v', v.drop i = x :: v' ∧ P x ∧ Q v' := by
  constructor
  · rintro ⟨h, hp, hq⟩
    have hl : i < v.length := by simpa using h
    refine ⟨v[i], v.drop (i + 1), drop_cons_of_lt v i hl, ?_, hq⟩
    simpa using hp
  · rintro ⟨x, v', hd, hp, hq⟩
    have hl : i < v.length := by
      apply Classical.byContradiction
      intro hge
      have : v.drop i = [] := List.drop_eq_nil_of_le (by omega)
      rw [this] at hd; cases hd
    rw [drop_cons_of_lt v i hl] at hd
    simp only [List.cons.injEq] at hd
    refine ⟨by simpa using hl, ?_, ?_⟩
    · have : v.toArray[i]'(by simpa using hl) = v[i] := by simp
      rw [this, hd.1]; exact hp
    · rw [hd.2]; exact hq

theorem glob_matches (fuel : Nat) : ∀ (pat : Str) (rx : Rx) (v : Str) (i j : Nat), globToRx fuel pat = some rx → i ≤ v.length →
    (rx.Matches v.toArray i j ↔ j = v.length ∧ GlobSem fuel pat (v.drop i)) := by
  induction fuel with
  | zero => intro pat rx v i j h; simp [globToRx] at h
  | succ fuel ih =>
    intro pat rx v i j h hi
    cases pat with
    | nil =>
      simp only [globToRx, Option.some.injEq] at h
      subst h
      simp only [Rx.Matches, GlobSem, List.size_toArray]
      constructor
      · rintro ⟨rfl, rfl⟩
        exact ⟨rfl, by simp⟩
      · rintro ⟨rfl, hd⟩
        have : v.length ≤ i := by
          apply Classical.byContradiction
          intro hlt
          rw [drop_cons_of_lt v i (by omega)] at hd
          cases hd
        omega
    | cons c cs =>
      rw [globToRx] at h
      unfold GlobSem
      by_cases hstar : c = '*'
      · subst hstar
        simp only [beq_self_eq_true, if_true, Option.map_eq_some_iff] at h
        obtain ⟨r', hr', rfl⟩ := h
        rw [matches_seq]
        simp only [matches_star, if_true]
        constructor
        · rintro ⟨k, hst, hm⟩
          obtain ⟨hik, hks⟩ := (star_any_iff v.toArray i k (by simpa using hi)).mp hst
          have hkl : k ≤ v.length := by simpa using hks
          obtain ⟨hj, hg⟩ := (ih cs r' v k j hr' hkl).mp hm
          refine ⟨hj, k - i, by simp; omega, ?_⟩
          rw [List.drop_drop, show i + (k - i) = k by omega]
          exact hg
        · rintro ⟨hj, d, hd, hg⟩
          simp only [List.length_drop] at hd
          rw [List.drop_drop] at hg
          refine ⟨i + d, (star_any_iff v.toArray i (i + d) (by simpa using hi)).mpr ⟨by omega, by simp; omega⟩, ?_⟩
          exact (ih cs r' v (i + d) j hr' (by omega)).mpr ⟨hj, hg⟩
      · have hs' : (c == '*') = false := by simpa using hstar
        simp only [hs', Bool.false_eq_true, if_false, hstar] at h ⊢
        by_cases hq : c = '?'
        · subst hq
          simp only [beq_self_eq_true, if_true, Option.map_eq_some_iff] at h
          obtain ⟨r', hr', rfl⟩ := h
          rw [matches_seq]
          simp only [matches_any, if_true]
          constructor
          · rintro ⟨k, ⟨hlt, _, rfl⟩, hm⟩
            have hl : i < v.length := by simpa using hlt
            obtain ⟨hj, hg⟩ := (ih cs r' v (i + 1) j hr' (by omega)).mp hm
            exact ⟨hj, v[i], v.drop (i + 1), drop_cons_of_lt v i hl, hg⟩
          · rintro ⟨hj, x, v', hd, hg⟩
            have hl : i < v.length := by
              apply Classical.byContradiction
              intro hge
              have : v.drop i = [] := List.drop_eq_nil_of_le (by omega)
              rw [this] at hd; cases hd
            rw [drop_cons_of_lt v i hl] at hd
            simp only [List.cons.injEq] at hd
            refine ⟨i + 1, ⟨by simpa using hl, Or.inl trivial, rfl⟩, ?_⟩
            exact (ih cs r' v (i + 1) j hr' (by omega)).mpr ⟨hj, hd.2 ▸ hg⟩
        · have hq' : (c == '?') = false := by simpa using hq
          simp only [hq', Bool.false_eq_true, if_false, hq] at h ⊢
          -- the three one-character forms share this step
          have one : ∀ (r1 r' : Rx) (P : Char → Prop) (rest : Str), globToRx fuel rest = some r' →
              (∀ a b, r1.Matches v.toArray a b ↔ ∃ hlt : a < v.toArray.size, P v.toArray[a] ∧ b = a + 1) →
              ((Rx.seq r1 r').Matches v.toArray i j ↔ j = v.length ∧ ∃ x v', v.drop i = x :: v' ∧ P x ∧ GlobSem fuel rest v') := by
            intro r1 r' P rest hr' hr1
            rw [matches_seq]
            constructor
            · rintro ⟨k, hk, hm⟩
              obtain ⟨hlt, hp, rfl⟩ := (hr1 i k).mp hk
              have hl : i < v.length := by simpa using hlt
              obtain ⟨hj, hg⟩ := (ih rest r' v (i + 1) j hr' (by omega)).mp hm
              exact ⟨hj, (one_char_step v i P (GlobSem fuel rest)).mp ⟨hlt, hp, hg⟩⟩
            · rintro ⟨hj, hx⟩
              obtain ⟨hlt, hp, hg⟩ := (one_char_step v i P (GlobSem fuel rest)).mpr hx
              have hl : i < v.length := by simpa using hlt
              exact ⟨i + 1, (hr1 i (i + 1)).mpr ⟨hlt, hp, rfl⟩, (ih rest r' v (i + 1) j hr' (by omega)).mpr ⟨hj, hg⟩⟩
          by_cases hb : c = '['
          · subst hb
            simp only [beq_self_eq_true, if_true] at h ⊢
            cases hgc : globClass cs with
            | none =>
              rw [hgc] at h
              simp only [Option.map_eq_some_iff] at h
              obtain ⟨r', hr', rfl⟩ := h
              exact one (.chr '[') r' (fun x => foldCase x = foldCase '[') cs hr' (fun a b => matches_chr _ _ a b)
            | some res =>
              obtain ⟨cl, rest⟩ := res
              rw [hgc] at h
              cases cl with
              | none => simp at h
              | some nr =>
                obtain ⟨neg, rs⟩ := nr
                simp only [Option.map_eq_some_iff] at h
                obtain ⟨r', hr', rfl⟩ := h
                exact one (.cls neg rs) r' (fun x => clsMatch neg rs x = true) rest hr' (fun a b => matches_cls _ _ _ a b)
          · have hb' : (c == '[') = false := by simpa using hb
            simp only [hb', Bool.false_eq_true, if_false, hb, Option.map_eq_some_iff] at h ⊢
            obtain ⟨r', hr', rfl⟩ := h
            exact one (.chr c) r' (fun x => foldCase x = foldCase c) cs hr' (fun a b => matches_chr _ _ a b)

/-- a Pattern field accepts exactly the values its glob denotes, used up entirely -/
theorem pattern_accepts (fuel : Nat) (rule : Str) (rx : Rx) (v : Str) (h : globToRx fuel rule = some rx) :
    rx.matchPrefix v = true ↔ GlobSem fuel rule v := by
  rw [matchPrefix_iff]
  constructor
  · rintro ⟨j, hj⟩
    have := (glob_matches fuel rule rx v 0 j h (Nat.zero_le _)).mp hj
    simpa using this.2
  · intro hg
    exact ⟨v.length, (glob_matches fuel rule rx v 0 v.length h (Nat.zero_le _)).mpr ⟨rfl, by simpa using hg⟩⟩

end Cutplace
