import Cutplace.Spec.Excel
/-
`xlrd.xldate_as_tuple`'s Julian-day arithmetic inverts the proleptic Gregorian calendar, for every
date from 1900-03-01 on (no upper bound).  The calendar is stated naively (`ordinal`: days before the
year by the leap-year rule, days before the month by summing `daysInMonth`, the same `isLeap` /
`daysInMonth` the DateTime field uses); the proof goes through the March-based day-of-year form.
-/
namespace Cutplace

theorem isLeap_iff (y : Nat) : isLeap y = true ↔ (y % 4 = 0 ∧ y % 100 ≠ 0) ∨ y % 400 = 0 := by
  unfold isLeap
  simp [Bool.or_eq_true, Bool.and_eq_true, bne_iff_ne]

/-- the leap-day count up to and including year `y` grows by one exactly in leap years -/
theorem leapCount_succ (y : Nat) (hy : 1 ≤ y) :
    y / 4 - y / 100 + y / 400 = (y - 1) / 4 - (y - 1) / 100 + (y - 1) / 400 + (if isLeap y then 1 else 0) := by
  by_cases h : isLeap y = true
  · rw [if_pos h]; rw [isLeap_iff] at h; omega
  · rw [if_neg h]; rw [isLeap_iff] at h; omega

/-- the century correction of the Julian-day algorithm, for a March-based year `400a + 100b + t` -/
theorem century (a b t doy : Nat) (hb : b ≤ 3) (ht : t ≤ 99) (hdoy : doy ≤ 365)
    (hleap : doy = 365 → (t % 4 = 3 ∧ (t ≠ 99 ∨ b = 3))) :
    (((146097*a + 36524*b + 365*t + t/4 + doy + 1721120) * 4 + 274277)/146097)*3/4 = 3*a + b + 36 := by
  by_cases hs : t = 99 ∧ doy = 365
  · obtain ⟨rfl, rfl⟩ := hs
    have hb3 : b = 3 := by omega
    subst hb3
    have : ((146097*a + 36524*3 + 365*99 + 99/4 + 365 + 1721120) * 4 + 274277)/146097 = 4*a + 53 := by
      apply Nat.div_eq_of_lt_le <;> omega
    rw [this]; omega
  · have : ((146097*a + 36524*b + 365*t + t/4 + doy + 1721120) * 4 + 274277)/146097 = 4*a + b + 49 := by
      apply Nat.div_eq_of_lt_le <;> omega
    rw [this]; omega

/-- length of the March-based month `mi` (0 = March … 11 = February; February taken as 29) -/
def marchLen (mi : Nat) : Nat :=
  if mi = 11 then 29 else if mi = 1 ∨ mi = 3 ∨ mi = 6 ∨ mi = 8 then 30 else 31

/-- the month / day split `mp = doy * 535 + 333` of xlrd -/
theorem month_split (mi d : Nat) (hmi : mi ≤ 11) (hd1 : 1 ≤ d) (hd : d ≤ marchLen mi) :
    (((153 * mi + 2) / 5 + d - 1) * 535 + 333) / 16384 = mi ∧
    ((((153 * mi + 2) / 5 + d - 1) * 535 + 333) % 16384) / 535 + 1 = d := by
  unfold marchLen at hd
  have : mi = 0 ∨ mi = 1 ∨ mi = 2 ∨ mi = 3 ∨ mi = 4 ∨ mi = 5 ∨ mi = 6 ∨ mi = 7 ∨ mi = 8 ∨ mi = 9 ∨ mi = 10 ∨ mi = 11 := by omega
  rcases this with h | h | h | h | h | h | h | h | h | h | h | h <;> subst h <;> simp at hd <;> omega

theorem doy_bounds (mi d : Nat) (hmi : mi ≤ 11) (hd1 : 1 ≤ d) (hd : d ≤ marchLen mi) :
    (153 * mi + 2) / 5 + d - 1 ≤ 365 ∧ ((153 * mi + 2) / 5 + d - 1 = 365 → mi = 11 ∧ d = 29) := by
  unfold marchLen at hd
  have : mi = 0 ∨ mi = 1 ∨ mi = 2 ∨ mi = 3 ∨ mi = 4 ∨ mi = 5 ∨ mi = 6 ∨ mi = 7 ∨ mi = 8 ∨ mi = 9 ∨ mi = 10 ∨ mi = 11 := by omega
  rcases this with h | h | h | h | h | h | h | h | h | h | h | h <;> subst h <;> simp at hd <;> omega

theorem yreg_eq (a b q r doy : Nat) (hr : r ≤ 3) :
    (3*a+b+36 + (146097*a + 36524*b + 365*(4*q+r) + q + doy + 1721120) + 1363)*4 + 3
      = 1461*(400*a+100*b+(4*q+r)+4716) + (4*doy+3-r) := by omega

/-- the algorithm on a Julian day number given in March-based form -/
theorem xldate_march (s yp mi d : Nat) (hmi : mi ≤ 11) (hd1 : 1 ≤ d) (hd : d ≤ marchLen mi)
    (hfeb : mi = 11 → d = 29 → isLeap (yp + 1) = true)
    (hs : s + 2415019 = 365 * yp + yp / 4 - yp / 100 + yp / 400 + ((153 * mi + 2) / 5 + d - 1) + 1721120) :
    xldateCivil s = if mi ≥ 10 then (yp + 1, mi - 9, d) else (yp, mi + 3, d) := by
  -- decompose the year
  obtain ⟨a, b, t, hb, ht, hyp⟩ : ∃ a b t, b ≤ 3 ∧ t ≤ 99 ∧ yp = 400 * a + 100 * b + t :=
    ⟨yp / 400, yp % 400 / 100, yp % 100, by omega, by omega, by omega⟩
  obtain ⟨hdoyle, hdoy365⟩ := doy_bounds mi d hmi hd1 hd
  have hleap : (153 * mi + 2) / 5 + d - 1 = 365 → (t % 4 = 3 ∧ (t ≠ 99 ∨ b = 3)) := by
    intro h365
    obtain ⟨hm11, hd29⟩ := hdoy365 h365
    have := hfeb hm11 hd29
    rw [isLeap_iff] at this
    omega
  generalize hdoy : (153 * mi + 2) / 5 + d - 1 = doy at *
  have hJ : s + 2415019 = 146097*a + 36524*b + 365*t + t/4 + doy + 1721120 := by omega
  have hg := century a b t doy hb ht hdoyle hleap
  have hY : ∃ Y, Y = yp + 4716 := ⟨_, rfl⟩
  obtain ⟨Y, hYdef⟩ := hY
  -- the register `yreg`
  obtain ⟨q, r, hr3, htq⟩ : ∃ q r, r ≤ 3 ∧ t = 4 * q + r := ⟨t / 4, t % 4, by omega, by omega⟩
  have ht4 : t / 4 = q := by omega
  have hY4 : Y % 4 = r := by omega
  have hyreg : (((((s + 2415080 - 61) * 4 + 274277) / 146097) * 3 / 4) + (s + 2415080 - 61) + 1363) * 4 + 3
      = 1461 * Y + (4 * doy + 3 - Y % 4) := by
    have e1 : s + 2415080 - 61 = 146097*a + 36524*b + 365*t + t/4 + doy + 1721120 := by omega
    rw [e1, hg, hY4, ht4, hYdef, hyp, htq]
    exact yreg_eq a b q r doy hr3
  have hrem : 4 * doy + 3 - Y % 4 < 1461 := by
    by_cases h365 : doy = 365
    · have := hleap h365; omega
    · omega
  have hq : (1461 * Y + (4 * doy + 3 - Y % 4)) / 1461 = Y := by
    apply Nat.div_eq_of_lt_le <;> omega
  have hr : (1461 * Y + (4 * doy + 3 - Y % 4)) % 1461 = 4 * doy + 3 - Y % 4 := by
    rw [Nat.mul_add_mod]; exact Nat.mod_eq_of_lt hrem
  have hdoy4 : (4 * doy + 3 - Y % 4) / 4 = doy := by omega
  obtain ⟨hm, hdd⟩ := month_split mi d hmi hd1 hd
  rw [hdoy] at hm hdd
  unfold xldateCivil
  simp only [hyreg, hq, hr, hdoy4, hm, hdd]
  by_cases h10 : mi ≥ 10
  · simp only [h10, if_true]
    have : Y - 4715 = yp + 1 := by omega
    rw [this]
  · simp only [h10, if_false]
    have : Y - 4716 = yp := by omega
    rw [this]

theorem daysBeforeMonth_table (y : Nat) :
    daysBeforeMonth y 1 = 0 ∧ daysBeforeMonth y 2 = 31 ∧
    daysBeforeMonth y 3 = 59 + (if isLeap y then 1 else 0) ∧ daysBeforeMonth y 4 = 90 + (if isLeap y then 1 else 0) ∧
    daysBeforeMonth y 5 = 120 + (if isLeap y then 1 else 0) ∧ daysBeforeMonth y 6 = 151 + (if isLeap y then 1 else 0) ∧
    daysBeforeMonth y 7 = 181 + (if isLeap y then 1 else 0) ∧ daysBeforeMonth y 8 = 212 + (if isLeap y then 1 else 0) ∧
    daysBeforeMonth y 9 = 243 + (if isLeap y then 1 else 0) ∧ daysBeforeMonth y 10 = 273 + (if isLeap y then 1 else 0) ∧
    daysBeforeMonth y 11 = 304 + (if isLeap y then 1 else 0) ∧ daysBeforeMonth y 12 = 334 + (if isLeap y then 1 else 0) := by
  by_cases h : isLeap y = true <;> simp [daysBeforeMonth, daysInMonth, h]

theorem daysBeforeMonth_march (y m : Nat) (h3 : 3 ≤ m) (h12 : m ≤ 12) :
    daysBeforeMonth y m = (153 * (m - 3) + 2) / 5 + 59 + (if isLeap y then 1 else 0) := by
  obtain ⟨_, _, t3, t4, t5, t6, t7, t8, t9, t10, t11, t12⟩ := daysBeforeMonth_table y
  have hm : m = 3 ∨ m = 4 ∨ m = 5 ∨ m = 6 ∨ m = 7 ∨ m = 8 ∨ m = 9 ∨ m = 10 ∨ m = 11 ∨ m = 12 := by omega
  rcases hm with h | h | h | h | h | h | h | h | h | h <;> subst h
  · rw [t3]
  · rw [t4]
  · rw [t5]
  · rw [t6]
  · rw [t7]
  · rw [t8]
  · rw [t9]
  · rw [t10]
  · rw [t11]
  · rw [t12]

theorem ordinal_ge3 (y k d L : Nat) (hy : 1 ≤ y) (hd1 : 1 ≤ d)
    (hl : y/4 - y/100 + y/400 = (y-1)/4 - (y-1)/100 + (y-1)/400 + L) :
    365*(y-1) + (y-1)/4 - (y-1)/100 + (y-1)/400 + (k + 59 + L) + d + 305
      = 365*y + y/4 - y/100 + y/400 + (k + d - 1) := by
  have h1 : (y-1)/100 ≤ (y-1)/4 := Nat.div_le_div_left (by decide) (by decide)
  have h2 : y/100 ≤ y/4 := Nat.div_le_div_left (by decide) (by decide)
  generalize (y-1)/4 = A at *
  generalize (y-1)/100 = B at *
  generalize (y-1)/400 = C at *
  generalize y/4 = A' at *
  generalize y/100 = B' at *
  generalize y/400 = C' at *
  omega

/-- the naive ordinal in March-based form -/
theorem ordinal_march (y m d : Nat) (hy : 1 ≤ y) (hv : ValidCivil y m d) :
    ordinal y m d + 305 = 365 * (if m ≤ 2 then y - 1 else y) + (if m ≤ 2 then y - 1 else y) / 4
      - (if m ≤ 2 then y - 1 else y) / 100 + (if m ≤ 2 then y - 1 else y) / 400
      + ((153 * (if m ≤ 2 then m + 9 else m - 3) + 2) / 5 + d - 1) := by
  obtain ⟨hm1, hm12, hd1, _⟩ := hv
  unfold ordinal
  by_cases h2 : m ≤ 2
  · simp only [h2, if_true]
    obtain ⟨t1, t2, _⟩ := daysBeforeMonth_table y
    have hm : m = 1 ∨ m = 2 := by omega
    rcases hm with h | h <;> subst h
    · rw [t1]; omega
    · rw [t2]; omega
  · simp only [h2, if_false]
    rw [daysBeforeMonth_march y m (by omega) hm12]
    exact ordinal_ge3 y _ d _ hy hd1 (leapCount_succ y hy)

/-- **xlrd's date arithmetic is the calendar**: for every real date from 1900-03-01 on, the serial number of the
date is converted back to exactly that date -/
theorem xldateCivil_excelSerial (y m d : Nat) (hv : ValidCivil y m d) (h1900 : 1900 < y ∨ (y = 1900 ∧ 3 ≤ m)) :
    xldateCivil (excelSerial y m d) = (y, m, d) ∧ 61 ≤ excelSerial y m d := by
  have hy : 1 ≤ y := by omega
  have hom := ordinal_march y m d hy hv
  obtain ⟨hm1, hm12, hd1, hdim⟩ := hv
  -- the serial is large enough for the subtraction to be exact
  have hbig : 693594 + 61 ≤ ordinal y m d := by
    have : 365 * 1899 + 1899 / 4 - 1899 / 100 + 1899 / 400 ≤ 365 * (y - 1) + (y - 1) / 4 - (y - 1) / 100 + (y - 1) / 400 := by omega
    obtain ⟨t1, t2, t3, t4, t5, t6, t7, t8, t9, t10, t11, t12⟩ := daysBeforeMonth_table y
    unfold ordinal
    rcases h1900 with h | ⟨h, h3⟩
    · have : 365 * 1900 + 1900 / 4 - 1900 / 100 + 1900 / 400 ≤ 365 * (y - 1) + (y - 1) / 4 - (y - 1) / 100 + (y - 1) / 400 := by omega
      omega
    · subst h
      have hm : m = 3 ∨ m = 4 ∨ m = 5 ∨ m = 6 ∨ m = 7 ∨ m = 8 ∨ m = 9 ∨ m = 10 ∨ m = 11 ∨ m = 12 := by omega
      rcases hm with h | h | h | h | h | h | h | h | h | h <;> subst h <;> simp_all <;> omega
  refine ⟨?_, by unfold excelSerial; omega⟩
  have hmi : (if m ≤ 2 then m + 9 else m - 3) ≤ 11 := by split <;> omega
  have hlen : d ≤ marchLen (if m ≤ 2 then m + 9 else m - 3) := by
    unfold daysInMonth at hdim
    unfold marchLen
    have hm : m = 1 ∨ m = 2 ∨ m = 3 ∨ m = 4 ∨ m = 5 ∨ m = 6 ∨ m = 7 ∨ m = 8 ∨ m = 9 ∨ m = 10 ∨ m = 11 ∨ m = 12 := by omega
    rcases hm with h | h | h | h | h | h | h | h | h | h | h | h <;> subst h <;> simp at hdim ⊢ <;> (try split at hdim) <;> omega
  have hfeb : (if m ≤ 2 then m + 9 else m - 3) = 11 → d = 29 → isLeap ((if m ≤ 2 then y - 1 else y) + 1) = true := by
    intro h11 h29
    have hm2 : m = 2 := by split at h11 <;> omega
    subst hm2
    simp only [Nat.le_refl, if_true]
    have : y - 1 + 1 = y := by omega
    rw [this]
    unfold daysInMonth at hdim
    simp at hdim
    by_cases hl : isLeap y = true
    · exact hl
    · simp [hl] at hdim; omega
  have hs : excelSerial y m d + 2415019 = 365 * (if m ≤ 2 then y - 1 else y) + (if m ≤ 2 then y - 1 else y) / 4
      - (if m ≤ 2 then y - 1 else y) / 100 + (if m ≤ 2 then y - 1 else y) / 400
      + ((153 * (if m ≤ 2 then m + 9 else m - 3) + 2) / 5 + d - 1) + 1721120 := by
    unfold excelSerial; omega
  rw [xldate_march _ _ _ d hmi hd1 hlen hfeb hs]
  by_cases h2 : m ≤ 2
  · simp only [h2, if_true]
    have : m + 9 ≥ 10 := by omega
    simp only [this, if_true]
    have e1 : y - 1 + 1 = y := by omega
    have e2 : m + 9 - 9 = m := by omega
    rw [e1, e2]
  · simp only [h2, if_false]
    have : ¬ (m - 3 ≥ 10) := by omega
    simp only [this, if_false]
    have e2 : m - 3 + 3 = m := by omega
    rw [e2]

end Cutplace
