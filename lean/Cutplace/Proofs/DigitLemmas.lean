import Cutplace.Model.Py
namespace Cutplace

theorem parseDigits_append (a b : List Nat) :
    parseDigits (a ++ b) = b.foldl (fun a d => a * 10 + d) (parseDigits a) := by
  simp [parseDigits, List.foldl_append]

theorem parse_digits (n : Nat) : parseDigits (digits n) = n := by
  induction n using Nat.strongRecOn with
  | _ n ih =>
    unfold digits
    split
    · simp [parseDigits]
    · rename_i h
      rw [parseDigits_append, ih (n / 10) (by omega)]
      simp
      omega

theorem digits_lt10 (n : Nat) : ∀ d ∈ digits n, d < 10 := by
  induction n using Nat.strongRecOn with
  | _ n ih =>
    unfold digits
    split
    · intro d hd; simp at hd; omega
    · intro d hd
      simp at hd
      rcases hd with hd | hd
      · exact ih (n/10) (by omega) d hd
      · omega

theorem digits_ne_nil (n : Nat) : digits n ≠ [] := by
  unfold digits; split <;> simp

/-- a number below `10^(k+1)` has at most `k+1` decimal digits -/
theorem digits_length_le (k : Nat) : ∀ n, n < 10 ^ (k + 1) → (digits n).length ≤ k + 1 := by
  induction k with
  | zero =>
    intro n hn
    unfold digits
    have : n < 10 := by simpa using hn
    simp [this]
  | succ k ih =>
    intro n hn
    unfold digits
    split
    · simp
    · have hdiv : n / 10 < 10 ^ (k + 1) := by
        apply Nat.div_lt_of_lt_mul
        rw [Nat.pow_succ, Nat.mul_comm] at hn
        exact hn
      have := ih (n / 10) hdiv
      simp only [List.length_append, List.length_singleton]
      omega

/-- numbers below `10 ^ maxStrDigits` are within CPython's `int()` conversion limit -/
theorem digits_within_limit (n : Nat) (h : n < 10 ^ maxStrDigits) : (digits n).length ≤ maxStrDigits :=
  digits_length_le 4299 n h

theorem isAsciiDigit_digitChar (d : Nat) (h : d < 10) : isAsciiDigit (digitChar d) = true := by
  have : ∀ d, d < 10 → isAsciiDigit (digitChar d) = true := by decide
  exact this d h

theorem digitVal_digitChar (d : Nat) (h : d < 10) : digitVal (digitChar d) = d := by
  have : ∀ d, d < 10 → digitVal (digitChar d) = d := by decide
  exact this d h

theorem digitChar_not_space (d : Nat) (h : d < 10) : isPySpace (digitChar d) = false := by
  have : ∀ d, d < 10 → isPySpace (digitChar d) = false := by decide
  exact this d h

theorem digitChar_ne_underscore (d : Nat) (h : d < 10) : digitChar d ≠ '_' := by
  have : ∀ d, d < 10 → digitChar d ≠ '_' := by decide
  exact this d h

/-- `int()`'s underscore filter leaves a plain digit string alone -/
theorem dropDigitUnderscores_go_digits (ds : List Nat) (hd : ∀ d ∈ ds, d < 10) (acc : Str) :
    dropDigitUnderscores.go isAsciiDigit (ds.map digitChar) acc = some (acc.reverse ++ ds.map digitChar) := by
  induction ds generalizing acc with
  | nil => simp [dropDigitUnderscores.go]
  | cons d ds ih =>
    have hd0 := hd d (by simp)
    have hne := digitChar_ne_underscore d hd0
    have hdig := isAsciiDigit_digitChar d hd0
    simp only [List.map_cons]
    cases hds : ds.map digitChar with
    | nil =>
      unfold dropDigitUnderscores.go
      split
      · simp_all
      · rename_i heq; simp at heq; try exact absurd heq.1 hne
      · rename_i heq; simp at heq; try exact absurd heq hne
      · rename_i d' rest' _ _ heq
        simp only [List.cons.injEq] at heq
        obtain ⟨rfl, rfl⟩ := heq
        simp [hdig, dropDigitUnderscores.go]
    | cons c cs =>
      unfold dropDigitUnderscores.go
      split
      · simp_all
      · rename_i heq; simp at heq; try exact absurd heq.1 hne
      · rename_i heq; simp at heq
      · rename_i d' rest' _ _ heq
        simp only [List.cons.injEq] at heq
        obtain ⟨rfl, rfl⟩ := heq
        simp only [hdig, if_true]
        rw [← hds, ih (fun x hx => hd x (by simp [hx]))]
        simp

theorem dropDigitUnderscores_digits (ds : List Nat) (hne : ds ≠ []) (hd : ∀ d ∈ ds, d < 10) :
    dropDigitUnderscores isAsciiDigit (ds.map digitChar) = some (ds.map digitChar) := by
  cases ds with
  | nil => exact absurd rfl hne
  | cons d ds =>
    have hd0 := hd d (by simp)
    simp only [List.map_cons, dropDigitUnderscores, isAsciiDigit_digitChar d hd0, if_true]
    rw [dropDigitUnderscores_go_digits ds (fun x hx => hd x (by simp [hx]))]
    simp

theorem map_digitVal_digitChar (ds : List Nat) (h : ∀ d ∈ ds, d < 10) : (ds.map digitChar).map digitVal = ds := by
  induction ds with
  | nil => rfl
  | cons d ds ih =>
    simp only [List.map_cons, digitVal_digitChar d (h d (by simp))]
    rw [ih (fun x hx => h x (by simp [hx]))]

theorem splitSign_digits (ds : List Nat) (h : ∀ d ∈ ds, d < 10) : splitSign (ds.map digitChar) = (false, ds.map digitChar) := by
  cases ds with
  | nil => rfl
  | cons d ds =>
    have hd0 := h d (by simp)
    have hminus : digitChar d ≠ '-' := by
      have : ∀ d, d < 10 → digitChar d ≠ '-' := by decide
      exact this d hd0
    have hplus : digitChar d ≠ '+' := by
      have : ∀ d, d < 10 → digitChar d ≠ '+' := by decide
      exact this d hd0
    simp only [List.map_cons]
    unfold splitSign
    split
    · rename_i heq; simp at heq; exact absurd heq.1 hminus
    · rename_i heq; simp at heq; exact absurd heq.1 hplus
    · rfl

theorem lstrip_of_not_space (c : Char) (cs : Str) (h : isPySpace c = false) : lstrip (c :: cs) = c :: cs := by
  simp [lstrip, h]

theorem strip_digits (ds : List Nat) (hne : ds ≠ []) (hd : ∀ d ∈ ds, d < 10) (pre : Str)
    (hpre : ∀ c ∈ pre, isPySpace c = false) : strip (pre ++ ds.map digitChar) = pre ++ ds.map digitChar := by
  -- first and last characters are not white space
  have hall : ∀ c ∈ pre ++ ds.map digitChar, isPySpace c = false := by
    intro c hc
    rcases List.mem_append.mp hc with h | h
    · exact hpre c h
    · obtain ⟨d, hdm, rfl⟩ := List.mem_map.mp h
      exact digitChar_not_space d (hd d hdm)
  have key : ∀ s : Str, (∀ c ∈ s, isPySpace c = false) → lstrip s = s := by
    intro s hs
    cases s with
    | nil => rfl
    | cons c cs => exact lstrip_of_not_space c cs (hs c (by simp))
  unfold strip rstrip
  rw [key _ hall, key _ (by intro c hc; exact hall c (List.mem_reverse.mp hc))]
  simp

end Cutplace
