import Cutplace.Spec.DecRange
/-
The order `decimal.Decimal` comparisons implement in the model (`Dec.le?`: compare the coefficients
scaled to the smaller exponent) is the order of the rational numbers the decimals denote, for every
coefficient and every exponent; membership in a decimal range and its overall limits follow.
-/
namespace Cutplace
open Cutplace.Spec

/-- the rational number a finite decimal denotes: `(-1)^neg * mant * 10^exp` -/
def Dec.toRat : Dec → Rat
  | .fin neg mant exp => (if neg then -1 else 1) * ((mant : Rat) * (10 : Rat) ^ exp)
  | _ => 0

def Dec.isFin : Dec → Bool
  | .fin _ _ _ => true
  | _ => false

theorem ten_ne_zero : (10 : Rat) ≠ 0 := by decide
theorem ten_pos : (0 : Rat) < 10 := by decide

/-- the scaled coefficient is the value times a positive power of ten -/
theorem scaled_cast (neg : Bool) (mant : Nat) (exp e : Int) (h : e ≤ exp) :
    ((Dec.scaled neg mant exp e : Int) : Rat) = (Dec.fin neg mant exp).toRat * (10 : Rat) ^ (-e) := by
  have hk : ((exp - e).toNat : Int) = exp - e := Int.toNat_of_nonneg (by omega)
  have hp : ((10 : Rat) ^ (exp - e).toNat) = (10 : Rat) ^ exp * (10 : Rat) ^ (-e) := by
    rw [← Rat.zpow_natCast, hk, Int.sub_eq_add_neg, Rat.zpow_add ten_ne_zero]
  have h10 : ((10 : Int) : Rat) = (10 : Rat) := by simp
  unfold Dec.scaled
  simp only [Dec.toRat]
  cases neg
  · simp only [Bool.false_eq_true, if_false]
    rw [Rat.intCast_mul, Rat.intCast_pow, Rat.intCast_natCast, h10, hp]
    simp [Rat.mul_assoc]
  · simp only [if_true]
    rw [Rat.intCast_neg, Rat.intCast_mul, Rat.intCast_pow, Rat.intCast_natCast, h10, hp]
    simp [Rat.mul_assoc, Rat.neg_mul]

/-- **`<=` on finite decimals is `≤` on the rationals they denote** -/
theorem le?_fin (n1 : Bool) (m1 : Nat) (e1 : Int) (n2 : Bool) (m2 : Nat) (e2 : Int) :
    Dec.le? (.fin n1 m1 e1) (.fin n2 m2 e2) = some (decide ((Dec.fin n1 m1 e1).toRat ≤ (Dec.fin n2 m2 e2).toRat)) := by
  unfold Dec.le?
  simp only [Option.some.injEq]
  have h1 := scaled_cast n1 m1 e1 (min e1 e2) (Int.min_le_left _ _)
  have h2 := scaled_cast n2 m2 e2 (min e1 e2) (Int.min_le_right _ _)
  have hc : (0 : Rat) < (10 : Rat) ^ (-(min e1 e2)) := Rat.zpow_pos ten_pos
  have : (Dec.scaled n1 m1 e1 (min e1 e2) ≤ Dec.scaled n2 m2 e2 (min e1 e2)) ↔
      (Dec.fin n1 m1 e1).toRat ≤ (Dec.fin n2 m2 e2).toRat := by
    rw [← Rat.intCast_le_intCast, h1, h2]
    constructor
    · intro h; exact Rat.le_of_mul_le_mul_right h hc
    · intro h; exact Rat.mul_le_mul_of_nonneg_right h (Rat.le_of_lt hc)
  exact decide_eq_decide.mpr this

/-- a literal denotes the same rational as the decimal stored for it -/
theorem DLit.toRat_toDec (l : DLit) : l.toDec.toRat = l.toRat := by
  have : ((l.coeff : Rat) * (10 : Rat) ^ (-(l.frac : Int))) = (l.coeff : Rat) / (10 : Rat) ^ l.frac := by
    rw [Rat.zpow_neg, Rat.zpow_natCast, Rat.div_def]
  simp only [DLit.toDec, Dec.toRat, DLit.toRat, this]
  cases l.neg <;> simp [Rat.neg_mul]

/-- `<=` between the decimals of two literals -/
theorem le?_lit (a b : DLit) : Dec.le? a.toDec b.toDec = some (decide (a.toRat ≤ b.toRat)) := by
  have := le?_fin a.neg a.coeff (-(a.frac : Int)) b.neg b.coeff (-(b.frac : Int))
  rw [← DLit.toRat_toDec a, ← DLit.toRat_toDec b]
  exact this

/-- `_item_contains` on a literal value is membership in the item, in the order of the rationals -/
theorem contains?_denote (it : DItemD) (v : DLit) :
    it.denote.contains? v.toDec = some (decide (it.Mem v.toRat)) := by
  cases it with
  | single x =>
    simp only [DItemD.denote, DItemD.lo, DItemD.hi, Option.map, DItem.contains?, le?_lit, DItemD.Mem]
    by_cases h1 : x.toRat ≤ v.toRat
    · simp only [h1, decide_true]
      congr 1
      apply decide_eq_decide.mpr
      constructor
      · intro h2; exact Rat.le_antisymm h2 h1
      · intro h; rw [h]; exact Rat.le_refl
    · simp only [h1, decide_false]
      congr 1
      symm
      apply decide_eq_false
      intro h; rw [h] at h1; exact h1 Rat.le_refl
  | closed l u =>
    simp only [DItemD.denote, DItemD.lo, DItemD.hi, Option.map, DItem.contains?, le?_lit, DItemD.Mem]
    by_cases h1 : l.toRat ≤ v.toRat <;> simp [h1]
  | from_ l =>
    simp only [DItemD.denote, DItemD.lo, DItemD.hi, Option.map, DItem.contains?, le?_lit, DItemD.Mem]
    rfl
  | upto u =>
    simp only [DItemD.denote, DItemD.lo, DItemD.hi, Option.map, DItem.contains?, le?_lit, DItemD.Mem]
    rfl

/-- **membership**: `DecimalRange.validate` accepts a value iff it lies inside at least one item -/
theorem dValidateLoop_denote (d : DRangeDesc) (v : DLit) :
    dValidateLoop v.toDec (ddenote d) = some (decide (DAccepts d v.toRat)) := by
  induction d with
  | nil => simp [ddenote, dValidateLoop, DAccepts]
  | cons it rest ih =>
    have hit := contains?_denote it v
    have ihr := ih
    simp only [ddenote, List.map_cons, dValidateLoop] at ihr ⊢
    rw [hit]
    by_cases hm : it.Mem v.toRat
    · simp only [hm, decide_true]
      congr 1
      symm
      apply decide_eq_true
      exact ⟨it, List.mem_cons_self, hm⟩
    · simp only [hm, decide_false]
      rw [ihr]
      congr 1
      apply decide_eq_decide.mpr
      constructor
      · rintro ⟨o, ho, hom⟩; exact ⟨o, List.mem_cons_of_mem _ ho, hom⟩
      · rintro ⟨o, ho, hom⟩
        rcases List.mem_cons.mp ho with rfl | ho'
        · exact absurd hom hm
        · exact ⟨o, ho', hom⟩

/-! ### overall limits -/

theorem lt_fin (a b : Dec) (ha : a.isFin = true) (hb : b.isFin = true) :
    Dec.lt a b = decide (a.toRat < b.toRat) := by
  cases a <;> cases b <;> simp [Dec.isFin] at ha hb
  unfold Dec.lt
  rw [le?_fin]
  rename_i n1 m1 e1 n2 m2 e2
  by_cases h : (Dec.fin n2 m2 e2).toRat ≤ (Dec.fin n1 m1 e1).toRat
  · have : ¬ (Dec.fin n1 m1 e1).toRat < (Dec.fin n2 m2 e2).toRat := Rat.not_lt.mpr h
    simp [h, this]
  · have : (Dec.fin n1 m1 e1).toRat < (Dec.fin n2 m2 e2).toRat := Rat.not_le.mp h
    simp [h, this]

/-- every limit of every item is a finite decimal (always the case for parsed descriptions: a NaN or an infinity
is never a NUMBER token) -/
def AllFinite (its : List DItem) : Prop :=
  ∀ it ∈ its, (∀ l, it.lo = some l → l.isFin = true) ∧ (∀ u, it.hi = some u → u.isFin = true)

theorem dLowerLoop_none (its : List DItem) : dLowerLimitLoop none false its = none := by
  induction its with
  | nil => rfl
  | cons it rest ih =>
    unfold dLowerLimitLoop
    cases h : it.lo <;> simp [ih]

theorem dUpperLoop_none (its : List DItem) : dUpperLimitLoop none false its = none := by
  induction its with
  | nil => rfl
  | cons it rest ih =>
    unfold dUpperLimitLoop
    cases h : it.hi <;> simp [ih]

theorem dLowerLoop_some_none_iff (c : Dec) (its : List DItem) :
    dLowerLimitLoop (some c) false its = none ↔ ∃ it ∈ its, it.lo = none := by
  induction its generalizing c with
  | nil => simp [dLowerLimitLoop]
  | cons it rest ih =>
    unfold dLowerLimitLoop
    cases h : it.lo with
    | none => simp [dLowerLoop_none, h]
    | some l =>
      simp only [Bool.false_eq_true, if_false, List.mem_cons, exists_eq_or_imp, h]
      by_cases hl : Dec.lt l c = true <;> simp [hl, ih]

theorem dUpperLoop_some_none_iff (c : Dec) (its : List DItem) :
    dUpperLimitLoop (some c) false its = none ↔ ∃ it ∈ its, it.hi = none := by
  induction its generalizing c with
  | nil => simp [dUpperLimitLoop]
  | cons it rest ih =>
    unfold dUpperLimitLoop
    cases h : it.hi with
    | none => simp [dUpperLoop_none, h]
    | some l =>
      simp only [Bool.false_eq_true, if_false, List.mem_cons, exists_eq_or_imp, h]
      by_cases hl : Dec.lt c l = true <;> simp [hl, ih]

theorem dLowerLoop_some_spec (c m : Dec) (its : List DItem) (hc : c.isFin = true) (hf : AllFinite its)
    (h : dLowerLimitLoop (some c) false its = some m) :
    m.toRat ≤ c.toRat ∧ (∀ it ∈ its, ∃ l, it.lo = some l ∧ m.toRat ≤ l.toRat) ∧ (m = c ∨ ∃ it ∈ its, it.lo = some m) := by
  induction its generalizing c with
  | nil => simp [dLowerLimitLoop] at h; subst h; exact ⟨Rat.le_refl, by simp, Or.inl rfl⟩
  | cons it rest ih =>
    have hfr : AllFinite rest := fun o ho => hf o (List.mem_cons_of_mem _ ho)
    unfold dLowerLimitLoop at h
    cases hlo : it.lo with
    | none => simp [hlo, dLowerLoop_none] at h
    | some l =>
      have hlf : l.isFin = true := (hf it List.mem_cons_self).1 l hlo
      simp only [Bool.false_eq_true, if_false, hlo] at h
      by_cases hl : Dec.lt l c = true
      · simp only [hl, if_true] at h
        have hlt : l.toRat < c.toRat := by rw [lt_fin l c hlf hc] at hl; exact of_decide_eq_true hl
        obtain ⟨h1, h2, h3⟩ := ih l hlf hfr h
        refine ⟨Rat.le_trans h1 (Rat.le_of_lt hlt), ?_, ?_⟩
        · intro it' hit'
          rcases List.mem_cons.mp hit' with rfl | hr
          · exact ⟨l, hlo, h1⟩
          · exact h2 it' hr
        · right
          rcases h3 with rfl | ⟨it', hit', heq⟩
          · exact ⟨it, by simp, hlo⟩
          · exact ⟨it', by simp [hit'], heq⟩
      · simp only [hl, if_false] at h
        have hge : c.toRat ≤ l.toRat := by
          rw [lt_fin l c hlf hc] at hl
          exact Rat.not_lt.mp (of_decide_eq_false (by simpa using hl))
        obtain ⟨h1, h2, h3⟩ := ih c hc hfr h
        refine ⟨h1, ?_, ?_⟩
        · intro it' hit'
          rcases List.mem_cons.mp hit' with rfl | hr
          · exact ⟨l, hlo, Rat.le_trans h1 hge⟩
          · exact h2 it' hr
        · rcases h3 with rfl | ⟨it', hit', heq⟩
          · left; rfl
          · right; exact ⟨it', by simp [hit'], heq⟩

theorem dUpperLoop_some_spec (c m : Dec) (its : List DItem) (hc : c.isFin = true) (hf : AllFinite its)
    (h : dUpperLimitLoop (some c) false its = some m) :
    c.toRat ≤ m.toRat ∧ (∀ it ∈ its, ∃ u, it.hi = some u ∧ u.toRat ≤ m.toRat) ∧ (m = c ∨ ∃ it ∈ its, it.hi = some m) := by
  induction its generalizing c with
  | nil => simp [dUpperLimitLoop] at h; subst h; exact ⟨Rat.le_refl, by simp, Or.inl rfl⟩
  | cons it rest ih =>
    have hfr : AllFinite rest := fun o ho => hf o (List.mem_cons_of_mem _ ho)
    unfold dUpperLimitLoop at h
    cases hhi : it.hi with
    | none => simp [hhi, dUpperLoop_none] at h
    | some l =>
      have hlf : l.isFin = true := (hf it List.mem_cons_self).2 l hhi
      simp only [Bool.false_eq_true, if_false, hhi] at h
      by_cases hl : Dec.lt c l = true
      · simp only [hl, if_true] at h
        have hlt : c.toRat < l.toRat := by rw [lt_fin c l hc hlf] at hl; exact of_decide_eq_true hl
        obtain ⟨h1, h2, h3⟩ := ih l hlf hfr h
        refine ⟨Rat.le_trans (Rat.le_of_lt hlt) h1, ?_, ?_⟩
        · intro it' hit'
          rcases List.mem_cons.mp hit' with rfl | hr
          · exact ⟨l, hhi, h1⟩
          · exact h2 it' hr
        · right
          rcases h3 with rfl | ⟨it', hit', heq⟩
          · exact ⟨it, by simp, hhi⟩
          · exact ⟨it', by simp [hit'], heq⟩
      · simp only [hl, if_false] at h
        have hge : l.toRat ≤ c.toRat := by
          rw [lt_fin c l hc hlf] at hl
          exact Rat.not_lt.mp (of_decide_eq_false (by simpa using hl))
        obtain ⟨h1, h2, h3⟩ := ih c hc hfr h
        refine ⟨h1, ?_, ?_⟩
        · intro it' hit'
          rcases List.mem_cons.mp hit' with rfl | hr
          · exact ⟨l, hhi, Rat.le_trans hge h1⟩
          · exact h2 it' hr
        · rcases h3 with rfl | ⟨it', hit', heq⟩
          · left; rfl
          · right; exact ⟨it', by simp [hit'], heq⟩

theorem allFinite_ddenote (d : DRangeDesc) : AllFinite (ddenote d) := by
  intro it hit
  obtain ⟨x, _, rfl⟩ := List.mem_map.mp hit
  constructor
  · intro l hl
    cases x <;> simp [DItemD.denote, DItemD.lo, DLit.toDec] at hl <;> subst hl <;> rfl
  · intro u hu
    cases x <;> simp [DItemD.denote, DItemD.hi, DLit.toDec] at hu <;> subst hu <;> rfl

end Cutplace
