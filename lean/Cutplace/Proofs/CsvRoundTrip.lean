import Cutplace.Proofs.CsvLemmas
/-
Round trip of the csv model: `parse cfg (renderTable cfg t) = some t` for every good dialect and every
table with non-empty rows.  Structure: per character encoding (`charBody`), per field reading lemmas
in the quoted and the unquoted context, separator / row-end lemmas, then rows and tables.
-/
set_option linter.unusedSimpArgs false

namespace Cutplace.Csv

/-- what a csv dialect needs for the round trip -/
structure GoodCfg (cfg : Cfg) : Prop where
  delim_nl : cfg.delim ≠ '\n'
  delim_cr : cfg.delim ≠ '\r'
  delim_quote : cfg.delim ≠ cfg.quote
  quote_nl : cfg.quote ≠ '\n'
  quote_cr : cfg.quote ≠ '\r'
  no_skip : cfg.skipInitialSpace = false
  dialect : (cfg.dq = true ∧ cfg.esc = none) ∨
    (cfg.dq = false ∧ ∃ e, cfg.esc = some e ∧ e ≠ cfg.delim ∧ e ≠ cfg.quote ∧ e ≠ '\n' ∧ e ≠ '\r')

/-- how the writer encodes one character of a field -/
def charBody (cfg : Cfg) (c : Char) : List Char :=
  if c == cfg.quote then (if cfg.dq then [c, c] else (match cfg.esc with | some e => [e, c] | none => [c]))
  else if some c == cfg.esc then (match cfg.esc with | some e => [e, c] | none => [c])
  else [c]

/-- whether a character forces the field to be quoted -/
def charQuotes (cfg : Cfg) (c : Char) : Bool :=
  if c == cfg.quote then cfg.dq
  else if some c == cfg.esc then false
  else c == cfg.delim || isLT c

theorem fieldBody_eq (cfg : Cfg) (hg : GoodCfg cfg) (f : List Char) :
    fieldBody cfg f = some (f.flatMap (charBody cfg), f.any (charQuotes cfg)) := by
  induction f with
  | nil => rfl
  | cons c cs ih =>
    simp only [fieldBody, ih, List.flatMap_cons, List.any_cons]
    rcases hg.dialect with ⟨hdq, hesc⟩ | ⟨hdq, e, hesc, _, _, _, _⟩
    · -- doublequote dialect
      by_cases hq : c = cfg.quote
      · subst hq
        simp [charBody, charQuotes, hdq, hesc]
      · have hq' : (c == cfg.quote) = false := by simpa using hq
        by_cases hd : (c == cfg.delim || isLT c) = true
        · simp [charBody, charQuotes, hdq, hesc, hq', hd]
        · have hd' : (c == cfg.delim || isLT c) = false := by simpa using hd
          simp only [Bool.or_eq_false_iff] at hd'
          simp [charBody, charQuotes, hdq, hesc, hq', hd'.1, hd'.2]
    · -- escape character dialect
      by_cases hq : c = cfg.quote
      · subst hq
        simp [charBody, charQuotes, hdq, hesc]
      · have hq' : (c == cfg.quote) = false := by simpa using hq
        by_cases he : c = e
        · subst he
          simp [charBody, charQuotes, hdq, hesc, hq']
        · have he' : (some c == some e) = false := by simpa using he
          by_cases hd : (c == cfg.delim || isLT c) = true
          · simp [charBody, charQuotes, hdq, hesc, hq', he', hd]
          · have hd' : (c == cfg.delim || isLT c) = false := by simpa using hd
            simp only [Bool.or_eq_false_iff] at hd'
            simp [charBody, charQuotes, hdq, hesc, hq', he', hd'.1, hd'.2]

/-- state of the reader inside a quoted field -/
def inQ (l : L) (acc : List Char) (fields : List (List Char)) (out : List (List (List Char))) : S :=
  { l := l, p := { st := .inQuoted, field := acc, fields := fields }, out := out }

/-- **Quoted context.** Inside quotes, feeding the writer's encoding of `f` appends `f` to the field
under construction — whatever `f` contains and whatever the line-splitter state. -/
theorem quoted_read (cfg : Cfg) (hg : GoodCfg cfg) (f : List Char) :
    ∀ (l : L) (acc : List Char) (fields : List (List Char)) (out : List (List (List Char))),
    ∃ l', feedAll cfg (inQ l acc fields out) (f.flatMap (charBody cfg)) = some (inQ l' (f.reverse ++ acc) fields out) := by
  have hq1 := hg.quote_nl
  have hq2 := hg.quote_cr
  induction f with
  | nil => intro l acc fields out; exact ⟨l, by simp [feedAll]⟩
  | cons c cs ih =>
    intro l acc fields out
    simp only [List.flatMap_cons, feedAll_append]
    rcases hg.dialect with ⟨hdq, hesc⟩ | ⟨hdq, e, hesc, hed, heq, hen, her⟩
    · -- doublequote
      by_cases hc : c = cfg.quote
      · subst hc
        obtain ⟨l', h'⟩ := ih .mid (cfg.quote :: acc) fields out
        refine ⟨l', ?_⟩
        have hb : charBody cfg cfg.quote = [cfg.quote, cfg.quote] := by simp [charBody, hdq]
        rw [hb]
        cases l <;> simp [inQ, feedAll, feed, S.eol, S.ch, step, P.add, hdq, hesc, hq1, hq2, List.reverse_cons, List.append_assoc] <;>
          simpa [inQ, List.reverse_cons, List.append_assoc] using h'
      · have hq : (c == cfg.quote) = false := by simpa using hc
        have hb : charBody cfg c = [c] := by simp [charBody, hq, hesc]
        rw [hb]
        by_cases hn : c = '\n'
        · subst hn
          obtain ⟨l', h'⟩ := ih .fresh ('\n' :: acc) fields out
          refine ⟨l', ?_⟩
          cases l <;> simp [inQ, feedAll, feed, S.eol, S.ch, step, P.add, hdq, hesc, hq, List.reverse_cons, List.append_assoc] <;>
            simpa [inQ, List.reverse_cons, List.append_assoc] using h'
        · by_cases hr : c = '\r'
          · subst hr
            obtain ⟨l', h'⟩ := ih .cr ('\r' :: acc) fields out
            refine ⟨l', ?_⟩
            cases l <;> simp [inQ, feedAll, feed, S.eol, S.ch, step, P.add, hdq, hesc, hq, List.reverse_cons, List.append_assoc] <;>
              simpa [inQ, List.reverse_cons, List.append_assoc] using h'
          · obtain ⟨l', h'⟩ := ih .mid (c :: acc) fields out
            refine ⟨l', ?_⟩
            cases l <;> simp [inQ, feedAll, feed, S.eol, S.ch, step, P.add, hdq, hesc, hq, hn, hr, List.reverse_cons, List.append_assoc] <;>
              simpa [inQ, List.reverse_cons, List.append_assoc] using h'
    · -- escape character
      have heq' : (e == cfg.quote) = false := by simpa using heq
      by_cases hc : c = cfg.quote
      · subst hc
        obtain ⟨l', h'⟩ := ih .mid (cfg.quote :: acc) fields out
        refine ⟨l', ?_⟩
        have hb : charBody cfg cfg.quote = [e, cfg.quote] := by simp [charBody, hdq, hesc]
        rw [hb]
        cases l <;> simp [inQ, feedAll, feed, S.eol, S.ch, step, P.add, hdq, hesc, hq1, hq2, hen, her, heq', List.reverse_cons, List.append_assoc] <;>
          simpa [inQ, List.reverse_cons, List.append_assoc] using h'
      · have hq : (c == cfg.quote) = false := by simpa using hc
        by_cases he : c = e
        · subst he
          obtain ⟨l', h'⟩ := ih .mid (c :: acc) fields out
          refine ⟨l', ?_⟩
          have hb : charBody cfg c = [c, c] := by simp [charBody, hq, hesc]
          rw [hb]
          cases l <;> simp [inQ, feedAll, feed, S.eol, S.ch, step, P.add, hdq, hesc, hq, hen, her, List.reverse_cons, List.append_assoc] <;>
            simpa [inQ, List.reverse_cons, List.append_assoc] using h'
        · have he' : (some c == some e) = false := by simpa using he
          have he2 : (c == e) = false := by simpa using he
          have hb : charBody cfg c = [c] := by simp [charBody, hq, hesc, he]
          rw [hb]
          by_cases hn : c = '\n'
          · subst hn
            obtain ⟨l', h'⟩ := ih .fresh ('\n' :: acc) fields out
            refine ⟨l', ?_⟩
            cases l <;> simp [inQ, feedAll, feed, S.eol, S.ch, step, P.add, hdq, hesc, hq, he2, List.reverse_cons, List.append_assoc] <;>
              simpa [inQ, List.reverse_cons, List.append_assoc] using h'
          · by_cases hr : c = '\r'
            · subst hr
              obtain ⟨l', h'⟩ := ih .cr ('\r' :: acc) fields out
              refine ⟨l', ?_⟩
              cases l <;> simp [inQ, feedAll, feed, S.eol, S.ch, step, P.add, hdq, hesc, hq, he2, List.reverse_cons, List.append_assoc] <;>
                simpa [inQ, List.reverse_cons, List.append_assoc] using h'
            · obtain ⟨l', h'⟩ := ih .mid (c :: acc) fields out
              refine ⟨l', ?_⟩
              cases l <;> simp [inQ, feedAll, feed, S.eol, S.ch, step, P.add, hdq, hesc, hq, he2, hn, hr, List.reverse_cons, List.append_assoc] <;>
                simpa [inQ, List.reverse_cons, List.append_assoc] using h'

/-- the reader is at the start of a field or inside an unquoted field -/
def OpenState (s : S) : Prop :=
  s.l ≠ .cr ∧ (s.p.st = .inField ∨ (s.p.field = [] ∧ (s.p.st = .startField ∨ s.p.st = .startRecord)))

/-- **Unquoted context, one character.** A character that does not force quoting, written by the
writer (possibly behind the escape character), is appended to the field; the reader is then inside
an unquoted field. -/
theorem unquoted_char (cfg : Cfg) (hg : GoodCfg cfg) (c : Char) (hc : charQuotes cfg c = false)
    (s : S) (hs : OpenState s) :
    feedAll cfg s (charBody cfg c) =
      some { l := .mid, p := { st := .inField, field := c :: s.p.field, fields := s.p.fields }, out := s.out } := by
  obtain ⟨l, ⟨st, fld, fields⟩, out⟩ := s
  obtain ⟨hl, hst⟩ := hs
  simp only at hl hst
  have hskip := hg.no_skip
  have hdq1 := hg.delim_quote
  rcases hg.dialect with ⟨hdq, hesc⟩ | ⟨hdq, e, hesc, hed, heq, hen, her⟩
  · -- doublequote: the character is no quote, no delimiter, no line break
    have hq : (c == cfg.quote) = false := by
      by_cases h : c = cfg.quote
      · subst h; simp [charQuotes, hdq] at hc
      · simpa using h
    have hc' : (c == cfg.delim || isLT c) = false := by simpa [charQuotes, hq, hesc] using hc
    simp only [Bool.or_eq_false_iff] at hc'
    obtain ⟨hd, hlt⟩ := hc'
    have hn : c ≠ '\n' := by intro h; subst h; simp [isLT] at hlt
    have hr : c ≠ '\r' := by intro h; subst h; simp [isLT] at hlt
    have hb : charBody cfg c = [c] := by simp [charBody, hq, hesc]
    rw [hb]
    rcases hst with h | ⟨hf, h | h⟩
    · subst h
      cases l <;> first | exact absurd rfl hl | simp [feedAll, feed, S.ch, S.eol, step, stepInField, isNl, P.add, hesc, hd, hn, hr]
    · subst h; subst hf
      cases l <;> first | exact absurd rfl hl | simp [feedAll, feed, S.ch, S.eol, step, stepStartField, isNl, P.add, hesc, hd, hn, hr, hq, hskip]
    · subst h; subst hf
      cases l <;> first | exact absurd rfl hl | simp [feedAll, feed, S.ch, S.eol, step, stepStartField, isNl, P.add, hesc, hd, hn, hr, hq, hskip]
  · -- escape character dialect
    have heq' : (e == cfg.quote) = false := by simpa using heq
    have hed' : (e == cfg.delim) = false := by simpa using hed
    by_cases hcq : c = cfg.quote
    · subst hcq
      have hb : charBody cfg cfg.quote = [e, cfg.quote] := by simp [charBody, hdq, hesc]
      rw [hb]
      have hqn := hg.quote_nl
      have hqr := hg.quote_cr
      rcases hst with h | ⟨hf, h | h⟩
      · subst h
        cases l <;> first | exact absurd rfl hl | simp [feedAll, feed, S.ch, S.eol, step, stepInField, isNl, P.add, hesc, hen, her, hqn, hqr]
      · subst h; subst hf
        cases l <;> first | exact absurd rfl hl | simp [feedAll, feed, S.ch, S.eol, step, stepStartField, isNl, P.add, hesc, hen, her, hqn, hqr, heq']
      · subst h; subst hf
        cases l <;> first | exact absurd rfl hl | simp [feedAll, feed, S.ch, S.eol, step, stepStartField, isNl, P.add, hesc, hen, her, hqn, hqr, heq']
    · have hq : (c == cfg.quote) = false := by simpa using hcq
      by_cases hce : c = e
      · subst hce
        have hb : charBody cfg c = [c, c] := by simp [charBody, hq, hesc]
        rw [hb]
        rcases hst with h | ⟨hf, h | h⟩
        · subst h
          cases l <;> first | exact absurd rfl hl | simp [feedAll, feed, S.ch, S.eol, step, stepInField, isNl, P.add, hesc, hen, her]
        · subst h; subst hf
          cases l <;> first | exact absurd rfl hl | simp [feedAll, feed, S.ch, S.eol, step, stepStartField, isNl, P.add, hesc, hen, her, hq]
        · subst h; subst hf
          cases l <;> first | exact absurd rfl hl | simp [feedAll, feed, S.ch, S.eol, step, stepStartField, isNl, P.add, hesc, hen, her, hq]
      · have he' : (some c == some e) = false := by simpa using hce
        have he2 : (c == e) = false := by simpa using hce
        have hc' : (c == cfg.delim || isLT c) = false := by simpa [charQuotes, hq, hesc, he'] using hc
        simp only [Bool.or_eq_false_iff] at hc'
        obtain ⟨hd, hlt⟩ := hc'
        have hn : c ≠ '\n' := by intro h; subst h; simp [isLT] at hlt
        have hr : c ≠ '\r' := by intro h; subst h; simp [isLT] at hlt
        have hb : charBody cfg c = [c] := by simp [charBody, hq, hesc, hce]
        rw [hb]
        rcases hst with h | ⟨hf, h | h⟩
        · subst h
          cases l <;> first | exact absurd rfl hl | simp [feedAll, feed, S.ch, S.eol, step, stepInField, isNl, P.add, hesc, hd, hn, hr, he2]
        · subst h; subst hf
          cases l <;> first | exact absurd rfl hl | simp [feedAll, feed, S.ch, S.eol, step, stepStartField, isNl, P.add, hesc, hd, hn, hr, hq, he2, hskip]
        · subst h; subst hf
          cases l <;> first | exact absurd rfl hl | simp [feedAll, feed, S.ch, S.eol, step, stepStartField, isNl, P.add, hesc, hd, hn, hr, hq, he2, hskip]

/-- **Unquoted context.** A field none of whose characters forces quoting is read back from its
(possibly escaped) encoding: the field under construction grows by exactly that field. -/
theorem unquoted_read (cfg : Cfg) (hg : GoodCfg cfg) (f : List Char) (hf : f.any (charQuotes cfg) = false) :
    ∀ (s : S), OpenState s →
    ∃ s', feedAll cfg s (f.flatMap (charBody cfg)) = some s' ∧ OpenState s' ∧
      s'.p.field = f.reverse ++ s.p.field ∧ s'.p.fields = s.p.fields ∧ s'.out = s.out ∧
      (f = [] → s' = s) ∧ (f ≠ [] → s'.p.st = .inField) := by
  induction f with
  | nil => intro s hs; exact ⟨s, by simp [feedAll], hs, by simp, rfl, rfl, fun _ => rfl, fun h => absurd rfl h⟩
  | cons c cs ih =>
    intro s hs
    simp only [List.any_cons, Bool.or_eq_false_iff] at hf
    obtain ⟨hc, hcs⟩ := hf
    have h1 := unquoted_char cfg hg c hc s hs
    let s1 : S := { l := .mid, p := { st := .inField, field := c :: s.p.field, fields := s.p.fields }, out := s.out }
    have hs1 : OpenState s1 := ⟨by simp [s1], Or.inl rfl⟩
    obtain ⟨s', h2, ho, hfld, hfields, hout, _, hst⟩ := ih hcs s1 hs1
    refine ⟨s', ?_, ho, ?_, ?_, ?_, fun h => absurd h (by simp), fun _ => ?_⟩
    · simp only [List.flatMap_cons, feedAll_append, h1, Option.bind_some]; exact h2
    · rw [hfld]; simp [s1]
    · rw [hfields]
    · rw [hout]
    · by_cases hcs0 : cs = []
      · subst hcs0
        have : s' = s1 := by simpa [feedAll] using h2.symm
        rw [this]
      · exact hst hcs0

/-- the reader after a complete field: the field's text is in the buffer, the state is one from which
a delimiter or a line end finishes the field -/
def FieldEnd (s : S) (f : List Char) (fields : List (List Char)) (out : List (List (List Char))) : Prop :=
  s.l ≠ .cr ∧ s.p.field = f.reverse ∧ s.p.fields = fields ∧ s.out = out ∧
    (s.p.st = .inField ∨ s.p.st = .quoteInQuoted ∨ (f = [] ∧ (s.p.st = .startField ∨ s.p.st = .startRecord)))

/-- **One field.** From the start of a field, feeding what the writer emits for `f` — quoted or not —
leaves the reader at the end of a field holding exactly `f`. -/
theorem field_read (cfg : Cfg) (hg : GoodCfg cfg) (only : Bool) (f : List Char) (s : S)
    (hl : s.l ≠ .cr) (hfld : s.p.field = []) (hst : s.p.st = .startField ∨ s.p.st = .startRecord) :
    ∃ text s', renderField cfg only f = some text ∧ feedAll cfg s text = some s' ∧ FieldEnd s' f s.p.fields s.out ∧
      (s'.p.st = .startRecord → s.p.st = .startRecord ∧ only = false) := by
  obtain ⟨l, ⟨st, fld, fields⟩, out⟩ := s
  simp only at hl hfld hst
  subst hfld
  unfold renderField
  rw [fieldBody_eq cfg hg f]
  simp only []
  have hqn := hg.quote_nl
  have hqr := hg.quote_cr
  by_cases hquote : (f.any (charQuotes cfg) || cfg.quoteAll || (only && f.isEmpty)) = true
  · -- quoted
    simp only [hquote, if_true]
    refine ⟨cfg.quote :: f.flatMap (charBody cfg) ++ [cfg.quote], ?_⟩
    -- opening quote
    have hopen : feed cfg ⟨l, ⟨st, [], fields⟩, out⟩ cfg.quote = some (inQ .mid [] fields out) := by
      rcases hst with h | h <;> subst h <;>
        (cases l <;> first | exact absurd rfl hl | simp [inQ, feed, S.ch, S.eol, step, stepStartField, isNl, hqn, hqr])
    obtain ⟨l1, h1⟩ := quoted_read cfg hg f .mid [] fields out
    simp only [List.append_nil] at h1
    -- closing quote
    have hclose : ∃ st', (st' = St.inField ∨ st' = St.quoteInQuoted) ∧
        feed cfg (inQ l1 f.reverse fields out) cfg.quote = some ⟨.mid, ⟨st', f.reverse, fields⟩, out⟩ := by
      rcases hg.dialect with ⟨hdq, hesc⟩ | ⟨hdq, e, hesc, _, heq, _, _⟩
      · refine ⟨.quoteInQuoted, Or.inr rfl, ?_⟩
        cases l1 <;> simp [inQ, feed, S.ch, S.eol, step, hdq, hesc, hqn, hqr]
      · have heq' : (cfg.quote == e) = false := by simpa using Ne.symm heq
        refine ⟨.inField, Or.inl rfl, ?_⟩
        cases l1 <;> simp [inQ, feed, S.ch, S.eol, step, hdq, hesc, hqn, hqr, heq']
    obtain ⟨st', hst', hcl⟩ := hclose
    refine ⟨⟨.mid, ⟨st', f.reverse, fields⟩, out⟩, rfl, ?_, ?_, ?_⟩
    · simp only [List.cons_append, feedAll, hopen, feedAll_append, h1, Option.bind_some, hcl]
    · refine ⟨by simp, rfl, rfl, rfl, ?_⟩
      rcases hst' with h | h
      · exact Or.inl h
      · exact Or.inr (Or.inl h)
    · intro h0
      rcases hst' with h | h <;> simp [h] at h0
  · -- unquoted
    have hq : (f.any (charQuotes cfg) || cfg.quoteAll || (only && f.isEmpty)) = false := by simpa using hquote
    simp only [hq, Bool.false_eq_true, if_false]
    simp only [Bool.or_eq_false_iff] at hq
    obtain ⟨⟨hany, _⟩, honly⟩ := hq
    have hopenS : OpenState ⟨l, ⟨st, [], fields⟩, out⟩ := ⟨hl, Or.inr ⟨rfl, hst⟩⟩
    obtain ⟨s', h2, ho, hfld', hfields', hout', hnil, hne⟩ := unquoted_read cfg hg f hany _ hopenS
    refine ⟨f.flatMap (charBody cfg), s', rfl, h2, ⟨ho.1, by simpa using hfld', hfields', hout', ?_⟩, ?_⟩
    · by_cases hf0 : f = []
      · have := hnil hf0
        subst this
        exact Or.inr (Or.inr ⟨hf0, hst⟩)
      · exact Or.inl (hne hf0)
    · intro h0
      by_cases hf0 : f = []
      · have := hnil hf0
        subst this
        subst hf0
        simp only at h0
        exact ⟨h0, by simpa using honly⟩
      · have := hne hf0
        rw [this] at h0
        exact absurd h0 (by simp)

/-- **Delimiter.** At the end of a field the delimiter stores the field and starts the next one. -/
theorem delim_read (cfg : Cfg) (hg : GoodCfg cfg) (s : S) (f : List Char) (fields : List (List Char))
    (out : List (List (List Char))) (h : FieldEnd s f fields out) :
    feed cfg s cfg.delim = some ⟨.mid, ⟨.startField, [], f :: fields⟩, out⟩ := by
  obtain ⟨l, ⟨st, fld, flds⟩, o⟩ := s
  obtain ⟨hl, hfld, hflds, hout, hst⟩ := h
  simp only at hl hfld hflds hout hst
  subst hfld; subst hflds; subst hout
  have hdn := hg.delim_nl
  have hdr := hg.delim_cr
  have hdq : (cfg.delim == cfg.quote) = false := by simpa using hg.delim_quote
  have hskip := hg.no_skip
  have hde : (some cfg.delim == cfg.esc) = false := by
    rcases hg.dialect with ⟨_, hesc⟩ | ⟨_, e, hesc, hed, _, _, _⟩
    · simp [hesc]
    · rw [hesc]; simpa using Ne.symm hed
  rcases hst with h | h | ⟨hf, h | h⟩
  · subst h
    cases l <;> first | exact absurd rfl hl | simp [feed, S.ch, S.eol, step, stepInField, isNl, P.save, hdn, hdr, hde]
  · subst h
    cases l <;> first | exact absurd rfl hl | simp [feed, S.ch, S.eol, step, isNl, P.save, hdn, hdr, hdq]
  · subst h; subst hf
    cases l <;> first | exact absurd rfl hl | simp [feed, S.ch, S.eol, step, stepStartField, isNl, P.save, hdn, hdr, hdq, hde, hskip]
  · subst h; subst hf
    cases l <;> first | exact absurd rfl hl | simp [feed, S.ch, S.eol, step, stepStartField, isNl, P.save, hdn, hdr, hdq, hde, hskip]

/-- **Row end.** At the end of a field (not at the very start of a record) CR LF stores the field,
emits the record and returns the reader to its initial state. -/
theorem rowend_read (cfg : Cfg) (hg : GoodCfg cfg) (s : S) (f : List Char) (fields : List (List Char))
    (out : List (List (List Char))) (h : FieldEnd s f fields out) (hnr : s.p.st ≠ .startRecord) :
    feedAll cfg s ['\r', '\n'] = some ⟨.fresh, {}, (f :: fields).reverse :: out⟩ := by
  obtain ⟨l, ⟨st, fld, flds⟩, o⟩ := s
  obtain ⟨hl, hfld, hflds, hout, hst⟩ := h
  simp only at hl hfld hflds hout hst hnr
  subst hfld; subst hflds; subst hout
  rcases hst with h | h | ⟨hf, h | h⟩
  · subst h
    cases l <;> first | exact absurd rfl hl | simp [feedAll, feed, S.ch, S.eol, step, stepInField, isNl, endLine, P.save]
  · subst h
    have hq1 : ('\r' == cfg.quote) = false := by simpa using Ne.symm hg.quote_cr
    have hq2 : ('\r' == cfg.delim) = false := by simpa using Ne.symm hg.delim_cr
    cases l <;> first | exact absurd rfl hl |
      simp [feedAll, feed, S.ch, S.eol, step, isNl, endLine, P.save, hq1, hq2]
  · subst h; subst hf
    cases l <;> first | exact absurd rfl hl | simp [feedAll, feed, S.ch, S.eol, step, stepStartField, isNl, endLine, P.save]
  · exact absurd h hnr

/-- **Further fields of a row.** After a complete field, feeding `delim field delim field …` for the
remaining fields leaves the reader at the end of the last of them, with all earlier fields stored. -/
theorem more_fields_read (cfg : Cfg) (hg : GoodCfg cfg) (fs : List (List Char)) :
    ∀ (s : S) (f : List Char) (fields : List (List Char)) (out : List (List (List Char))), FieldEnd s f fields out →
    ∃ text s' fl flds, renderFields cfg false fs false = some text ∧ feedAll cfg s text = some s' ∧
      FieldEnd s' fl flds out ∧ fl :: flds = fs.reverse ++ (f :: fields) ∧
      (fs ≠ [] → s'.p.st ≠ .startRecord) ∧ (fs = [] → s' = s) := by
  induction fs with
  | nil =>
    intro s f fields out h
    exact ⟨[], s, f, fields, rfl, by simp [feedAll], h, by simp, fun h => absurd rfl h, fun _ => rfl⟩
  | cons g gs ih =>
    intro s f fields out h
    have hd := delim_read cfg hg s f fields out h
    generalize hs1 : (⟨.mid, ⟨.startField, [], f :: fields⟩, out⟩ : S) = s1 at hd
    have hs1l : s1.l ≠ .cr := by rw [← hs1]; simp
    have hs1f : s1.p.field = [] := by rw [← hs1]
    have hs1st : s1.p.st = .startField := by rw [← hs1]
    have hs1flds : s1.p.fields = f :: fields := by rw [← hs1]
    have hs1out : s1.out = out := by rw [← hs1]
    obtain ⟨t1, s2, hr1, hf1, he1, hsr⟩ := field_read cfg hg false g s1 hs1l hs1f (Or.inl hs1st)
    rw [hs1flds, hs1out] at he1
    obtain ⟨t2, s3, fl, flds, hr2, hf2, he2, hcat, hne, _⟩ := ih s2 g (f :: fields) out he1
    refine ⟨cfg.delim :: t1 ++ t2, s3, fl, flds, ?_, ?_, he2, ?_, fun _ => ?_, fun h => absurd h (by simp)⟩
    · simp [renderFields, hr1, hr2]
    · simp only [List.cons_append, feedAll, hd, feedAll_append, hf1, Option.bind_some]; exact hf2
    · rw [hcat]; simp
    · by_cases hgs : gs = []
      · subst hgs
        have : s3 = s2 := by
          have := hf2; simp [renderFields] at hr2; subst hr2; simpa [feedAll] using this.symm
        rw [this]
        intro h0
        have := (hsr h0).1
        rw [hs1st] at this
        exact absurd this (by simp)
      · exact hne hgs

/-- **One row.** From the initial state a rendered row (with at least one field) is read back as that
row and the reader is in its initial state again. -/
theorem row_read (cfg : Cfg) (hg : GoodCfg cfg) (row : List (List Char)) (hrow : row ≠ [])
    (out : List (List (List Char))) :
    ∃ text, renderRow cfg row = some text ∧ feedAll cfg ⟨.fresh, {}, out⟩ text = some ⟨.fresh, {}, row :: out⟩ := by
  cases row with
  | nil => exact absurd rfl hrow
  | cons f0 fs =>
    obtain ⟨only, honlydef⟩ : ∃ b : Bool, b = ((f0 :: fs).length == 1) := ⟨_, rfl⟩
    obtain ⟨t0, s1, hr0, hf0, he0, hsr⟩ := field_read cfg hg only f0 ⟨.fresh, {}, out⟩ (by simp) rfl (Or.inr rfl)
    simp only at he0
    -- the remaining fields are rendered with `only = false` (or there are none)
    have hrest : renderFields cfg only fs false = renderFields cfg false fs false := by
      cases fs with
      | nil => rfl
      | cons _ _ => subst honlydef; simp
    obtain ⟨t1, s2, fl, flds, hr1, hf1, he1, hcat, hne, hnil⟩ := more_fields_read cfg hg fs s1 f0 [] out he0
    have hnr : s2.p.st ≠ .startRecord := by
      by_cases hfs : fs = []
      · have := hnil hfs
        rw [this]
        intro h0
        have := (hsr h0).2
        subst hfs
        subst honlydef
        simp at this
      · exact hne hfs
    have hend := rowend_read cfg hg s2 fl flds out he1 hnr
    refine ⟨t0 ++ t1 ++ ['\r', '\n'], ?_, ?_⟩
    · unfold renderRow
      rw [← honlydef]
      simp [renderFields, hr0, hrest, hr1]
    · rw [feedAll_append, feedAll_append, hf0]
      simp only [Option.bind_some, hf1, hend]
      rw [hcat]; simp

/-- **Tables.** Rendered tables are read back row by row. -/
theorem table_read (cfg : Cfg) (hg : GoodCfg cfg) (t : List (List (List Char))) (ht : ∀ r ∈ t, r ≠ [])
    (out : List (List (List Char))) :
    ∃ text, renderTable cfg t = some text ∧ feedAll cfg ⟨.fresh, {}, out⟩ text = some ⟨.fresh, {}, t.reverse ++ out⟩ := by
  induction t generalizing out with
  | nil => exact ⟨[], rfl, by simp [feedAll]⟩
  | cons r rs ih =>
    obtain ⟨t1, hr1, hf1⟩ := row_read cfg hg r (ht r (by simp)) out
    obtain ⟨t2, hr2, hf2⟩ := ih (fun x hx => ht x (by simp [hx])) (r :: out)
    refine ⟨t1 ++ t2, by simp [renderTable, hr1, hr2], ?_⟩
    rw [feedAll_append, hf1]
    simp only [Option.bind_some, hf2]
    simp

/-- **Round trip.** For every good dialect and every table whose rows have at least one cell — cells
of any content — writing the table and reading the result back yields the identical table. -/
theorem roundtrip (cfg : Cfg) (hg : GoodCfg cfg) (t : List (List (List Char))) (ht : ∀ r ∈ t, r ≠ []) :
    ∃ text, renderTable cfg t = some text ∧ parse cfg text = some t := by
  obtain ⟨text, hr, hf⟩ := table_read cfg hg t ht []
  refine ⟨text, hr, ?_⟩
  have : feedAll cfg {} text = some ⟨.fresh, {}, t.reverse⟩ := by simpa using hf
  simp [parse, this, finish]

end Cutplace.Csv
