import Cutplace.Spec.Range
import Cutplace.Proofs.DigitLemmas
/-
Token level of `Range.__init__`: the token stream of a description written in the documented
grammar (`descToks`) is parsed into exactly the items the description denotes.
-/
set_option linter.unusedSimpArgs false

namespace Cutplace
open Cutplace.Spec

def minusTok : Tok := ⟨.op, ['-']⟩
def colonTok : Tok := ⟨.op, [':']⟩
def commaTok : Tok := ⟨.op, [',']⟩
def eofTok : Tok := ⟨.endmarker, []⟩

def signToks (v : Int) : List Tok := if v < 0 then [minusTok] else []

def quoteChar (dq : Bool) : Char := if dq then '"' else '\''

def hexText (bigX up : Bool) (n : Nat) : Str :=
  ['0', if bigX then 'X' else 'x'] ++ (hexDigits n).map (hexDigitChar up)

def symText (caps : Bool) (v : Int) : Str := if caps then (symName v).map upperChar else symName v

/-- the tokens of one limit -/
def limitToks (sp : LimitSp) (v : Int) : List Tok :=
  match sp with
  | .dec => signToks v ++ [⟨.number, natRepr v.natAbs⟩]
  | .hex bigX up => signToks v ++ [⟨.number, hexText bigX up v.natAbs⟩]
  | .quoted dq => [⟨.string, [quoteChar dq, Char.ofNat v.toNat, quoteChar dq]⟩]
  | .sym caps => [⟨.name, symText caps v⟩]

def itemToks (it : ItemD) (sp : ItemSp) : List Tok :=
  match it with
  | .single v => limitToks sp.lo v
  | .closed l u => limitToks sp.lo l ++ colonTok :: limitToks sp.hi u
  | .from_ l => limitToks sp.lo l ++ [colonTok]
  | .upto u => colonTok :: limitToks sp.hi u

def descToks : RangeDesc → List ItemSp → List Tok
  | [], _ => [eofTok]
  | [it], sps => itemToks it (sps.headD {}) ++ [eofTok]
  | it :: it2 :: rest, sps => itemToks it (sps.headD {}) ++ commaTok :: descToks (it2 :: rest) sps.tail

/-- decimal limits must stay within CPython's `int()` conversion limit -/
def _root_.Cutplace.Spec.LimitSp.Convertible (sp : LimitSp) (v : Int) : Prop :=
  match sp with
  | .dec => (digits v.natAbs).length ≤ maxStrDigits
  | _ => True

/-! ### values of the limit tokens -/

theorem digits_head_ne_zero (n : Nat) (h : 1 ≤ n) : ∃ d ds, digits n = d :: ds ∧ d ≠ 0 := by
  induction n using Nat.strongRecOn with
  | _ n ih =>
    unfold digits
    split
    · exact ⟨n, [], rfl, by omega⟩
    · obtain ⟨d, ds, hd, hne⟩ := ih (n / 10) (by omega) (by omega)
      exact ⟨d, ds ++ [n % 10], by rw [hd]; rfl, hne⟩

theorem digitChar_zero_iff (d : Nat) (h : d < 10) : digitChar d = '0' ↔ d = 0 := by
  have : ∀ d, d < 10 → (digitChar d = '0' ↔ d = 0) := by decide
  exact this d h

theorem digitChar_not_prefix_letter (d : Nat) (h : d < 10) :
    digitChar d ≠ 'x' ∧ digitChar d ≠ 'X' ∧ digitChar d ≠ 'o' ∧ digitChar d ≠ 'O' ∧ digitChar d ≠ 'b' ∧ digitChar d ≠ 'B' := by
  have : ∀ d, d < 10 → (digitChar d ≠ 'x' ∧ digitChar d ≠ 'X' ∧ digitChar d ≠ 'o' ∧ digitChar d ≠ 'O' ∧ digitChar d ≠ 'b' ∧ digitChar d ≠ 'B') := by decide
  exact this d h

def basePrefixed : Str → Bool
  | '0' :: c :: _ => c == 'x' || c == 'X' || c == 'o' || c == 'O' || c == 'b' || c == 'B'
  | _ => false

def hasLeadingZero : Str → Bool
  | '0' :: _ :: _ => true
  | _ => false

/-- the decimal branch of `int(text, 0)` -/
theorem pyIntBase0_decimal (s ds : Str) (hp : basePrefixed s = false)
    (hdrop : dropDigitUnderscores isAsciiDigit s = some ds) (hl : ds.length ≤ maxStrDigits)
    (hz : hasLeadingZero ds = false) : pyIntBase0 s = some (parseDigits (ds.map digitVal)) := by
  have hlen : ¬ ds.length > maxStrDigits := by omega
  unfold pyIntBase0
  split
  all_goals (first
    | (simp [basePrefixed] at hp; done)
    | skip)
  simp only [hdrop, hlen, if_false]
  split
  · simp [hasLeadingZero] at hz
  · rfl

/-- `int(text, 0)` of the decimal text of `n` -/
theorem pyIntBase0_natRepr (n : Nat) (hd : (digits n).length ≤ maxStrDigits) : pyIntBase0 (natRepr n) = some n := by
  have hlt := digits_lt10 n
  have hne := digits_ne_nil n
  have hdrop := dropDigitUnderscores_digits (digits n) hne hlt
  have hval : parseDigits (((digits n).map digitChar).map digitVal) = n := by
    rw [map_digitVal_digitChar _ hlt, parse_digits]
  unfold natRepr
  rw [pyIntBase0_decimal _ _ ?_ hdrop (by simp only [List.length_map]; omega) ?_, hval]
  · -- no base prefix
    cases hds : digits n with
    | nil => exact absurd hds hne
    | cons d ds =>
      cases ds with
      | nil => simp [basePrefixed]
      | cons d2 ds2 =>
        have hd2 : d2 < 10 := hlt d2 (by simp [hds])
        have hp := digitChar_not_prefix_letter d2 hd2
        simp only [List.map_cons]
        unfold basePrefixed
        split
        · rename_i heq
          simp only [List.cons.injEq] at heq
          obtain ⟨_, h2, _⟩ := heq
          subst h2
          simp [hp.1, hp.2.1, hp.2.2.1, hp.2.2.2.1, hp.2.2.2.2.1, hp.2.2.2.2.2]
        · rfl
  · -- no leading zero
    cases hds : digits n with
    | nil => exact absurd hds hne
    | cons d ds =>
      cases ds with
      | nil => simp [hasLeadingZero]
      | cons d2 ds2 =>
        have hn1 : 1 ≤ n := by
          cases n with
          | zero => unfold digits at hds; simp at hds
          | succ k => omega
        obtain ⟨d', ds', hd', hne0⟩ := digits_head_ne_zero n hn1
        rw [hds] at hd'
        have hdd : d = d' := by simp at hd'; exact hd'.1
        subst hdd
        have hd0 : d < 10 := hlt d (by simp [hds])
        have hnz : digitChar d ≠ '0' := fun h => hne0 ((digitChar_zero_iff d hd0).mp h)
        simp only [List.map_cons]
        unfold hasLeadingZero
        split
        · rename_i heq
          simp only [List.cons.injEq] at heq
          exact absurd heq.1 hnz
        · rfl

/-! ### hexadecimal -/

theorem parseBase_append (b : Nat) (x y : List Nat) :
    parseBase b (x ++ y) = y.foldl (fun a d => a * b + d) (parseBase b x) := by
  simp [parseBase, List.foldl_append]

theorem parse_hexDigits (n : Nat) : parseBase 16 (hexDigits n) = n := by
  induction n using Nat.strongRecOn with
  | _ n ih =>
    unfold hexDigits
    split
    · simp [parseBase]
    · rw [parseBase_append, ih (n / 16) (by omega)]
      simp
      omega

theorem hexDigits_lt16 (n : Nat) : ∀ d ∈ hexDigits n, d < 16 := by
  induction n using Nat.strongRecOn with
  | _ n ih =>
    unfold hexDigits
    split
    · intro d hd; simp at hd; omega
    · intro d hd
      simp at hd
      rcases hd with hd | hd
      · exact ih (n / 16) (by omega) d hd
      · omega

theorem hexDigits_ne_nil (n : Nat) : hexDigits n ≠ [] := by
  unfold hexDigits; split <;> simp

theorem hexDigitChar_facts (up : Bool) (d : Nat) (h : d < 16) :
    isHexDigit (hexDigitChar up d) = true ∧ hexDigitChar up d ≠ '_' ∧ hexVal (hexDigitChar up d) = d := by
  have : ∀ up, ∀ d, d < 16 → (isHexDigit (hexDigitChar up d) = true ∧ hexDigitChar up d ≠ '_' ∧ hexVal (hexDigitChar up d) = d) := by decide
  exact this up d h

/-- `int()`'s underscore filter leaves a string of accepted characters without underscores alone -/
theorem dropDigitUnderscores_go_all (ok : Char → Bool) (cs : Str) (h : ∀ c ∈ cs, ok c = true ∧ c ≠ '_') (acc : Str) :
    dropDigitUnderscores.go ok cs acc = some (acc.reverse ++ cs) := by
  induction cs generalizing acc with
  | nil => simp [dropDigitUnderscores.go]
  | cons c cs ih =>
    obtain ⟨hok, hne⟩ := h c (by simp)
    unfold dropDigitUnderscores.go
    split
    · simp_all
    · rename_i heq; simp at heq; exact absurd heq.1 hne
    · rename_i heq; simp at heq; exact absurd heq.1 hne
    · rename_i d' rest' _ _ heq
      simp only [List.cons.injEq] at heq
      obtain ⟨rfl, rfl⟩ := heq
      simp only [hok, if_true]
      rw [ih (fun x hx => h x (by simp [hx]))]
      simp

theorem dropDigitUnderscores_all (ok : Char → Bool) (cs : Str) (hne : cs ≠ []) (h : ∀ c ∈ cs, ok c = true ∧ c ≠ '_') :
    dropDigitUnderscores ok cs = some cs := by
  cases cs with
  | nil => exact absurd rfl hne
  | cons c cs =>
    obtain ⟨hok, _⟩ := h c (by simp)
    simp only [dropDigitUnderscores, hok, if_true]
    rw [dropDigitUnderscores_go_all ok cs (fun x hx => h x (by simp [hx]))]
    simp

theorem pyIntBase0_hexText (bigX up : Bool) (n : Nat) : pyIntBase0 (hexText bigX up n) = some n := by
  have hlt := hexDigits_lt16 n
  have hne := hexDigits_ne_nil n
  have hall : ∀ c ∈ (hexDigits n).map (hexDigitChar up), isHexDigit c = true ∧ c ≠ '_' := by
    intro c hc
    obtain ⟨d, hd, rfl⟩ := List.mem_map.mp hc
    have := hexDigitChar_facts up d (hlt d hd)
    exact ⟨this.1, this.2.1⟩
  have hdrop := dropDigitUnderscores_all isHexDigit _ (by simpa using hne) hall
  have hval : ((hexDigits n).map (hexDigitChar up)).map hexVal = hexDigits n := by
    rw [List.map_map]
    conv => rhs; rw [← List.map_id (hexDigits n)]
    apply List.map_congr_left
    intro d hd
    exact (hexDigitChar_facts up d (hlt d hd)).2.2
  have hnu : ∀ x, (hexDigits n).map (hexDigitChar up) ≠ '_' :: x := by
    intro x hx
    cases hh : hexDigits n with
    | nil => exact absurd hh hne
    | cons d ds =>
      rw [hh] at hx
      simp at hx
      exact absurd hx.1 (hexDigitChar_facts up d (hlt d (by simp [hh]))).2.1
  unfold hexText
  cases bigX
  · simp only [Bool.false_eq_true, if_false, List.cons_append, List.nil_append]
    unfold pyIntBase0
    simp only []
    split
    · rename_i heq
      rw [hdrop] at heq; cases heq
    · rename_i ds heq
      rw [hdrop] at heq
      cases heq
      rw [hval, parse_hexDigits]
  · simp only [if_true, List.cons_append, List.nil_append]
    unfold pyIntBase0
    simp only []
    split
    · rename_i heq
      rw [hdrop] at heq; cases heq
    · rename_i ds heq
      rw [hdrop] at heq
      cases heq
      rw [hval, parse_hexDigits]

/-! ### quoted characters and symbolic names -/

theorem toNat_ofNat_valid (n : Nat) (h : n.isValidChar) : (Char.ofNat n).toNat = n := by
  simp [Char.ofNat, h, Char.ofNatAux, Char.toNat]

theorem quoted_valid (v : Int) (h : (LimitSp.quoted dq).Legal v) : (Char.ofNat v.toNat).toNat = v.toNat ∧ (v.toNat : Int) = v := by
  obtain ⟨h1, h2, h3, _⟩ := h
  have hv : v.toNat.isValidChar := by
    unfold Nat.isValidChar
    by_cases hs : v.toNat < 0xD800
    · exact Or.inl hs
    · right
      constructor <;> omega
  exact ⟨toNat_ofNat_valid _ hv, by omega⟩

theorem codeForString_quoted (dq : Bool) (v : Int) (h : (LimitSp.quoted dq).Legal v) :
    codeForString [quoteChar dq, Char.ofNat v.toNat, quoteChar dq] = .ok v := by
  obtain ⟨h1, h2⟩ := quoted_valid v h
  cases dq <;> simp [codeForString, quoteChar, h1, h2]

theorem codeForSymbolic_sym (caps : Bool) (v : Int) (h : (LimitSp.sym caps).Legal v) :
    codeForSymbolic (symText caps v) = .ok v := by
  obtain ⟨h1, h2⟩ := h
  have : v = 9 ∨ v = 10 ∨ v = 11 ∨ v = 12 ∨ v = 13 := by omega
  rcases this with rfl | rfl | rfl | rfl | rfl <;> cases caps <;> rfl

/-! ### the item loop on limit tokens -/

/-- what the item loop does with a limit value `v` -/
def assignLimit (r : Regs) (v : Int) (rest : List Tok) : Out (Regs × Tok × List Tok) :=
  if r.ell then
    if r.upper.isNone then itemLoop { r with upper := some v, hyph := false } rest else .error .iface
  else if r.lower.isNone then itemLoop { r with lower := some v, hyph := false } rest
  else .error .iface

theorem itemLoop_number (r : Regs) (txt : Str) (n : Int) (hcode : codeForNumber txt = .ok n) (rest : List Tok) :
    itemLoop r (⟨.number, txt⟩ :: rest) = assignLimit r (if r.hyph then -n else n) rest := by
  rw [itemLoop]
  simp [Tok.isEof, Tok.isComma, hcode, Except.map, assignLimit]

theorem itemLoop_minus (r : Regs) (hh : r.hyph = false) (rest : List Tok) :
    itemLoop r (minusTok :: rest) = itemLoop { r with hyph := true } rest := by
  rw [itemLoop]
  simp [Tok.isEof, Tok.isComma, minusTok, hh]

theorem itemLoop_colon (r : Regs) (hh : r.hyph = false) (rest : List Tok) :
    itemLoop r (colonTok :: rest) = itemLoop { r with ell := true } rest := by
  rw [itemLoop]
  simp [Tok.isEof, Tok.isComma, colonTok, hh]

theorem itemLoop_comma (r : Regs) (rest : List Tok) : itemLoop r (commaTok :: rest) = .ok (r, commaTok, rest) := by
  rw [itemLoop]; simp [Tok.isEof, Tok.isComma, commaTok]

theorem itemLoop_eof (r : Regs) (rest : List Tok) : itemLoop r (eofTok :: rest) = .ok (r, eofTok, rest) := by
  rw [itemLoop]; simp [Tok.isEof, Tok.isComma, eofTok]

theorem itemLoop_signed_number (r : Regs) (hh : r.hyph = false) (v : Int) (txt : Str)
    (hcode : codeForNumber txt = .ok (v.natAbs : Int)) (rest : List Tok) :
    itemLoop r (signToks v ++ ⟨.number, txt⟩ :: rest) = assignLimit r v rest := by
  unfold signToks
  by_cases hv : v < 0
  · simp only [hv, if_true, List.singleton_append]
    rw [itemLoop_minus r hh, itemLoop_number _ txt _ hcode]
    simp only [if_true]
    have : -(v.natAbs : Int) = v := by omega
    rw [this]
    simp [assignLimit]
  · simp only [hv, if_false, List.nil_append]
    rw [itemLoop_number _ txt _ hcode]
    simp only [hh, Bool.false_eq_true, if_false]
    have : (v.natAbs : Int) = v := by omega
    rw [this]

theorem codeForNumber_ok (txt : Str) (n : Nat) (h : pyIntBase0 txt = some n) : codeForNumber txt = .ok (n : Int) := by
  simp [codeForNumber, h]

/-- the tokens of one limit set the pending register to the limit's value -/
theorem itemLoop_limit (sp : LimitSp) (v : Int) (hl : sp.Legal v) (hc : sp.Convertible v) (r : Regs) (hh : r.hyph = false)
    (rest : List Tok) : itemLoop r (limitToks sp v ++ rest) = assignLimit r v rest := by
  cases sp with
  | dec =>
    simp only [limitToks, List.append_assoc, List.singleton_append]
    exact itemLoop_signed_number r hh v _ (codeForNumber_ok _ _ (pyIntBase0_natRepr _ hc)) rest
  | hex bigX up =>
    simp only [limitToks, List.append_assoc, List.singleton_append]
    exact itemLoop_signed_number r hh v _ (codeForNumber_ok _ _ (pyIntBase0_hexText bigX up _)) rest
  | quoted dq =>
    simp only [limitToks, List.singleton_append]
    rw [itemLoop]
    simp [Tok.isEof, Tok.isComma, codeForString_quoted dq v hl, Except.map, assignLimit, hh]
  | sym caps =>
    simp only [limitToks, List.singleton_append]
    rw [itemLoop]
    simp [Tok.isEof, Tok.isComma, codeForSymbolic_sym caps v hl, Except.map, assignLimit, hh]

/-! ### one item -/

def regsOf : ItemD → Regs
  | .single v => { lower := some v }
  | .closed l u => { lower := some l, upper := some u, ell := true }
  | .from_ l => { lower := some l, ell := true }
  | .upto u => { upper := some u, ell := true }

def _root_.Cutplace.Spec.ItemSp.Convertible (sp : ItemSp) (it : ItemD) : Prop :=
  match it with
  | .single v => sp.lo.Convertible v
  | .closed l u => sp.lo.Convertible l ∧ sp.hi.Convertible u
  | .from_ l => sp.lo.Convertible l
  | .upto u => sp.hi.Convertible u

def ConvertibleSpelling : RangeDesc → List ItemSp → Prop
  | [], _ => True
  | it :: rest, sps => (sps.headD {}).Convertible it ∧ ConvertibleSpelling rest sps.tail

theorem itemLoop_item (it : ItemD) (sp : ItemSp) (hl : sp.Legal it) (hc : sp.Convertible it) (term : Tok)
    (hterm : term = commaTok ∨ term = eofTok) (rest : List Tok) :
    itemLoop {} (itemToks it sp ++ term :: rest) = .ok (regsOf it, term, rest) := by
  have hend : ∀ r : Regs, itemLoop r (term :: rest) = .ok (r, term, rest) := by
    intro r; rcases hterm with rfl | rfl
    · exact itemLoop_comma r rest
    · exact itemLoop_eof r rest
  cases it with
  | single v =>
    simp only [itemToks]
    rw [itemLoop_limit sp.lo v hl hc {} rfl]
    simp [assignLimit, hend, regsOf]
  | closed l u =>
    obtain ⟨hl1, hl2⟩ := hl
    obtain ⟨hc1, hc2⟩ := hc
    simp only [itemToks, List.append_assoc, List.cons_append]
    rw [itemLoop_limit sp.lo l hl1 hc1 {} rfl]
    simp only [assignLimit, Bool.false_eq_true, if_false, Option.isNone_none, if_true]
    rw [itemLoop_colon _ rfl, itemLoop_limit sp.hi u hl2 hc2 _ rfl]
    simp [assignLimit, hend, regsOf]
  | from_ l =>
    simp only [itemToks, List.append_assoc, List.cons_append, List.nil_append]
    rw [itemLoop_limit sp.lo l hl hc {} rfl]
    simp only [assignLimit, Bool.false_eq_true, if_false, Option.isNone_none, if_true]
    rw [itemLoop_colon _ rfl]
    simp [hend, regsOf]
  | upto u =>
    simp only [itemToks, List.cons_append]
    rw [itemLoop_colon _ rfl, itemLoop_limit sp.hi u hl hc _ rfl]
    simp [assignLimit, hend, regsOf]

theorem decideItem_regsOf (it : ItemD) (hw : it.WellFormed) : decideItem (regsOf it) = .ok (some it.denote) := by
  cases it with
  | single v => simp [decideItem, regsOf, ItemD.denote, ItemD.lo, ItemD.hi]
  | closed l u =>
    have : ¬ l > u := by simp [ItemD.WellFormed] at hw; omega
    simp [decideItem, regsOf, ItemD.denote, ItemD.lo, ItemD.hi, this]
  | from_ l => simp [decideItem, regsOf, ItemD.denote, ItemD.lo, ItemD.hi]
  | upto u => simp [decideItem, regsOf, ItemD.denote, ItemD.lo, ItemD.hi]

/-! ### overlap -/

theorem itemsOverlap_false (a b : ItemD) (ha : a.WellFormed) (hb : b.WellFormed) (h : ¬ a.Overlaps b) :
    itemsOverlap a.denote b.denote = false := by
  cases a <;> cases b <;>
    simp [ItemD.Overlaps, optLe, ItemD.lo, ItemD.hi, ItemD.WellFormed, itemsOverlap, Item.containsOpt, Item.contains, ItemD.denote] at * <;>
    omega

theorem disjoint_append_mem (a : RangeDesc) (it : ItemD) (rest : RangeDesc) (h : Disjoint (a ++ it :: rest)) :
    (∀ o ∈ a, ¬ o.Overlaps it) := by
  induction a with
  | nil => intro o ho; simp at ho
  | cons x xs ih =>
    simp only [List.cons_append, Disjoint] at h
    intro o ho
    rcases List.mem_cons.mp ho with rfl | hm
    · exact h.1 it (by simp)
    · exact ih h.2 o hm

/-! ### the whole description -/

theorem any_overlap_false (accD : RangeDesc) (it : ItemD) (hacc : ∀ o ∈ accD, o.WellFormed) (hit : it.WellFormed)
    (h : ∀ o ∈ accD, ¬ o.Overlaps it) : (denote accD).any (fun old => itemsOverlap old it.denote) = false := by
  simp only [denote, List.any_eq_false, List.mem_map]
  rintro _ ⟨o, ho, rfl⟩
  simp [itemsOverlap_false o it (hacc o ho) hit (h o ho)]

theorem eofTok_isEof : eofTok.isEof = true := rfl
theorem commaTok_isEof : commaTok.isEof = false := rfl

/-- **Token level.** The token stream of a well-formed description with legal spellings is parsed
into exactly the items the description denotes, appended to what was parsed before. -/
theorem parseTokens_desc (d : RangeDesc) : ∀ (sps : List ItemSp) (accD : RangeDesc) (fuel : Nat),
    d ≠ [] → LegalSpelling d sps → ConvertibleSpelling d sps → (∀ it ∈ accD ++ d, it.WellFormed) → Disjoint (accD ++ d) →
    d.length ≤ fuel → parseTokens fuel (descToks d sps) (denote accD) = .ok (denote (accD ++ d)) := by
  induction d with
  | nil => intro _ _ _ h; exact absurd rfl h
  | cons it rest ih =>
    intro sps accD fuel _ hl hc hw hd hf
    obtain ⟨hl1, hl2⟩ := hl
    obtain ⟨hc1, hc2⟩ := hc
    have hwit : it.WellFormed := hw it (by simp)
    have hwacc : ∀ o ∈ accD, o.WellFormed := fun o ho => hw o (by simp [ho])
    have hno := any_overlap_false accD it hwacc hwit (disjoint_append_mem accD it rest hd)
    cases fuel with
    | zero => simp at hf
    | succ fuel =>
      cases rest with
      | nil =>
        simp only [descToks]
        rw [parseTokens, itemLoop_item it _ hl1 hc1 eofTok (Or.inr rfl) []]
        have hadd : addItem (denote accD) (some it.denote) = .ok (denote accD ++ [it.denote]) := by simp [addItem, hno]
        simp only [decideItem_regsOf it hwit, hadd, eofTok_isEof, if_true]
        simp [denote]
      | cons it2 rest2 =>
        simp only [descToks]
        rw [parseTokens, itemLoop_item it _ hl1 hc1 commaTok (Or.inl rfl) _]
        have hadd : addItem (denote accD) (some it.denote) = .ok (denote accD ++ [it.denote]) := by simp [addItem, hno]
        simp only [decideItem_regsOf it hwit, hadd, Bool.false_eq_true, if_false, commaTok_isEof]
        have hacc' : denote accD ++ [it.denote] = denote (accD ++ [it]) := by simp [denote]
        rw [hacc']
        have := ih sps.tail (accD ++ [it]) fuel (by simp) hl2 hc2 (by simpa using hw) (by simpa using hd)
          (by simp at hf ⊢; omega)
        rw [this]
        simp

end Cutplace
