import Cutplace.Spec.Fields
namespace Cutplace
open Cutplace.Spec

theorem lstrip_all_blank (v : Str) (h : v.all (· == ' ') = true) : lstrip v = [] := by
  induction v with
  | nil => rfl
  | cons c cs ih =>
    simp only [List.all_cons, Bool.and_eq_true, beq_iff_eq] at h
    obtain ⟨hc, hcs⟩ := h
    subst hc
    have : isPySpace ' ' = true := by decide
    simp [lstrip, this, ih hcs]

theorem strip_all_blank (v : Str) (h : v.all (· == ' ') = true) : strip v = [] := by
  simp [strip, rstrip, lstrip_all_blank v h, lstrip]

theorem strip_nil : strip ([] : Str) = [] := by simp [strip, rstrip, lstrip]

theorem firstDisallowed_none_iff (f : Field) (v : Str) :
    firstDisallowed f.allowed v = none ↔ charsOk f v = true := by
  unfold charsOk firstDisallowed
  cases f.allowed with
  | none => simp
  | some r => simp [List.findIdx?_eq_none_iff]

theorem firstDisallowed_isSome_of_bad (f : Field) (v : Str) (h : charsOk f v = false) :
    ∃ i, firstDisallowed f.allowed v = some i := by
  cases hfd : firstDisallowed f.allowed v with
  | some i => exact ⟨i, rfl⟩
  | none =>
    have := (firstDisallowed_none_iff f v).mp hfd
    rw [h] at this
    exact absurd this (by simp)

theorem lengthOk_eq_within (f : Field) (v : Str) (hv : v ≠ []) : f.lengthOk v = lengthWithin f v := by
  have : v.isEmpty = false := by cases v <;> simp_all
  unfold Field.lengthOk lengthWithin
  simp only [this, Bool.and_false, Bool.false_eq_true, if_false]
  cases f.fixed
  · rfl
  · cases f.length.lowerLimit <;> rfl

theorem lengthOk_nil_allowEmpty (f : Field) (h : f.allowEmpty = true) : f.lengthOk [] = true := by
  simp [Field.lengthOk, h]

theorem charsOk_nil (f : Field) : charsOk f [] = true := by
  unfold charsOk; cases f.allowed <;> simp

end Cutplace
