import Cutplace.Proofs.RangeTotal
import Cutplace.Model.Decimal
import Cutplace.Proofs.DecRange
set_option linter.unusedSimpArgs false
namespace Cutplace

/-! ### NUMBER tokens start with a digit or a point -/

def NumHead (c : Char) : Prop := isAsciiDigit c = true ∨ c = '.'

theorem digitPart_go_fst (ok : Char → Bool) (rest acc : Str) :
    ∃ t, (digitPart.go ok rest acc).1 = acc.reverse ++ t := by
  fun_induction digitPart.go ok rest acc with
  | case1 acc => exact ⟨[], by simp⟩
  | case2 d rest acc hd ih =>
    obtain ⟨t, ht⟩ := ih
    exact ⟨'_' :: d :: t, by rw [ht]; simp⟩
  | case3 d rest acc hd => exact ⟨[], by simp⟩
  | case4 d rest acc hne hd ih =>
    obtain ⟨t, ht⟩ := ih
    exact ⟨d :: t, by rw [ht]; simp⟩
  | case5 d rest acc hne hd => exact ⟨[], by simp⟩

theorem digitPart_head (c : Char) (cs : Str) (hc : isAsciiDigit c = true) :
    ∃ t, (digitPart isAsciiDigit (c :: cs)).1 = c :: t := by
  unfold digitPart
  simp only [hc, if_true]
  obtain ⟨t, ht⟩ := digitPart_go_fst isAsciiDigit cs [c]
  exact ⟨t, by rw [ht]; simp⟩

theorem lexBased_head (a b : Char) (ok : Char → Bool) (r txt rest : Str) (h : lexBased [a, b] ok r = .ok (txt, rest)) :
    ∃ t, txt = a :: t := by
  unfold lexBased at h
  simp only [] at h
  repeat' split at h
  all_goals first
    | (cases h; done)
    | (simp only [Except.ok.injEq, Prod.mk.injEq] at h; obtain ⟨h1, _⟩ := h; subst h1; exact ⟨_, rfl⟩)

theorem lexDecimal_head (c : Char) (cs txt rest : Str) (hc : NumHead c)
    (hdot : c = '.' → True) (h : lexDecimal (c :: cs) = .ok (txt, rest)) : ∃ t, txt = c :: t := by
  unfold lexDecimal at h
  simp only [] at h
  split at h
  · cases h
  · rename_i ep r3 f2 hexp
    split at h
    · cases h
    · rename_i jp r4 htail
      split at h
      · cases h
      · simp only [Except.ok.injEq, Prod.mk.injEq] at h
        rcases hc with hd | hp
        · -- a digit: the integer part starts with it
          have hnd : c ≠ '.' := by intro hh; subst hh; simp [isAsciiDigit] at hd
          have hip : lexIntPart (c :: cs) = digitPart isAsciiDigit (c :: cs) := by
            unfold lexIntPart
            split
            · rename_i heq; simp only [List.cons.injEq] at heq; exact absurd heq.1 hnd
            · rfl
          obtain ⟨t, ht⟩ := digitPart_head c cs hd
          rw [hip, ht] at h
          obtain ⟨h1, _⟩ := h; subst h1; exact ⟨_, rfl⟩
        · subst hp
          have hip : lexIntPart ('.' :: cs) = ([], '.' :: cs) := by unfold lexIntPart; rfl
          rw [hip] at h
          simp only [lexFraction] at h
          obtain ⟨h1, _⟩ := h; subst h1; exact ⟨_, rfl⟩

theorem lexNumber_head (c : Char) (cs txt rest : Str) (hc : NumHead c) (h : lexNumber (c :: cs) = .ok (txt, rest)) :
    ∃ t, txt = c :: t := by
  unfold lexNumber at h
  split at h
  all_goals first
    | (rename_i heq; simp only [List.cons.injEq] at heq; obtain ⟨rfl, _⟩ := heq; exact lexBased_head _ _ _ _ _ _ h)
    | exact lexDecimal_head c cs txt rest hc (fun _ => trivial) h

def NumOk (toks : List Tok) : Prop := ∀ t ∈ toks, t.kind = .number → ∃ c r, t.text = c :: r ∧ NumHead c

theorem numOk_cons (t : Tok) (acc : List Tok) (ht : t.kind = .number → ∃ c r, t.text = c :: r ∧ NumHead c) (hacc : NumOk acc) :
    NumOk (t :: acc) := by
  intro x hx
  rcases List.mem_cons.mp hx with rfl | h
  · exact ht
  · exact hacc x h

theorem numHead_of_cond (c : Char) (b : Bool) (hcond : (isAsciiDigit c || (c == '.' && b)) = true) : NumHead c := by
  simp only [Bool.or_eq_true, Bool.and_eq_true, beq_iff_eq] at hcond
  rcases hcond with h | h
  · exact Or.inl h
  · exact Or.inr h.1

theorem num_tok_ok (c : Char) (cs txt rest : Str) (hc : NumHead c)
    (hlex : lexNumber (c :: cs) = .ok (txt, rest)) : ∃ c' r, txt = c' :: r ∧ NumHead c' := by
  obtain ⟨t, ht⟩ := lexNumber_head c cs txt rest hc hlex
  exact ⟨c, t, ht, hc⟩

theorem lexLoop_numOk (fuel : Nat) : ∀ (s : Str) (depth : Nat) (acc : List Tok) (ts : List Tok),
    lexLoop fuel s depth acc = .ok ts → NumOk acc → NumOk ts := by
  induction fuel with
  | zero => intro s depth acc ts h _; simp [lexLoop] at h
  | succ fuel ih =>
    intro s depth acc ts h hacc
    rw [lexLoop.eq_def] at h
    simp only [] at h
    repeat' (split at h)
    all_goals try (cases h; done)
    all_goals first
      | (simp only [Except.ok.injEq] at h
         subst h
         intro x hx hk
         simp only [List.mem_append, List.mem_reverse, List.mem_cons, List.mem_singleton, List.not_mem_nil, or_false] at hx
         rcases hx with hx | hx
         · exact hacc x hx hk
         · first
             | (subst hx; cases hk)
             | (rcases hx with rfl | rfl <;> cases hk))
      | exact ih _ _ _ ts h hacc
      | (refine ih _ _ _ ts h (numOk_cons _ _ ?_ hacc); intro hk; cases hk; done)
      | (refine ih _ _ _ ts h (numOk_cons _ _ ?_ hacc); intro _
         exact num_tok_ok _ _ _ _ (numHead_of_cond _ _ (by assumption)) (by assumption))

/-! ### `Decimal(text)` of a NUMBER token is finite -/

theorem numHead_facts (c : Char) (hc : NumHead c) :
    isPySpace c = false ∧ c ≠ '_' ∧ c ≠ '-' ∧ c ≠ '+' ∧ lowerChar c = c ∧ c ≠ 'i' ∧ c ≠ 'n' ∧ c ≠ 's' := by
  rcases hc with hd | h
  · have h := hd
    unfold isAsciiDigit at h
    simp only [Bool.and_eq_true, decide_eq_true_eq] at h
    have h1 : '0'.toNat ≤ c.toNat := h.1
    have h2 : c.toNat ≤ '9'.toNat := h.2
    have e0 : '0'.toNat = 48 := by decide
    have e9 : '9'.toNat = 57 := by decide
    refine ⟨?_, ?_, ?_, ?_, ?_, ?_, ?_, ?_⟩
    · unfold isPySpace; simp; omega
    · intro hh; subst hh; exact absurd hd (by decide)
    · intro hh; subst hh; exact absurd hd (by decide)
    · intro hh; subst hh; exact absurd hd (by decide)
    · unfold lowerChar
      have : ¬ ('A' ≤ c ∧ c ≤ 'Z') := by
        intro hh
        have h3 : 'A'.toNat ≤ c.toNat := hh.1
        have eA : 'A'.toNat = 65 := by decide
        omega
      simp [this]
    · intro hh; subst hh; exact absurd hd (by decide)
    · intro hh; subst hh; exact absurd hd (by decide)
    · intro hh; subst hh; exact absurd hd (by decide)
  · subst h; decide

theorem lstrip_snoc (xs : Str) (c : Char) (hc : isPySpace c = false) : ∃ u, lstrip (xs ++ [c]) = u ++ [c] := by
  induction xs with
  | nil => exact ⟨[], by simp [lstrip, hc]⟩
  | cons x xs ih =>
    simp only [List.cons_append, lstrip]
    split
    · exact ih
    · exact ⟨x :: xs, rfl⟩

theorem strip_head (c : Char) (r : Str) (hc : isPySpace c = false) : ∃ u, strip (c :: r) = c :: u := by
  unfold strip rstrip
  have h1 : lstrip (c :: r) = c :: r := by simp [lstrip, hc]
  rw [h1]
  obtain ⟨u, hu⟩ := lstrip_snoc r.reverse c hc
  refine ⟨u.reverse, ?_⟩
  simp only [List.reverse_cons, hu, List.reverse_append, List.reverse_singleton, List.singleton_append, List.reverse_nil, List.nil_append]

theorem pyDecimal_fin (c : Char) (r : Str) (hc : NumHead c) (d : Dec) (h : pyDecimal (c :: r) = .ok d) : d.isFin = true := by
  obtain ⟨hsp, hus, hmi, hpl, hlow, hi, hn, hs⟩ := numHead_facts c hc
  unfold pyDecimal at h
  split at h
  · cases h
  · obtain ⟨u, hu⟩ := strip_head c r hsp
    have ht : stripUnderscores (strip (c :: r)) = c :: stripUnderscores u := by
      rw [hu]; unfold stripUnderscores; simp [hus]
    simp only [ht] at h
    have hlb : lower (c :: stripUnderscores u) = c :: lower (stripUnderscores u) := by simp [lower, hlow]
    have h1 : (lower (c :: stripUnderscores u) == "inf".toList || lower (c :: stripUnderscores u) == "infinity".toList) = false := by
      rw [hlb]
      have e1 : "inf".toList = ['i', 'n', 'f'] := rfl
      have e2 : "infinity".toList = ['i', 'n', 'f', 'i', 'n', 'i', 't', 'y'] := rfl
      rw [e1, e2]
      simp only [Bool.or_eq_false_iff, beq_eq_false_iff_ne, ne_eq, List.cons.injEq, not_and]
      exact ⟨fun hh => absurd hh hi, fun hh => absurd hh hi⟩
    have h2 : startsWith (lower (c :: stripUnderscores u)) "nan".toList = false := by
      rw [hlb]; simp [startsWith, hn]
    have h3 : startsWith (lower (c :: stripUnderscores u)) "snan".toList = false := by
      rw [hlb]; simp [startsWith, hs]
    split at h
    · rename_i heq; simp only [List.cons.injEq] at heq; exact absurd heq.1 hmi
    · rename_i heq; simp only [List.cons.injEq] at heq; exact absurd heq.1 hpl
    · simp only [h1, h2, h3, Bool.false_eq_true, if_false] at h
      repeat' split at h
      all_goals first
        | (cases h; done)
        | (simp only [DecParse.ok.injEq] at h; subst h; rfl)

/-! ### the token loops of `DecimalRange.__init__` -/

def FinOpt (o : Option Dec) : Prop := ∀ d, o = some d → d.isFin = true

theorem FinOpt.none : FinOpt none := by intro d h; cases h
theorem FinOpt.some {d : Dec} (h : d.isFin = true) : FinOpt (some d) := by intro d' h'; cases h'; exact h

structure DRegsOk (r : DRegs) : Prop where
  lower : FinOpt r.lower
  upper : FinOpt r.upper
  before : 0 ≤ r.maxBefore

theorem negate_fin (d : Dec) (h : d.isFin = true) : d.negate.isFin = true := by
  cases d <;> simp [Dec.isFin, Dec.negate] at h ⊢

def DItemLoopOk (o : Out (DRegs × Tok × List Tok)) : Prop :=
  Clean o ∧ ∀ r t rest, o = .ok (r, t, rest) → DRegsOk r ∧ (t.isEof = true ∨ HasEof rest) ∧ NumOk rest

theorem DItemLoopOk.iface : DItemLoopOk (.error .iface) := ⟨Clean.iface, by intro r t rest h; cases h⟩
theorem DItemLoopOk.unsupported : DItemLoopOk (.error .unsupported) := ⟨Clean.unsupported, by intro r t rest h; cases h⟩

theorem dItemLoop_ok (toks : List Tok) : ∀ r : DRegs, DRegsOk r → HasEof toks → NumOk toks → DItemLoopOk (dItemLoop r toks) := by
  induction toks with
  | nil => intro r _ h _; obtain ⟨t, ht, _⟩ := h; simp at ht
  | cons t ts ih =>
    intro r hr heof hnum
    have hnum' : NumOk ts := fun x hx => hnum x (by simp [hx])
    rw [dItemLoop]
    by_cases hstop : (t.isEof || t.isComma) = true
    · simp only [hstop, if_true]
      refine ⟨Clean.ok _, ?_⟩
      intro r' t' rest h
      simp only [Except.ok.injEq, Prod.mk.injEq] at h
      obtain ⟨rfl, rfl, rfl⟩ := h
      refine ⟨hr, ?_, hnum'⟩
      by_cases he : t.isEof = true
      · exact Or.inl he
      · right
        obtain ⟨x, hx, hxe⟩ := heof
        rcases List.mem_cons.mp hx with rfl | hx'
        · exact absurd hxe he
        · exact ⟨x, hx', hxe⟩
    · have hne : t.isEof = false := by
        cases h : t.isEof with
        | false => rfl
        | true => simp [h] at hstop
      have heof' : HasEof ts := by
        obtain ⟨x, hx, hxe⟩ := heof
        rcases List.mem_cons.mp hx with rfl | hx'
        · rw [hne] at hxe; cases hxe
        · exact ⟨x, hx', hxe⟩
      simp only [hstop, Bool.false_eq_true, if_false]
      by_cases hk : (t.kind == TokKind.number) = true
      · simp only [hk, if_true]
        have hkn : t.kind = .number := by simpa using hk
        obtain ⟨c, r', htxt, hc⟩ := hnum t (by simp) hkn
        cases hpd : pyDecimal t.text with
        | unsupported => exact DItemLoopOk.unsupported
        | invalid => exact DItemLoopOk.iface
        | ok d =>
          have hfin : d.isFin = true := by rw [htxt] at hpd; exact pyDecimal_fin c r' hc d hpd
          simp only []
          have hd' : (if r.hyph = true then d.negate else d).isFin = true := by
            split
            · exact negate_fin d hfin
            · exact hfin
          have hb : ∀ b : Int, 0 ≤ max r.maxBefore b := fun b => Int.le_trans hr.before (Int.le_max_left _ _)
          repeat' split
          all_goals first
            | exact DItemLoopOk.iface
            | (apply ih _ _ heof' hnum'
               constructor
               · first | exact hr.lower | exact FinOpt.some (by first | exact hfin | rfl) | exact FinOpt.some (negate_fin _ (by first | exact hfin | rfl))
               · first | exact hr.upper | exact FinOpt.some (by first | exact hfin | rfl) | exact FinOpt.some (negate_fin _ (by first | exact hfin | rfl))
               · exact hb _)
      · simp only [hk, Bool.false_eq_true, if_false]
        repeat' split
        all_goals first
          | exact DItemLoopOk.iface
          | exact ih _ ⟨hr.lower, hr.upper, hr.before⟩ heof' hnum'

/-! ### comparisons of finite decimals are always defined -/

theorem le?_some (a b : Dec) (ha : a.isFin = true) (hb : b.isFin = true) : ∃ x, Dec.le? a b = some x := by
  cases a <;> cases b <;> simp [Dec.isFin] at ha hb
  exact ⟨_, le?_fin _ _ _ _ _ _⟩

def DItemFin (it : DItem) : Prop := FinOpt it.lo ∧ FinOpt it.hi

theorem contains?_some (it : DItem) (v : Dec) (hit : DItemFin it) (hv : v.isFin = true) : ∃ x, it.contains? v = some x := by
  unfold DItem.contains?
  cases hlo : it.lo with
  | none =>
    cases hhi : it.hi with
    | none => exact ⟨_, rfl⟩
    | some u => exact le?_some v u hv (hit.2 u hhi)
  | some l =>
    have hl := hit.1 l hlo
    cases hhi : it.hi with
    | none => exact le?_some l v hl hv
    | some u =>
      obtain ⟨x, hx⟩ := le?_some l v hl hv
      simp only [hx]
      cases x
      · exact ⟨_, rfl⟩
      · exact le?_some v u hv (hit.2 u hhi)

theorem dItemsOverlap_some (a b : DItem) (ha : DItemFin a) (hb : DItemFin b) : ∃ x, dItemsOverlap a b = some x := by
  unfold dItemsOverlap
  simp only []
  have hhi : ∃ y, (match b.hi with | none => Option.some false | Option.some d => a.contains? d) = some y := by
    cases h : b.hi with
    | none => exact ⟨_, rfl⟩
    | some u => exact contains?_some a u ha (hb.2 u h)
  cases hlo : b.lo with
  | none => simp only []; exact hhi
  | some l =>
    obtain ⟨x, hx⟩ := contains?_some a l ha (hb.1 l hlo)
    simp only [hx]
    cases x
    · exact hhi
    · exact ⟨_, rfl⟩

theorem overlapFold_some (acc : List DItem) (it : DItem) (hacc : ∀ o ∈ acc, DItemFin o) (hit : DItemFin it) (init : Bool) :
    ∃ x, acc.foldl (fun o old => match o with
      | none => none
      | some true => some true
      | some false => dItemsOverlap old it) (some init) = some x := by
  induction acc generalizing init with
  | nil => exact ⟨_, rfl⟩
  | cons o rest ih =>
    simp only [List.foldl_cons]
    have hrest : ∀ o' ∈ rest, DItemFin o' := fun o' ho' => hacc o' (List.mem_cons_of_mem _ ho')
    cases init
    · obtain ⟨y, hy⟩ := dItemsOverlap_some o it (hacc o List.mem_cons_self) hit
      simp only [hy]
      exact ih hrest y
    · exact ih hrest true

/-- what the outer loop guarantees -/
def DParseOk (o : Out (List DItem × Nat × Int)) : Prop :=
  Clean o ∧ ∀ its a b, o = .ok (its, a, b) → 0 ≤ b ∧ ∀ it ∈ its, DItemFin it

theorem DParseOk.iface : DParseOk (.error .iface) := ⟨Clean.iface, by intro _ _ _ h; cases h⟩
theorem DParseOk.unsupported : DParseOk (.error .unsupported) := ⟨Clean.unsupported, by intro _ _ _ h; cases h⟩

theorem dParseTokens_ok (fuel : Nat) : ∀ (toks : List Tok) (acc : List DItem) (prev : Option DItem) (ma : Nat) (mb : Int),
    HasEof toks → NumOk toks → (∀ o ∈ acc, DItemFin o) → 0 ≤ mb → DParseOk (dParseTokens fuel toks acc prev ma mb) := by
  induction fuel with
  | zero => intro _ _ _ _ _ _ _ _ _; exact DParseOk.unsupported
  | succ fuel ih =>
    intro toks acc prev ma mb heof hnum hacc hmb
    obtain ⟨hclean, hres⟩ := dItemLoop_ok toks { maxAfter := ma, maxBefore := mb } ⟨FinOpt.none, FinOpt.none, hmb⟩ heof hnum
    rw [dParseTokens]
    cases hloop : dItemLoop { maxAfter := ma, maxBefore := mb } toks with
    | error e =>
      simp only []
      refine ⟨?_, by intro _ _ _ h; cases h⟩
      intro e' he; cases he; exact hclean e hloop
    | ok res =>
      obtain ⟨r, last, rest⟩ := res
      obtain ⟨hr, hlast, hnum'⟩ := hres r last rest hloop
      simp only []
      by_cases hh : r.hyph = true
      · simp only [hh, if_true]; exact DParseOk.iface
      · simp only [hh, Bool.false_eq_true, if_false]
        have hrec : ∀ acc' prev', (∀ o ∈ acc', DItemFin o) →
            DParseOk (if last.isEof = true then .ok (acc', r.maxAfter, r.maxBefore) else dParseTokens fuel rest acc' prev' r.maxAfter r.maxBefore) := by
          intro acc' prev' hacc'
          by_cases hl : last.isEof = true
          · simp only [hl, if_true]
            refine ⟨Clean.ok _, ?_⟩
            intro its a b h
            simp only [Except.ok.injEq, Prod.mk.injEq] at h
            rw [← h.2.2, ← h.1]; exact ⟨hr.before, hacc'⟩
          · simp only [hl, Bool.false_eq_true, if_false]
            have : HasEof rest := by
              rcases hlast with h | h
              · exact absurd h hl
              · exact h
            exact ih rest acc' prev' r.maxAfter r.maxBefore this hnum' hacc' hr.before
        have hnew : ∀ it : DItem, DItemFin it →
            DParseOk (match (acc.foldl (fun o old => match o with
                | none => none
                | some true => some true
                | some false => dItemsOverlap old it) (some false)) with
              | none => .error .invalidOperation
              | some true => .error .iface
              | some false =>
                let acc' := acc ++ [it]
                if last.isEof = true then .ok (acc', r.maxAfter, r.maxBefore)
                else dParseTokens fuel rest acc' (some it) r.maxAfter r.maxBefore) := by
          intro it hit
          obtain ⟨x, hx⟩ := overlapFold_some acc it hacc hit false
          rw [hx]
          cases x
          · simp only []
            apply hrec
            intro o ho
            rcases List.mem_append.mp ho with h | h
            · exact hacc o h
            · simp only [List.mem_singleton] at h; subst h; exact hit
          · exact DParseOk.iface
        cases hlo : r.lower with
        | none =>
          cases hup : r.upper with
          | none =>
            simp only []
            by_cases hell : r.ell = true
            · simp only [hell, if_true]; exact DParseOk.iface
            · simp only [hell, Bool.false_eq_true, if_false]
              exact hrec acc prev hacc
          | some u =>
            simp only []
            exact hnew ⟨none, some u⟩ ⟨FinOpt.none, FinOpt.some (hr.upper u hup)⟩
        | some l =>
          have hl := hr.lower l hlo
          simp only []
          by_cases hell : r.ell = true
          · simp only [hell, if_true]
            cases hup : r.upper with
            | none =>
              simp only []
              exact hnew ⟨some l, none⟩ ⟨FinOpt.some hl, FinOpt.none⟩
            | some u =>
              have hu := hr.upper u hup
              obtain ⟨x, hx⟩ := le?_some l u hl hu
              simp only [hx]
              cases x
              · exact DParseOk.iface
              · exact hnew ⟨some l, some u⟩ ⟨FinOpt.some hl, FinOpt.some hu⟩
          · simp only [hell, Bool.false_eq_true, if_false]
            exact hnew ⟨some l, some l⟩ ⟨FinOpt.some hl, FinOpt.some hl⟩

theorem tokenizeWithoutSpace_numOk (s : Str) (toks : List Tok) (h : tokenizeWithoutSpace s = .ok toks) : NumOk toks := by
  unfold tokenizeWithoutSpace at h
  split at h
  · cases h
  · rename_i ts hlex
    simp only [Except.ok.injEq] at h
    subst h
    unfold lexAll at hlex
    split at hlex
    · cases hlex
    · have hn := lexLoop_numOk _ _ _ _ ts hlex (by intro x hx; simp at hx)
      intro x hx
      exact hn x (List.mem_filter.mp hx).1

/-- **`DecimalRange(description)` fails only with an interface error**, whatever the description (and the default)
contain: no `decimal.InvalidOperation` (a NUMBER token never spells a NaN or an infinity, so every comparison of limits
is defined), no `StopIteration` (the token list always ends in the end marker), no failed `assert` on precision and
scale; `unsupported` marks input outside the modelled tokenizer / `Decimal()` fragment. -/
theorem DecimalRange.parse_clean (description : Str) (default : Option Str) : Clean (DecimalRange.parse description default) := by
  unfold DecimalRange.parse
  simp only []
  split
  · exact Clean.ok _
  · rename_i d _
    split
    · rename_i e he
      intro e' h; cases h
      unfold liftLex at he
      split at he
      · cases he
      · cases he; exact Or.inl rfl
      · cases he; exact Or.inr rfl
    · rename_i toks htok
      have hinv : HasEof toks ∧ NumOk toks := by
        unfold liftLex at htok
        split at htok
        · rename_i a ha
          cases htok
          exact ⟨(tokenizeWithoutSpace_inv _ _ ha).1, tokenizeWithoutSpace_numOk _ _ ha⟩
        · cases htok
        · cases htok
      obtain ⟨hclean, hb⟩ := dParseTokens_ok (toks.length + 1) toks [] none 0 0 hinv.1 hinv.2 (by intro o ho; simp at ho) (Int.le_refl 0)
      split
      · rename_i e he
        intro e' h; cases h; exact hclean e he
      · rename_i its after before hp
        have : ¬ before < 0 := by have := (hb its after before hp).1; omega
        simp only [this, if_false]
        exact Clean.ok _

/-- every limit of a parsed decimal range is a finite decimal -/
def DecimalRange.Fin (r : DecimalRange) : Prop := ∀ its, r.items = some its → ∀ it ∈ its, DItemFin it

theorem DecimalRange.parse_fin (description : Str) (default : Option Str) (r : DecimalRange)
    (h : DecimalRange.parse description default = .ok r) : r.Fin := by
  unfold DecimalRange.parse at h
  simp only [] at h
  split at h
  · cases h; intro its hits; cases hits
  · split at h
    · cases h
    · rename_i toks htok
      have hinv : HasEof toks ∧ NumOk toks := by
        unfold liftLex at htok
        split at htok
        · rename_i a ha
          cases htok
          exact ⟨(tokenizeWithoutSpace_inv _ _ ha).1, tokenizeWithoutSpace_numOk _ _ ha⟩
        · cases htok
        · cases htok
      obtain ⟨_, hb⟩ := dParseTokens_ok (toks.length + 1) toks [] none 0 0 hinv.1 hinv.2 (by intro o ho; simp at ho) (Int.le_refl 0)
      split at h
      · cases h
      · rename_i its after before hp
        split at h
        · cases h
        · cases h
          intro its' hits
          cases hits
          exact (hb its after before hp).2

theorem dValidateLoop_some (v : Dec) (hv : v.isFin = true) : ∀ its : List DItem, (∀ it ∈ its, DItemFin it) →
    ∃ x, dValidateLoop v its = some x := by
  intro its
  induction its with
  | nil => intro _; exact ⟨false, rfl⟩
  | cons it rest ih =>
    intro h
    obtain ⟨x, hx⟩ := contains?_some it v (h it (by simp)) hv
    unfold dValidateLoop
    rw [hx]
    cases x
    · exact ih (fun o ho => h o (by simp [ho]))
    · exact ⟨true, rfl⟩

/-- a finite value compared with a parsed decimal range never raises `InvalidOperation` -/
theorem DecimalRange.validate_some (r : DecimalRange) (hr : r.Fin) (v : Dec) (hv : v.isFin = true) : ∃ x, r.validate v = some x := by
  unfold DecimalRange.validate
  split
  · exact ⟨true, rfl⟩
  · rename_i its hits
    exact dValidateLoop_some v hv its (hr its hits)

end Cutplace
