import Cutplace.Proofs.RangeNorm
/-
`Range(description)` on a description written in the documented grammar: the three layers (text
passes, tokeniser, token loop) composed.
-/
set_option linter.unusedSimpArgs false

namespace Cutplace
open Cutplace.Spec

/-! ### spellings after the passes -/

theorem legal_mapSeps (σ : SepSp → SepSp) (d : RangeDesc) : ∀ sps, LegalSpelling d sps → LegalSpelling d (mapSeps σ d sps) := by
  induction d with
  | nil => intro _ _; trivial
  | cons it rest ih =>
    intro sps hl
    obtain ⟨hl1, hl2⟩ := hl
    refine ⟨?_, ?_⟩
    · simp only [mapSeps, List.headD_cons]
      cases it <;> exact hl1
    · simpa [mapSeps] using ih sps.tail hl2

theorem itemToks_mapSep (σ : SepSp → SepSp) (it : ItemD) (sp : ItemSp) : itemToks it (mapSep σ sp) = itemToks it sp := by
  cases it <;> rfl

theorem descToks_mapSeps (σ : SepSp → SepSp) (d : RangeDesc) : ∀ sps, descToks d (mapSeps σ d sps) = descToks d sps := by
  induction d with
  | nil => intro _; rfl
  | cons it rest ih =>
    intro sps
    cases rest with
    | nil => simp [descToks, mapSeps, itemToks_mapSep]
    | cons it2 rest2 =>
      have := ih sps.tail
      simp only [descToks, mapSeps, List.headD_cons, List.tail_cons, itemToks_mapSep] at this ⊢
      rw [this]

theorem allColon_after (d : RangeDesc) : ∀ sps, AllColon d (mapSeps sigmaTokenizable d (mapSeps sigmaReplace d sps)) := by
  induction d with
  | nil => intro _; trivial
  | cons it rest ih =>
    intro sps
    refine ⟨?_, ?_⟩
    · simp only [mapSeps, List.headD_cons, mapSep]
      cases (sps.headD {}).sep <;> rfl
    · simpa [mapSeps] using ih sps.tail

/-- both passes together spell every separator as a colon -/
theorem passes_render (d : RangeDesc) (sps : List ItemSp) (hl : LegalSpelling d sps) :
    tokenizable none false (replaceAll ['.', '.', '.'] [ellipsisChar] (render d sps)) =
      render d (mapSeps sigmaTokenizable d (mapSeps sigmaReplace d sps)) := by
  have h1 := pass_render pass_replace d sps hl
  have h2 := pass_render pass_tokenizable d (mapSeps sigmaReplace d sps) (legal_mapSeps _ d sps hl)
  unfold dots3 at h1
  rw [h1, h2]

/-! ### a rendered description is not blank -/

theorem mem_lstrip (s : Str) (c : Char) (hc : c ∈ s) (hs : isPySpace c = false) : c ∈ lstrip s := by
  induction s with
  | nil => simp at hc
  | cons x xs ih =>
    simp only [lstrip]
    split
    · rename_i hx
      rcases List.mem_cons.mp hc with rfl | h
      · rw [hs] at hx; cases hx
      · exact ih h
    · exact hc

theorem strip_nonempty_of_mem (s : Str) (c : Char) (hc : c ∈ s) (hs : isPySpace c = false) : (strip s).isEmpty = false := by
  have h1 := mem_lstrip s c hc hs
  have h2 := mem_lstrip (lstrip s).reverse c (by simpa using h1) hs
  unfold strip rstrip
  cases h : (lstrip (lstrip s).reverse).reverse with
  | nil =>
    have : lstrip (lstrip s).reverse = [] := by simpa using h
    rw [this] at h2; simp at h2
  | cons _ _ => rfl

theorem renderLimit_visible (sp : LimitSp) (pm : Nat) (v : Int) (hl : sp.Legal v) :
    ∃ c ∈ renderLimit sp pm v, isPySpace c = false := by
  cases sp with
  | dec =>
    cases hs : natRepr v.natAbs with
    | nil => exact absurd hs (natRepr_ne_nil _)
    | cons c cs =>
      refine ⟨c, by simp [Spec.renderLimit, hs], ?_⟩
      have hc : c ∈ natRepr v.natAbs := by simp [hs]
      obtain ⟨d, hd, rfl⟩ := List.mem_map.mp hc
      exact digitChar_not_space d (digits_lt10 _ d hd)
  | hex bigX up => exact ⟨'0', by simp [Spec.renderLimit], by decide⟩
  | quoted dq => exact ⟨quoteChar dq, by simp [Spec.renderLimit, quoteChar], by cases dq <;> decide⟩
  | sym caps =>
    obtain ⟨c, cs, hs, hall⟩ := symText_letters caps v hl
    have : Spec.renderLimit (.sym caps) pm v = symText caps v := rfl
    exact ⟨c, by rw [this, hs]; simp, letter_not_space c (hall c (by simp))⟩

theorem renderSep_visible (s : SepSp) : ∃ c ∈ renderSep s, isPySpace c = false := by
  cases s
  · exact ⟨'.', by simp [renderSep], by decide⟩
  · exact ⟨':', by simp [renderSep], by decide⟩
  · exact ⟨ellipsisChar, by simp [renderSep], by decide⟩

theorem renderItem_visible (it : ItemD) (sp : ItemSp) (hl : sp.Legal it) : ∃ c ∈ renderItem it sp, isPySpace c = false := by
  cases sp with
  | mk lo hi sep pad =>
    obtain ⟨p0, pm, p1, p2, p3⟩ := pad
    cases it with
    | single v =>
      obtain ⟨c, hc, hs⟩ := renderLimit_visible lo pm v hl
      exact ⟨c, by simp [renderItem, hc], hs⟩
    | closed l u =>
      obtain ⟨c, hc, hs⟩ := renderLimit_visible lo pm l hl.1
      exact ⟨c, by simp [renderItem, hc], hs⟩
    | from_ l =>
      obtain ⟨c, hc, hs⟩ := renderLimit_visible lo pm l hl
      exact ⟨c, by simp [renderItem, hc], hs⟩
    | upto u =>
      obtain ⟨c, hc, hs⟩ := renderSep_visible sep
      exact ⟨c, by simp [renderItem, hc], hs⟩

theorem render_not_blank (d : RangeDesc) (sps : List ItemSp) (hne : d ≠ []) (hl : LegalSpelling d sps) :
    (strip (render d sps)).isEmpty = false := by
  cases d with
  | nil => exact absurd rfl hne
  | cons it rest =>
    obtain ⟨c, hc, hs⟩ := renderItem_visible it (sps.headD {}) hl.1
    apply strip_nonempty_of_mem _ c _ hs
    cases rest with
    | nil => simpa [render] using hc
    | cons it2 rest2 =>
      simp only [render, List.mem_append]
      exact Or.inl (Or.inl hc)

/-! ### enough fuel for the token loop -/

theorem limitToks_ne_nil (sp : LimitSp) (v : Int) : limitToks sp v ≠ [] := by
  cases sp <;> simp [limitToks]

theorem itemToks_length_pos (it : ItemD) (sp : ItemSp) : 1 ≤ (itemToks it sp).length := by
  cases it with
  | single v =>
    have := limitToks_ne_nil sp.lo v
    simp only [itemToks]
    cases h : limitToks sp.lo v with
    | nil => exact absurd h this
    | cons _ _ => simp
  | closed l u => simp [itemToks]; omega
  | from_ l => simp [itemToks]
  | upto u => simp [itemToks]

theorem descToks_length (d : RangeDesc) : ∀ sps, d.length ≤ (descToks d sps).length := by
  induction d with
  | nil => intro _; simp
  | cons it rest ih =>
    intro sps
    have h1 := itemToks_length_pos it (sps.headD {})
    cases rest with
    | nil => simp [descToks]
    | cons it2 rest2 =>
      have := ih sps.tail
      simp only [descToks, List.length_append, List.length_cons] at this ⊢
      omega

/-- **`Range(description)` on the documented grammar.**  Every well-formed description (at least one
item, lower ≤ upper, items pairwise disjoint), written with any legal spelling of its limits
(decimal, hexadecimal, quoted character, symbolic name; optional minus sign; any of `...`, `:`, `…`
as separator; blanks between the tokens), is accepted and parsed into exactly the items it denotes. -/
theorem parse_render (d : RangeDesc) (sps : List ItemSp) (hw : WellFormed d) (hl : LegalSpelling d sps)
    (hc : ConvertibleSpelling d sps) (default : Option Str) :
    Range.parse (render d sps) default = .ok (rangeOfItems (denote d)) := by
  obtain ⟨hne, hwf, hdis⟩ := hw
  have hblank := render_not_blank d sps hne hl
  have hpass := passes_render d sps hl
  have hlex := tokenize_render d _ (allColon_after d sps) (legal_mapSeps _ d _ (legal_mapSeps _ d sps hl))
  rw [descToks_mapSeps, descToks_mapSeps] at hlex
  have hparse := parseTokens_desc d sps [] ((descToks d sps).length + 1) hne hl hc (by simpa using hwf) (by simpa using hdis)
    (by have := descToks_length d sps; omega)
  unfold Range.parse
  simp only [hblank, Bool.not_false, if_true, hpass, hlex, liftLex]
  simp only [denote, List.map_nil, List.nil_append] at hparse
  rw [hparse]
  rfl

/-! ### a handier form of the convertibility hypothesis -/

/-- every limit of the description has fewer than `maxStrDigits` + 1 decimal digits -/
def BoundedLimits (d : RangeDesc) : Prop :=
  ∀ it ∈ d, (∀ l, it.lo = some l → l.natAbs < 10 ^ maxStrDigits) ∧ (∀ u, it.hi = some u → u.natAbs < 10 ^ maxStrDigits)

theorem limit_convertible (sp : LimitSp) (v : Int) (h : v.natAbs < 10 ^ maxStrDigits) : sp.Convertible v := by
  cases sp with
  | dec => exact digits_within_limit _ h
  | hex _ _ => trivial
  | quoted _ => trivial
  | sym _ => trivial

theorem convertible_of_bounded (d : RangeDesc) : ∀ sps, BoundedLimits d → ConvertibleSpelling d sps := by
  induction d with
  | nil => intro _ _; trivial
  | cons it rest ih =>
    intro sps hb
    refine ⟨?_, ih sps.tail (fun x hx => hb x (by simp [hx]))⟩
    obtain ⟨h1, h2⟩ := hb it (by simp)
    cases it with
    | single v => exact limit_convertible _ v (h1 v rfl)
    | closed l u => exact ⟨limit_convertible _ l (h1 l rfl), limit_convertible _ u (h2 u rfl)⟩
    | from_ l => exact limit_convertible _ l (h1 l rfl)
    | upto u => exact limit_convertible _ u (h2 u rfl)

end Cutplace
