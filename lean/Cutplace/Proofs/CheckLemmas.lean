import Cutplace.Model.Checks
namespace Cutplace

/-- the (key, line) pairs of the rows of `rs` that the check let pass (verdict `none`) -/
def passedKeys (keyCols : List Nat) : List (Row × Nat) → List (Option Veto) → List (List Str × Nat)
  | (row, line) :: rs, none :: vs => (keyOf keyCols row, line) :: passedKeys keyCols rs vs
  | _ :: rs, some _ :: vs => passedKeys keyCols rs vs
  | _, _ => []

theorem seqVerdicts_cons {σ} (c : Check σ) (s : σ) (row : Row) (line : Nat) (rest : List (Row × Nat)) :
    seqVerdicts c s ((row, line) :: rest) =
      ((c.row s row line).2 :: (seqVerdicts c (c.row s row line).1 rest).1, (seqVerdicts c (c.row s row line).1 rest).2) := rfl

theorem unique_row_pass (K : List Nat) (seen : List (List Str × Nat)) (row : Row) (line : Nat)
    (h : lookupKey (keyOf K row) seen = none) :
    (isUniqueCheck K).row (.unique seen) row line = (.unique (seen ++ [(keyOf K row, line)]), none) := by
  simp [isUniqueCheck, h]

theorem unique_row_veto (K : List Nat) (seen : List (List Str × Nat)) (row : Row) (line first : Nat)
    (h : lookupKey (keyOf K row) seen = some first) :
    (isUniqueCheck K).row (.unique seen) row line = (.unique seen, some ⟨some first⟩) := by
  simp [isUniqueCheck, h]

theorem distinct_row (col : Nat) (cmp : Cmp) (n : Int) (vals : List Str) (row : Row) (line : Nat) :
    (distinctCountCheck col cmp n).row (.distinct vals) row line =
      (if vals.contains (row.getD col []) then .distinct vals else .distinct (vals ++ [row.getD col []]), none) := by
  simp [distinctCountCheck]

theorem seqVerdicts_append {σ} (c : Check σ) (s : σ) (a b : List (Row × Nat)) :
    seqVerdicts c s (a ++ b) =
      ((seqVerdicts c s a).1 ++ (seqVerdicts c (seqVerdicts c s a).2 b).1, (seqVerdicts c (seqVerdicts c s a).2 b).2) := by
  induction a generalizing s with
  | nil => simp [seqVerdicts]
  | cons x xs ih =>
    obtain ⟨row, line⟩ := x
    simp only [List.cons_append, seqVerdicts]
    rw [ih]

theorem passedKeys_append (K : List Nat) (a b : List (Row × Nat)) (va vb : List (Option Veto))
    (h : a.length = va.length) :
    passedKeys K (a ++ b) (va ++ vb) = passedKeys K a va ++ passedKeys K b vb := by
  induction a generalizing va with
  | nil => cases va <;> simp_all [passedKeys]
  | cons x xs ih =>
    obtain ⟨row, line⟩ := x
    cases va with
    | nil => simp at h
    | cons v vs =>
      simp only [List.length_cons, Nat.add_right_cancel_iff] at h
      cases v <;> simp [passedKeys, ih vs h]

theorem seqVerdicts_length {σ} (c : Check σ) (s : σ) (rs : List (Row × Nat)) :
    (seqVerdicts c s rs).1.length = rs.length := by
  induction rs generalizing s with
  | nil => rfl
  | cons x xs ih => obtain ⟨row, line⟩ := x; simp [seqVerdicts, ih]

/-- the state of `IsUniqueCheck` is exactly the keys (with the line of their row) of the rows it let
pass, in input order -/
theorem unique_state (K : List Nat) (seen : List (List Str × Nat)) (rs : List (Row × Nat)) :
    (seqVerdicts (isUniqueCheck K) (.unique seen) rs).2 =
      .unique (seen ++ passedKeys K rs (seqVerdicts (isUniqueCheck K) (.unique seen) rs).1) := by
  induction rs generalizing seen with
  | nil => simp [seqVerdicts, passedKeys]
  | cons x xs ih =>
    obtain ⟨row, line⟩ := x
    rw [seqVerdicts_cons]
    cases hl : lookupKey (keyOf K row) seen with
    | some first =>
      rw [unique_row_veto K seen row line first hl]
      simp [passedKeys, ih seen]
    | none =>
      rw [unique_row_pass K seen row line hl]
      simp [passedKeys, ih]


end Cutplace
