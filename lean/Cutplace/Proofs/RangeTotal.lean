import Cutplace.Model.Range
/-
`Range(description)` only ever fails with an interface error (or leaves the modelled fragment): no
other exception class can come out of the tokenizer, the token loop or the value conversions.
-/
set_option linter.unusedSimpArgs false

namespace Cutplace

/-- an outcome whose failure, if any, is a cutplace interface error or "outside the model" -/
def Clean {α : Type} (o : Out α) : Prop := ∀ e, o = .error e → e = .iface ∨ e = .unsupported

theorem Clean.ok {α : Type} (a : α) : Clean (.ok a : Out α) := by intro e h; cases h
theorem Clean.iface {α : Type} : Clean (.error .iface : Out α) := by intro e h; cases h; exact Or.inl rfl
theorem Clean.unsupported {α : Type} : Clean (.error .unsupported : Out α) := by intro e h; cases h; exact Or.inr rfl

/-! ### `unicode_escape` -/

def EscErr (o : Out Str) : Prop := ∀ e, o = .error e → e = .unsupported ∨ e = .unicodeDecode

theorem EscErr.map {o : Out Str} (h : EscErr o) (f : Str → Str) : EscErr (o.map f) := by
  intro e he
  cases o with
  | error e' => simp [Except.map] at he; subst he; exact h e' rfl
  | ok a => simp [Except.map] at he

theorem EscErr.err_unsupported : EscErr (.error .unsupported) := by intro e h; cases h; exact Or.inl rfl
theorem EscErr.err_decode : EscErr (.error .unicodeDecode) := by intro e h; cases h; exact Or.inr rfl
theorem EscErr.ok (a : Str) : EscErr (.ok a) := by intro e h; cases h

theorem unicodeEscape_errors (fuel : Nat) (s : Str) : EscErr (unicodeEscape fuel s) := by
  fun_induction unicodeEscape fuel s
  all_goals first
    | exact EscErr.err_unsupported
    | exact EscErr.err_decode
    | exact EscErr.ok _
    | assumption
    | (apply EscErr.map; assumption)
    | skip

/-! ### token values -/

theorem codeForString_clean (value : Str) (hne : value ≠ []) : Clean (codeForString value) := by
  unfold codeForString
  cases value with
  | nil => exact absurd rfl hne
  | cons q rest =>
    simp only []
    split
    · split
      · exact Clean.ok _
      · have he := unicodeEscape_errors (2 * rest.dropLast.length + 2) rest.dropLast
        split
        · exact Clean.iface
        · rename_i e hne' heq
          rcases he e heq with rfl | rfl
          · exact Clean.unsupported
          · exact absurd rfl hne'
        · exact Clean.ok _
        · exact Clean.iface
    · exact Clean.iface

theorem codeForNumber_clean (value : Str) : Clean (codeForNumber value) := by
  unfold codeForNumber; split
  · exact Clean.ok _
  · exact Clean.iface

theorem codeForSymbolic_clean (value : Str) : Clean (codeForSymbolic value) := by
  unfold codeForSymbolic
  split
  · exact Clean.unsupported
  · split
    · exact Clean.ok _
    · exact Clean.iface

theorem Clean.map {α β : Type} {o : Out α} (h : Clean o) (f : α → β) : Clean (o.map f) := by
  intro e he
  cases o with
  | error e' => simp [Except.map] at he; subst he; exact h e' rfl
  | ok a => simp [Except.map] at he

/-! ### the item loop -/

def HasEof (toks : List Tok) : Prop := ∃ t ∈ toks, t.isEof = true
def StrOk (toks : List Tok) : Prop := ∀ t ∈ toks, t.kind = .string → t.text ≠ []

/-- what the item loop guarantees: only clean failures; on success the stopping token is the end
marker or an end marker is still ahead -/
def ItemLoopOk (o : Out (Regs × Tok × List Tok)) : Prop :=
  Clean o ∧ ∀ r t rest, o = .ok (r, t, rest) → (t.isEof = true ∨ HasEof rest) ∧ StrOk rest

theorem ItemLoopOk.iface : ItemLoopOk (.error .iface) := ⟨Clean.iface, by intro r t rest h; cases h⟩

theorem ItemLoopOk.of_clean_error (e : PyExn) (h : Clean (.error e : Out (Int × Bool))) :
    ItemLoopOk (.error e) :=
  ⟨by intro e' he; cases he; exact h e rfl, by intro r t rest h'; cases h'⟩

theorem itemLoop_ok (toks : List Tok) : ∀ r : Regs, HasEof toks → StrOk toks → ItemLoopOk (itemLoop r toks) := by
  induction toks with
  | nil => intro r h _; obtain ⟨t, ht, _⟩ := h; simp at ht
  | cons t ts ih =>
    intro r heof hstr
    have hstr' : StrOk ts := fun x hx => hstr x (by simp [hx])
    rw [itemLoop]
    by_cases hstop : (t.isEof || t.isComma) = true
    · simp only [hstop, if_true]
      refine ⟨Clean.ok _, ?_⟩
      intro r' t' rest h
      simp only [Except.ok.injEq, Prod.mk.injEq] at h
      obtain ⟨_, rfl, rfl⟩ := h
      refine ⟨?_, hstr'⟩
      by_cases he : t.isEof = true
      · exact Or.inl he
      · right
        obtain ⟨x, hx, hxe⟩ := heof
        rcases List.mem_cons.mp hx with rfl | hx'
        · exact absurd hxe he
        · exact ⟨x, hx', hxe⟩
    · have hne : t.isEof = false := by
        cases h : t.isEof with
        | false => rfl
        | true => simp [h] at hstop
      have heof' : HasEof ts := by
        obtain ⟨x, hx, hxe⟩ := heof
        rcases List.mem_cons.mp hx with rfl | hx'
        · rw [hne] at hxe; cases hxe
        · exact ⟨x, hx', hxe⟩
      simp only [hstop, Bool.false_eq_true, if_false]
      split
      · -- a limit token
        rename_i hkind
        have hval : Clean (if t.kind == .name then (codeForSymbolic t.text).map (fun v => (v, r.hyph))
            else if t.kind == .number then (codeForNumber t.text).map (fun v => (if r.hyph then -v else v, false))
            else (codeForString t.text).map (fun v => (v, r.hyph))) := by
          split
          · exact (codeForSymbolic_clean _).map _
          · split
            · exact (codeForNumber_clean _).map _
            · rename_i h1 h2
              have hk : t.kind = .string := by
                cases hk : t.kind <;> simp_all
              exact (codeForString_clean _ (hstr t (by simp) hk)).map _
        split
        · rename_i e heq
          exact ItemLoopOk.of_clean_error e (by intro e' he; cases he; exact hval e heq)
        · repeat' split
          all_goals first
            | exact ih _ heof' hstr'
            | exact ItemLoopOk.iface
      · repeat' split
        all_goals first
          | exact ih _ heof' hstr'
          | exact ItemLoopOk.iface

theorem decideItem_clean (r : Regs) : Clean (decideItem r) := by
  unfold decideItem
  repeat' split
  all_goals first | exact Clean.ok _ | exact Clean.iface

theorem addItem_clean (acc : Items) (res : Option Item) : Clean (addItem acc res) := by
  cases res with
  | none => exact Clean.ok _
  | some it => simp only [addItem]; split; exact Clean.iface; exact Clean.ok _

theorem parseTokens_clean (fuel : Nat) : ∀ (toks : List Tok) (acc : Items), HasEof toks → StrOk toks →
    Clean (parseTokens fuel toks acc) := by
  induction fuel with
  | zero => intro _ _ _ _; exact Clean.unsupported
  | succ fuel ih =>
    intro toks acc heof hstr
    obtain ⟨hclean, hres⟩ := itemLoop_ok toks {} heof hstr
    rw [parseTokens]
    split
    · rename_i e heq
      intro e' he; cases he; exact hclean e heq
    · rename_i r last rest heq
      obtain ⟨hlast, hstr'⟩ := hres r last rest heq
      split
      · rename_i e hd
        intro e' he; cases he; exact decideItem_clean r e hd
      · rename_i res hd
        split
        · rename_i e hacc
          intro e' he; cases he; exact addItem_clean acc res e hacc
        · rename_i a hacc
          by_cases hl : last.isEof = true
          · simp only [hl, if_true]; exact Clean.ok _
          · simp only [hl, Bool.false_eq_true, if_false]
            have : HasEof rest := by
              rcases hlast with h | h
              · exact absurd h hl
              · exact h
            exact ih rest a this hstr'

/-! ### what the lexer hands over -/

theorem strOk_cons (t : Tok) (acc : List Tok) (ht : t.kind = .string → t.text ≠ []) (hacc : StrOk acc) : StrOk (t :: acc) := by
  intro x hx
  rcases List.mem_cons.mp hx with rfl | h
  · exact ht
  · exact hacc x h

theorem lexLoop_inv (fuel : Nat) : ∀ (s : Str) (depth : Nat) (acc : List Tok) (ts : List Tok),
    lexLoop fuel s depth acc = .ok ts → StrOk acc → HasEof ts ∧ StrOk ts := by
  induction fuel with
  | zero => intro s depth acc ts h _; simp [lexLoop] at h
  | succ fuel ih =>
    intro s depth acc ts h hacc
    have fin : ∀ extra : List Tok, (∀ t ∈ extra, t.kind ≠ .string) →
        HasEof (acc.reverse ++ extra ++ [⟨.endmarker, []⟩]) ∧ StrOk (acc.reverse ++ extra ++ [⟨.endmarker, []⟩]) := by
      intro extra hextra
      refine ⟨⟨⟨.endmarker, []⟩, by simp, rfl⟩, ?_⟩
      intro x hx
      simp only [List.mem_append, List.mem_reverse, List.mem_singleton] at hx
      rcases hx with (hx | hx) | rfl
      · exact hacc x hx
      · intro hk; exact absurd hk (hextra x hx)
      · intro hk; cases hk
    rw [lexLoop.eq_def] at h
    simp only [] at h
    repeat' (split at h)
    all_goals try (cases h; done)
    all_goals first
      | (simp only [Except.ok.injEq] at h
         subst h
         constructor
         · exact ⟨⟨.endmarker, []⟩, by simp, rfl⟩
         · intro x hx hk
           simp only [List.mem_append, List.mem_reverse, List.mem_cons, List.mem_singleton, List.not_mem_nil, or_false] at hx
           rcases hx with hx | hx
           · exact hacc x hx hk
           · first
               | (subst hx; cases hk)
               | (rcases hx with rfl | rfl <;> cases hk))
      | exact ih _ _ _ ts h hacc
      | exact ih _ _ _ ts h (strOk_cons _ _ (by first | (intro hk; simp at hk; done) | (intro _; simp)) hacc)

theorem tokenizeWithoutSpace_inv (s : Str) (toks : List Tok) (h : tokenizeWithoutSpace s = .ok toks) :
    HasEof toks ∧ StrOk toks := by
  unfold tokenizeWithoutSpace at h
  split at h
  · cases h
  · rename_i ts hlex
    simp only [Except.ok.injEq] at h
    subst h
    unfold lexAll at hlex
    split at hlex
    · cases hlex
    · obtain ⟨⟨t, ht, hte⟩, hstr⟩ := lexLoop_inv _ _ _ _ ts hlex (by intro x hx; simp at hx)
      refine ⟨⟨t, ?_, hte⟩, ?_⟩
      · simp only [List.mem_filter, ht, true_and]
        have : t.kind = .endmarker := by
          simpa [Tok.isEof] using hte
        simp [this]
      · intro x hx
        exact hstr x (List.mem_filter.mp hx).1

/-- **`Range(description)` fails only with an interface error**, whatever the description (and the
default) contain; `unsupported` marks input outside the modelled tokenizer fragment. -/
theorem Range.parse_clean (description : Str) (default : Option Str) : Clean (Range.parse description default) := by
  unfold Range.parse
  simp only []
  split
  · exact Clean.ok _
  · rename_i d _
    split
    · rename_i e he
      intro e' h; cases h
      -- errors of the lexer: a tokenizer error becomes an interface error
      unfold liftLex at he
      split at he
      · cases he
      · cases he; exact Or.inl rfl
      · cases he; exact Or.inr rfl
    · rename_i toks htok
      have hinv : HasEof toks ∧ StrOk toks := by
        unfold liftLex at htok
        split at htok
        · rename_i a ha
          cases htok
          exact tokenizeWithoutSpace_inv _ _ ha
        · cases htok
        · cases htok
      have hp := parseTokens_clean (toks.length + 1) toks [] hinv.1 hinv.2
      split
      · rename_i e he
        intro e' h; cases h; exact hp e he
      · exact Clean.ok _

end Cutplace
