import Cutplace.Spec.Fixed
namespace Cutplace
open Cutplace.Spec

/-! ### `takeRow` -/

theorem takeRow_sound (ws : List Nat) (s : Str) (r : List Str) (rest : Str)
    (h : takeRow ws s = some (r, rest)) : r.map List.length = ws ∧ s = r.flatten ++ rest := by
  induction ws generalizing s r with
  | nil => simp [takeRow] at h; obtain ⟨rfl, rfl⟩ := h; simp
  | cons w ws ih =>
    simp only [takeRow] at h
    split at h
    · simp at h
    · rename_i hlen
      cases hr : takeRow ws (s.drop w) with
      | none => simp [hr] at h
      | some p =>
        obtain ⟨r', rest'⟩ := p
        simp only [hr, Option.some.injEq, Prod.mk.injEq] at h
        obtain ⟨rfl, rfl⟩ := h
        obtain ⟨h1, h2⟩ := ih _ _ hr
        refine ⟨?_, ?_⟩
        · simp only [List.map_cons, List.length_take, h1]
          congr 1; omega
        · simp only [List.flatten_cons, List.append_assoc, ← h2, List.take_append_drop]

theorem takeRow_complete (ws : List Nat) (r : List Str) (rest : Str) (h : r.map List.length = ws) :
    takeRow ws (r.flatten ++ rest) = some (r, rest) := by
  induction r generalizing ws with
  | nil => simp at h; subst h; simp [takeRow]
  | cons x xs ih =>
    cases ws with
    | nil => simp at h
    | cons w ws =>
      simp only [List.map_cons, List.cons.injEq] at h
      obtain ⟨hw, hws⟩ := h
      simp only [takeRow, List.flatten_cons, List.append_assoc, List.length_append]
      have : ¬ (x.length + (xs.flatten.length + rest.length) < w) := by omega
      simp only [this, if_false]
      have hd : List.drop w (x ++ (xs.flatten ++ rest)) = xs.flatten ++ rest := by
        rw [← hw]; simp
      have ht : List.take w (x ++ (xs.flatten ++ rest)) = x := by
        rw [← hw]; simp
      rw [hd, ih ws hws, ht]

theorem takeRow_rest_shorter (ws : List Nat) (s : Str) (r : List Str) (rest : Str)
    (hne : ws ≠ []) (hpos : ∀ w ∈ ws, 1 ≤ w) (h : takeRow ws s = some (r, rest)) :
    rest.length < s.length := by
  obtain ⟨h1, h2⟩ := takeRow_sound ws s r rest h
  cases ws with
  | nil => exact absurd rfl hne
  | cons w ws =>
    cases r with
    | nil => simp at h1
    | cons x xs =>
      simp only [List.map_cons, List.cons.injEq] at h1
      have := hpos w (by simp)
      subst h2
      simp only [List.flatten_cons, List.length_append]
      omega

/-! ### the per-row loop of the reader -/

/-- a pushed-back character behaves exactly like a character still in the stream -/
theorem readFields_unread (ws : List Nat) (c : Char) (s : Str) (idx : Nat) (acc : List Str)
    (hne : ws ≠ []) (hpos : ∀ w ∈ ws, 1 ≤ w) :
    readFields ws (some c) s idx acc = readFields ws Option.none (c :: s) idx acc := by
  cases ws with
  | nil => exact absurd rfl hne
  | cons w ws =>
    have hw := hpos w (by simp)
    simp only [readFields, readN]
    by_cases h2 : w ≥ 2
    · have e1 : List.take w (c :: s) = c :: List.take (w - 1) s := by
        cases w with
        | zero => omega
        | succ k => simp
      have e2 : List.drop w (c :: s) = List.drop (w - 1) s := by
        cases w with
        | zero => omega
        | succ k => simp
      simp only [h2, if_true, e1, e2]
    · have : w = 1 := by omega
      subst this
      simp

theorem readFields_nil_eof (ws : List Nat) (hpos : ∀ w ∈ ws, 1 ≤ w) :
    readFields ws Option.none [] 0 [] = .eof := by
  induction ws with
  | nil => simp [readFields]
  | cons w ws ih =>
    simp only [readFields, readN, List.take_nil, List.drop_nil, List.length_nil, beq_self_eq_true, if_true]
    exact ih (fun w' hw' => hpos w' (by simp [hw']))

/-- reading one row from the stream is `takeRow` (for a stream that is not at its end, or when
some field of the row has already been read) -/
theorem readFields_eq_takeRow (ws : List Nat) (s : Str) (idx : Nat) (acc : List Str)
    (hpos : ∀ w ∈ ws, 1 ≤ w) (h : idx > 0 ∨ s ≠ []) :
    readFields ws Option.none s idx acc =
      (match takeRow ws s with
       | some (r, rest) => if (acc ++ r).isEmpty then .eof else .row (acc ++ r) rest
       | none => .error) := by
  induction ws generalizing s idx acc with
  | nil => simp [readFields, takeRow]
  | cons w ws ih =>
    have hw := hpos w (by simp)
    have hpos' : ∀ w' ∈ ws, 1 ≤ w' := fun w' hw' => hpos w' (by simp [hw'])
    rw [readFields]
    simp only [readN]
    by_cases hlen : s.length < w
    · -- too short
      have htr : takeRow (w :: ws) s = none := by simp [takeRow, hlen]
      rw [htr]
      by_cases h0 : (List.take w s).length = 0
      · -- nothing read: s = []
        have hs : s = [] := by
          cases s with
          | nil => rfl
          | cons c cs => simp at h0; omega
        rcases h with h | h
        · have : ((List.take w s).length == 0) = true := by simp [h0]
          simp only [this, if_true, h]
        · exact absurd hs h
      · have hne : ((List.take w s).length == 0) = false := by simpa using h0
        have hne2 : ((List.take w s).length == w) = false := by
          simp only [List.length_take, beq_eq_false_iff_ne, ne_eq]; omega
        simp only [hne, hne2, Bool.false_eq_true, if_false]
    · have htake : (List.take w s).length = w := by simp only [List.length_take]; omega
      have hne : ((List.take w s).length == 0) = false := by
        simp only [htake, beq_eq_false_iff_ne, ne_eq]; omega
      have heq : ((List.take w s).length == w) = true := by simp [htake]
      simp only [hne, heq, Bool.false_eq_true, if_false, if_true]
      rw [ih (s.drop w) (idx + 1) (acc ++ [s.take w]) hpos' (Or.inl (by omega))]
      cases hr : takeRow ws (s.drop w) with
      | none =>
        have htr : takeRow (w :: ws) s = none := by simp [takeRow, hlen, hr]
        rw [htr]
      | some p =>
        obtain ⟨r, rest⟩ := p
        have htr : takeRow (w :: ws) s = some (s.take w :: r, rest) := by simp [takeRow, hlen, hr]
        rw [htr]
        simp

/-! ### the line delimiter -/

theorem takeDelim_length (ld : LineDelim) (s r : Str) (h : takeDelim ld s = some r) : r.length ≤ s.length := by
  unfold takeDelim at h
  split at h <;> simp at h <;> subst h <;> simp <;> omega

/-- `_has_data_after_skipped_line_delimiter` on a stream that is not at its end, seen through the
grammar's `takeDelim`: a pushed-back character is a character of the remaining stream -/
theorem skipDelimiter_view (ld : LineDelim) (rest : Str) (h : rest ≠ []) :
    (match skipDelimiter ld rest with
     | .error => takeDelim ld rest = Option.none
     | .done => takeDelim ld rest = some []
     | .more r u => takeDelim ld rest = some (u.toList ++ r)) := by
  cases rest with
  | nil => exact absurd rfl h
  | cons c cs =>
    cases ld with
    | none => simp [skipDelimiter, takeDelim]
    | lf =>
      by_cases hc : c = '\n'
      · subst hc; simp [skipDelimiter, takeDelim, readN]
      · simp [skipDelimiter, takeDelim, readN, hc]
    | cr =>
      by_cases hc : c = '\r'
      · subst hc; simp [skipDelimiter, takeDelim, readN]
      · simp [skipDelimiter, takeDelim, readN, hc]
    | crlf =>
      cases cs with
      | nil =>
        by_cases hc : c = '\r'
        · subst hc; simp [skipDelimiter, takeDelim, readN]
        · simp [skipDelimiter, takeDelim, readN, hc]
      | cons d ds =>
        by_cases hc : c = '\r'
        · subst hc
          by_cases hd : d = '\n'
          · subst hd; simp [skipDelimiter, takeDelim, readN]
          · simp [skipDelimiter, takeDelim, readN, hd]
        · simp [skipDelimiter, takeDelim, readN, hc]
    | any =>
      by_cases hc : c = '\r'
      · subst hc
        cases cs with
        | nil => simp [skipDelimiter, takeDelim, readN]
        | cons d ds =>
          by_cases hd : d = '\n'
          · subst hd; simp [skipDelimiter, takeDelim, readN]
          · simp [skipDelimiter, takeDelim, readN, hd]
      · by_cases hc2 : c = '\n'
        · subst hc2; simp [skipDelimiter, takeDelim, readN]
        · simp [skipDelimiter, takeDelim, readN, hc, hc2]

/-! ### the reader loop is the grammar's left-to-right parse -/

theorem readFields_stream (ws : List Nat) (u : Option Char) (s : Str) (hne : ws ≠ []) (hpos : ∀ w ∈ ws, 1 ≤ w) :
    readFields ws u s 0 [] = readFields ws Option.none (u.toList ++ s) 0 [] := by
  cases u with
  | none => rfl
  | some c => simpa using readFields_unread ws c s 0 [] hne hpos

theorem fixedLoop_eq_parse (ws : List Nat) (ld : LineDelim) (hne : ws ≠ []) (hpos : ∀ w ∈ ws, 1 ≤ w) :
    ∀ (n fuel fuel2 : Nat) (u : Option Char) (s : Str) (acc : List (List Str)),
      (u.toList ++ s).length ≤ n → n < fuel → n < fuel2 →
      fixedLoop ws ld fuel u s acc = (fixedParse ws ld fuel2 (u.toList ++ s)).map (acc ++ ·) := by
  intro n
  induction n with
  | zero =>
    intro fuel fuel2 u s acc hlen hf hf2
    obtain ⟨f, rfl⟩ : ∃ f, fuel = f + 1 := ⟨fuel - 1, by omega⟩
    obtain ⟨g, rfl⟩ : ∃ g, fuel2 = g + 1 := ⟨fuel2 - 1, by omega⟩
    have ht : u.toList ++ s = [] := by
      cases h : u.toList ++ s with
      | nil => rfl
      | cons a b => rw [h] at hlen; simp at hlen
    rw [fixedLoop, readFields_stream ws u s hne hpos, ht, readFields_nil_eof ws hpos]
    simp [fixedParse]
  | succ n ih =>
    intro fuel fuel2 u s acc hlen hf hf2
    obtain ⟨f, rfl⟩ : ∃ f, fuel = f + 1 := ⟨fuel - 1, by omega⟩
    obtain ⟨g, rfl⟩ : ∃ g, fuel2 = g + 1 := ⟨fuel2 - 1, by omega⟩
    rw [fixedLoop, readFields_stream ws u s hne hpos]
    generalize ht : u.toList ++ s = t at hlen
    by_cases hte : t = []
    · subst hte
      rw [readFields_nil_eof ws hpos]
      simp [fixedParse]
    · rw [readFields_eq_takeRow ws t 0 [] hpos (Or.inr hte)]
      have hemp : t.isEmpty = false := by cases t <;> simp_all
      rw [fixedParse]
      simp only [hemp, Bool.false_eq_true, if_false, List.nil_append]
      cases htr : takeRow ws t with
      | none => simp
      | some p =>
        obtain ⟨r, rest⟩ := p
        obtain ⟨hr1, hr2⟩ := takeRow_sound ws t r rest htr
        have hrne : r.isEmpty = false := by
          cases r with
          | nil =>
            simp only [List.map_nil] at hr1
            exact absurd hr1.symm hne
          | cons _ _ => rfl
        have hshort := takeRow_rest_shorter ws t r rest hne hpos htr
        simp only [hrne, Bool.false_eq_true, if_false]
        by_cases hre : rest = []
        · subst hre
          simp only [List.isEmpty_nil, if_true, Option.map_some]
          cases ld with
          | none =>
            simp only [skipDelimiter]
            -- one more turn of the loop on the empty stream
            have hf' : 0 < f := by omega
            obtain ⟨f', rfl⟩ : ∃ f', f = f' + 1 := ⟨f - 1, by omega⟩
            rw [fixedLoop, readFields_nil_eof ws hpos]
          | lf => simp [skipDelimiter, readN]
          | cr => simp [skipDelimiter, readN]
          | crlf => simp [skipDelimiter, readN]
          | any => simp [skipDelimiter, readN]
        · have hremp : rest.isEmpty = false := by cases rest <;> simp_all
          simp only [hremp, Bool.false_eq_true, if_false]
          have hv := skipDelimiter_view ld rest hre
          cases hsd : skipDelimiter ld rest with
          | error =>
            rw [hsd] at hv; simp only at hv
            simp [hv]
          | done =>
            rw [hsd] at hv; simp only at hv
            have hg : 0 < g := by omega
            obtain ⟨g', rfl⟩ : ∃ g', g = g' + 1 := ⟨g - 1, by omega⟩
            simp [hv, fixedParse]
          | more r2 u2 =>
            rw [hsd] at hv; simp only at hv
            have hl2 := takeDelim_length ld rest _ hv
            simp only [hv]
            rw [ih f g u2 r2 (acc ++ [r]) (by omega) (by omega) (by omega)]
            simp [Option.map_map, Function.comp_def, List.append_assoc]

/-- **Refinement.** The transcription of `fixed_rows` (with its push-back register) computes exactly
the grammar's deterministic parse, for every input, non-empty width list of positive widths and
every line-delimiter setting. -/
theorem fixedRows_eq_spec (ws : List Nat) (ld : LineDelim) (s : Str) (hne : ws ≠ []) (hpos : ∀ w ∈ ws, 1 ≤ w) :
    fixedRows ws ld s = fixedSpec ws ld s := by
  have := fixedLoop_eq_parse ws ld hne hpos s.length (s.length + 2) (s.length + 2) Option.none s []
    (by simp) (by omega) (by omega)
  simpa [fixedRows, fixedSpec] using this

/-! ### the deterministic parse decides the grammar -/

theorem takeDelim_sound (ld : LineDelim) (rest rest2 : Str) (h : takeDelim ld rest = some rest2) :
    ∃ d, rest = d ++ rest2 ∧ DelimOk ld d rest2 := by
  cases ld with
  | none => simp [takeDelim] at h; subst h; exact ⟨[], rfl, rfl⟩
  | lf =>
    cases rest with
    | nil => simp [takeDelim] at h
    | cons c cs =>
      by_cases hc : c = '\n'
      · subst hc; simp [takeDelim] at h; subst h; exact ⟨['\n'], rfl, rfl⟩
      · simp [takeDelim, hc] at h
  | cr =>
    cases rest with
    | nil => simp [takeDelim] at h
    | cons c cs =>
      by_cases hc : c = '\r'
      · subst hc; simp [takeDelim] at h; subst h; exact ⟨['\r'], rfl, rfl⟩
      · simp [takeDelim, hc] at h
  | crlf =>
    cases rest with
    | nil => simp [takeDelim] at h
    | cons c cs =>
      cases cs with
      | nil => by_cases hc : c = '\r' <;> simp [takeDelim, hc] at h
      | cons d ds =>
        by_cases hc : c = '\r'
        · by_cases hd : d = '\n'
          · subst hc; subst hd; simp [takeDelim] at h; subst h; exact ⟨['\r', '\n'], rfl, rfl⟩
          · subst hc; simp [takeDelim, hd] at h
        · simp [takeDelim, hc] at h
  | any =>
    cases rest with
    | nil => simp [takeDelim] at h
    | cons c cs =>
      by_cases hc : c = '\r'
      · subst hc
        cases cs with
        | nil => simp [takeDelim] at h; subst h; exact ⟨['\r'], rfl, Or.inr (Or.inr ⟨rfl, by simp⟩)⟩
        | cons d ds =>
          by_cases hd : d = '\n'
          · subst hd; simp [takeDelim] at h; subst h; exact ⟨['\r', '\n'], rfl, Or.inr (Or.inl rfl)⟩
          · simp [takeDelim, hd] at h; subst h
            exact ⟨['\r'], rfl, Or.inr (Or.inr ⟨rfl, by simp [hd]⟩)⟩
      · by_cases hc2 : c = '\n'
        · subst hc2; simp [takeDelim] at h; subst h; exact ⟨['\n'], rfl, Or.inl rfl⟩
        · simp [takeDelim, hc, hc2] at h

theorem takeDelim_complete (ld : LineDelim) (d rest : Str) (h : DelimOk ld d rest) :
    takeDelim ld (d ++ rest) = some rest := by
  cases ld with
  | none => simp [DelimOk] at h; subst h; simp [takeDelim]
  | lf => simp [DelimOk] at h; subst h; simp [takeDelim]
  | cr => simp [DelimOk] at h; subst h; simp [takeDelim]
  | crlf => simp [DelimOk] at h; subst h; simp [takeDelim]
  | any =>
    simp only [DelimOk] at h
    rcases h with h | h | ⟨h, hh⟩
    · subst h; simp [takeDelim]
    · subst h; simp [takeDelim]
    · subst h
      cases rest with
      | nil => simp [takeDelim]
      | cons c cs =>
        have hc : c ≠ '\n' := by simpa using hh
        simp [takeDelim, hc]

theorem rowOk_flatten_ne_nil (ws : List Nat) (row : List Str) (hne : ws ≠ []) (hpos : ∀ w ∈ ws, 1 ≤ w)
    (h : RowOk ws row) : row.flatten ≠ [] := by
  unfold RowOk at h
  cases ws with
  | nil => exact absurd rfl hne
  | cons w ws =>
    cases row with
    | nil => simp at h
    | cons x xs =>
      simp only [List.map_cons, List.cons.injEq] at h
      have := hpos w (by simp)
      intro hf
      simp only [List.flatten_cons, List.append_eq_nil_iff] at hf
      have : x.length = 0 := by rw [hf.1]; rfl
      omega

theorem parses_nil (ws : List Nat) (ld : LineDelim) (rows : List (List Str)) (hne : ws ≠ []) (hpos : ∀ w ∈ ws, 1 ≤ w)
    (h : Parses ws ld [] rows) : rows = [] := by
  generalize hs : ([] : Str) = s at h
  cases h with
  | nil => rfl
  | last row hr => exact absurd hs.symm (rowOk_flatten_ne_nil ws row hne hpos hr)
  | cons row d rest rows' hr hd hp =>
    have := rowOk_flatten_ne_nil ws row hne hpos hr
    exfalso
    have h2 : row.flatten ++ d ++ rest = [] := hs.symm
    simp only [List.append_eq_nil_iff] at h2
    exact this h2.1.1

theorem fixedParse_sound (ws : List Nat) (ld : LineDelim) (fuel : Nat) (s : Str) (rows : List (List Str))
    (h : fixedParse ws ld fuel s = some rows) : Parses ws ld s rows := by
  induction fuel generalizing s rows with
  | zero => simp [fixedParse] at h
  | succ f ih =>
    rw [fixedParse] at h
    by_cases hs : s = []
    · subst hs; simp at h; subst h; exact .nil
    · have hemp : s.isEmpty = false := by cases s <;> simp_all
      simp only [hemp, Bool.false_eq_true, if_false] at h
      cases htr : takeRow ws s with
      | none => simp [htr] at h
      | some p =>
        obtain ⟨row, rest⟩ := p
        obtain ⟨hr1, hr2⟩ := takeRow_sound ws s row rest htr
        simp only [htr] at h
        by_cases hre : rest = []
        · subst hre
          simp at h; subst h
          rw [hr2, List.append_nil]
          exact .last row hr1
        · have hremp : rest.isEmpty = false := by cases rest <;> simp_all
          simp only [hremp, Bool.false_eq_true, if_false] at h
          cases htd : takeDelim ld rest with
          | none => simp [htd] at h
          | some rest2 =>
            simp only [htd, Option.map_eq_some_iff] at h
            obtain ⟨rows', hrows', rfl⟩ := h
            obtain ⟨d, hd1, hd2⟩ := takeDelim_sound ld rest rest2 htd
            rw [hr2, hd1, ← List.append_assoc]
            exact .cons row d rest2 rows' hr1 hd2 (ih rest2 rows' hrows')

theorem fixedParse_complete (ws : List Nat) (ld : LineDelim) (hne : ws ≠ []) (hpos : ∀ w ∈ ws, 1 ≤ w)
    (s : Str) (rows : List (List Str)) (h : Parses ws ld s rows) :
    ∀ fuel, s.length < fuel → fixedParse ws ld fuel s = some rows := by
  induction h with
  | nil => intro fuel hf; obtain ⟨f, rfl⟩ : ∃ f, fuel = f + 1 := ⟨fuel - 1, by omega⟩; simp [fixedParse]
  | last row hr =>
    intro fuel hf
    obtain ⟨f, rfl⟩ : ∃ f, fuel = f + 1 := ⟨fuel - 1, by omega⟩
    have hne' := rowOk_flatten_ne_nil ws row hne hpos hr
    have hemp : row.flatten.isEmpty = false := by cases h : row.flatten <;> simp_all
    have htr := takeRow_complete ws row [] hr
    rw [List.append_nil] at htr
    rw [fixedParse]
    simp [hemp, htr]
  | cons row d rest rows' hr hd hp ih =>
    intro fuel hf
    obtain ⟨f, rfl⟩ : ∃ f, fuel = f + 1 := ⟨fuel - 1, by omega⟩
    have hne' := rowOk_flatten_ne_nil ws row hne hpos hr
    have hemp : (row.flatten ++ d ++ rest).isEmpty = false := by
      cases h : row.flatten with
      | nil => exact absurd h hne'
      | cons _ _ => simp
    have htr : takeRow ws (row.flatten ++ d ++ rest) = some (row, d ++ rest) := by
      rw [List.append_assoc]; exact takeRow_complete ws row (d ++ rest) hr
    rw [fixedParse]
    simp only [hemp, Bool.false_eq_true, if_false, htr]
    by_cases hde : d ++ rest = []
    · simp only [List.append_eq_nil_iff] at hde
      obtain ⟨hd0, hr0⟩ := hde
      subst hd0; subst hr0
      have := parses_nil ws ld rows' hne hpos hp
      subst this
      simp
    · have hdemp : (d ++ rest).isEmpty = false := by cases h : d ++ rest <;> simp_all
      simp only [hdemp, Bool.false_eq_true, if_false, takeDelim_complete ld d rest hd]
      have hlen : rest.length < f := by
        simp only [List.length_append] at hf
        have : 0 < row.flatten.length := by cases h : row.flatten <;> simp_all
        omega
      rw [ih f hlen]
      rfl

end Cutplace
