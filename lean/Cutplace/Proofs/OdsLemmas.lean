import Cutplace.Spec.Ods
import Cutplace.Proofs.DigitLemmas
namespace Cutplace
open Cutplace.Spec

/-- run-length encoding is lossless -/
theorem expandRuns_runs {α} [DecidableEq α] (l : List α) : expandRuns (runs l) = l := by
  induction l with
  | nil => rfl
  | cons x xs ih =>
    simp only [runs]
    cases h : runs xs with
    | nil =>
      rw [h] at ih
      simp only [expandRuns] at ih ⊢
      simp [← ih, List.replicate]
    | cons p rest =>
      obtain ⟨y, n⟩ := p
      rw [h] at ih
      simp only []
      by_cases hxy : x = y
      · subst hxy
        simp only [if_true, expandRuns] at ih ⊢
        rw [← ih]
        simp [List.replicate_succ]
      · simp only [hxy, if_false, expandRuns] at ih ⊢
        rw [← ih]
        simp [List.replicate]

/-- every run has positive length -/
theorem runs_pos {α} [DecidableEq α] (l : List α) : ∀ p ∈ runs l, 1 ≤ p.2 := by
  induction l with
  | nil => simp [runs]
  | cons x xs ih =>
    simp only [runs]
    cases h : runs xs with
    | nil => simp
    | cons p rest =>
      obtain ⟨y, n⟩ := p
      rw [h] at ih
      simp only []
      by_cases hxy : x = y
      · subst hxy
        simp only [if_true]
        intro q hq
        rcases List.mem_cons.mp hq with rfl | hq
        · simp
        · exact ih q (by simp [hq])
      · simp only [hxy, if_false]
        intro q hq
        rcases List.mem_cons.mp hq with rfl | hq
        · simp
        · exact ih q hq

theorem runs_le {α} [DecidableEq α] (l : List α) : ∀ p ∈ runs l, p.2 ≤ l.length := by
  induction l with
  | nil => simp [runs]
  | cons x xs ih =>
    simp only [runs]
    cases h : runs xs with
    | nil => simp
    | cons p rest =>
      obtain ⟨y, n⟩ := p
      rw [h] at ih
      have hn : n ≤ xs.length := ih (y, n) (by simp)
      have hrest : ∀ q ∈ rest, q.2 ≤ xs.length := fun q hq => ih q (by simp [hq])
      simp only []
      by_cases hxy : x = y
      · simp only [hxy, if_true, List.mem_cons, List.length_cons]
        rintro q (rfl | hq)
        · simp; omega
        · have := hrest q hq; omega
      · simp only [hxy, if_false, List.mem_cons, List.length_cons]
        rintro q (rfl | rfl | hq)
        · simp
        · simp; omega
        · have := hrest q hq; omega

theorem natRepr_isAscii (n : Nat) : isAscii (natRepr n) = true := by
  unfold isAscii natRepr
  simp only [List.all_eq_true, decide_eq_true_eq]
  intro c hc
  obtain ⟨d, hd, rfl⟩ := List.mem_map.mp hc
  have : ∀ d, d < 10 → (digitChar d).toNat < 128 := by decide
  exact this d (digits_lt10 n d hd)

theorem pyInt_natRepr (n : Nat) (hd : (digits n).length ≤ maxStrDigits) : pyIntBase10 (natRepr n) = some (n : Int) := by
  unfold pyIntBase10 natRepr
  have hne := digits_ne_nil n
  have hlt := digits_lt10 n
  have hs := strip_digits (digits n) hne hlt [] (by simp)
  simp only [List.nil_append] at hs
  rw [hs, splitSign_digits _ hlt]
  simp only []
  rw [dropDigitUnderscores_digits _ hne hlt]
  have hd' : ¬ (List.map digitChar (digits n)).length > maxStrDigits := by simp only [List.length_map]; omega
  simp only [hd', map_digitVal_digitChar _ hlt, parse_digits, Bool.false_eq_true, if_false]

end Cutplace

namespace Cutplace
open Cutplace.Spec

theorem encodeCell_tag (f : OdsFeatures) (t : Str) (n : Nat) : (encodeCell f t n).tag = "table:table-cell" := rfl

theorem encodeCell_attr (f : OdsFeatures) (t : Str) (n : Nat) :
    (encodeCell f t n).attr "table:number-columns-repeated" = if n > 1 then some (natRepr n) else none := by
  have hk : ("office:value-type" == "table:number-columns-repeated") = false := by decide
  unfold encodeCell Xml.attr Xml.attrs repeatAttr natStr
  by_cases h1 : n > 1
  · simp [h1]
  · by_cases ht : t.isEmpty = true <;> simp [h1, ht, hk]

theorem encodeCell_repeat (f : OdsFeatures) (t : Str) (n : Nat) (hn : 1 ≤ n) (hd : (digits n).length ≤ maxStrDigits) :
    pyIntBase10 (((encodeCell f t n).attr "table:number-columns-repeated").getD ['1']) = some (n : Int) := by
  rw [encodeCell_attr]
  by_cases h1 : n > 1
  · simp only [h1, if_true, Option.getD_some]; exact pyInt_natRepr n hd
  · have hn1 : n = 1 := by omega
    subst hn1; rfl

theorem isAscii_repeat (f : OdsFeatures) (t : Str) (n : Nat) :
    isAscii (((encodeCell f t n).attr "table:number-columns-repeated").getD ['1']) = true := by
  rw [encodeCell_attr]
  by_cases h1 : n > 1
  · simp only [h1, if_true, Option.getD_some]; exact natRepr_isAscii n
  · simp only [h1, if_false]; rfl

theorem filter_tag_map' {α} (g : α → Xml) (tag : String) (l : List α) (h : ∀ a, (g a).tag = tag) :
    (l.map g).filter (fun c => c.tag == tag) = l.map g := by
  induction l with
  | nil => rfl
  | cons a as ih => simp [h a, ih]

/-! ### the text of a cell (after the repair of the cell text extraction) -/

theorem optText_getD (s : Str) : (optText s).getD [] = s := by
  unfold optText; cases s <;> simp

theorem textParts_node (tag : String) (attrs : List (String × Str)) (text : Option Str) (children : List Xml) (tail : Option Str) :
    textParts (.node tag attrs text children tail) = TextOut.append (some (some (text.getD []))) (childrenParts children) := by
  rw [textParts]

theorem childrenParts_nil : childrenParts [] = some (some []) := by rw [childrenParts]

theorem childrenParts_tab (tail : Option Str) (rest : List Xml) (r : Str) (h : childrenParts rest = some (some r)) :
    childrenParts (.node "text:tab" [] none [] tail :: rest) = some (some ('\t' :: (tail.getD [] ++ r))) := by
  rw [childrenParts, h]
  simp [TextOut.append]

theorem childrenParts_break (tail : Option Str) (rest : List Xml) (r : Str) (h : childrenParts rest = some (some r)) :
    childrenParts (.node "text:line-break" [] none [] tail :: rest) = some (some ('\n' :: (tail.getD [] ++ r))) := by
  rw [childrenParts, h]
  simp [TextOut.append]

theorem childrenParts_spaces (n : Nat) (hd : (digits n).length ≤ maxStrDigits) (tail : Option Str) (rest : List Xml) (r : Str)
    (h : childrenParts rest = some (some r)) :
    childrenParts (.node "text:s" [("text:c", natStr n)] none [] tail :: rest) =
      some (some (List.replicate n ' ' ++ (tail.getD [] ++ r))) := by
  rw [childrenParts, h]
  simp only [natStr, beq_self_eq_true, if_true, List.find?_cons_of_pos, Option.map_some, Option.getD_some,
    natRepr_isAscii, Bool.not_true, Bool.false_eq_true, if_false, pyInt_natRepr n hd, Int.toNat_natCast]
  simp [TextOut.append]

theorem childrenParts_span (text : Option Str) (children : List Xml) (inner : Str)
    (h : childrenParts children = some (some inner)) :
    childrenParts [.node "text:span" [] text children none] = some (some (text.getD [] ++ inner)) := by
  rw [childrenParts, childrenParts_nil, textParts_node, h]
  simp [TextOut.append]

theorem takeWhile_blank (l : Str) : l.takeWhile (· == ' ') = List.replicate (l.takeWhile (· == ' ')).length ' ' ∧
    l = List.replicate (l.takeWhile (· == ' ')).length ' ' ++ l.drop (l.takeWhile (· == ' ')).length ∧
    (l.takeWhile (· == ' ')).length ≤ l.length := by
  induction l with
  | nil => simp
  | cons c r ih =>
    by_cases hc : c = ' '
    · subst hc
      obtain ⟨h1, h2, h3⟩ := ih
      simp only [List.takeWhile_cons, beq_self_eq_true, if_true, List.length_cons, List.replicate_succ, List.drop_succ_cons,
        List.cons_append, List.cons.injEq, true_and]
      exact ⟨h1, h2, by omega⟩
    · have : (c == ' ') = false := by simpa using hc
      simp [List.takeWhile_cons, this]

/-- the white-space mark-up of one paragraph puts the text back together -/
theorem encodeInline_go (fuel : Nat) : ∀ (text acc : Str), text.length < fuel → text.length < 10 ^ maxStrDigits →
    ∃ r, childrenParts (encodeInlinePlain.go fuel text acc).2 = some (some r) ∧
      ((encodeInlinePlain.go fuel text acc).1.getD []) ++ r = acc.reverse ++ text := by
  induction fuel with
  | zero => intro text acc h; omega
  | succ fuel ih =>
    intro text acc hlen hsmall
    cases text with
    | nil =>
      refine ⟨[], ?_, ?_⟩
      · simp [encodeInlinePlain.go, childrenParts_nil]
      · simp [encodeInlinePlain.go, optText_getD]
    | cons c rest =>
      have hrl : rest.length < fuel := by simp only [List.length_cons] at hlen; omega
      have hrs : rest.length < 10 ^ maxStrDigits := by simp only [List.length_cons] at hsmall; omega
      by_cases ht : c = '\t'
      · subst ht
        obtain ⟨r, hr1, hr2⟩ := ih rest [] hrl hrs
        refine ⟨'\t' :: (((encodeInlinePlain.go fuel rest []).1.getD []) ++ r), ?_, ?_⟩
        · simp only [encodeInlinePlain.go]; exact childrenParts_tab _ _ _ hr1
        · simp only [encodeInlinePlain.go, optText_getD, hr2]; simp
      · by_cases hn : c = '\n'
        · subst hn
          obtain ⟨r, hr1, hr2⟩ := ih rest [] hrl hrs
          refine ⟨'\n' :: (((encodeInlinePlain.go fuel rest []).1.getD []) ++ r), ?_, ?_⟩
          · simp only [encodeInlinePlain.go]; exact childrenParts_break _ _ _ hr1
          · simp only [encodeInlinePlain.go, optText_getD, hr2]; simp
        · by_cases hb : c = ' ' ∧ ∃ rest', rest = ' ' :: rest'
          · obtain ⟨rfl, rest', rfl⟩ := hb
            have hdl : (rest'.drop (rest'.takeWhile (· == ' ')).length).length < fuel := by
              simp only [List.length_cons, List.length_drop] at hrl ⊢; omega
            have hds : (rest'.drop (rest'.takeWhile (· == ' ')).length).length < 10 ^ maxStrDigits := by
              simp only [List.length_cons, List.length_drop] at hrs ⊢; omega
            obtain ⟨r, hr1, hr2⟩ := ih (rest'.drop (rest'.takeWhile (· == ' ')).length) [] hdl hds
            obtain ⟨hall, hsplit, htw⟩ := takeWhile_blank rest'
            have hdig : (digits (1 + (rest'.takeWhile (· == ' ')).length)).length ≤ maxStrDigits := by
              apply digits_within_limit
              simp only [List.length_cons] at hsmall
              omega
            refine ⟨List.replicate (1 + (rest'.takeWhile (· == ' ')).length) ' ' ++
              (((encodeInlinePlain.go fuel (rest'.drop (rest'.takeWhile (· == ' ')).length) []).1.getD []) ++ r), ?_, ?_⟩
            · simp only [encodeInlinePlain.go]; exact childrenParts_spaces _ hdig _ _ _ hr1
            · simp only [encodeInlinePlain.go, Option.getD_some, hr2, List.reverse_cons, List.reverse_nil, List.nil_append]
              conv => rhs; rw [hsplit]
              rw [show 1 + (rest'.takeWhile (· == ' ')).length = (rest'.takeWhile (· == ' ')).length + 1 by omega, List.replicate_succ]
              simp [List.append_assoc]
          · -- an ordinary character (a single blank included)
            obtain ⟨r, hr1, hr2⟩ := ih rest (c :: acc) hrl hrs
            have hgo : encodeInlinePlain.go (fuel + 1) (c :: rest) acc = encodeInlinePlain.go fuel rest (c :: acc) := by
              rw [encodeInlinePlain.go.eq_def]
              split
              · omega
              · rename_i heq; cases heq
              · rename_i heq; simp only [List.cons.injEq] at heq; exact absurd heq.1 ht
              · rename_i heq; simp only [List.cons.injEq] at heq; exact absurd heq.1 hn
              · rename_i heq
                simp only [List.cons.injEq] at heq
                exact absurd ⟨heq.1, _, heq.2⟩ hb
              · rename_i hfuel heq
                simp only [List.cons.injEq] at heq
                obtain ⟨rfl, rfl⟩ := heq
                have : fuel = _ := Nat.succ.inj hfuel
                subst this
                rfl
            refine ⟨r, by rw [hgo]; exact hr1, ?_⟩
            rw [hgo, hr2]; simp

/-- the paragraph's own text and white-space mark-up give the paragraph back -/
theorem encodeInlinePlain_parts (w : Bool) (p : Str) (hp : p.length < 10 ^ maxStrDigits) :
    ∃ r, childrenParts (encodeInlinePlain w p).2 = some (some r) ∧ ((encodeInlinePlain w p).1.getD []) ++ r = p := by
  unfold encodeInlinePlain
  by_cases hw : w = true
  · simp only [hw, if_true]
    obtain ⟨r, hr1, hr2⟩ := encodeInline_go (p.length + 1) p [] (by omega) hp
    exact ⟨r, hr1, by simpa using hr2⟩
  · simp only [hw, Bool.false_eq_true, if_false]
    exact ⟨[], childrenParts_nil, by simp [optText_getD]⟩

/-- every way of marking up a paragraph gives the paragraph back -/
theorem textParts_encodeInline (f : OdsFeatures) (p : Str) (hp : p.length < 10 ^ maxStrDigits) :
    textParts (.node "text:p" [] (encodeInline f p).1 (encodeInline f p).2 none) = some (some p) := by
  rw [textParts_node]
  obtain ⟨r, hr1, hr2⟩ := encodeInlinePlain_parts f.whitespace p hp
  unfold encodeInline
  by_cases hs : f.spans = true
  · simp only [hs, if_true, Option.getD_none]
    rw [childrenParts_span _ _ r hr1, hr2]
    simp [TextOut.append]
  · simp only [hs, Bool.false_eq_true, if_false]
    rw [hr1]
    simp only [TextOut.append, hr2]

/-- lines joined by line feeds -/
def joinLines : List Str → Str
  | [] => []
  | [l] => l
  | l :: rest => l ++ '\n' :: joinLines rest

theorem splitLines_go_ne_nil (s : Str) : ∀ acc, splitLines.go s acc ≠ [] := by
  induction s with
  | nil => intro acc; simp [splitLines.go]
  | cons c r ih =>
    intro acc
    rw [splitLines.go.eq_def]
    split
    · simp
    · simp
    · rename_i heq; simp only [List.cons.injEq] at heq; obtain ⟨rfl, rfl⟩ := heq; exact ih _

theorem splitLines_go_join (s acc : Str) : joinLines (splitLines.go s acc) = acc.reverse ++ s := by
  induction s generalizing acc with
  | nil => simp [splitLines.go, joinLines]
  | cons c r ih =>
    by_cases hc : c = '\n'
    · subst hc
      have hne : splitLines.go r [] ≠ [] := splitLines_go_ne_nil r []
      simp only [splitLines.go]
      cases hg : splitLines.go r [] with
      | nil => exact absurd hg hne
      | cons l ls =>
        have := ih []
        rw [hg] at this
        simp only [joinLines, this]
        simp
    · have hgo : splitLines.go (c :: r) acc = splitLines.go r (c :: acc) := by
        rw [splitLines.go.eq_def]
        split
        · rename_i heq; cases heq
        · rename_i heq; simp only [List.cons.injEq] at heq; exact absurd heq.1 hc
        · rename_i heq; simp only [List.cons.injEq] at heq; obtain ⟨rfl, rfl⟩ := heq; rfl
      rw [hgo, ih]; simp

theorem joinLines_splitLines (s : Str) : joinLines (splitLines s) = s := by
  unfold splitLines; simpa using splitLines_go_join s []

theorem length_le_of_mem_splitLines_go (s acc : Str) : ∀ l ∈ splitLines.go s acc, l.length ≤ acc.length + s.length := by
  induction s generalizing acc with
  | nil => intro l hl; simp [splitLines.go] at hl; subst hl; simp
  | cons c r ih =>
    intro l hl
    rw [splitLines.go.eq_def] at hl
    split at hl
    · rename_i heq; cases heq
    · rename_i heq
      simp only [List.cons.injEq] at heq
      obtain ⟨_, rfl⟩ := heq
      rcases List.mem_cons.mp hl with rfl | h
      · simp
      · have := ih [] l h; simp at this ⊢; omega
    · rename_i heq
      simp only [List.cons.injEq] at heq
      obtain ⟨rfl, rfl⟩ := heq
      have := ih _ l hl
      simp at this ⊢; omega

theorem joinParas_lines (f : OdsFeatures) : ∀ (lines : List Str), (∀ l ∈ lines, l.length < 10 ^ maxStrDigits) →
    joinParas (lines.map (fun p => .node "text:p" [] (encodeInline f p).1 (encodeInline f p).2 none)) = some (some (joinLines lines)) := by
  intro lines
  induction lines with
  | nil => intro _; rfl
  | cons l rest ih =>
    intro h
    have hl := textParts_encodeInline f l (h l (by simp))
    cases rest with
    | nil => simpa [joinParas, joinLines] using hl
    | cons l2 rest2 =>
      have ih' := ih (fun x hx => h x (by simp [hx]))
      simp only [List.map_cons] at ih' ⊢
      rw [joinParas.eq_3 _ _ (by simp), hl, ih']
      simp [TextOut.append, joinLines]

/-- **the text of an encoded cell is the text that was encoded**, whatever mark-up features the encoder uses -/
theorem encodeCell_value (f : OdsFeatures) (t : Str) (n : Nat) (ht : t.length < 10 ^ maxStrDigits) :
    cellValue (encodeCell f t n) = some (some t) := by
  unfold cellValue encodeCell Xml.childrenTagged Xml.children cellParas
  by_cases hte : t.isEmpty = true
  · have : t = [] := by simpa using hte
    subst this
    simp [joinParas]
  · have htf : t.isEmpty = false := by simpa using hte
    simp only [htf, Bool.false_eq_true, if_false]
    rw [filter_tag_map' _ "text:p" _ (fun a => rfl)]
    by_cases hp : f.paragraphs = true
    · simp only [hp, if_true]
      rw [joinParas_lines f (splitLines t) ?_, joinLines_splitLines]
      intro l hl
      have := length_le_of_mem_splitLines_go t [] l hl
      simp at this; omega
    · simp only [hp, Bool.false_eq_true, if_false]
      rw [joinParas_lines f [t] (by intro l hl; simp at hl; subst hl; exact ht)]
      rfl

/-- decoding a list of encoded cells expands the runs again -/
theorem odsRow_cells_encoded (f : OdsFeatures) (rs : List (Str × Nat)) (hpos : ∀ p ∈ rs, 1 ≤ p.2)
    (hsmall : ∀ p ∈ rs, (digits p.2).length ≤ maxStrDigits) (hcells : ∀ p ∈ rs, p.1.length < 10 ^ maxStrDigits) :
    odsRow.cells (rs.map (fun p => encodeCell f p.1 p.2)) = some (some ((expandRuns rs).map some)) := by
  induction rs with
  | nil => simp [odsRow.cells, expandRuns]
  | cons p rest ih =>
    obtain ⟨t, n⟩ := p
    have hn : 1 ≤ n := hpos (t, n) (by simp)
    have hd : (digits n).length ≤ maxStrDigits := hsmall (t, n) (by simp)
    have ih' := ih (fun q hq => hpos q (by simp [hq])) (fun q hq => hsmall q (by simp [hq])) (fun q hq => hcells q (by simp [hq]))
    simp only [List.map_cons, odsRow.cells]
    rw [isAscii_repeat f t n]
    simp only [Bool.not_true, Bool.false_eq_true, if_false, encodeCell_repeat f t n hn hd]
    have : ¬ ((n : Int) < 1) := by omega
    have hv := encodeCell_value f t n (hcells (t, n) (by simp))
    simp only [this, if_false, ih', hv]
    simp only [expandRuns, List.map_append, List.map_replicate]
    simp

end Cutplace

namespace Cutplace
open Cutplace.Spec

theorem filter_tag_map {α} (g : α → Xml) (tag : String) (l : List α) (h : ∀ a, (g a).tag = tag) :
    (l.map g).filter (fun c => c.tag == tag) = l.map g := filter_tag_map' g tag l h

theorem mem_runs_fst {α} [DecidableEq α] (l : List α) : ∀ p ∈ runs l, p.1 ∈ l := by
  induction l with
  | nil => intro p hp; simp [runs] at hp
  | cons x xs ih =>
    intro p hp
    unfold runs at hp
    split at hp
    · rename_i y n rest hr
      split at hp
      · rename_i hxy
        rcases List.mem_cons.mp hp with rfl | h
        · have := ih (y, n) (by rw [hr]; simp)
          simp [this]
        · have := ih p (by rw [hr]; simp [h])
          simp [this]
      · rcases List.mem_cons.mp hp with rfl | h
        · simp
        · have := ih p (by rw [hr]; exact h)
          simp [this]
    · simp at hp; subst hp; simp

theorem filter_cells_map {α} (g : α → Xml) (l : List α) (h : ∀ a, (g a).tag = "table:table-cell") :
    (l.map g).filter (fun c => c.tag == "table:table-cell" || c.tag == "table:covered-table-cell") = l.map g := by
  induction l with
  | nil => rfl
  | cons a as ih => simp [h a, ih]

theorem odsRow_encodeRow (f : OdsFeatures) (row : List Str) (n : Nat) (hrow : row.length < 10 ^ maxStrDigits)
    (hcells : ∀ t ∈ row, t.length < 10 ^ maxStrDigits) :
    odsRow (encodeRow f row n) = some (some (row.map some)) := by
  unfold odsRow encodeRow Xml.children
  by_cases hc : f.colRuns = true
  · simp only [hc, if_true]
    have hmap : (runs row).map (fun x => match x with | (t, n) => encodeCell f t n) = (runs row).map (fun p => encodeCell f p.1 p.2) := by
      apply List.map_congr_left; intro p _; rfl
    rw [hmap, filter_cells_map (fun p : Str × Nat => encodeCell f p.1 p.2) _ (fun a => encodeCell_tag f a.1 a.2)]
    rw [odsRow_cells_encoded f (runs row) (runs_pos row)
      (fun p hp => digits_within_limit p.2 (Nat.lt_of_le_of_lt (runs_le row p hp) hrow))
      (fun p hp => hcells p.1 (mem_runs_fst row p hp)), expandRuns_runs]
  · have hcf : f.colRuns = false := by simpa using hc
    simp only [hcf, Bool.false_eq_true, if_false]
    have hmap : row.map (fun t => encodeCell f t 1) = (row.map (fun t => (t, 1))).map (fun p => encodeCell f p.1 p.2) := by
      simp [List.map_map, Function.comp_def]
    rw [hmap, filter_cells_map (fun p : Str × Nat => encodeCell f p.1 p.2) _ (fun a => encodeCell_tag f a.1 a.2)]
    rw [odsRow_cells_encoded f _ (by intro p hp; obtain ⟨t, _, rfl⟩ := List.mem_map.mp hp; simp)
      (by intro p hp; obtain ⟨t, _, rfl⟩ := List.mem_map.mp hp; show (digits 1).length ≤ maxStrDigits; unfold digits; simp [maxStrDigits])
      (by intro p hp; obtain ⟨t, ht, rfl⟩ := List.mem_map.mp hp; exact hcells t ht)]
    congr 2
    clear hrow hmap hcells
    induction row with
    | nil => rfl
    | cons t ts ih => simp [expandRuns, ih]

theorem odsRowsOf_encoded (f : OdsFeatures) (rows : List (List Str))
    (hsmall : ∀ r ∈ rows, r.length < 10 ^ maxStrDigits) (hcells : ∀ r ∈ rows, ∀ t ∈ r, t.length < 10 ^ maxStrDigits) :
    odsRowsOf (rows.map (fun r => encodeRow f r 1)) = some (some (rows.map (·.map some))) := by
  induction rows with
  | nil => rfl
  | cons r rs ih =>
    have ih' := ih (fun x hx => hsmall x (by simp [hx])) (fun x hx => hcells x (by simp [hx]))
    simp [odsRowsOf, odsRow_encodeRow f r 1 (hsmall r (by simp)) (hcells r (by simp)), ih']

/-- rows that are direct children of the table are found as they are -/
theorem tableRowsIn_rows (f : OdsFeatures) (rows : List (List Str × Nat)) :
    tableRowsIn (rows.map (fun p => encodeRow f p.1 p.2)) = rows.map (fun p => encodeRow f p.1 p.2) := by
  induction rows with
  | nil => rw [List.map_nil, tableRowsIn]
  | cons p rest ih =>
    rw [List.map_cons, tableRowsIn, ih]
    have : tableRowsOf (encodeRow f p.1 p.2) = [encodeRow f p.1 p.2] := by
      unfold encodeRow
      rw [tableRowsOf]
      simp
    rw [this]; rfl

theorem tableRowsIn_append (a b : List Xml) : tableRowsIn (a ++ b) = tableRowsIn a ++ tableRowsIn b := by
  induction a with
  | nil => rw [List.nil_append, tableRowsIn, List.nil_append]
  | cons x xs ih => rw [List.cons_append, tableRowsIn, tableRowsIn, ih, List.append_assoc]

theorem tableRowsOf_header (children : List Xml) :
    tableRowsOf (.node "table:table-header-rows" [] none children none) = tableRowsIn children := by
  rw [tableRowsOf]; simp
theorem tableRowsOf_group (children : List Xml) :
    tableRowsOf (.node "table:table-row-group" [] none children none) = tableRowsIn children := by
  rw [tableRowsOf]; simp
theorem tableRowsOf_plain (children : List Xml) :
    tableRowsOf (.node "table:table-rows" [] none children none) = tableRowsIn children := by
  rw [tableRowsOf]; simp

theorem tableRowsIn_cons (x : Xml) (rest : List Xml) : tableRowsIn (x :: rest) = tableRowsOf x ++ tableRowsIn rest := by
  rw [tableRowsIn]
theorem tableRowsIn_nil : tableRowsIn [] = [] := by rw [tableRowsIn]

/-- rows wrapped into header rows, outline groups and plain row groups are found in document order -/
theorem tableRowsIn_groupRows (f : OdsFeatures) (rows : List (List Str × Nat)) :
    tableRowsIn (groupRows (rows.map (fun p => encodeRow f p.1 p.2))) = rows.map (fun p => encodeRow f p.1 p.2) := by
  have one : ∀ p : List Str × Nat, tableRowsOf (encodeRow f p.1 p.2) = [encodeRow f p.1 p.2] := by
    intro p; unfold encodeRow; rw [tableRowsOf]; simp
  match rows with
  | [] => rw [List.map_nil]; unfold groupRows; exact tableRowsIn_nil
  | [a] => exact tableRowsIn_rows f [a]
  | [a, b] => exact tableRowsIn_rows f [a, b]
  | a :: b :: c :: rest =>
    have hrest := tableRowsIn_rows f rest
    rw [List.map_cons, List.map_cons, List.map_cons]
    unfold groupRows
    rw [tableRowsIn_cons, tableRowsIn_cons, tableRowsIn_cons, tableRowsIn_nil, tableRowsOf_header, tableRowsOf_group, tableRowsOf_plain,
      tableRowsIn_cons, tableRowsIn_nil, tableRowsIn_cons, tableRowsIn_cons, tableRowsIn_nil, tableRowsOf_group, tableRowsIn_cons, tableRowsIn_nil,
      one a, one b, one c, hrest]
    simp only [List.append_nil, List.cons_append, List.nil_append]

/-- decoding the cells of a row does not look at the cells' tags: a covered cell counts like a cell -/
theorem cells_retag (tag : String) (attrs : List (String × Str)) (text : Option Str) (children : List Xml) (tail : Option Str)
    (rest : List Xml) (tag' : String) :
    odsRow.cells (.node tag attrs text children tail :: rest) = odsRow.cells (.node tag' attrs text children tail :: rest) := by
  rw [odsRow.cells, odsRow.cells]
  rfl

theorem cells_cons_congr (a : Xml) (x y : List Xml) (h : odsRow.cells x = odsRow.cells y) :
    odsRow.cells (a :: x) = odsRow.cells (a :: y) := by
  rw [odsRow.cells, odsRow.cells, h]

theorem cells_coverCells : ∀ cs : List Xml, odsRow.cells (coverCells cs) = odsRow.cells cs := by
  intro cs
  fun_induction coverCells cs with
  | case1 a tag attrs text children tail rest ih =>
    apply cells_cons_congr
    rw [cells_retag "table:covered-table-cell" attrs text children tail (coverCells rest) tag]
    exact cells_cons_congr _ _ _ ih
  | case2 cs h => rfl

end Cutplace
