import Cutplace.Spec.Ods
import Cutplace.Proofs.DigitLemmas
namespace Cutplace
open Cutplace.Spec

/-- run-length encoding is lossless -/
theorem expandRuns_runs {α} [DecidableEq α] (l : List α) : expandRuns (runs l) = l := by
  induction l with
  | nil => rfl
  | cons x xs ih =>
    simp only [runs]
    cases h : runs xs with
    | nil =>
      rw [h] at ih
      simp only [expandRuns] at ih ⊢
      simp [← ih, List.replicate]
    | cons p rest =>
      obtain ⟨y, n⟩ := p
      rw [h] at ih
      simp only []
      by_cases hxy : x = y
      · subst hxy
        simp only [if_true, expandRuns] at ih ⊢
        rw [← ih]
        simp [List.replicate_succ]
      · simp only [hxy, if_false, expandRuns] at ih ⊢
        rw [← ih]
        simp [List.replicate]

/-- every run has positive length -/
theorem runs_pos {α} [DecidableEq α] (l : List α) : ∀ p ∈ runs l, 1 ≤ p.2 := by
  induction l with
  | nil => simp [runs]
  | cons x xs ih =>
    simp only [runs]
    cases h : runs xs with
    | nil => simp
    | cons p rest =>
      obtain ⟨y, n⟩ := p
      rw [h] at ih
      simp only []
      by_cases hxy : x = y
      · subst hxy
        simp only [if_true]
        intro q hq
        rcases List.mem_cons.mp hq with rfl | hq
        · simp
        · exact ih q (by simp [hq])
      · simp only [hxy, if_false]
        intro q hq
        rcases List.mem_cons.mp hq with rfl | hq
        · simp
        · exact ih q hq

theorem runs_le {α} [DecidableEq α] (l : List α) : ∀ p ∈ runs l, p.2 ≤ l.length := by
  induction l with
  | nil => simp [runs]
  | cons x xs ih =>
    simp only [runs]
    cases h : runs xs with
    | nil => simp
    | cons p rest =>
      obtain ⟨y, n⟩ := p
      rw [h] at ih
      have hn : n ≤ xs.length := ih (y, n) (by simp)
      have hrest : ∀ q ∈ rest, q.2 ≤ xs.length := fun q hq => ih q (by simp [hq])
      simp only []
      by_cases hxy : x = y
      · simp only [hxy, if_true, List.mem_cons, List.length_cons]
        rintro q (rfl | hq)
        · simp; omega
        · have := hrest q hq; omega
      · simp only [hxy, if_false, List.mem_cons, List.length_cons]
        rintro q (rfl | rfl | hq)
        · simp
        · simp; omega
        · have := hrest q hq; omega

theorem natRepr_isAscii (n : Nat) : isAscii (natRepr n) = true := by
  unfold isAscii natRepr
  simp only [List.all_eq_true, decide_eq_true_eq]
  intro c hc
  obtain ⟨d, hd, rfl⟩ := List.mem_map.mp hc
  have : ∀ d, d < 10 → (digitChar d).toNat < 128 := by decide
  exact this d (digits_lt10 n d hd)

theorem pyInt_natRepr (n : Nat) (hd : (digits n).length ≤ maxStrDigits) : pyIntBase10 (natRepr n) = some (n : Int) := by
  unfold pyIntBase10 natRepr
  have hne := digits_ne_nil n
  have hlt := digits_lt10 n
  have hs := strip_digits (digits n) hne hlt [] (by simp)
  simp only [List.nil_append] at hs
  rw [hs, splitSign_digits _ hlt]
  simp only []
  rw [dropDigitUnderscores_digits _ hne hlt]
  have hd' : ¬ (List.map digitChar (digits n)).length > maxStrDigits := by simp only [List.length_map]; omega
  simp only [hd', map_digitVal_digitChar _ hlt, parse_digits, Bool.false_eq_true, if_false]

end Cutplace

namespace Cutplace
open Cutplace.Spec

theorem encodeCell_tag (f : OdsFeatures) (t : Str) (n : Nat) : (encodeCell f t n).tag = "table:table-cell" := rfl

theorem encodeCell_attr (f : OdsFeatures) (t : Str) (n : Nat) :
    (encodeCell f t n).attr "table:number-columns-repeated" = if n > 1 then some (natRepr n) else none := by
  have hk : ("office:value-type" == "table:number-columns-repeated") = false := by decide
  unfold encodeCell Xml.attr Xml.attrs repeatAttr natStr
  by_cases h1 : n > 1
  · simp [h1]
  · by_cases ht : t.isEmpty = true <;> simp [h1, ht, hk]

theorem encodeCell_repeat (f : OdsFeatures) (t : Str) (n : Nat) (hn : 1 ≤ n) (hd : (digits n).length ≤ maxStrDigits) :
    pyIntBase10 (((encodeCell f t n).attr "table:number-columns-repeated").getD ['1']) = some (n : Int) := by
  rw [encodeCell_attr]
  by_cases h1 : n > 1
  · simp only [h1, if_true, Option.getD_some]; exact pyInt_natRepr n hd
  · have hn1 : n = 1 := by omega
    subst hn1; rfl

theorem isAscii_repeat (f : OdsFeatures) (t : Str) (n : Nat) :
    isAscii (((encodeCell f t n).attr "table:number-columns-repeated").getD ['1']) = true := by
  rw [encodeCell_attr]
  by_cases h1 : n > 1
  · simp only [h1, if_true, Option.getD_some]; exact natRepr_isAscii n
  · simp only [h1, if_false]; rfl

theorem encodeCell_value (f : OdsFeatures) (hf : f.plain) (t : Str) (n : Nat) :
    cellValue (encodeCell f t n) = some t := by
  obtain ⟨_, h2, h3, h4⟩ := hf
  unfold cellValue encodeCell Xml.childrenTagged Xml.children cellParas
  by_cases ht : t.isEmpty = true
  · have : t = [] := by simpa using ht
    subst this
    simp
  · have htf : t.isEmpty = false := by simpa using ht
    simp [htf, h4, Xml.tag, encodeInline, h2, h3, Xml.text, optText]
    intro h; subst h; simp at htf

/-- decoding a list of encoded cells expands the runs again -/
theorem odsRow_cells_encoded (f : OdsFeatures) (hf : f.plain) (rs : List (Str × Nat)) (hpos : ∀ p ∈ rs, 1 ≤ p.2)
    (hsmall : ∀ p ∈ rs, (digits p.2).length ≤ maxStrDigits) :
    odsRow.cells (rs.map (fun p => encodeCell f p.1 p.2)) = some (some ((expandRuns rs).map some)) := by
  induction rs with
  | nil => simp [odsRow.cells, expandRuns]
  | cons p rest ih =>
    obtain ⟨t, n⟩ := p
    have hn : 1 ≤ n := hpos (t, n) (by simp)
    have hd : (digits n).length ≤ maxStrDigits := hsmall (t, n) (by simp)
    have ih' := ih (fun q hq => hpos q (by simp [hq])) (fun q hq => hsmall q (by simp [hq]))
    simp only [List.map_cons, odsRow.cells]
    rw [isAscii_repeat f t n]
    simp only [Bool.not_true, Bool.false_eq_true, if_false, encodeCell_repeat f t n hn hd]
    have : ¬ ((n : Int) < 1) := by omega
    have hv := encodeCell_value f hf t n
    simp only [this, if_false, ih']
    simp only [expandRuns, List.map_append, List.map_replicate]
    rw [hv]
    simp

end Cutplace

namespace Cutplace
open Cutplace.Spec

theorem filter_tag_map {α} (g : α → Xml) (tag : String) (l : List α) (h : ∀ a, (g a).tag = tag) :
    (l.map g).filter (fun c => c.tag == tag) = l.map g := by
  induction l with
  | nil => rfl
  | cons a as ih => simp [h a, ih]

theorem odsRow_encodeRow (f : OdsFeatures) (hf : f.plain) (row : List Str) (n : Nat) (hrow : row.length < 10 ^ maxStrDigits) :
    odsRow (encodeRow f row n) = some (some (row.map some)) := by
  unfold odsRow encodeRow Xml.childrenTagged Xml.children
  by_cases hc : f.colRuns = true
  · simp only [hc, if_true]
    have hmap : (runs row).map (fun x => match x with | (t, n) => encodeCell f t n) = (runs row).map (fun p => encodeCell f p.1 p.2) := by
      apply List.map_congr_left; intro p _; rfl
    rw [hmap, filter_tag_map (fun p : Str × Nat => encodeCell f p.1 p.2) "table:table-cell" _ (fun a => encodeCell_tag f a.1 a.2)]
    rw [odsRow_cells_encoded f hf (runs row) (runs_pos row)
      (fun p hp => digits_within_limit p.2 (Nat.lt_of_le_of_lt (runs_le row p hp) hrow)), expandRuns_runs]
  · have hcf : f.colRuns = false := by simpa using hc
    simp only [hcf, Bool.false_eq_true, if_false]
    have hmap : row.map (fun t => encodeCell f t 1) = (row.map (fun t => (t, 1))).map (fun p => encodeCell f p.1 p.2) := by
      simp [List.map_map, Function.comp_def]
    rw [hmap, filter_tag_map (fun p : Str × Nat => encodeCell f p.1 p.2) "table:table-cell" _ (fun a => encodeCell_tag f a.1 a.2)]
    rw [odsRow_cells_encoded f hf _ (by intro p hp; obtain ⟨t, _, rfl⟩ := List.mem_map.mp hp; simp)
      (by intro p hp; obtain ⟨t, _, rfl⟩ := List.mem_map.mp hp; show (digits 1).length ≤ maxStrDigits; unfold digits; simp [maxStrDigits])]
    congr 2
    clear hrow hmap
    induction row with
    | nil => rfl
    | cons t ts ih => simp [expandRuns, ih]

theorem odsRowsOf_encoded (f : OdsFeatures) (hf : f.plain) (rows : List (List Str))
    (hsmall : ∀ r ∈ rows, r.length < 10 ^ maxStrDigits) :
    odsRowsOf (rows.map (fun r => encodeRow f r 1)) = some (some (rows.map (·.map some))) := by
  induction rows with
  | nil => rfl
  | cons r rs ih =>
    have ih' := ih (fun x hx => hsmall x (by simp [hx]))
    simp [odsRowsOf, odsRow_encodeRow f hf r 1 (hsmall r (by simp)), ih']

end Cutplace
