import Cutplace.Proofs.RangeTokens
/-
Lexer level of `Range.__init__`: the text of a description written in the documented grammar is
tokenised into `descToks`.
-/
set_option linter.unusedSimpArgs false

namespace Cutplace
open Cutplace.Spec

/-- the lexer gets from `s` to `rest`, emitting `toks`, with enough fuel left -/
def Steps (s rest : Str) (toks : List Tok) : Prop :=
  ∀ fuel acc, fuel > s.length →
    ∃ fuel', fuel' > rest.length ∧ lexLoop fuel s 0 acc = lexLoop fuel' rest 0 (toks.reverse ++ acc)

theorem Steps.refl (s : Str) : Steps s s [] := by
  intro fuel acc h; exact ⟨fuel, h, by simp⟩

theorem Steps.trans {s mid rest : Str} {t1 t2 : List Tok} (h1 : Steps s mid t1) (h2 : Steps mid rest t2) :
    Steps s rest (t1 ++ t2) := by
  intro fuel acc hf
  obtain ⟨f1, hf1, e1⟩ := h1 fuel acc hf
  obtain ⟨f2, hf2, e2⟩ := h2 f1 (t1.reverse ++ acc) hf1
  exact ⟨f2, hf2, by rw [e1, e2]; simp⟩

/-- a complete run -/
theorem Steps.lexLoop_done {s : Str} {toks : List Tok} (h : Steps s [] toks) :
    lexLoop (s.length + 1) s 0 [] = .ok (toks ++ [eofTok]) := by
  obtain ⟨f, hf, e⟩ := h (s.length + 1) [] (by omega)
  rw [e]
  cases f with
  | zero => simp at hf
  | succ f => simp [lexLoop, eofTok]

/-! ### single characters -/

theorem steps_blank (rest : Str) : Steps (' ' :: rest) rest [] := by
  intro fuel acc hf
  cases fuel with
  | zero => simp at hf
  | succ f =>
    refine ⟨f, by simp at hf; omega, ?_⟩
    rw [lexLoop.eq_def]; simp

theorem steps_blanks (k : Nat) (rest : Str) : Steps (blanks k ++ rest) rest [] := by
  induction k with
  | zero => simpa [blanks] using Steps.refl rest
  | succ k ih =>
    have : blanks (k + 1) ++ rest = ' ' :: (blanks k ++ rest) := by simp [blanks, List.replicate_succ]
    rw [this]
    simpa using (steps_blank _).trans ih

theorem allOps : ops3 ++ ops2 =
    [['*','*','='], ['/','/','='], ['>','>','='], ['<','<','='], ['.','.','.'], ['!','='],
     ['<','>'], ['*','*'], ['/','/'], ['>','>'], ['<','<'], ['<','='], ['>','='], ['=','='], ['!','='], ['-','>'],
     ['+','='], ['-','='], ['*','='], ['/','='], ['%','='], ['&','='], ['|','='], ['^','='], [':','='], ['@','=']] := by
  decide

theorem matchOp_comma (rest : Str) : matchOp (',' :: rest) = none := by
  simp [matchOp, allOps, startsWith]

theorem matchOp_colon (rest : Str) (h : ∀ c r, rest = c :: r → c ≠ '=') : matchOp (':' :: rest) = none := by
  cases rest with
  | nil => simp [matchOp, allOps, startsWith]
  | cons c r =>
    have := h c r rfl
    simp [matchOp, allOps, startsWith, this]

theorem matchOp_minus (rest : Str) (h : ∀ c r, rest = c :: r → c ≠ '=' ∧ c ≠ '>') : matchOp ('-' :: rest) = none := by
  cases rest with
  | nil => simp [matchOp, allOps, startsWith]
  | cons c r =>
    have := h c r rfl
    simp [matchOp, allOps, startsWith, this.1, this.2]

theorem ops1_contains : ',' ∈ ops1 ∧ ':' ∈ ops1 ∧ '-' ∈ ops1 := by decide

/-- one-character operators of the range grammar -/
theorem lexLoop_op1 (c : Char) (hc : c = ',' ∨ c = ':' ∨ c = '-') (cs : Str) (hm : matchOp (c :: cs) = none)
    (fuel : Nat) (acc : List Tok) :
    lexLoop (fuel + 1) (c :: cs) 0 acc = lexLoop fuel cs 0 (⟨.op, [c]⟩ :: acc) := by
  rw [lexLoop.eq_def]
  rcases hc with rfl | rfl | rfl
  · simp [hm, isAsciiDigit, isIdStart, isAsciiLetter, ops1_contains.1]
  · simp [hm, isAsciiDigit, isIdStart, isAsciiLetter, ops1_contains.2.1]
  · simp [hm, isAsciiDigit, isIdStart, isAsciiLetter, ops1_contains.2.2]

theorem steps_op1 (c : Char) (hc : c = ',' ∨ c = ':' ∨ c = '-') (rest : Str) (hm : matchOp (c :: rest) = none) :
    Steps (c :: rest) rest [⟨.op, [c]⟩] := by
  intro fuel acc hf
  cases fuel with
  | zero => simp at hf
  | succ f =>
    refine ⟨f, by simp at hf; omega, ?_⟩
    rw [lexLoop_op1 c hc rest hm]
    simp

theorem steps_comma (rest : Str) : Steps (',' :: rest) rest [commaTok] :=
  steps_op1 ',' (Or.inl rfl) rest (matchOp_comma rest)

theorem steps_colon (rest : Str) (h : ∀ c r, rest = c :: r → c ≠ '=') : Steps (':' :: rest) rest [colonTok] :=
  steps_op1 ':' (Or.inr (Or.inl rfl)) rest (matchOp_colon rest h)

theorem steps_minus (rest : Str) (h : ∀ c r, rest = c :: r → c ≠ '=' ∧ c ≠ '>') : Steps ('-' :: rest) rest [minusTok] :=
  steps_op1 '-' (Or.inr (Or.inr rfl)) rest (matchOp_minus rest h)

/-! ### numbers -/

/-- what may follow a number or a name: nothing, a blank, a comma or a colon -/
def Delim (rest : Str) : Prop := ∀ c r, rest = c :: r → c = ' ' ∨ c = ',' ∨ c = ':'

theorem Delim.nil : Delim [] := by intro c r h; cases h
theorem Delim.cons_blank (r : Str) : Delim (' ' :: r) := by intro c r' h; cases h; simp
theorem Delim.cons_comma (r : Str) : Delim (',' :: r) := by intro c r' h; cases h; simp
theorem Delim.cons_colon (r : Str) : Delim (':' :: r) := by intro c r' h; cases h; simp
theorem Delim.blanks (k : Nat) (r : Str) (h : Delim r) : Delim (blanks k ++ r) := by
  cases k with
  | zero => simpa [Spec.blanks] using h
  | succ k => simp only [Spec.blanks, List.replicate_succ, List.cons_append]; exact Delim.cons_blank _

theorem Delim.cases {rest : Str} (h : Delim rest) :
    rest = [] ∨ (∃ r, rest = ' ' :: r) ∨ (∃ r, rest = ',' :: r) ∨ (∃ r, rest = ':' :: r) := by
  cases rest with
  | nil => exact Or.inl rfl
  | cons c r =>
    rcases h c r rfl with rfl | rfl | rfl
    · exact Or.inr (Or.inl ⟨r, rfl⟩)
    · exact Or.inr (Or.inr (Or.inl ⟨r, rfl⟩))
    · exact Or.inr (Or.inr (Or.inr ⟨r, rfl⟩))

theorem digitPart_go_all (ok : Char → Bool) (hok : ok ' ' = false ∧ ok ',' = false ∧ ok ':' = false)
    (cs : Str) (h : ∀ c ∈ cs, ok c = true ∧ c ≠ '_') (rest : Str) (hd : Delim rest) (acc : Str) :
    digitPart.go ok (cs ++ rest) acc = (acc.reverse ++ cs, rest) := by
  induction cs generalizing acc with
  | nil =>
    simp only [List.nil_append, List.append_nil]
    rcases hd.cases with rfl | ⟨r, rfl⟩ | ⟨r, rfl⟩ | ⟨r, rfl⟩
    · simp [digitPart.go]
    · unfold digitPart.go; simp [hok.1]
    · unfold digitPart.go; simp [hok.2.1]
    · unfold digitPart.go; simp [hok.2.2]
  | cons c cs ih =>
    obtain ⟨hc, hne⟩ := h c (by simp)
    simp only [List.cons_append]
    unfold digitPart.go
    split
    · rename_i heq; simp at heq
    · rename_i heq; simp at heq; exact absurd heq.1 hne
    · rename_i d' rest' _ heq
      simp only [List.cons.injEq] at heq
      obtain ⟨rfl, rfl⟩ := heq
      simp only [hc, if_true]
      rw [ih (fun x hx => h x (by simp [hx]))]
      simp

theorem digitPart_all (ok : Char → Bool) (hok : ok ' ' = false ∧ ok ',' = false ∧ ok ':' = false)
    (cs : Str) (hne : cs ≠ []) (h : ∀ c ∈ cs, ok c = true ∧ c ≠ '_') (rest : Str) (hd : Delim rest) :
    digitPart ok (cs ++ rest) = (cs, rest) := by
  cases cs with
  | nil => exact absurd rfl hne
  | cons c cs =>
    obtain ⟨hc, _⟩ := h c (by simp)
    simp only [List.cons_append, digitPart, hc, if_true]
    rw [digitPart_go_all ok hok cs (fun x hx => h x (by simp [hx])) rest hd]
    simp

theorem lexFraction_delim (rest : Str) (hd : Delim rest) : lexFraction rest = ([], rest, false) := by
  rcases hd.cases with rfl | ⟨r, rfl⟩ | ⟨r, rfl⟩ | ⟨r, rfl⟩ <;> rfl

theorem lexExponent_delim (rest : Str) (hd : Delim rest) : lexExponent rest = .ok ([], rest, false) := by
  rcases hd.cases with rfl | ⟨r, rfl⟩ | ⟨r, rfl⟩ | ⟨r, rfl⟩ <;> simp [lexExponent]

theorem lexNumberTail_delim (rest : Str) (hd : Delim rest) : lexNumberTail rest = .ok ([], rest) := by
  rcases hd.cases with rfl | ⟨r, rfl⟩ | ⟨r, rfl⟩ | ⟨r, rfl⟩ <;>
    simp [lexNumberTail, isIdChar, isIdStart, isAsciiLetter, isAsciiDigit]

/-- the decimal branch of the number lexer on an integer literal followed by a delimiter -/
theorem lexDecimal_int (s ip rest : Str) (hdot : ∀ r, s ≠ '.' :: r)
    (hpart : digitPart isAsciiDigit s = (ip, rest)) (hd : Delim rest) (hz : hasLeadingZero ip = false) :
    lexDecimal s = .ok (ip, rest) := by
  have hs : lexIntPart s = (ip, rest) := by
    unfold lexIntPart
    split
    · rename_i r; exact absurd rfl (hdot r)
    · exact hpart
  have hbz : badLeadingZero ip = false := by
    unfold badLeadingZero
    split
    · simp [hasLeadingZero] at hz
    · rfl
  simp [lexDecimal, hs, lexFraction_delim rest hd, lexExponent_delim rest hd, lexNumberTail_delim rest hd, hbz]

theorem lexNumber_decimal (s ip rest : Str) (hp : basePrefixed s = false) (hdot : ∀ r, s ≠ '.' :: r)
    (hpart : digitPart isAsciiDigit s = (ip, rest)) (hd : Delim rest) (hz : hasLeadingZero ip = false) :
    lexNumber s = .ok (ip, rest) := by
  unfold lexNumber
  split
  all_goals (first
    | (simp [basePrefixed] at hp; done)
    | skip)
  exact lexDecimal_int s ip rest hdot hpart hd hz

theorem steps_number (c : Char) (cs txt rest : Str) (hdig : isAsciiDigit c = true)
    (hlex : lexNumber (c :: cs) = .ok (txt, rest)) (hlen : rest.length < (c :: cs).length) :
    Steps (c :: cs) rest [⟨.number, txt⟩] := by
  have h1 : c ≠ ' ' := by rintro rfl; revert hdig; decide
  have h2 : c ≠ '\t' := by rintro rfl; revert hdig; decide
  have h3 : c ≠ '#' := by rintro rfl; revert hdig; decide
  have h4 : c ≠ '\\' := by rintro rfl; revert hdig; decide
  intro fuel acc hf
  cases fuel with
  | zero => simp at hf
  | succ f =>
    refine ⟨f, by simp at hf hlen; omega, ?_⟩
    have hlen' : ¬ (cs.length + 1 ≤ rest.length) := by simp at hlen; omega
    rw [lexLoop.eq_def]
    simp [h1, h2, h3, h4, hdig, hlex, hlen']

theorem hasLeadingZero_natRepr (n : Nat) : hasLeadingZero (natRepr n) = false := by
  have hlt := digits_lt10 n
  have hne := digits_ne_nil n
  unfold natRepr
  cases hds : digits n with
  | nil => exact absurd hds hne
  | cons d ds =>
    cases ds with
    | nil => simp [hasLeadingZero]
    | cons d2 ds2 =>
      have hn1 : 1 ≤ n := by
        cases n with
        | zero => unfold digits at hds; simp at hds
        | succ k => omega
      obtain ⟨d', ds', hd', hne0⟩ := digits_head_ne_zero n hn1
      rw [hds] at hd'
      have hdd : d = d' := by simp at hd'; exact hd'.1
      subst hdd
      have hd0 : d < 10 := hlt d (by simp [hds])
      have hnz : digitChar d ≠ '0' := fun h => hne0 ((digitChar_zero_iff d hd0).mp h)
      simp only [List.map_cons]
      unfold hasLeadingZero
      split
      · rename_i heq
        simp only [List.cons.injEq] at heq
        exact absurd heq.1 hnz
      · rfl

theorem basePrefixed_natRepr_append (n : Nat) (rest : Str) (hd : Delim rest) : basePrefixed (natRepr n ++ rest) = false := by
  have hlt := digits_lt10 n
  have hne := digits_ne_nil n
  unfold natRepr
  cases hds : digits n with
  | nil => exact absurd hds hne
  | cons d ds =>
    cases ds with
    | nil =>
      simp only [List.map_cons, List.map_nil, List.cons_append, List.nil_append]
      rcases hd.cases with rfl | ⟨r, rfl⟩ | ⟨r, rfl⟩ | ⟨r, rfl⟩ <;> (unfold basePrefixed; split) <;>
        (first
          | rfl
          | (rename_i heq; simp only [List.cons.injEq] at heq; obtain ⟨_, h2, _⟩ := heq; subst h2; decide)
          | (rename_i heq; simp at heq))
    | cons d2 ds2 =>
      have hd2 : d2 < 10 := hlt d2 (by simp [hds])
      have hp := digitChar_not_prefix_letter d2 hd2
      simp only [List.map_cons, List.cons_append]
      unfold basePrefixed
      split
      · rename_i heq
        simp only [List.cons.injEq] at heq
        obtain ⟨_, h2, _⟩ := heq
        subst h2
        simp [hp.1, hp.2.1, hp.2.2.1, hp.2.2.2.1, hp.2.2.2.2.1, hp.2.2.2.2.2]
      · rfl

theorem natRepr_chars (n : Nat) : ∀ c ∈ natRepr n, isAsciiDigit c = true ∧ c ≠ '_' := by
  intro c hc
  obtain ⟨d, hd, rfl⟩ := List.mem_map.mp hc
  have := digits_lt10 n d hd
  exact ⟨isAsciiDigit_digitChar d this, digitChar_ne_underscore d this⟩

theorem natRepr_ne_nil (n : Nat) : natRepr n ≠ [] := by
  simpa [natRepr] using digits_ne_nil n

/-- a decimal number followed by a delimiter is one NUMBER token -/
theorem steps_dec (n : Nat) (rest : Str) (hd : Delim rest) : Steps (natRepr n ++ rest) rest [⟨.number, natRepr n⟩] := by
  have hpart := digitPart_all isAsciiDigit (by decide) (natRepr n) (natRepr_ne_nil n) (natRepr_chars n) rest hd
  cases hs : natRepr n with
  | nil => exact absurd hs (natRepr_ne_nil n)
  | cons c cs =>
    have hc : isAsciiDigit c = true := (natRepr_chars n c (by simp [hs])).1
    have hlex : lexNumber (natRepr n ++ rest) = .ok (natRepr n, rest) := by
      apply lexNumber_decimal _ _ _ (basePrefixed_natRepr_append n rest hd) _ hpart hd (hasLeadingZero_natRepr n)
      intro r hr
      rw [hs] at hr
      simp at hr
      rw [hr.1] at hc
      revert hc; decide
    rw [hs] at hlex
    simp only [List.cons_append] at hlex ⊢
    exact steps_number c (cs ++ rest) _ rest hc hlex (by simp; omega)

/-! ### hexadecimal numbers -/

theorem lexBased_all (pre : Str) (ok : Char → Bool) (hok : ok ' ' = false ∧ ok ',' = false ∧ ok ':' = false)
    (cs : Str) (hne : cs ≠ []) (h : ∀ c ∈ cs, ok c = true ∧ c ≠ '_') (rest : Str) (hd : Delim rest) :
    lexBased pre ok (cs ++ rest) = .ok (pre ++ cs, rest) := by
  have hpart := digitPart_all ok hok cs hne h rest hd
  cases hcs : cs with
  | nil => exact absurd hcs hne
  | cons c cs' =>
    have hc := (h c (by simp [hcs])).2
    rw [hcs] at hpart
    unfold lexBased
    simp only [List.cons_append] at hpart ⊢
    split
    · rename_i x heq
      simp only [List.cons.injEq] at heq
      exact absurd heq.1 hc
    · skip
      simp only [hpart]
      rcases hd.cases with rfl | ⟨r, rfl⟩ | ⟨r, rfl⟩ | ⟨r, rfl⟩ <;>
        simp [isIdChar, isIdStart, isAsciiLetter, isAsciiDigit]

theorem hexChars (up : Bool) (n : Nat) : ∀ c ∈ (hexDigits n).map (hexDigitChar up), isHexDigit c = true ∧ c ≠ '_' := by
  intro c hc
  obtain ⟨d, hd, rfl⟩ := List.mem_map.mp hc
  have := hexDigitChar_facts up d (hexDigits_lt16 n d hd)
  exact ⟨this.1, this.2.1⟩

theorem steps_hex (bigX up : Bool) (n : Nat) (rest : Str) (hd : Delim rest) :
    Steps (hexText bigX up n ++ rest) rest [⟨.number, hexText bigX up n⟩] := by
  have hb := lexBased_all ['0', if bigX then 'X' else 'x'] isHexDigit (by decide) ((hexDigits n).map (hexDigitChar up))
    (by simpa using hexDigits_ne_nil n) (hexChars up n) rest hd
  have hlex : lexNumber (hexText bigX up n ++ rest) = .ok (hexText bigX up n, rest) := by
    unfold hexText
    cases bigX
    · simp only [Bool.false_eq_true, if_false, List.cons_append, List.nil_append] at hb ⊢
      unfold lexNumber
      exact hb
    · simp only [if_true, List.cons_append, List.nil_append] at hb ⊢
      unfold lexNumber
      exact hb
  unfold hexText at hlex ⊢
  simp only [List.cons_append] at hlex ⊢
  exact steps_number '0' _ _ rest (by decide) hlex (by simp; omega)

/-! ### names -/

theorem letter_not_digit (c : Char) (h : isAsciiLetter c = true) : isAsciiDigit c = false := by
  simp only [isAsciiLetter, isAsciiDigit, Bool.and_eq_true, Bool.or_eq_true, decide_eq_true_eq, Bool.and_eq_false_iff,
    decide_eq_false_iff_not, Char.le_def, UInt32.le_iff_toNat_le] at *
  simp at *
  omega

theorem spanChars_all (p : Char → Bool) (hp : p ' ' = false ∧ p ',' = false ∧ p ':' = false)
    (cs : Str) (h : ∀ c ∈ cs, p c = true) (rest : Str) (hd : Delim rest) : spanChars p (cs ++ rest) = (cs, rest) := by
  induction cs with
  | nil =>
    rcases hd.cases with rfl | ⟨r, rfl⟩ | ⟨r, rfl⟩ | ⟨r, rfl⟩
    · simp [spanChars]
    · simp [spanChars, hp.1]
    · simp [spanChars, hp.2.1]
    · simp [spanChars, hp.2.2]
  | cons c cs ih =>
    have hc := h c (by simp)
    simp only [List.cons_append, spanChars, hc, if_true]
    rw [ih (fun x hx => h x (by simp [hx]))]

theorem steps_name (c : Char) (cs rest : Str) (hall : ∀ x ∈ c :: cs, isAsciiLetter x = true) (hd : Delim rest) :
    Steps (c :: cs ++ rest) rest [⟨.name, c :: cs⟩] := by
  have hc := hall c (by simp)
  have h1 : c ≠ ' ' := by rintro rfl; revert hc; decide
  have h2 : c ≠ '\t' := by rintro rfl; revert hc; decide
  have h3 : c ≠ '#' := by rintro rfl; revert hc; decide
  have h4 : c ≠ '\\' := by rintro rfl; revert hc; decide
  have h5 : c ≠ '.' := by rintro rfl; revert hc; decide
  have hnd := letter_not_digit c hc
  have hid : isIdStart c = true := by simp [isIdStart, hc]
  have hspan : spanChars isIdChar (c :: cs ++ rest) = (c :: cs, rest) :=
    spanChars_all isIdChar (by decide) (c :: cs) (fun x hx => by simp [isIdChar, isIdStart, hall x hx]) rest hd
  intro fuel acc hf
  cases fuel with
  | zero => simp at hf
  | succ f =>
    refine ⟨f, by simp at hf; omega, ?_⟩
    have hlen' : ¬ (cs.length + rest.length + 1 ≤ rest.length) := by omega
    rw [lexLoop.eq_def]
    simp only [List.cons_append] at hspan ⊢
    simp [h1, h2, h3, h4, h5, hnd, hid, hspan, hlen']
    rcases hd.cases with rfl | ⟨r, rfl⟩ | ⟨r, rfl⟩ | ⟨r, rfl⟩ <;> simp <;> omega

/-! ### quoted characters -/

theorem lexStringBody_cons (q c : Char) (rest : Str) (h : c ≠ '\\') :
    lexStringBody q (c :: rest) =
      if c == q then .ok ([c], rest)
      else match lexStringBody q rest with
        | .ok (b, r) => .ok (c :: b, r)
        | .error e => .error e := by
  rw [lexStringBody.eq_def]
  split
  · rename_i heq; simp at heq
  · rename_i heq; simp at heq; exact absurd heq.1 h
  · rename_i heq; simp at heq; exact absurd heq.1 h
  · rename_i c' rest' _ _ heq
    simp only [List.cons.injEq] at heq
    obtain ⟨rfl, rfl⟩ := heq
    rfl

theorem steps_quoted (dq : Bool) (ch : Char) (rest : Str) (h1 : ch ≠ '\\') (h2 : ch ≠ quoteChar dq) :
    Steps (quoteChar dq :: ch :: quoteChar dq :: rest) rest [⟨.string, [quoteChar dq, ch, quoteChar dq]⟩] := by
  have hq : quoteChar dq ≠ '\\' := by cases dq <;> decide
  have hbody : lexStringBody (quoteChar dq) (ch :: quoteChar dq :: rest) = .ok ([ch, quoteChar dq], rest) := by
    rw [lexStringBody_cons _ _ _ h1]
    have : (ch == quoteChar dq) = false := by simpa using h2
    simp only [this, Bool.false_eq_true, if_false]
    rw [lexStringBody_cons _ _ _ hq]
    simp
  have hsw : startsWith (ch :: quoteChar dq :: rest) [quoteChar dq, quoteChar dq] = false := by
    simp [startsWith, h2]
  intro fuel acc hf
  cases fuel with
  | zero => simp at hf
  | succ f =>
    refine ⟨f, by simp at hf; omega, ?_⟩
    rw [lexLoop.eq_def]
    cases dq
    · simp only [quoteChar, Bool.false_eq_true, if_false] at hbody hsw ⊢
      simp [isAsciiDigit, isIdStart, isAsciiLetter, hbody, hsw]
      omega
    · simp only [quoteChar, if_true] at hbody hsw ⊢
      simp [isAsciiDigit, isIdStart, isAsciiLetter, hbody, hsw]
      omega

/-! ### limits -/

/-- what may follow a colon or a minus sign: anything but `=` and `>` -/
def NoEq (t : Str) : Prop := ∀ c r, t = c :: r → c ≠ '=' ∧ c ≠ '>'

theorem noEq_of_delim {t : Str} (h : Delim t) : NoEq t := by
  intro c r hc
  rcases h c r hc with rfl | rfl | rfl <;> decide

theorem noEq_blanks (k : Nat) (t : Str) (h : NoEq t) : NoEq (blanks k ++ t) := by
  cases k with
  | zero => simpa [Spec.blanks] using h
  | succ k =>
    intro c r hc
    simp only [Spec.blanks, List.replicate_succ, List.cons_append, List.cons.injEq] at hc
    rw [← hc.1]; decide

theorem noEq_cons (c : Char) (t : Str) (h : c ≠ '=' ∧ c ≠ '>') : NoEq (c :: t) := by
  intro c' r hc; simp only [List.cons.injEq] at hc; rw [← hc.1]; exact h

theorem digit_noeq (c : Char) (h : isAsciiDigit c = true) : c ≠ '=' ∧ c ≠ '>' := by
  constructor <;> (rintro rfl; revert h; decide)

theorem letter_noeq (c : Char) (h : isAsciiLetter c = true) : c ≠ '=' ∧ c ≠ '>' := by
  constructor <;> (rintro rfl; revert h; decide)

theorem noEq_natRepr (n : Nat) (t : Str) : NoEq (natRepr n ++ t) := by
  cases hs : natRepr n with
  | nil => exact absurd hs (natRepr_ne_nil n)
  | cons c cs => exact noEq_cons c _ (digit_noeq c (natRepr_chars n c (by simp [hs])).1)

theorem symText_letters (caps : Bool) (v : Int) (h : (LimitSp.sym caps).Legal v) :
    ∃ c cs, symText caps v = c :: cs ∧ ∀ x ∈ c :: cs, isAsciiLetter x = true := by
  obtain ⟨h1, h2⟩ := h
  have : v = 9 ∨ v = 10 ∨ v = 11 ∨ v = 12 ∨ v = 13 := by omega
  rcases this with rfl | rfl | rfl | rfl | rfl <;> cases caps <;> exact ⟨_, _, rfl, by decide⟩

theorem quoted_char_ok (dq : Bool) (v : Int) (h : (LimitSp.quoted dq).Legal v) :
    Char.ofNat v.toNat ≠ '\\' ∧ Char.ofNat v.toNat ≠ quoteChar dq ∧
      Char.ofNat v.toNat ≠ '\n' ∧ Char.ofNat v.toNat ≠ '\r' ∧ Char.ofNat v.toNat ≠ '\x0c' := by
  obtain ⟨hn, _⟩ := quoted_valid v h
  obtain ⟨h1, h2, h3, h4, h5, h6⟩ := h
  have key : ∀ c : Char, Char.ofNat v.toNat = c → v.toNat = c.toNat := by
    intro c hc; rw [← hc, hn]
  refine ⟨fun hc => ?_, fun hc => ?_, fun hc => ?_, fun hc => ?_, fun hc => ?_⟩
  · have := key _ hc; simp at this; omega
  · have := key _ hc
    cases dq
    · simp [quoteChar] at this h6; omega
    · simp [quoteChar] at this h6; omega
  · have := key _ hc; simp at this; omega
  · have := key _ hc; simp at this; omega
  · have := key _ hc; simp at this; omega

theorem noEq_renderLimit (sp : LimitSp) (pm : Nat) (v : Int) (hl : sp.Legal v) (t : Str) :
    NoEq (renderLimit sp pm v ++ t) := by
  cases sp with
  | dec =>
    simp only [Spec.renderLimit]
    by_cases hv : v < 0
    · simp only [hv, if_true, List.cons_append]; exact noEq_cons _ _ (by decide)
    · simp only [hv, if_false, List.nil_append]; exact noEq_natRepr _ _
  | hex bigX up =>
    simp only [Spec.renderLimit]
    by_cases hv : v < 0
    · simp only [hv, if_true, List.cons_append]; exact noEq_cons _ _ (by decide)
    · simp only [hv, if_false, List.nil_append, List.cons_append]; exact noEq_cons _ _ (by decide)
  | quoted dq =>
    simp only [Spec.renderLimit, List.cons_append]
    cases dq <;> exact noEq_cons _ _ (by decide)
  | sym caps =>
    obtain ⟨c, cs, hs, hall⟩ := symText_letters caps v hl
    have : Spec.renderLimit (.sym caps) pm v = symText caps v := rfl
    rw [this, hs]
    exact noEq_cons c _ (letter_noeq c (hall c (by simp)))

/-- a limit followed by a delimiter is lexed into its tokens -/
theorem steps_limit (sp : LimitSp) (pm : Nat) (v : Int) (hl : sp.Legal v) (rest : Str) (hd : Delim rest) :
    Steps (renderLimit sp pm v ++ rest) rest (limitToks sp v) := by
  cases sp with
  | dec =>
    simp only [Spec.renderLimit, limitToks, signToks]
    by_cases hv : v < 0
    · simp only [hv, if_true, List.cons_append, List.append_assoc, List.singleton_append]
      have h1 := steps_minus (Spec.blanks pm ++ (natRepr v.natAbs ++ rest)) (noEq_blanks _ _ (noEq_natRepr _ _))
      have h2 := steps_blanks pm (natRepr v.natAbs ++ rest)
      have h3 := steps_dec v.natAbs rest hd
      simpa using (h1.trans h2).trans h3
    · simp only [hv, if_false, List.nil_append]
      exact steps_dec v.natAbs rest hd
  | hex bigX up =>
    have ht : ['0', if bigX then 'X' else 'x'] ++ (hexDigits v.natAbs).map (hexDigitChar up) = hexText bigX up v.natAbs := rfl
    simp only [Spec.renderLimit, limitToks, signToks]
    by_cases hv : v < 0
    · simp only [hv, if_true, List.append_assoc]
      rw [← List.append_assoc ['0', _], ht]
      have h1 := steps_minus (Spec.blanks pm ++ (hexText bigX up v.natAbs ++ rest))
        (noEq_blanks _ _ (by unfold hexText; exact noEq_cons _ _ (by decide)))
      have h2 := steps_blanks pm (hexText bigX up v.natAbs ++ rest)
      have h3 := steps_hex bigX up v.natAbs rest hd
      simpa using (h1.trans h2).trans h3
    · simp only [hv, if_false, List.nil_append]
      rw [ht]
      exact steps_hex bigX up v.natAbs rest hd
  | quoted dq =>
    obtain ⟨h1, h2, _⟩ := quoted_char_ok dq v hl
    have : Spec.renderLimit (.quoted dq) pm v = [quoteChar dq, Char.ofNat v.toNat, quoteChar dq] := by
      simp [Spec.renderLimit, quoteChar]
    rw [this]
    simp only [limitToks, List.cons_append, List.nil_append]
    exact steps_quoted dq _ rest h1 h2
  | sym caps =>
    obtain ⟨c, cs, hs, hall⟩ := symText_letters caps v hl
    have : Spec.renderLimit (.sym caps) pm v = symText caps v := rfl
    rw [this]
    simp only [limitToks]
    rw [hs]
    exact steps_name c cs rest hall hd

/-! ### items and descriptions (separator spelled as colon) -/

theorem steps_colon' (rest : Str) (h : NoEq rest) : Steps (':' :: rest) rest [colonTok] :=
  steps_colon rest (fun c r hc => (h c r hc).1)

theorem steps_item (it : ItemD) (sp : ItemSp) (hsep : sp.sep = .colon) (hl : sp.Legal it) (rest : Str) (hd : Delim rest) :
    Steps (renderItem it sp ++ rest) rest (itemToks it sp) := by
  cases sp with
  | mk lo hi sep pad =>
    obtain ⟨p0, pm, p1, p2, p3⟩ := pad
    simp only at hsep
    subst hsep
    cases it with
    | single v =>
      simp only [renderItem, renderSep, itemToks, List.append_assoc]
      have a := steps_blanks p0 (renderLimit lo pm v ++ (Spec.blanks p1 ++ rest))
      have b := steps_limit lo pm v hl (Spec.blanks p1 ++ rest) (Delim.blanks p1 rest hd)
      have c := steps_blanks p1 rest
      simpa using (a.trans b).trans c
    | closed l u =>
      obtain ⟨hl1, hl2⟩ := hl
      simp only [renderItem, renderSep, itemToks, List.append_assoc, List.singleton_append]
      have a := steps_blanks p0 (renderLimit lo pm l ++ (Spec.blanks p1 ++ (':' :: (Spec.blanks p2 ++ (renderLimit hi pm u ++ (Spec.blanks p3 ++ rest))))))
      have b := steps_limit lo pm l hl1 (Spec.blanks p1 ++ (':' :: (Spec.blanks p2 ++ (renderLimit hi pm u ++ (Spec.blanks p3 ++ rest)))))
        (Delim.blanks p1 _ (Delim.cons_colon _))
      have c := steps_blanks p1 (':' :: (Spec.blanks p2 ++ (renderLimit hi pm u ++ (Spec.blanks p3 ++ rest))))
      have d := steps_colon' (Spec.blanks p2 ++ (renderLimit hi pm u ++ (Spec.blanks p3 ++ rest)))
        (noEq_blanks p2 _ (noEq_renderLimit hi pm u hl2 _))
      have e := steps_blanks p2 (renderLimit hi pm u ++ (Spec.blanks p3 ++ rest))
      have f := steps_limit hi pm u hl2 (Spec.blanks p3 ++ rest) (Delim.blanks p3 rest hd)
      have g := steps_blanks p3 rest
      simpa using (((((a.trans b).trans c).trans d).trans e).trans f).trans g
    | from_ l =>
      simp only [renderItem, renderSep, itemToks, List.append_assoc, List.singleton_append]
      have a := steps_blanks p0 (renderLimit lo pm l ++ (Spec.blanks p1 ++ (':' :: (Spec.blanks p2 ++ rest))))
      have b := steps_limit lo pm l hl (Spec.blanks p1 ++ (':' :: (Spec.blanks p2 ++ rest))) (Delim.blanks p1 _ (Delim.cons_colon _))
      have c := steps_blanks p1 (':' :: (Spec.blanks p2 ++ rest))
      have d := steps_colon' (Spec.blanks p2 ++ rest) (noEq_blanks p2 _ (noEq_of_delim hd))
      have e := steps_blanks p2 rest
      simpa using (((a.trans b).trans c).trans d).trans e
    | upto u =>
      simp only [renderItem, renderSep, itemToks, List.append_assoc, List.singleton_append]
      have a := steps_blanks p0 (':' :: (Spec.blanks p2 ++ (renderLimit hi pm u ++ (Spec.blanks p3 ++ rest))))
      have d := steps_colon' (Spec.blanks p2 ++ (renderLimit hi pm u ++ (Spec.blanks p3 ++ rest)))
        (noEq_blanks p2 _ (noEq_renderLimit hi pm u hl _))
      have e := steps_blanks p2 (renderLimit hi pm u ++ (Spec.blanks p3 ++ rest))
      have f := steps_limit hi pm u hl (Spec.blanks p3 ++ rest) (Delim.blanks p3 rest hd)
      have g := steps_blanks p3 rest
      simpa using (((a.trans d).trans e).trans f).trans g

def bodyToks : RangeDesc → List ItemSp → List Tok
  | [], _ => []
  | [it], sps => itemToks it (sps.headD {})
  | it :: it2 :: rest, sps => itemToks it (sps.headD {}) ++ commaTok :: bodyToks (it2 :: rest) sps.tail

theorem descToks_eq_body (d : RangeDesc) (sps : List ItemSp) : descToks d sps = bodyToks d sps ++ [eofTok] := by
  induction d generalizing sps with
  | nil => rfl
  | cons it rest ih =>
    cases rest with
    | nil => rfl
    | cons it2 rest2 => simp [descToks, bodyToks, ih]

/-- every item is spelled with a colon as separator -/
def AllColon : RangeDesc → List ItemSp → Prop
  | [], _ => True
  | _ :: rest, sps => (sps.headD {}).sep = .colon ∧ AllColon rest sps.tail

theorem steps_desc (d : RangeDesc) : ∀ sps : List ItemSp, AllColon d sps → LegalSpelling d sps →
    Steps (render d sps) [] (bodyToks d sps) := by
  induction d with
  | nil => intro sps _ _; exact Steps.refl []
  | cons it rest ih =>
    intro sps hc hl
    obtain ⟨hc1, hc2⟩ := hc
    obtain ⟨hl1, hl2⟩ := hl
    cases rest with
    | nil =>
      simp only [render, bodyToks]
      have := steps_item it (sps.headD {}) hc1 hl1 [] Delim.nil
      simpa using this
    | cons it2 rest2 =>
      simp only [render, bodyToks, List.append_assoc, List.singleton_append]
      have a := steps_item it (sps.headD {}) hc1 hl1 (',' :: render (it2 :: rest2) sps.tail) (Delim.cons_comma _)
      have b := steps_comma (render (it2 :: rest2) sps.tail)
      have c := ih sps.tail hc2 hl2
      simpa using (a.trans b).trans c

/-! ### no token is dropped as blank -/

theorem lstrip_append_ne_nil (l : Str) (c : Char) (h : isPySpace c = false) : lstrip (l ++ [c]) ≠ [] := by
  induction l with
  | nil => simp [lstrip, h]
  | cons x xs ih =>
    simp only [List.cons_append, lstrip]
    split
    · exact ih
    · simp

theorem strip_ne_nil (c : Char) (cs : Str) (h : isPySpace c = false) : (strip (c :: cs)).isEmpty = false := by
  have h1 : lstrip (c :: cs) = c :: cs := lstrip_of_not_space c cs h
  have h2 : lstrip ((c :: cs).reverse) ≠ [] := by
    simp only [List.reverse_cons]
    exact lstrip_append_ne_nil _ c h
  unfold strip rstrip
  rw [h1]
  cases hr : lstrip (c :: cs).reverse with
  | nil => exact absurd hr h2
  | cons x xs => simp

/-- the head character of a token's text is not white space -/
def TokVisible (t : Tok) : Prop := ∃ c cs, t.text = c :: cs ∧ isPySpace c = false

theorem TokVisible.keep {t : Tok} (h : TokVisible t) : (t.kind == .endmarker || !(strip t.text).isEmpty) = true := by
  obtain ⟨c, cs, ht, hc⟩ := h
  rw [ht, strip_ne_nil c cs hc]
  simp

theorem letter_not_space (c : Char) (h : isAsciiLetter c = true) : isPySpace c = false := by
  simp only [isAsciiLetter, Bool.and_eq_true, Bool.or_eq_true, decide_eq_true_eq, Char.le_def, UInt32.le_iff_toNat_le] at h
  have hn : c.toNat = c.val.toNat := rfl
  simp at h
  unfold isPySpace
  simp only [hn]
  simp
  omega

theorem limitToks_visible (sp : LimitSp) (v : Int) (hl : sp.Legal v) : ∀ t ∈ limitToks sp v, TokVisible t := by
  have hminus : TokVisible minusTok := ⟨'-', [], rfl, by decide⟩
  have hsign : ∀ t ∈ signToks v, TokVisible t := by
    intro t ht
    unfold signToks at ht
    split at ht
    · simp at ht; subst ht; exact hminus
    · simp at ht
  cases sp with
  | dec =>
    intro t ht
    simp only [limitToks, List.mem_append, List.mem_singleton] at ht
    rcases ht with ht | rfl
    · exact hsign t ht
    · cases hs : natRepr v.natAbs with
      | nil => exact absurd hs (natRepr_ne_nil _)
      | cons c cs =>
        refine ⟨c, cs, rfl, ?_⟩
        have hc : c ∈ natRepr v.natAbs := by simp [hs]
        obtain ⟨d, hd, rfl⟩ := List.mem_map.mp hc
        exact digitChar_not_space d (digits_lt10 _ d hd)
  | hex bigX up =>
    intro t ht
    simp only [limitToks, List.mem_append, List.mem_singleton] at ht
    rcases ht with ht | rfl
    · exact hsign t ht
    · exact ⟨'0', _, rfl, by decide⟩
  | quoted dq =>
    intro t ht
    simp only [limitToks, List.mem_singleton] at ht
    subst ht
    exact ⟨quoteChar dq, _, rfl, by cases dq <;> decide⟩
  | sym caps =>
    intro t ht
    simp only [limitToks, List.mem_singleton] at ht
    subst ht
    obtain ⟨c, cs, hs, hall⟩ := symText_letters caps v hl
    exact ⟨c, cs, hs, letter_not_space c (hall c (by simp))⟩

theorem colonTok_visible : TokVisible colonTok := ⟨':', [], rfl, by decide⟩
theorem commaTok_visible : TokVisible commaTok := ⟨',', [], rfl, by decide⟩

theorem itemToks_visible (it : ItemD) (sp : ItemSp) (hl : sp.Legal it) : ∀ t ∈ itemToks it sp, TokVisible t := by
  cases it with
  | single v => exact limitToks_visible sp.lo v hl
  | closed l u =>
    intro t ht
    simp only [itemToks, List.mem_append, List.mem_cons] at ht
    rcases ht with ht | rfl | ht
    · exact limitToks_visible sp.lo l hl.1 t ht
    · exact colonTok_visible
    · exact limitToks_visible sp.hi u hl.2 t ht
  | from_ l =>
    intro t ht
    simp only [itemToks, List.mem_append, List.mem_singleton] at ht
    rcases ht with ht | rfl
    · exact limitToks_visible sp.lo l hl t ht
    · exact colonTok_visible
  | upto u =>
    intro t ht
    simp only [itemToks, List.mem_cons] at ht
    rcases ht with rfl | ht
    · exact colonTok_visible
    · exact limitToks_visible sp.hi u hl t ht

theorem bodyToks_visible (d : RangeDesc) : ∀ sps, LegalSpelling d sps → ∀ t ∈ bodyToks d sps, TokVisible t := by
  induction d with
  | nil => intro sps _ t ht; simp [bodyToks] at ht
  | cons it rest ih =>
    intro sps hl t ht
    obtain ⟨hl1, hl2⟩ := hl
    cases rest with
    | nil => exact itemToks_visible it _ hl1 t (by simpa [bodyToks] using ht)
    | cons it2 rest2 =>
      simp only [bodyToks, List.mem_append, List.mem_cons] at ht
      rcases ht with ht | rfl | ht
      · exact itemToks_visible it _ hl1 t ht
      · exact commaTok_visible
      · exact ih sps.tail hl2 t ht

/-! ### no line breaks in a rendered description -/

def NoBreak (s : Str) : Prop := ∀ c ∈ s, c ≠ '\n' ∧ c ≠ '\r' ∧ c ≠ '\x0c'

theorem NoBreak.append {a b : Str} (ha : NoBreak a) (hb : NoBreak b) : NoBreak (a ++ b) := by
  intro c hc
  rcases List.mem_append.mp hc with h | h
  · exact ha c h
  · exact hb c h

theorem NoBreak.nil : NoBreak [] := by intro c hc; simp at hc

theorem NoBreak.cons {c : Char} {s : Str} (hc : c ≠ '\n' ∧ c ≠ '\r' ∧ c ≠ '\x0c') (hs : NoBreak s) : NoBreak (c :: s) := by
  intro x hx
  rcases List.mem_cons.mp hx with rfl | h
  · exact hc
  · exact hs x h

theorem noBreak_blanks (k : Nat) : NoBreak (Spec.blanks k) := by
  intro c hc
  simp only [Spec.blanks, List.mem_replicate] at hc
  rw [hc.2]; decide

theorem hexdigit_nobreak (c : Char) (h : isHexDigit c = true) : c ≠ '\n' ∧ c ≠ '\r' ∧ c ≠ '\x0c' := by
  refine ⟨?_, ?_, ?_⟩ <;> (rintro rfl; revert h; decide)

theorem letter_nobreak (c : Char) (h : isAsciiLetter c = true) : c ≠ '\n' ∧ c ≠ '\r' ∧ c ≠ '\x0c' := by
  refine ⟨?_, ?_, ?_⟩ <;> (rintro rfl; revert h; decide)

theorem digit_isHex (c : Char) (h : isAsciiDigit c = true) : isHexDigit c = true := by simp [isHexDigit, h]

theorem noBreak_natRepr (n : Nat) : NoBreak (natRepr n) := by
  intro c hc
  exact hexdigit_nobreak c (digit_isHex c (natRepr_chars n c hc).1)

theorem noBreak_renderLimit (sp : LimitSp) (pm : Nat) (v : Int) (hl : sp.Legal v) : NoBreak (renderLimit sp pm v) := by
  have hsign : NoBreak (if v < 0 then '-' :: Spec.blanks pm else []) := by
    split
    · exact NoBreak.cons (by decide) (noBreak_blanks pm)
    · exact NoBreak.nil
  cases sp with
  | dec => exact hsign.append (noBreak_natRepr _)
  | hex bigX up =>
    simp only [Spec.renderLimit]
    refine (hsign.append ?_).append ?_
    · cases bigX <;> exact NoBreak.cons (by decide) (NoBreak.cons (by decide) NoBreak.nil)
    · intro c hc
      exact hexdigit_nobreak c (hexChars up v.natAbs c hc).1
  | quoted dq =>
    obtain ⟨_, _, h3, h4, h5⟩ := quoted_char_ok dq v hl
    simp only [Spec.renderLimit]
    cases dq <;> exact NoBreak.cons (by decide) (NoBreak.cons ⟨h3, h4, h5⟩ (NoBreak.cons (by decide) NoBreak.nil))
  | sym caps =>
    obtain ⟨c, cs, hs, hall⟩ := symText_letters caps v hl
    have : Spec.renderLimit (.sym caps) pm v = symText caps v := rfl
    rw [this, hs]
    intro x hx
    exact letter_nobreak x (hall x hx)

theorem noBreak_renderSep (s : SepSp) : NoBreak (renderSep s) := by
  cases s <;> (intro c hc; simp [renderSep, ellipsisChar] at hc)
  · subst hc; decide
  · subst hc; decide
  · subst hc; decide

theorem noBreak_renderItem (it : ItemD) (sp : ItemSp) (hl : sp.Legal it) : NoBreak (renderItem it sp) := by
  cases sp with
  | mk lo hi sep pad =>
    obtain ⟨p0, pm, p1, p2, p3⟩ := pad
    cases it with
    | single v =>
      exact (noBreak_blanks p0).append ((noBreak_renderLimit lo pm v hl).append (noBreak_blanks p1))
    | closed l u =>
      simp only [renderItem]
      exact (noBreak_blanks p0).append ((((((noBreak_renderLimit lo pm l hl.1).append (noBreak_blanks p1)).append
        (noBreak_renderSep sep)).append (noBreak_blanks p2)).append (noBreak_renderLimit hi pm u hl.2)).append (noBreak_blanks p3))
    | from_ l =>
      simp only [renderItem]
      exact (noBreak_blanks p0).append ((((noBreak_renderLimit lo pm l hl).append (noBreak_blanks p1)).append
        (noBreak_renderSep sep)).append (noBreak_blanks p2))
    | upto u =>
      simp only [renderItem]
      exact (noBreak_blanks p0).append ((((noBreak_renderSep sep).append (noBreak_blanks p2)).append
        (noBreak_renderLimit hi pm u hl)).append (noBreak_blanks p3))

theorem noBreak_render (d : RangeDesc) : ∀ sps, LegalSpelling d sps → NoBreak (render d sps) := by
  induction d with
  | nil => intro _ _; exact NoBreak.nil
  | cons it rest ih =>
    intro sps hl
    obtain ⟨hl1, hl2⟩ := hl
    cases rest with
    | nil => exact noBreak_renderItem it _ hl1
    | cons it2 rest2 =>
      simp only [render]
      exact ((noBreak_renderItem it _ hl1).append (NoBreak.cons (by decide) NoBreak.nil)).append (ih sps.tail hl2)

/-- **Lexer level.** A description spelled with colons is tokenised into `descToks`. -/
theorem tokenize_render (d : RangeDesc) (sps : List ItemSp) (hc : AllColon d sps) (hl : LegalSpelling d sps) :
    tokenizeWithoutSpace (render d sps) = .ok (descToks d sps) := by
  have hnb : (render d sps).any (fun c => c == '\n' || c == '\r' || c == '\x0c') = false := by
    simp only [List.any_eq_false]
    intro c hc'
    obtain ⟨h1, h2, h3⟩ := noBreak_render d sps hl c hc'
    simp [h1, h2, h3]
  have hlex : lexAll (render d sps) = .ok (bodyToks d sps ++ [eofTok]) := by
    unfold lexAll
    simp only [hnb, Bool.false_eq_true, if_false]
    exact (steps_desc d sps hc hl).lexLoop_done
  unfold tokenizeWithoutSpace
  rw [hlex, descToks_eq_body]
  simp only [List.filter_append]
  congr 1
  · congr 1
    apply List.filter_eq_self.mpr
    intro t ht
    exact (bodyToks_visible d sps hl t ht).keep

end Cutplace
