import Cutplace.Proofs.RangeLex
/-
The two text passes before tokenising in `Range.__init__` — `description.replace("...", "…")` and
`_tokenizable_description` — turn every spelling of the separator into a colon and leave the rest
of a rendered description alone.
-/
set_option linter.unusedSimpArgs false

namespace Cutplace
open Cutplace.Spec

/-- characters both passes copy unchanged whatever the context -/
def Plain (c : Char) : Prop := c ≠ '.' ∧ c ≠ '\'' ∧ c ≠ '"' ∧ c ≠ ellipsisChar

/-- a text pass that copies plain text and quoted characters and rewrites separators by `σ` -/
structure Pass (T : Str → Str) (σ : SepSp → SepSp) : Prop where
  nil : T [] = []
  plain : ∀ (cs rest : Str), (∀ c ∈ cs, Plain c) → T (cs ++ rest) = cs ++ T rest
  quoted : ∀ (dq : Bool) (ch : Char) (rest : Str), ch ≠ '\\' → ch ≠ quoteChar dq →
    T (quoteChar dq :: ch :: quoteChar dq :: rest) = quoteChar dq :: ch :: quoteChar dq :: T rest
  sep : ∀ (s : SepSp) (rest : Str), T (renderSep s ++ rest) = renderSep (σ s) ++ T rest

/-! ### plain pieces -/

theorem plain_blanks (k : Nat) : ∀ c ∈ Spec.blanks k, Plain c := by
  intro c hc
  simp only [Spec.blanks, List.mem_replicate] at hc
  rw [hc.2]; unfold Plain ellipsisChar; decide

theorem hexdigit_plain (c : Char) (h : isHexDigit c = true) : Plain c := by
  unfold Plain ellipsisChar
  refine ⟨?_, ?_, ?_, ?_⟩ <;> (rintro rfl; revert h; decide)

theorem letter_plain (c : Char) (h : isAsciiLetter c = true) : Plain c := by
  unfold Plain ellipsisChar
  refine ⟨?_, ?_, ?_, ?_⟩ <;> (rintro rfl; revert h; decide)

theorem plain_natRepr (n : Nat) : ∀ c ∈ natRepr n, Plain c := by
  intro c hc
  exact hexdigit_plain c (digit_isHex c (natRepr_chars n c hc).1)

theorem plain_sign (pm : Nat) (v : Int) : ∀ c ∈ (if v < 0 then '-' :: Spec.blanks pm else []), Plain c := by
  intro c hc
  split at hc
  · rcases List.mem_cons.mp hc with rfl | h
    · unfold Plain ellipsisChar; decide
    · exact plain_blanks pm c h
  · simp at hc

theorem plain_append {a b : Str} (ha : ∀ c ∈ a, Plain c) (hb : ∀ c ∈ b, Plain c) : ∀ c ∈ a ++ b, Plain c := by
  intro c hc
  rcases List.mem_append.mp hc with h | h
  · exact ha c h
  · exact hb c h

/-- the text of a limit passes unchanged -/
theorem pass_limit {T : Str → Str} {σ : SepSp → SepSp} (hP : Pass T σ) (sp : LimitSp) (pm : Nat) (v : Int)
    (hl : sp.Legal v) (rest : Str) : T (renderLimit sp pm v ++ rest) = renderLimit sp pm v ++ T rest := by
  cases sp with
  | dec =>
    exact hP.plain _ rest (plain_append (plain_sign pm v) (plain_natRepr _))
  | hex bigX up =>
    apply hP.plain
    simp only [Spec.renderLimit]
    refine plain_append (plain_append (plain_sign pm v) ?_) ?_
    · intro c hc
      cases bigX <;> simp at hc <;> rcases hc with rfl | rfl <;> (unfold Plain ellipsisChar; decide)
    · intro c hc
      exact hexdigit_plain c (hexChars up v.natAbs c hc).1
  | quoted dq =>
    obtain ⟨h1, h2, _⟩ := quoted_char_ok dq v hl
    have : Spec.renderLimit (.quoted dq) pm v = [quoteChar dq, Char.ofNat v.toNat, quoteChar dq] := by
      simp [Spec.renderLimit, quoteChar]
    rw [this]
    simp only [List.cons_append, List.nil_append]
    exact hP.quoted dq _ rest h1 h2
  | sym caps =>
    obtain ⟨c, cs, hs, hall⟩ := symText_letters caps v hl
    have : Spec.renderLimit (.sym caps) pm v = symText caps v := rfl
    rw [this, hs]
    exact hP.plain _ rest (fun x hx => letter_plain x (hall x hx))

theorem pass_blanks {T : Str → Str} {σ : SepSp → SepSp} (hP : Pass T σ) (k : Nat) (rest : Str) :
    T (Spec.blanks k ++ rest) = Spec.blanks k ++ T rest := hP.plain _ rest (plain_blanks k)

theorem pass_comma {T : Str → Str} {σ : SepSp → SepSp} (hP : Pass T σ) (rest : Str) :
    T (',' :: rest) = ',' :: T rest := by
  have := hP.plain [','] rest (by intro c hc; simp at hc; subst hc; unfold Plain ellipsisChar; decide)
  simpa using this

/-- the separator of an item's spelling after a pass -/
def mapSep (σ : SepSp → SepSp) (sp : ItemSp) : ItemSp := { sp with sep := σ sp.sep }

theorem pass_item {T : Str → Str} {σ : SepSp → SepSp} (hP : Pass T σ) (it : ItemD) (sp : ItemSp) (hl : sp.Legal it)
    (rest : Str) : T (renderItem it sp ++ rest) = renderItem it (mapSep σ sp) ++ T rest := by
  cases sp with
  | mk lo hi sep pad =>
    obtain ⟨p0, pm, p1, p2, p3⟩ := pad
    cases it with
    | single v =>
      simp only [renderItem, mapSep, List.append_assoc]
      rw [pass_blanks hP, pass_limit hP lo pm v hl, pass_blanks hP]
    | closed l u =>
      simp only [renderItem, mapSep, List.append_assoc]
      rw [pass_blanks hP, pass_limit hP lo pm l hl.1, pass_blanks hP, hP.sep, pass_blanks hP,
        pass_limit hP hi pm u hl.2, pass_blanks hP]
    | from_ l =>
      simp only [renderItem, mapSep, List.append_assoc]
      rw [pass_blanks hP, pass_limit hP lo pm l hl, pass_blanks hP, hP.sep, pass_blanks hP]
    | upto u =>
      simp only [renderItem, mapSep, List.append_assoc]
      rw [pass_blanks hP, hP.sep, pass_blanks hP, pass_limit hP hi pm u hl, pass_blanks hP]

/-- spellings of a whole description after a pass (one entry per item) -/
def mapSeps (σ : SepSp → SepSp) : RangeDesc → List ItemSp → List ItemSp
  | [], _ => []
  | _ :: rest, sps => mapSep σ (sps.headD {}) :: mapSeps σ rest sps.tail

theorem pass_render {T : Str → Str} {σ : SepSp → SepSp} (hP : Pass T σ) (d : RangeDesc) :
    ∀ sps, LegalSpelling d sps → T (render d sps) = render d (mapSeps σ d sps) := by
  induction d with
  | nil => intro _ _; simpa [render] using hP.nil
  | cons it rest ih =>
    intro sps hl
    obtain ⟨hl1, hl2⟩ := hl
    cases rest with
    | nil =>
      simp only [render, mapSeps, List.headD_cons]
      have := pass_item hP it (sps.headD {}) hl1 []
      simpa [hP.nil] using this
    | cons it2 rest2 =>
      simp only [render, mapSeps, List.headD_cons, List.tail_cons, List.append_assoc, List.singleton_append]
      rw [pass_item hP it (sps.headD {}) hl1, pass_comma hP, ih sps.tail hl2]
      rfl

/-! ### the two passes of `Range.__init__` -/

def dots3 : Str := ['.', '.', '.']

def sigmaReplace : SepSp → SepSp
  | .dots => .ellipsis
  | s => s

def sigmaTokenizable : SepSp → SepSp
  | .ellipsis => .colon
  | s => s

theorem replaceAll_nil (new : Str) : replaceAll dots3 new [] = [] := by
  rw [replaceAll]

theorem replaceAll_skip (new : Str) (c : Char) (cs : Str) (h : startsWith (c :: cs) dots3 = false) :
    replaceAll dots3 new (c :: cs) = c :: replaceAll dots3 new cs := by
  rw [replaceAll]
  simp [h]

theorem replaceAll_hit (new rest : Str) :
    replaceAll dots3 new ('.' :: '.' :: '.' :: rest) = new ++ replaceAll dots3 new rest := by
  rw [replaceAll]
  simp [dots3, startsWith]

theorem replaceAll_plain (new : Str) (cs rest : Str) (h : ∀ c ∈ cs, c ≠ '.') :
    replaceAll dots3 new (cs ++ rest) = cs ++ replaceAll dots3 new rest := by
  induction cs with
  | nil => rfl
  | cons c cs ih =>
    have hc := h c (by simp)
    simp only [List.cons_append]
    rw [replaceAll_skip _ _ _ (by simp [dots3, startsWith, hc]), ih (fun x hx => h x (by simp [hx]))]

theorem pass_replace : Pass (replaceAll dots3 [ellipsisChar]) sigmaReplace where
  nil := replaceAll_nil _
  plain := fun cs rest h => replaceAll_plain _ cs rest (fun c hc => (h c hc).1)
  quoted := by
    intro dq ch rest _ _
    have hq : quoteChar dq ≠ '.' := by cases dq <;> decide
    rw [replaceAll_skip _ _ _ (by simp [dots3, startsWith, hq])]
    rw [replaceAll_skip _ ch _ (by simp [dots3, startsWith, hq])]
    rw [replaceAll_skip _ _ _ (by simp [dots3, startsWith, hq])]
  sep := by
    intro s rest
    cases s with
    | dots => simp only [renderSep, sigmaReplace, List.cons_append, List.nil_append]; exact replaceAll_hit _ rest
    | colon =>
      simp only [renderSep, sigmaReplace, List.cons_append, List.nil_append]
      exact replaceAll_skip _ _ _ (by simp [dots3, startsWith])
    | ellipsis =>
      simp only [renderSep, sigmaReplace, List.cons_append, List.nil_append]
      exact replaceAll_skip _ _ _ (by simp [dots3, startsWith, ellipsisChar])

theorem tokenizable_plain (cs rest : Str) (h : ∀ c ∈ cs, c ≠ '\'' ∧ c ≠ '"' ∧ c ≠ ellipsisChar) :
    tokenizable none false (cs ++ rest) = cs ++ tokenizable none false rest := by
  induction cs with
  | nil => rfl
  | cons c cs ih =>
    obtain ⟨h1, h2, h3⟩ := h c (by simp)
    simp only [List.cons_append, tokenizable, h1, h2, h3, beq_iff_eq, Bool.or_self, Bool.false_eq_true, if_false,
      Bool.or_eq_true, or_self]
    rw [ih (fun x hx => h x (by simp [hx]))]

theorem pass_tokenizable : Pass (tokenizable none false) sigmaTokenizable where
  nil := rfl
  plain := fun cs rest h => tokenizable_plain cs rest (fun c hc => ⟨(h c hc).2.1, (h c hc).2.2.1, (h c hc).2.2.2⟩)
  quoted := by
    intro dq ch rest h1 h2
    cases dq
    · simp only [quoteChar, Bool.false_eq_true, if_false] at h2 ⊢
      simp [tokenizable, h1, h2]
    · simp only [quoteChar, if_true] at h2 ⊢
      simp [tokenizable, h1, h2]
  sep := by
    intro s rest
    cases s with
    | dots =>
      simp only [renderSep, sigmaTokenizable]
      exact tokenizable_plain _ rest (by intro c hc; simp at hc; subst hc; unfold ellipsisChar; decide)
    | colon =>
      simp only [renderSep, sigmaTokenizable]
      exact tokenizable_plain _ rest (by intro c hc; simp at hc; subst hc; unfold ellipsisChar; decide)
    | ellipsis =>
      simp only [renderSep, sigmaTokenizable, List.cons_append, List.nil_append]
      simp [tokenizable, ellipsisChar]

end Cutplace
