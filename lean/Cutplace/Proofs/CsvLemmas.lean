import Cutplace.Model.Csv
namespace Cutplace.Csv

/-- quoted body in the doublequote dialect: every quote character doubled -/
def bodyDq (q : Char) : List Char → List Char
  | [] => []
  | c :: cs => if c = q then q :: q :: bodyDq q cs else c :: bodyDq q cs

theorem feedAll_append (cfg : Cfg) (s : S) (a b : List Char) :
    feedAll cfg s (a ++ b) = (feedAll cfg s a).bind (fun s' => feedAll cfg s' b) := by
  induction a generalizing s with
  | nil => simp [feedAll]
  | cons c cs ih =>
    simp only [List.cons_append, feedAll]
    cases feed cfg s c with
    | none => simp
    | some s' => simp [ih]

/-- In a quoted field (doublequote dialect), feeding the doubled body of `f` appends `f` to the field
under construction, whatever the line-splitter state — `f` may contain delimiters, quotes, CR and LF. -/
theorem quoted_body (cfg : Cfg) (hdq : cfg.dq = true) (hesc : cfg.esc = none)
    (hq1 : cfg.quote ≠ '\n') (hq2 : cfg.quote ≠ '\r')
    (f : List Char) : ∀ (l : L) (acc : List Char) (fields : List (List Char)) (out : List (List (List Char))),
    ∃ l', feedAll cfg { l := l, p := { st := .inQuoted, field := acc, fields := fields }, out := out } (bodyDq cfg.quote f)
      = some { l := l', p := { st := .inQuoted, field := f.reverse ++ acc, fields := fields }, out := out } := by
  induction f with
  | nil => intro l acc fields out; exact ⟨l, by simp [bodyDq, feedAll]⟩
  | cons c cs ih =>
    intro l acc fields out
    by_cases hc : c = cfg.quote
    · subst hc
      simp only [bodyDq, if_true, feedAll]
      obtain ⟨l', h'⟩ := ih .mid (cfg.quote :: acc) fields out
      refine ⟨l', ?_⟩
      cases l <;> simp [feed, S.eol, S.ch, step, P.add, hdq, hesc, hq1, hq2, isNl, h', feedAll, List.reverse_cons, List.append_assoc]
    · simp only [bodyDq, hc, if_false, feedAll]
      by_cases hn : c = '\n'
      · subst hn
        obtain ⟨l', h'⟩ := ih .fresh ('\n' :: acc) fields out
        refine ⟨l', ?_⟩
        have hq : ('\n' == cfg.quote) = false := by simp; exact fun h => hq1 h.symm
        cases l <;> simp [feed, S.eol, S.ch, step, P.add, hdq, hesc, hq, isNl, h', feedAll, List.reverse_cons, List.append_assoc]
      · by_cases hr : c = '\r'
        · subst hr
          obtain ⟨l', h'⟩ := ih .cr ('\r' :: acc) fields out
          refine ⟨l', ?_⟩
          have hq : ('\r' == cfg.quote) = false := by simp; exact fun h => hq2 h.symm
          cases l <;> simp [feed, S.eol, S.ch, step, P.add, hdq, hesc, hq, isNl, h', feedAll, List.reverse_cons, List.append_assoc]
        · obtain ⟨l', h'⟩ := ih .mid (c :: acc) fields out
          refine ⟨l', ?_⟩
          have hq : (c == cfg.quote) = false := by simp [hc]
          cases l <;> simp [feed, S.eol, S.ch, step, P.add, hdq, hesc, hq, hn, hr, isNl, h', feedAll, List.reverse_cons, List.append_assoc]

end Cutplace.Csv
