import Cutplace.Proofs.DecimalTotal
import Cutplace.Model.Fields
set_option linter.unusedSimpArgs false
namespace Cutplace

/-- failure only as interface error, "outside the model", or the recorded `OverflowError` finding -/
def Clean2 {α : Type} (o : Out α) : Prop := ∀ e, o = .error e → e = .iface ∨ e = .unsupported ∨ e = .overflow

theorem Clean2.of_clean {α : Type} {o : Out α} (h : Clean o) : Clean2 o := by
  intro e he; rcases h e he with h | h; exact Or.inl h; exact Or.inr (Or.inl h)
theorem Clean2.ok {α : Type} (a : α) : Clean2 (.ok a : Out α) := by intro e h; cases h
theorem Clean2.iface {α : Type} : Clean2 (.error .iface : Out α) := by intro e h; cases h; exact Or.inl rfl
theorem Clean2.unsupported {α : Type} : Clean2 (.error .unsupported : Out α) := by intro e h; cases h; exact Or.inr (Or.inl rfl)
theorem Clean2.overflow {α : Type} : Clean2 (.error .overflow : Out α) := by intro e h; cases h; exact Or.inr (Or.inr rfl)

theorem Clean2.map {α β : Type} {o : Out α} (h : Clean2 o) (f : α → β) : Clean2 (o.map f) := by
  cases o with
  | error e => intro e' he; simp [Except.map] at he; subst he; exact h e rfl
  | ok a => intro e' he; simp [Except.map] at he

theorem createRangeFromLength_errors (len : Range) (e : PyExn) (h : createRangeFromLength len = .error e) :
    e = .iface ∨ e = .unsupported ∨ e = .overflow ∨ e = .data .range := by
  unfold createRangeFromLength at h
  split at h
  · rcases Range.parse_clean [] none e h with h | h
    · exact Or.inl h
    · exact Or.inr (Or.inl h)
  · split at h
    · cases h; exact Or.inr (Or.inr (Or.inr rfl))
    · split at h
      · cases h; exact Or.inr (Or.inr (Or.inl rfl))
      · split at h
        · cases h; exact Or.inr (Or.inl rfl)
        · rcases Range.parse_clean _ none e h with h | h
          · exact Or.inl h
          · exact Or.inr (Or.inl h)

theorem crl_other (len : Range) (e : PyExn) (h : createRangeFromLength len = .error e)
    (hne : createRangeFromLength len = .error (.data .range) → False) : e = .iface ∨ e = .unsupported ∨ e = .overflow := by
  rcases createRangeFromLength_errors len e h with h' | h' | h' | h'
  · exact Or.inl h'
  · exact Or.inr (Or.inl h')
  · exact Or.inr (Or.inr h')
  · subst h'; exact absurd h hne

theorem map_error {α β : Type} (o : Out α) (f : α → β) (e : PyExn) (h : o.map f = .error e) : o = .error e := by
  cases o with
  | error e' => simp [Except.map] at h; rw [h]
  | ok a => simp [Except.map] at h

theorem declareInteger_clean (fixed : Bool) (lengthText rule : Str) (length : Range) :
    Clean2 (declareInteger fixed lengthText rule length) := by
  intro e he
  unfold declareInteger at he
  simp only [bind, Except.bind, pure, Except.pure] at he
  repeat' (split at he)
  all_goals first
    | (cases he; done)
    | (cases he; exact Or.inl rfl)
    | (cases he; exact Clean2.of_clean (Range.parse_clean _ _) _ (by assumption))
    | (cases he; exact crl_other _ _ (by assumption) (by assumption))
    | (cases he; exact Clean2.of_clean (Range.parse_clean _ _) _ (map_error _ _ _ (by assumption)))
    | exact Clean2.of_clean (Range.parse_clean _ _) _ he
    | (simp at *; done)
    | skip

theorem hasEof_tail (t : Tok) (ts : List Tok) (h : HasEof (t :: ts)) (hne : t.isEof = false) : HasEof ts := by
  obtain ⟨x, hx, hxe⟩ := h
  rcases List.mem_cons.mp hx with rfl | hx'
  · rw [hne] at hxe; cases hxe
  · exact ⟨x, hx', hxe⟩

theorem not_hasEof_nil : ¬ HasEof [] := by rintro ⟨x, hx, _⟩; simp at hx

theorem choiceLoop_clean (fuel : Nat) : ∀ (toks : List Tok) (acc : List Str), HasEof toks → Clean2 (choiceLoop fuel toks acc) := by
  induction fuel with
  | zero => intro toks acc _; unfold choiceLoop; exact Clean2.unsupported
  | succ fuel ih =>
    intro toks acc heof
    cases toks with
    | nil => exact absurd heof not_hasEof_nil
    | cons t ts =>
      unfold choiceLoop
      by_cases he : t.isEof = true
      · simp only [he, if_true]; exact Clean2.ok _
      · have hne : t.isEof = false := by simpa using he
        have h1 := hasEof_tail t ts heof hne
        simp only [hne, Bool.false_eq_true, if_false]
        split
        · exact Clean2.iface
        · split
          · exact Clean2.iface
          · cases ts with
            | nil => exact absurd h1 not_hasEof_nil
            | cons t2 ts2 =>
              simp only []
              by_cases he2 : t2.isEof = true
              · simp only [he2, if_true]; exact Clean2.ok _
              · have hne2 : t2.isEof = false := by simpa using he2
                have h2 := hasEof_tail t2 ts2 h1 hne2
                simp only [hne2, Bool.false_eq_true, if_false]
                split
                · exact Clean2.iface
                · cases ts2 with
                  | nil => exact absurd h2 not_hasEof_nil
                  | cons t3 ts3 =>
                    simp only []
                    split
                    · exact Clean2.iface
                    · exact ih _ _ h2

theorem Clean2.bind {α β : Type} {o : Out α} {f : α → Out β} (h : Clean2 o) (hf : ∀ a, o = .ok a → Clean2 (f a)) :
    Clean2 (o >>= f) := by
  cases o with
  | error e =>
    intro e' he
    have : (Except.error e >>= f) = Except.error e := rfl
    rw [this] at he; cases he; exact h e rfl
  | ok a =>
    have : (Except.ok a >>= f) = f a := rfl
    rw [this]; exact hf a rfl

theorem liftLex_tokenize (s : Str) : Clean2 (liftLex (tokenizeWithoutSpace s)) ∧
    ∀ toks, liftLex (tokenizeWithoutSpace s) = .ok toks → HasEof toks ∧ StrOk toks := by
  constructor
  · intro e he; unfold liftLex at he; split at he
    · cases he
    · cases he; exact Or.inl rfl
    · cases he; exact Or.inr (Or.inl rfl)
  · intro toks h; unfold liftLex at h; split at h
    · rename_i a ha; cases h; exact tokenizeWithoutSpace_inv s _ ha
    · cases h
    · cases h

theorem declareFieldIn_clean (ty : TypeName) (info : FormatInfo) (allowEmpty : Bool) (lengthText rule : Str) :
    Clean2 (declareFieldIn ty info allowEmpty lengthText rule) := by
  unfold declareFieldIn
  cases ty with
  | text =>
    simp only [show (TypeName.text == TypeName.decimal) = false from rfl, Bool.false_eq_true, if_false]
    refine Clean2.bind (Clean2.of_clean (Range.parse_clean _ _)) ?_
    intro length _
    exact Clean2.ok _
  | scripted bad =>
    simp only [show (TypeName.scripted bad == TypeName.decimal) = false from rfl, Bool.false_eq_true, if_false]
    exact Clean2.bind (Clean2.of_clean (Range.parse_clean _ _)) (fun _ _ => Clean2.ok _)
  | integer =>
    simp only [show (TypeName.integer == TypeName.decimal) = false from rfl, Bool.false_eq_true, if_false]
    refine Clean2.bind (Clean2.of_clean (Range.parse_clean _ _)) ?_
    intro length _
    exact Clean2.bind (declareInteger_clean _ _ _ _) (fun _ _ => Clean2.ok _)
  | choice =>
    simp only [show (TypeName.choice == TypeName.decimal) = false from rfl, Bool.false_eq_true, if_false]
    refine Clean2.bind (Clean2.of_clean (Range.parse_clean _ _)) ?_
    intro length _
    refine Clean2.bind (liftLex_tokenize rule).1 ?_
    intro toks htoks
    refine Clean2.bind (choiceLoop_clean _ _ _ ((liftLex_tokenize rule).2 toks htoks).1) ?_
    intro cs _
    split
    · exact Clean2.iface
    · exact Clean2.ok _
  | constant =>
    simp only [show (TypeName.constant == TypeName.decimal) = false from rfl, Bool.false_eq_true, if_false]
    refine Clean2.bind (Clean2.of_clean (Range.parse_clean _ _)) ?_
    intro length _
    refine Clean2.bind (liftLex_tokenize rule).1 ?_
    intro toks htoks
    have heof := ((liftLex_tokenize rule).2 toks htoks).1
    cases toks with
    | nil => exact absurd heof not_hasEof_nil
    | cons t ts =>
      simp only []
      by_cases he : t.isEof = true
      · simp only [he, if_true]
        refine Clean2.bind (Clean2.ok _) ?_
        intro c _
        repeat' split
        all_goals first | exact Clean2.iface | exact Clean2.ok _
      · have hne : t.isEof = false := by simpa using he
        have h1 := hasEof_tail t ts heof hne
        simp only [hne, Bool.false_eq_true, if_false]
        cases ts with
        | nil => exact absurd h1 not_hasEof_nil
        | cons t2 ts2 =>
          simp only []
          split
          · refine Clean2.bind (Clean2.ok _) ?_
            intro c _
            repeat' split
            all_goals first | exact Clean2.iface | exact Clean2.ok _
          · exact Clean2.bind Clean2.iface (fun _ h => by cases h)
  | decimal =>
    simp only [show (TypeName.decimal == TypeName.decimal) = true from rfl, if_true]
    refine Clean2.bind (Clean2.of_clean (Range.parse_clean _ _)) ?_
    intro length _
    refine Clean2.bind (Clean2.of_clean (DecimalRange.parse_clean _ _)) ?_
    intro valid _
    exact Clean2.bind (Clean2.of_clean (Range.parse_clean _ _)) (fun _ _ => Clean2.ok _)
  | datetime =>
    simp only [show (TypeName.datetime == TypeName.decimal) = false from rfl, Bool.false_eq_true, if_false]
    refine Clean2.bind (Clean2.of_clean (Range.parse_clean _ _)) ?_
    intro length _
    split
    · exact Clean2.bind Clean2.unsupported (fun _ h => by cases h)
    · split
      · exact Clean2.unsupported
      · exact Clean2.ok _
      · split
        · exact Clean2.iface
        · exact Clean2.ok _
  | pattern =>
    simp only [show (TypeName.pattern == TypeName.decimal) = false from rfl, Bool.false_eq_true, if_false]
    refine Clean2.bind (Clean2.of_clean (Range.parse_clean _ _)) ?_
    intro length _
    repeat' split
    all_goals first | exact Clean2.unsupported | exact Clean2.ok _
  | regex =>
    simp only [show (TypeName.regex == TypeName.decimal) = false from rfl, Bool.false_eq_true, if_false]
    refine Clean2.bind (Clean2.of_clean (Range.parse_clean _ _)) ?_
    intro length _
    repeat' split
    all_goals first | exact Clean2.unsupported | exact Clean2.ok _

/-! ### what a declared field guarantees about its own validation -/

/-- a decimal field's range has only finite limits; a date/time field's format uses no directive twice -/
def FieldKind.WF : FieldKind → Prop
  | .decimal _ _ valid => valid.Fin
  | .datetime fmt _ _ => hasDuplicateDirective fmt = false
  | _ => True

theorem validatedValue_clean (k : FieldKind) (hk : k.WF) (v : Str) : Clean (k.validatedValue v) := by
  cases k with
  | decimal ds ts valid =>
    unfold FieldKind.validatedValue
    simp only []
    split
    · exact Clean.ok _
    · split
      · exact Clean.unsupported
      · exact Clean.ok _
      · exact Clean.ok _
      · exact Clean.ok _
      · rename_i d hinf hnan hd
        have hfin : d.isFin = true := by
          cases d with
          | fin n m e => rfl
          | inf n => exact (hinf n rfl).elim
          | nan => exact (hnan rfl).elim
        obtain ⟨x, hx⟩ := DecimalRange.validate_some valid hk d hfin
        rw [hx]
        cases x <;> exact Clean.ok _
  | datetime fmt hasTime excel =>
    have hk' : hasDuplicateDirective fmt = false := hk
    unfold FieldKind.validatedValue
    simp only [hk', Bool.false_eq_true, if_false]
    repeat' split
    all_goals first | exact Clean.unsupported | exact Clean.ok _
  | _ =>
    unfold FieldKind.validatedValue
    simp only []
    repeat' split
    all_goals first | exact Clean.unsupported | exact Clean.ok _

theorem Field.validated_clean (f : Field) (hf : f.kind.WF) (v : Str) : Clean (f.validated v) := by
  unfold Field.validated Field.validatedWith
  simp only []
  repeat' split
  all_goals first | exact Clean.ok _ | exact validatedValue_clean _ hf _



/-- failure only as "outside the modelled fragment": a rejection is a result (`none`), not an exception -/
def OnlyUnsupported {α : Type} (o : Out α) : Prop := ∀ e, o = .error e → e = .unsupported

theorem OnlyUnsupported.ok {α : Type} (a : α) : OnlyUnsupported (.ok a : Out α) := by intro e h; cases h
theorem OnlyUnsupported.unsupported {α : Type} : OnlyUnsupported (.error .unsupported : Out α) := by intro e h; cases h; rfl

theorem validatedValue_errors (k : FieldKind) (hk : k.WF) (v : Str) : OnlyUnsupported (k.validatedValue v) := by
  cases k with
  | decimal ds ts valid =>
    unfold FieldKind.validatedValue
    simp only []
    split
    · exact OnlyUnsupported.ok _
    · split
      · exact OnlyUnsupported.unsupported
      · exact OnlyUnsupported.ok _
      · exact OnlyUnsupported.ok _
      · exact OnlyUnsupported.ok _
      · rename_i d hinf hnan hd
        have hfin : d.isFin = true := by
          cases d with
          | fin n m e => rfl
          | inf n => exact (hinf n rfl).elim
          | nan => exact (hnan rfl).elim
        obtain ⟨x, hx⟩ := DecimalRange.validate_some valid hk d hfin
        rw [hx]
        cases x <;> exact OnlyUnsupported.ok _
  | datetime fmt hasTime excel =>
    have hk' : hasDuplicateDirective fmt = false := hk
    unfold FieldKind.validatedValue
    simp only [hk', Bool.false_eq_true, if_false]
    repeat' split
    all_goals first | exact OnlyUnsupported.unsupported | exact OnlyUnsupported.ok _
  | _ =>
    unfold FieldKind.validatedValue
    simp only []
    repeat' split
    all_goals first | exact OnlyUnsupported.unsupported | exact OnlyUnsupported.ok _

theorem Field.validated_errors (f : Field) (hf : f.kind.WF) (v : Str) : OnlyUnsupported (f.validated v) := by
  unfold Field.validated Field.validatedWith
  simp only []
  repeat' split
  all_goals first | exact OnlyUnsupported.ok _ | exact validatedValue_errors _ hf _

theorem bind_ok {α β : Type} {o : Out α} {f : α → Out β} {b : β} (h : (o >>= f) = .ok b) : ∃ a, o = .ok a ∧ f a = .ok b := by
  cases o with
  | error e => cases h
  | ok a => exact ⟨a, rfl, h⟩

theorem declareFieldIn_wf (ty : TypeName) (info : FormatInfo) (allowEmpty : Bool) (lengthText rule : Str) (f : Field)
    (h : declareFieldIn ty info allowEmpty lengthText rule = .ok f) : f.kind.WF := by
  unfold declareFieldIn at h
  cases ty with
  | decimal =>
    simp only [show (TypeName.decimal == TypeName.decimal) = true from rfl, Bool.false_eq_true, if_false, if_true] at h
    obtain ⟨length, _, h⟩ := bind_ok h
    obtain ⟨valid, hvalid, h⟩ := bind_ok h
    obtain ⟨len, _, h⟩ := bind_ok h
    cases h
    exact DecimalRange.parse_fin _ _ _ hvalid
  | datetime =>
    simp only [show (TypeName.datetime == TypeName.decimal) = false from rfl, Bool.false_eq_true, if_false, if_true] at h
    obtain ⟨length, _, h⟩ := bind_ok h
    split at h
    · cases h
    · split at h
      · cases h
      · cases h; show hasDuplicateDirective [FmtTok.lit '%'] = false; decide
      · split at h
        · cases h
        · cases h
          rename_i hd
          show hasDuplicateDirective _ = false
          simpa using hd
  | integer =>
    simp only [show (TypeName.integer == TypeName.decimal) = false from rfl, Bool.false_eq_true, if_false, if_true] at h
    obtain ⟨length, _, h⟩ := bind_ok h
    obtain ⟨_, _, h⟩ := bind_ok h
    cases h; trivial
  | choice =>
    simp only [show (TypeName.choice == TypeName.decimal) = false from rfl, Bool.false_eq_true, if_false, if_true] at h
    obtain ⟨length, _, h⟩ := bind_ok h
    obtain ⟨_, _, h⟩ := bind_ok h
    obtain ⟨_, _, h⟩ := bind_ok h
    split at h
    · cases h
    · cases h; trivial
  | constant =>
    simp only [show (TypeName.constant == TypeName.decimal) = false from rfl, Bool.false_eq_true, if_false, if_true] at h
    obtain ⟨length, _, h⟩ := bind_ok h
    obtain ⟨_, _, h⟩ := bind_ok h
    repeat' split at h
    all_goals first | (cases h; done) | skip
    all_goals (
      obtain ⟨_, _, h⟩ := bind_ok h
      repeat' split at h
      all_goals first | (cases h; done) | (cases h; trivial))
  | text =>
    simp only [show (TypeName.text == TypeName.decimal) = false from rfl, Bool.false_eq_true, if_false, if_true] at h
    obtain ⟨length, _, h⟩ := bind_ok h
    cases h; trivial
  | scripted bad =>
    simp only [show (TypeName.scripted bad == TypeName.decimal) = false from rfl, Bool.false_eq_true, if_false, if_true] at h
    obtain ⟨length, _, h⟩ := bind_ok h
    cases h; trivial
  | pattern =>
    simp only [show (TypeName.pattern == TypeName.decimal) = false from rfl, Bool.false_eq_true, if_false, if_true] at h
    obtain ⟨length, _, h⟩ := bind_ok h
    repeat' split at h
    all_goals first | (cases h; done) | (cases h; trivial)
  | regex =>
    simp only [show (TypeName.regex == TypeName.decimal) = false from rfl, Bool.false_eq_true, if_false, if_true] at h
    obtain ⟨length, _, h⟩ := bind_ok h
    repeat' split at h
    all_goals first | (cases h; done) | (cases h; trivial)

end Cutplace
