import Cutplace.Model.DateTime
/-
`time.strptime` as modelled accepts only real calendar dates and times: every field a directive can
produce lies in its range, and the day is checked against the month (and the leap-year rule).
-/
namespace Cutplace

theorem dig_le (c : Char) (h : isAsciiDigit c = true) : dig c ≤ 9 := by
  unfold isAsciiDigit at h
  unfold dig
  simp only [Bool.and_eq_true, decide_eq_true_eq] at h
  have h2 : c.toNat ≤ '9'.toNat := h.2
  have : '9'.toNat = 57 := by decide
  omega

/-- the fields collected so far are in range -/
structure Fields.Ok (f : Fields) : Prop where
  day : ∀ d, f.day = some d → 1 ≤ d ∧ d ≤ 31
  month : ∀ m, f.month = some m → 1 ≤ m ∧ m ≤ 12
  hour : f.hour ≤ 23
  minute : f.minute ≤ 59
  second : f.second ≤ 61

theorem Fields.ok_empty : ({} : Fields).Ok := ⟨by simp, by simp, by simp, by simp, by simp⟩

/-- what a directive can produce -/
def FmtTok.InRange (t : FmtTok) (v : Nat) : Prop :=
  match t with
  | .day => 1 ≤ v ∧ v ≤ 31
  | .month => 1 ≤ v ∧ v ≤ 12
  | .hour => v ≤ 23
  | .minute => v ≤ 59
  | .second => v ≤ 61
  | _ => True

theorem d2_mem (s : Str) (p : Nat → Nat → Bool) (v : Nat) (r : Str) (h : (v, r) ∈ digits2 p s) :
    ∃ a b, a ≤ 9 ∧ b ≤ 9 ∧ p a b = true ∧ v = a * 10 + b := by
  unfold digits2 at h
  match s, h with
  | a :: b :: r', h =>
    simp only at h
    split at h
    · rename_i hc
      simp only [Bool.and_eq_true] at hc
      simp only [List.mem_singleton, Prod.mk.injEq] at h
      exact ⟨dig a, dig b, dig_le a hc.1.1, dig_le b hc.1.2, hc.2, h.1⟩
    · simp at h
  | [], h => simp at h
  | [_], h => simp at h

theorem d1_mem (s : Str) (p : Nat → Bool) (v : Nat) (r : Str) (h : (v, r) ∈ digits1 p s) :
    v ≤ 9 ∧ p v = true := by
  unfold digits1 at h
  match s, h with
  | a :: r', h =>
    simp only at h
    split at h
    · rename_i hc
      simp only [Bool.and_eq_true] at hc
      simp only [List.mem_singleton, Prod.mk.injEq] at h
      rw [h.1]
      exact ⟨dig_le a hc.1, hc.2⟩
    · simp at h
  | [], h => simp at h

theorem blank_mem (s : Str) (v : Nat) (r : Str) (h : (v, r) ∈ blankDigit s) : 1 ≤ v ∧ v ≤ 9 := by
  unfold blankDigit at h
  split at h
  · rename_i a r'
    split at h
    · rename_i hc
      simp only [Bool.and_eq_true, decide_eq_true_eq] at hc
      simp only [List.mem_singleton, Prod.mk.injEq] at h
      rw [h.1]
      exact ⟨hc.2, dig_le a hc.1⟩
    · simp at h
  · simp at h

theorem directiveAlts_inRange (t : FmtTok) (s : Str) (v : Nat) (r : Str) (h : (v, r) ∈ directiveAlts t s) :
    t.InRange v := by
  unfold directiveAlts at h
  cases t with
  | day =>
    simp only [List.mem_append] at h
    unfold FmtTok.InRange
    rcases h with (((h | h) | h) | h) | h
    · obtain ⟨a, b, _, _, hp, rfl⟩ := d2_mem s _ v r h
      simp only [Bool.and_eq_true, beq_iff_eq, decide_eq_true_eq] at hp; omega
    · obtain ⟨a, b, _, hb, hp, rfl⟩ := d2_mem s _ v r h
      simp only [Bool.or_eq_true, beq_iff_eq] at hp; omega
    · obtain ⟨a, b, _, hb, hp, rfl⟩ := d2_mem s _ v r h
      simp only [Bool.and_eq_true, beq_iff_eq, decide_eq_true_eq] at hp; omega
    · obtain ⟨h9, hp⟩ := d1_mem s _ v r h
      simp only [decide_eq_true_eq] at hp; omega
    · have := blank_mem s v r h; omega
  | month =>
    simp only [List.mem_append] at h
    unfold FmtTok.InRange
    rcases h with (h | h) | h
    · obtain ⟨a, b, _, _, hp, rfl⟩ := d2_mem s _ v r h
      simp only [Bool.and_eq_true, beq_iff_eq, decide_eq_true_eq] at hp; omega
    · obtain ⟨a, b, _, hb, hp, rfl⟩ := d2_mem s _ v r h
      simp only [Bool.and_eq_true, beq_iff_eq, decide_eq_true_eq] at hp; omega
    · obtain ⟨h9, hp⟩ := d1_mem s _ v r h
      simp only [decide_eq_true_eq] at hp; omega
  | hour =>
    simp only [List.mem_append] at h
    unfold FmtTok.InRange
    rcases h with (h | h) | h
    · obtain ⟨a, b, _, _, hp, rfl⟩ := d2_mem s _ v r h
      simp only [Bool.and_eq_true, beq_iff_eq, decide_eq_true_eq] at hp; omega
    · obtain ⟨a, b, _, hb, hp, rfl⟩ := d2_mem s _ v r h
      simp only [decide_eq_true_eq] at hp; omega
    · obtain ⟨h9, _⟩ := d1_mem s _ v r h
      omega
  | minute =>
    simp only [List.mem_append] at h
    unfold FmtTok.InRange
    rcases h with h | h
    · obtain ⟨a, b, _, hb, hp, rfl⟩ := d2_mem s _ v r h
      simp only [decide_eq_true_eq] at hp; omega
    · obtain ⟨h9, _⟩ := d1_mem s _ v r h
      omega
  | second =>
    simp only [List.mem_append] at h
    unfold FmtTok.InRange
    rcases h with (h | h) | h
    · obtain ⟨a, b, _, _, hp, rfl⟩ := d2_mem s _ v r h
      simp only [Bool.and_eq_true, beq_iff_eq, decide_eq_true_eq] at hp; omega
    · obtain ⟨a, b, _, hb, hp, rfl⟩ := d2_mem s _ v r h
      simp only [decide_eq_true_eq] at hp; omega
    · obtain ⟨h9, _⟩ := d1_mem s _ v r h
      omega
  | year4 => trivial
  | year2 => trivial
  | lit c => trivial
  | space => trivial

theorem setField_ok (f : Fields) (t : FmtTok) (v : Nat) (hf : f.Ok) (hv : t.InRange v) : (setField f t v).Ok := by
  cases t <;> simp only [setField, FmtTok.InRange] at hv ⊢
  · exact ⟨by intro d hd; simp at hd; subst hd; exact hv, hf.month, hf.hour, hf.minute, hf.second⟩
  · exact ⟨hf.day, by intro d hd; simp at hd; subst hd; exact hv, hf.hour, hf.minute, hf.second⟩
  · exact ⟨hf.day, hf.month, hf.hour, hf.minute, hf.second⟩
  · exact ⟨hf.day, hf.month, hf.hour, hf.minute, hf.second⟩
  · exact ⟨hf.day, hf.month, hv, hf.minute, hf.second⟩
  · exact ⟨hf.day, hf.month, hf.hour, hv, hf.second⟩
  · exact ⟨hf.day, hf.month, hf.hour, hf.minute, hv⟩
  · exact hf
  · exact hf

/-- a successful match leaves all fields in range -/
theorem matchToks_ok (fmt : List FmtTok) (s : Str) (f f' : Fields) (rest : Str)
    (h : matchToks fmt s f = some (f', rest)) (hf : f.Ok) : f'.Ok := by
  induction fmt generalizing s f with
  | nil => simp [matchToks] at h; rw [← h.1]; exact hf
  | cons t ts ih =>
    cases t with
    | lit c =>
      cases s with
      | nil => simp [matchToks] at h
      | cons x r =>
        simp only [matchToks] at h
        split at h
        · exact ih r f h hf
        · simp at h
    | space =>
      simp only [matchToks] at h
      obtain ⟨r, _, hr⟩ := List.exists_of_findSome?_eq_some h
      exact ih r f hr hf
    | day | month | year4 | year2 | hour | minute | second =>
      simp only [matchToks] at h
      obtain ⟨⟨v, r⟩, hmem, hr⟩ := List.exists_of_findSome?_eq_some h
      exact ih r _ hr (setField_ok f _ v hf (directiveAlts_inRange _ s v r hmem))

/-- a year directive occurs in the format -/
def hasYear (fmt : List FmtTok) : Bool := fmt.any (fun t => t == .year4 || t == .year2)

/-- a year directive always leaves a year behind -/
theorem matchToks_year_some (fmt : List FmtTok) (s : Str) (f f' : Fields) (rest : Str)
    (h : matchToks fmt s f = some (f', rest)) (hy : hasYear fmt = true ∨ f.year.isSome = true) :
    f'.year.isSome = true := by
  induction fmt generalizing s f with
  | nil =>
    simp [matchToks] at h; rw [← h.1]
    rcases hy with hy | hy
    · simp [hasYear] at hy
    · exact hy
  | cons t ts ih =>
    have hcases : (t = .year4 ∨ t = .year2) ∨ hasYear ts = true ∨ f.year.isSome = true := by
      rcases hy with hy | hy
      · unfold hasYear at hy
        simp only [List.any_cons, Bool.or_eq_true, beq_iff_eq] at hy
        rcases hy with hy | hy
        · exact Or.inl hy
        · exact Or.inr (Or.inl (by unfold hasYear; exact hy))
      · exact Or.inr (Or.inr hy)
    cases t with
    | lit c =>
      have hy' : hasYear ts = true ∨ f.year.isSome = true := by
        rcases hcases with (h1 | h1) | h1
        · simp at h1
        · simp at h1
        · exact h1
      cases s with
      | nil => simp [matchToks] at h
      | cons x r =>
        simp only [matchToks] at h
        split at h
        · exact ih r f h hy'
        · simp at h
    | space =>
      have hy' : hasYear ts = true ∨ f.year.isSome = true := by
        rcases hcases with (h1 | h1) | h1
        · simp at h1
        · simp at h1
        · exact h1
      simp only [matchToks] at h
      obtain ⟨r, _, hr⟩ := List.exists_of_findSome?_eq_some h
      exact ih r f hr hy'
    | year4 | year2 =>
      simp only [matchToks] at h
      obtain ⟨⟨v, r⟩, _, hr⟩ := List.exists_of_findSome?_eq_some h
      exact ih r _ hr (Or.inr (by simp [setField]))
    | day | month | hour | minute | second =>
      have hy' : hasYear ts = true ∨ f.year.isSome = true := by
        rcases hcases with (h1 | h1) | h1
        · simp at h1
        · simp at h1
        · exact h1
      simp only [matchToks] at h
      obtain ⟨⟨v, r⟩, _, hr⟩ := List.exists_of_findSome?_eq_some h
      refine ih r _ hr ?_
      rcases hy' with h1 | h1
      · exact Or.inl h1
      · exact Or.inr (by simpa [setField] using h1)

theorem daysInMonth_le (y m : Nat) : daysInMonth y m ≤ 31 := by
  unfold daysInMonth; split <;> (try split) <;> omega

/-- **soundness of the date/time match**: whatever is accepted is a real time of day (leap seconds 60, 61 as
CPython allows them) and a real calendar date of the year that is returned - with the one exception CPython
makes: a format without year accepts 29 February and reports it for the year 1900. -/
theorem strptime_sound (fmt : List FmtTok) (value : Str) (y mo d h mi sec : Nat)
    (hs : strptime fmt value = some (y, mo, d, h, mi, sec)) :
    1 ≤ mo ∧ mo ≤ 12 ∧ 1 ≤ d ∧ h ≤ 23 ∧ mi ≤ 59 ∧ sec ≤ 61 ∧
      (d ≤ daysInMonth y mo ∨ (hasYear fmt = false ∧ y = 1900 ∧ mo = 2 ∧ d = 29)) := by
  unfold strptime at hs
  cases hm : matchToks fmt value {} with
  | none => simp [hm] at hs
  | some p =>
    obtain ⟨f, rest⟩ := p
    have hok := matchToks_ok fmt value {} f rest hm Fields.ok_empty
    have hmr : 1 ≤ f.month.getD 1 ∧ f.month.getD 1 ≤ 12 := by
      cases hfm : f.month with
      | none => simp
      | some m => simp; exact hok.month m hfm
    have hdr : 1 ≤ f.day.getD 1 := by
      cases hfd : f.day with
      | none => simp
      | some dd => simp; exact (hok.day dd hfd).1
    simp only [hm] at hs
    by_cases hrest : (!rest.isEmpty) = true
    · simp [hrest] at hs
    · simp only [hrest, Bool.false_eq_true, if_false] at hs
      cases hfy : f.year with
      | some yy =>
        simp only [hfy, Option.getD_some] at hs
        by_cases h0 : (yy == 0) = true
        · simp [h0] at hs
        · simp only [h0, Bool.false_eq_true, if_false] at hs
          by_cases hday : f.day.getD 1 ≤ daysInMonth yy (f.month.getD 1)
          · simp only [hday, if_true, Option.some.injEq, Prod.mk.injEq] at hs
            obtain ⟨hy, hmo, hd, hh, hmi, hsec⟩ := hs
            subst hy hmo hd hh hmi hsec
            exact ⟨hmr.1, hmr.2, hdr, hok.hour, hok.minute, hok.second, Or.inl hday⟩
          · simp [hday] at hs
      | none =>
        simp only [hfy, Option.getD_none] at hs
        have hny : hasYear fmt = false := by
          cases hh : hasYear fmt with
          | false => rfl
          | true =>
            have := matchToks_year_some fmt value {} f rest hm (Or.inl hh)
            rw [hfy] at this; simp at this
        by_cases h29 : (f.month.getD 1 == 2 && f.day.getD 1 == 29) = true
        · simp only [h29, if_true] at hs
          have h0 : ((1904 : Nat) == 0) = false := by decide
          simp only [h0, Bool.false_eq_true, if_false] at hs
          by_cases hday : f.day.getD 1 ≤ daysInMonth 1904 (f.month.getD 1)
          · simp only [hday, if_true, Option.some.injEq, Prod.mk.injEq] at hs
            obtain ⟨hy, hmo, hd, hh, hmi, hsec⟩ := hs
            simp only [Bool.and_eq_true, beq_iff_eq] at h29
            subst hy hmo hd hh hmi hsec
            exact ⟨hmr.1, hmr.2, hdr, hok.hour, hok.minute, hok.second, Or.inr ⟨hny, rfl, h29.1, h29.2⟩⟩
          · simp [hday] at hs
        · simp only [h29, Bool.false_eq_true, if_false] at hs
          have h0 : ((1900 : Nat) == 0) = false := by decide
          simp only [h0, Bool.false_eq_true, if_false] at hs
          by_cases hday : f.day.getD 1 ≤ daysInMonth 1900 (f.month.getD 1)
          · simp only [hday, if_true, Option.some.injEq, Prod.mk.injEq] at hs
            obtain ⟨hy, hmo, hd, hh, hmi, hsec⟩ := hs
            subst hy hmo hd hh hmi hsec
            exact ⟨hmr.1, hmr.2, hdr, hok.hour, hok.minute, hok.second, Or.inl hday⟩
          · simp [hday] at hs

end Cutplace
