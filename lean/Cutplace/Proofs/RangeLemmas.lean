import Cutplace.Spec.Range
namespace Cutplace
open Cutplace.Spec

theorem validateLoop_iff (v : Int) (its : Items) :
    validateLoop v its = true ↔ ∃ it ∈ its, it.contains v = true := by
  induction its with
  | nil => simp [validateLoop]
  | cons it rest ih =>
    unfold validateLoop
    simp only [List.mem_cons, exists_eq_or_imp]
    rcases it with ⟨lo, hi⟩
    cases lo <;> cases hi <;> simp [Item.contains, ih] <;> grind

theorem contains_denote_iff (it : ItemD) (v : Int) :
    it.denote.contains v = true ↔ it.Mem v := by
  cases it <;> simp [ItemD.denote, ItemD.lo, ItemD.hi, Item.contains, ItemD.Mem] <;> omega

/-! ### limits -/

theorem lowerLoop_none (its : Items) : lowerLimitLoop none false its = none := by
  induction its with
  | nil => rfl
  | cons it rest ih =>
    unfold lowerLimitLoop
    cases h : it.lo <;> simp [ih]

theorem lowerLoop_some_none_iff (c : Int) (its : Items) :
    lowerLimitLoop (some c) false its = none ↔ ∃ it ∈ its, it.lo = none := by
  induction its generalizing c with
  | nil => simp [lowerLimitLoop]
  | cons it rest ih =>
    unfold lowerLimitLoop
    cases h : it.lo with
    | none => simp [lowerLoop_none, h]
    | some l =>
      simp only [Bool.false_eq_true, if_false, List.mem_cons, exists_eq_or_imp, h]
      by_cases hl : l < c <;> simp [hl, ih]

theorem lowerLoop_some_spec (c m : Int) (its : Items)
    (h : lowerLimitLoop (some c) false its = some m) :
    m ≤ c ∧ (∀ it ∈ its, ∃ l, it.lo = some l ∧ m ≤ l) ∧ (m = c ∨ ∃ it ∈ its, it.lo = some m) := by
  induction its generalizing c with
  | nil => simp [lowerLimitLoop] at h; subst h; simp
  | cons it rest ih =>
    unfold lowerLimitLoop at h
    cases hlo : it.lo with
    | none => simp [hlo, lowerLoop_none] at h
    | some l =>
      simp only [Bool.false_eq_true, if_false, hlo] at h
      by_cases hl : l < c
      · simp only [hl, if_true] at h
        obtain ⟨h1, h2, h3⟩ := ih l h
        refine ⟨by omega, ?_, ?_⟩
        · intro it' hit'
          rcases List.mem_cons.mp hit' with rfl | hr
          · exact ⟨l, hlo, h1⟩
          · exact h2 it' hr
        · right
          rcases h3 with rfl | ⟨it', hit', heq⟩
          · exact ⟨it, by simp, hlo⟩
          · exact ⟨it', by simp [hit'], heq⟩
      · simp only [hl, if_false] at h
        obtain ⟨h1, h2, h3⟩ := ih c h
        refine ⟨h1, ?_, ?_⟩
        · intro it' hit'
          rcases List.mem_cons.mp hit' with rfl | hr
          · exact ⟨l, hlo, by omega⟩
          · exact h2 it' hr
        · rcases h3 with rfl | ⟨it', hit', heq⟩
          · left; rfl
          · right; exact ⟨it', by simp [hit'], heq⟩

theorem upperLoop_none (its : Items) : upperLimitLoop none false its = none := by
  induction its with
  | nil => rfl
  | cons it rest ih =>
    unfold upperLimitLoop
    cases h : it.hi <;> simp [ih]

theorem upperLoop_some_none_iff (c : Int) (its : Items) :
    upperLimitLoop (some c) false its = none ↔ ∃ it ∈ its, it.hi = none := by
  induction its generalizing c with
  | nil => simp [upperLimitLoop]
  | cons it rest ih =>
    unfold upperLimitLoop
    cases h : it.hi with
    | none => simp [upperLoop_none, h]
    | some l =>
      simp only [Bool.false_eq_true, if_false, List.mem_cons, exists_eq_or_imp, h]
      by_cases hl : l > c <;> simp [hl, ih]

theorem upperLoop_some_spec (c m : Int) (its : Items)
    (h : upperLimitLoop (some c) false its = some m) :
    c ≤ m ∧ (∀ it ∈ its, ∃ u, it.hi = some u ∧ u ≤ m) ∧ (m = c ∨ ∃ it ∈ its, it.hi = some m) := by
  induction its generalizing c with
  | nil => simp [upperLimitLoop] at h; subst h; simp
  | cons it rest ih =>
    unfold upperLimitLoop at h
    cases hhi : it.hi with
    | none => simp [hhi, upperLoop_none] at h
    | some l =>
      simp only [Bool.false_eq_true, if_false, hhi] at h
      by_cases hl : l > c
      · simp only [hl, if_true] at h
        obtain ⟨h1, h2, h3⟩ := ih l h
        refine ⟨by omega, ?_, ?_⟩
        · intro it' hit'
          rcases List.mem_cons.mp hit' with rfl | hr
          · exact ⟨l, hhi, h1⟩
          · exact h2 it' hr
        · right
          rcases h3 with rfl | ⟨it', hit', heq⟩
          · exact ⟨it, by simp, hhi⟩
          · exact ⟨it', by simp [hit'], heq⟩
      · simp only [hl, if_false] at h
        obtain ⟨h1, h2, h3⟩ := ih c h
        refine ⟨h1, ?_, ?_⟩
        · intro it' hit'
          rcases List.mem_cons.mp hit' with rfl | hr
          · exact ⟨l, hhi, by omega⟩
          · exact h2 it' hr
        · rcases h3 with rfl | ⟨it', hit', heq⟩
          · left; rfl
          · right; exact ⟨it', by simp [hit'], heq⟩

end Cutplace
