import Cutplace.Proofs.DateTimeLemmas
/-
Completeness of the date/time match: a date and time written in the layout of a format - two digits
for day, month, two-digit year, hour, minute and second, four digits for the year, the literal
characters as they are - is matched, and the fields come back as written, whatever follows and
whatever digits the literal characters of the format contain.
-/
namespace Cutplace

/-- a moment as the fields `strptime` returns -/
structure Civil where
  y : Nat
  mo : Nat
  d : Nat
  h : Nat
  mi : Nat
  s : Nat
  deriving Repr, DecidableEq

def twoDigits (v : Nat) : Str := [digitChar (v / 10), digitChar (v % 10)]
def fourDigits (v : Nat) : Str := [digitChar (v / 1000), digitChar (v / 100 % 10), digitChar (v / 10 % 10), digitChar (v % 10)]

/-- the number a directive stands for -/
def tokValue (t : FmtTok) (c : Civil) : Nat :=
  match t with
  | .day => c.d | .month => c.mo | .year4 => c.y | .year2 => c.y % 100
  | .hour => c.h | .minute => c.mi | .second => c.s
  | _ => 0

/-- how a token of the format is written -/
def renderTok (t : FmtTok) (c : Civil) : Str :=
  match t with
  | .lit ch => [ch]
  | .space => [' ']
  | .year4 => fourDigits c.y
  | t => twoDigits (tokValue t c)

def renderFmt : List FmtTok → Civil → Str
  | [], _ => []
  | t :: ts, c => renderTok t c ++ renderFmt ts c

/-- the fields a format picks from a moment -/
def fieldsOf : List FmtTok → Civil → Fields → Fields
  | [], _, f => f
  | t :: ts, c, f => fieldsOf ts c (setField f t (tokValue t c))

/-- the fields are in the ranges the layout can express -/
structure Civil.InRange (c : Civil) : Prop where
  y : c.y ≤ 9999
  mo : 1 ≤ c.mo ∧ c.mo ≤ 12
  d : 1 ≤ c.d ∧ c.d ≤ 31
  h : c.h ≤ 23
  mi : c.mi ≤ 59
  s : c.s ≤ 61

theorem digitChar_spec (k : Nat) (h : k ≤ 9) : isAsciiDigit (digitChar k) = true ∧ dig (digitChar k) = k := by
  have : k = 0 ∨ k = 1 ∨ k = 2 ∨ k = 3 ∨ k = 4 ∨ k = 5 ∨ k = 6 ∨ k = 7 ∨ k = 8 ∨ k = 9 := by omega
  rcases this with h | h | h | h | h | h | h | h | h | h <;> subst h <;> decide

theorem digits2_two (p : Nat → Nat → Bool) (v : Nat) (hv : v ≤ 99) (rest : Str) :
    digits2 p (twoDigits v ++ rest) = if p (v / 10) (v % 10) then [(v, rest)] else [] := by
  obtain ⟨a1, a2⟩ := digitChar_spec (v / 10) (by omega)
  obtain ⟨b1, b2⟩ := digitChar_spec (v % 10) (by omega)
  simp only [twoDigits, digits2, List.cons_append, List.nil_append, a1, a2, b1, b2, Bool.true_and]
  have : v / 10 * 10 + v % 10 = v := by omega
  rw [this]

theorem digits4_four (v : Nat) (hv : v ≤ 9999) (rest : Str) : digits4 (fourDigits v ++ rest) = [(v, rest)] := by
  obtain ⟨a1, a2⟩ := digitChar_spec (v / 1000) (by omega)
  obtain ⟨b1, b2⟩ := digitChar_spec (v / 100 % 10) (by omega)
  obtain ⟨c1, c2⟩ := digitChar_spec (v / 10 % 10) (by omega)
  obtain ⟨d1, d2⟩ := digitChar_spec (v % 10) (by omega)
  simp only [fourDigits, digits4, List.cons_append, List.nil_append, a1, a2, b1, b2, c1, c2, d1, d2, Bool.and_self, if_true]
  have : v / 1000 * 1000 + v / 100 % 10 * 100 + v / 10 % 10 * 10 + v % 10 = v := by omega
  rw [this]

/-- the first alternative of a directive that matches what was written is the written value, with the rest untouched -/
theorem directiveAlts_head (t : FmtTok) (c : Civil) (hr : c.InRange) (rest : Str)
    (ht : t = .day ∨ t = .month ∨ t = .year4 ∨ t = .year2 ∨ t = .hour ∨ t = .minute ∨ t = .second) :
    ∃ more, directiveAlts t (renderTok t c ++ rest) = (tokValue t c, rest) :: more := by
  rcases ht with h | h | h | h | h | h | h <;> subst h
  · -- day
    have h1 := hr.d.1; have h2 := hr.d.2
    simp only [directiveAlts, renderTok, tokValue]
    rw [digits2_two _ c.d (by omega), digits2_two _ c.d (by omega), digits2_two _ c.d (by omega)]
    by_cases ha : (c.d / 10 == 3 && decide (c.d % 10 ≤ 1)) = true
    · rw [if_pos ha]; exact ⟨_, rfl⟩
    · rw [if_neg ha]
      by_cases hb : (c.d / 10 == 1 || c.d / 10 == 2) = true
      · rw [if_pos hb]; exact ⟨_, rfl⟩
      · rw [if_neg hb]
        have hc : (c.d / 10 == 0 && decide (c.d % 10 ≥ 1)) = true := by
          simp only [Bool.and_eq_true, beq_iff_eq, decide_eq_true_eq, Bool.or_eq_true, not_and, not_or, Nat.not_le] at ha hb ⊢
          omega
        rw [if_pos hc]; exact ⟨_, rfl⟩
  · -- month
    have h1 := hr.mo.1; have h2 := hr.mo.2
    simp only [directiveAlts, renderTok, tokValue]
    rw [digits2_two _ c.mo (by omega), digits2_two _ c.mo (by omega)]
    by_cases ha : (c.mo / 10 == 1 && decide (c.mo % 10 ≤ 2)) = true
    · rw [if_pos ha]; exact ⟨_, rfl⟩
    · rw [if_neg ha]
      have hc : (c.mo / 10 == 0 && decide (c.mo % 10 ≥ 1)) = true := by
        simp only [Bool.and_eq_true, beq_iff_eq, decide_eq_true_eq, not_and, Nat.not_le] at ha ⊢
        omega
      rw [if_pos hc]; exact ⟨_, rfl⟩
  · -- year4
    simp only [directiveAlts, renderTok, tokValue]
    rw [digits4_four c.y hr.y]; exact ⟨_, rfl⟩
  · -- year2
    simp only [directiveAlts, renderTok, tokValue]
    rw [digits2_two _ (c.y % 100) (by omega)]
    simp only [if_true]; exact ⟨_, rfl⟩
  · -- hour
    have h2 := hr.h
    simp only [directiveAlts, renderTok, tokValue]
    rw [digits2_two _ c.h (by omega), digits2_two _ c.h (by omega)]
    by_cases ha : (c.h / 10 == 2 && decide (c.h % 10 ≤ 3)) = true
    · rw [if_pos ha]; exact ⟨_, rfl⟩
    · rw [if_neg ha]
      have hc : (decide (c.h / 10 ≤ 1)) = true := by
        simp only [Bool.and_eq_true, beq_iff_eq, decide_eq_true_eq, not_and, Nat.not_le] at ha ⊢
        omega
      rw [if_pos hc]; exact ⟨_, rfl⟩
  · -- minute
    have h2 := hr.mi
    simp only [directiveAlts, renderTok, tokValue]
    rw [digits2_two _ c.mi (by omega)]
    have hc : (decide (c.mi / 10 ≤ 5)) = true := by simp only [decide_eq_true_eq]; omega
    rw [if_pos hc]; exact ⟨_, rfl⟩
  · -- second
    have h2 := hr.s
    simp only [directiveAlts, renderTok, tokValue]
    rw [digits2_two _ c.s (by omega), digits2_two _ c.s (by omega)]
    by_cases ha : (c.s / 10 == 6 && decide (c.s % 10 ≤ 1)) = true
    · rw [if_pos ha]; exact ⟨_, rfl⟩
    · rw [if_neg ha]
      have hc : (decide (c.s / 10 ≤ 5)) = true := by
        simp only [Bool.and_eq_true, beq_iff_eq, decide_eq_true_eq, not_and, Nat.not_le] at ha ⊢
        omega
      rw [if_pos hc]; exact ⟨_, rfl⟩

/-- no white-space token in the format -/
def NoSpace (fmt : List FmtTok) : Prop := ∀ t ∈ fmt, t ≠ .space

/-- **the match succeeds on what the layout writes**, consuming exactly that and leaving the tail -/
theorem matchToks_render (fmt : List FmtTok) (c : Civil) (hr : c.InRange) (hn : NoSpace fmt) (tail : Str) (f : Fields) :
    matchToks fmt (renderFmt fmt c ++ tail) f = some (fieldsOf fmt c f, tail) := by
  induction fmt generalizing f with
  | nil => simp [matchToks, renderFmt, fieldsOf]
  | cons t ts ih =>
    have hns : NoSpace ts := fun x hx => hn x (List.mem_cons_of_mem _ hx)
    have htn : t ≠ .space := hn t List.mem_cons_self
    cases t with
    | space => exact absurd rfl htn
    | lit ch =>
      simp only [renderFmt, renderTok, List.cons_append, List.nil_append, matchToks, beq_self_eq_true, if_true, fieldsOf, setField,
        tokValue]
      exact ih hns f
    | day | month | year4 | year2 | hour | minute | second =>
      simp only [renderFmt, List.append_assoc, matchToks, fieldsOf]
      first
        | (obtain ⟨more, hd⟩ := directiveAlts_head .day c hr (renderFmt ts c ++ tail) (by decide); rw [hd, List.findSome?_cons]; simp only [ih hns])
        | (obtain ⟨more, hd⟩ := directiveAlts_head .month c hr (renderFmt ts c ++ tail) (by decide); rw [hd, List.findSome?_cons]; simp only [ih hns])
        | (obtain ⟨more, hd⟩ := directiveAlts_head .year4 c hr (renderFmt ts c ++ tail) (by decide); rw [hd, List.findSome?_cons]; simp only [ih hns])
        | (obtain ⟨more, hd⟩ := directiveAlts_head .year2 c hr (renderFmt ts c ++ tail) (by decide); rw [hd, List.findSome?_cons]; simp only [ih hns])
        | (obtain ⟨more, hd⟩ := directiveAlts_head .hour c hr (renderFmt ts c ++ tail) (by decide); rw [hd, List.findSome?_cons]; simp only [ih hns])
        | (obtain ⟨more, hd⟩ := directiveAlts_head .minute c hr (renderFmt ts c ++ tail) (by decide); rw [hd, List.findSome?_cons]; simp only [ih hns])
        | (obtain ⟨more, hd⟩ := directiveAlts_head .second c hr (renderFmt ts c ++ tail) (by decide); rw [hd, List.findSome?_cons]; simp only [ih hns])

/-- what the fields look like after a format picked its directives from a moment -/
theorem fieldsOf_spec (fmt : List FmtTok) (c : Civil) (f : Fields) :
    (fieldsOf fmt c f).day = (if .day ∈ fmt then some c.d else f.day) ∧
    (fieldsOf fmt c f).month = (if .month ∈ fmt then some c.mo else f.month) ∧
    (.year2 ∉ fmt → (fieldsOf fmt c f).year = (if .year4 ∈ fmt then some c.y else f.year)) ∧
    (fieldsOf fmt c f).hour = (if .hour ∈ fmt then c.h else f.hour) ∧
    (fieldsOf fmt c f).minute = (if .minute ∈ fmt then c.mi else f.minute) ∧
    (fieldsOf fmt c f).second = (if .second ∈ fmt then c.s else f.second) := by
  induction fmt generalizing f with
  | nil => simp [fieldsOf]
  | cons t ts ih =>
    obtain ⟨h1, h2, h3, h4, h5, h6⟩ := ih (setField f t (tokValue t c))
    simp only [fieldsOf]
    refine ⟨?_, ?_, ?_, ?_, ?_, ?_⟩
    · rw [h1]; cases t <;> by_cases hm : FmtTok.day ∈ ts <;> simp [setField, tokValue, hm]
    · rw [h2]; cases t <;> by_cases hm : FmtTok.month ∈ ts <;> simp [setField, tokValue, hm]
    · intro hny
      have hny' : FmtTok.year2 ∉ ts := fun hx => hny (List.mem_cons_of_mem _ hx)
      rw [h3 hny']
      cases t <;> by_cases hm : FmtTok.year4 ∈ ts <;> simp [setField, tokValue, hm] at hny ⊢
    · rw [h4]; cases t <;> by_cases hm : FmtTok.hour ∈ ts <;> simp [setField, tokValue, hm]
    · rw [h5]; cases t <;> by_cases hm : FmtTok.minute ∈ ts <;> simp [setField, tokValue, hm]
    · rw [h6]; cases t <;> by_cases hm : FmtTok.second ∈ ts <;> simp [setField, tokValue, hm]

/-- **completeness of the date/time match**: a real calendar date and time of day, written in the layout of a format
that names day, month and four-digit year (and no two-digit year, no white space), is accepted, and the date comes back
as written; hour, minute and second come back as written when the format names them and as 0 otherwise -/
theorem strptime_complete (fmt : List FmtTok) (c : Civil) (hr : c.InRange) (hn : NoSpace fmt)
    (hd : .day ∈ fmt) (hm : .month ∈ fmt) (hy : .year4 ∈ fmt) (hy2 : .year2 ∉ fmt)
    (hy1 : 1 ≤ c.y) (hdim : c.d ≤ daysInMonth c.y c.mo) :
    strptime fmt (renderFmt fmt c) = some (c.y, c.mo, c.d, (if .hour ∈ fmt then c.h else 0),
      (if .minute ∈ fmt then c.mi else 0), (if .second ∈ fmt then c.s else 0)) := by
  have hmt := matchToks_render fmt c hr hn [] {}
  rw [List.append_nil] at hmt
  obtain ⟨h1, h2, h3, h4, h5, h6⟩ := fieldsOf_spec fmt c {}
  have h3' := h3 hy2
  simp only [hd, hm, hy, if_true] at h1 h2 h3'
  unfold strptime
  simp only [hmt, List.isEmpty_nil, Bool.not_true, Bool.false_eq_true, if_false, h1, h2, h3', h4, h5, h6, Option.getD_some]
  have h0 : (c.y == 0) = false := by simp; omega
  simp [h0, hdim]

end Cutplace
