import Cutplace.Proofs.RangeParse
import Cutplace.Spec.DataFormat
/-
Spellings of a character in a data format property (`DataFormat._validated_character`): the same
limit spellings as in ranges, read through `generated_tokens`.
-/
set_option linter.unusedSimpArgs false

namespace Cutplace
open Cutplace.Spec

theorem lexAll_limit (sp : LimitSp) (pm : Nat) (v : Int) (hl : sp.Legal v) :
    lexAll (renderLimit sp pm v) = .ok (limitToks sp v ++ [eofTok]) := by
  have hnb : (renderLimit sp pm v).any (fun c => c == '\n' || c == '\r' || c == '\x0c') = false := by
    simp only [List.any_eq_false]
    intro c hc
    obtain ⟨h1, h2, h3⟩ := noBreak_renderLimit sp pm v hl c hc
    simp [h1, h2, h3]
  have hs := steps_limit sp pm v hl [] Delim.nil
  simp only [List.append_nil] at hs
  unfold lexAll
  simp only [hnb, Bool.false_eq_true, if_false]
  exact hs.lexLoop_done

/-- first character of a non-negative limit's text: not a blank, tab or `#` -/
theorem renderLimit_head (sp : LimitSp) (pm : Nat) (v : Int) (hv : 0 ≤ v) (hl : sp.Legal v) :
    ∃ c cs, renderLimit sp pm v = c :: cs ∧ c ≠ ' ' ∧ c ≠ '\t' ∧ isPySpace c = false := by
  have hneg : ¬ v < 0 := by omega
  cases sp with
  | dec =>
    cases hs : natRepr v.natAbs with
    | nil => exact absurd hs (natRepr_ne_nil _)
    | cons c cs =>
      have hc : c ∈ natRepr v.natAbs := by simp [hs]
      have hdig := (natRepr_chars _ c hc).1
      refine ⟨c, cs, by simp [Spec.renderLimit, hneg, hs], ?_, ?_, ?_⟩
      · rintro rfl; revert hdig; decide
      · rintro rfl; revert hdig; decide
      · obtain ⟨d, hd, rfl⟩ := List.mem_map.mp hc
        exact digitChar_not_space d (digits_lt10 _ d hd)
  | hex bigX up =>
    exact ⟨'0', (if bigX then 'X' else 'x') :: (hexDigits v.natAbs).map (hexDigitChar up), by simp [Spec.renderLimit, hneg], by decide, by decide, by decide⟩
  | quoted dq =>
    refine ⟨quoteChar dq, [Char.ofNat v.toNat, quoteChar dq], by simp [Spec.renderLimit, quoteChar], ?_, ?_, ?_⟩ <;> cases dq <;> decide
  | sym caps =>
    obtain ⟨c, cs, hs, hall⟩ := symText_letters caps v hl
    have : Spec.renderLimit (.sym caps) pm v = symText caps v := rfl
    have hc := hall c (by simp)
    refine ⟨c, cs, by rw [this, hs], ?_, ?_, letter_not_space c hc⟩
    · rintro rfl; revert hc; decide
    · rintro rfl; revert hc; decide

theorem generatedTokens_limit (sp : LimitSp) (pm : Nat) (v : Int) (hv : 0 ≤ v) (hl : sp.Legal v) :
    generatedTokens (renderLimit sp pm v) = .ok (limitToks sp v ++ [eofTok]) := by
  obtain ⟨c, cs, hs, h1, h2, _⟩ := renderLimit_head sp pm v hv hl
  unfold generatedTokens
  rw [lexAll_limit sp pm v hl, hs]
  simp [spanChars, h1, h2]

/-- the single token of a non-negative limit and its code -/
theorem limitToks_nonneg (sp : LimitSp) (v : Int) (hv : 0 ≤ v) (hl : sp.Legal v) (hc : sp.Convertible v) :
    ∃ t, limitToks sp v = [t] ∧ t.isEof = false ∧ tokenCode t = .ok v := by
  have hneg : ¬ v < 0 := by omega
  have habs : (v.natAbs : Int) = v := by omega
  cases sp with
  | dec =>
    refine ⟨⟨.number, natRepr v.natAbs⟩, by simp [limitToks, signToks, hneg], rfl, ?_⟩
    simp [tokenCode, codeForNumber_ok _ _ (pyIntBase0_natRepr _ hc), habs]
  | hex bigX up =>
    refine ⟨⟨.number, hexText bigX up v.natAbs⟩, by simp [limitToks, signToks, hneg], rfl, ?_⟩
    simp [tokenCode, codeForNumber_ok _ _ (pyIntBase0_hexText bigX up _), habs]
  | quoted dq =>
    refine ⟨_, rfl, rfl, ?_⟩
    simp [tokenCode, codeForString_quoted dq v hl]
  | sym caps =>
    refine ⟨_, rfl, rfl, ?_⟩
    simp [tokenCode, codeForSymbolic_sym caps v hl]

theorem rstrip_of_last (s : Str) (c : Char) (h : isPySpace c = false) : rstrip (s ++ [c]) = s ++ [c] := by
  simp [rstrip, lstrip, h]

/-- a text whose first and last characters are not white space is left alone by `strip` -/
theorem strip_of_ends (c : Char) (mid : Str) (e : Char) (hc : isPySpace c = false) (he : isPySpace e = false) :
    strip (c :: (mid ++ [e])) = c :: (mid ++ [e]) := by
  unfold strip
  rw [lstrip_of_not_space c _ hc]
  have := rstrip_of_last (c :: mid) e he
  simpa using this

theorem strip_all_visible (s : Str) (h : ∀ c ∈ s, isPySpace c = false) : strip s = s := by
  cases s with
  | nil => simp [strip, rstrip, lstrip]
  | cons c cs =>
    cases hl : cs.getLast? with
    | none =>
      have : cs = [] := by simpa using hl
      subst this
      simp [strip, rstrip, lstrip, h c (by simp)]
    | some e =>
      obtain ⟨mid, rfl⟩ : ∃ mid, cs = mid ++ [e] := by
        have := List.getLast?_eq_some_iff.mp hl
        obtain ⟨ys, hys⟩ := this
        exact ⟨ys, hys⟩
      exact strip_of_ends c mid e (h c (by simp)) (h e (by simp))

theorem viaTokens_limit (sp : LimitSp) (pm : Nat) (v : Int) (hv : 0 ≤ v) (hl : sp.Legal v) (hc : sp.Convertible v) :
    validatedCharacterCode.viaTokens (renderLimit sp pm v) = .ok v := by
  obtain ⟨t, ht, heof, hcode⟩ := limitToks_nonneg sp v hv hl hc
  unfold validatedCharacterCode.viaTokens
  rw [generatedTokens_limit sp pm v hv hl, ht]
  simp only [List.singleton_append, heof, Bool.false_eq_true, if_false, eofTok_isEof, if_true]
  rw [hcode]

theorem hexdigit_not_space (c : Char) (h : isHexDigit c = true) : isPySpace c = false := by
  cases hs : isPySpace c with
  | false => rfl
  | true =>
    exfalso
    simp only [isHexDigit, isAsciiDigit, Bool.and_eq_true, Bool.or_eq_true, decide_eq_true_eq, Char.le_def, UInt32.le_iff_toNat_le] at h
    have hn : c.toNat = c.val.toNat := rfl
    unfold isPySpace at hs
    simp only [hn] at hs
    simp at h hs
    omega

/-- `strip` leaves the text of a non-negative limit alone, and if that text is a single character it is a digit -/
theorem strip_renderLimit (sp : LimitSp) (pm : Nat) (v : Int) (hv : 0 ≤ v) (hl : sp.Legal v) :
    strip (renderLimit sp pm v) = renderLimit sp pm v ∧ ∀ c, renderLimit sp pm v = [c] → isAsciiDigit c = true := by
  have hneg : ¬ v < 0 := by omega
  cases sp with
  | dec =>
    have hr : Spec.renderLimit .dec pm v = natRepr v.natAbs := by simp [Spec.renderLimit, hneg]
    rw [hr]
    refine ⟨strip_all_visible _ ?_, ?_⟩
    · intro c hc
      obtain ⟨d, hd, rfl⟩ := List.mem_map.mp hc
      exact digitChar_not_space d (digits_lt10 _ d hd)
    · intro c hc
      exact (natRepr_chars v.natAbs c (by simp [hc])).1
  | hex bigX up =>
    have hr : Spec.renderLimit (.hex bigX up) pm v = hexText bigX up v.natAbs := by simp [Spec.renderLimit, hneg, hexText]
    rw [hr]
    refine ⟨strip_all_visible _ ?_, ?_⟩
    · intro c hc
      simp only [hexText, List.cons_append, List.nil_append, List.mem_cons] at hc
      rcases hc with rfl | rfl | hc
      · decide
      · cases bigX <;> decide
      · exact hexdigit_not_space c (hexChars up v.natAbs c hc).1
    · intro c hc
      have hne := hexDigits_ne_nil v.natAbs
      cases hh : hexDigits v.natAbs with
      | nil => exact absurd hh hne
      | cons d ds => simp [hexText, hh] at hc
  | quoted dq =>
    have hr : Spec.renderLimit (.quoted dq) pm v = quoteChar dq :: ([Char.ofNat v.toNat] ++ [quoteChar dq]) := by
      simp [Spec.renderLimit, quoteChar]
    rw [hr]
    have hq : isPySpace (quoteChar dq) = false := by cases dq <;> decide
    refine ⟨strip_of_ends _ _ _ hq hq, ?_⟩
    intro c hc; simp at hc
  | sym caps =>
    obtain ⟨h1, h2⟩ := hl
    have hr : Spec.renderLimit (.sym caps) pm v = symText caps v := rfl
    rw [hr]
    have : v = 9 ∨ v = 10 ∨ v = 11 ∨ v = 12 ∨ v = 13 := by omega
    rcases this with rfl | rfl | rfl | rfl | rfl <;> cases caps <;> exact ⟨by decide, by intro c hc; simp [symText, symName, upperChar] at hc⟩

/-- **Every spelling of a character value denotes that value**: `_validated_character` on a code
point written in decimal, in `0x` hexadecimal, as a quoted character or as a symbolic name. -/
theorem validatedCharacterCode_limit (sp : LimitSp) (pm : Nat) (v : Int) (hv : 0 ≤ v) (hl : sp.Legal v) (hc : sp.Convertible v) :
    validatedCharacterCode (renderLimit sp pm v) = .ok v := by
  obtain ⟨hs, hsingle⟩ := strip_renderLimit sp pm v hv hl
  have hvia := viaTokens_limit sp pm v hv hl hc
  unfold validatedCharacterCode
  simp only [hs]
  split
  · rename_i c heq
    have := hsingle c heq
    simp only [this, Bool.not_true, Bool.false_eq_true, if_false]
    exact hvia
  · exact hvia

end Cutplace
