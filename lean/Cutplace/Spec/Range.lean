import Cutplace.Model.Range
/-
Declarative reading of C01: a range description is a list of items; a value is accepted iff it
lies in some item; the documented grammar is given by `render` (every spelling choice explicit).
-/
namespace Cutplace.Spec
open Cutplace

/-- one item of a description, as the documentation presents it -/
inductive ItemD
  | single (v : Int)
  | closed (l u : Int)
  | from_ (l : Int)
  | upto (u : Int)
  deriving Repr, DecidableEq, Inhabited

abbrev RangeDesc := List ItemD

def ItemD.lo : ItemD → Option Int
  | .single v => some v | .closed l _ => some l | .from_ l => some l | .upto _ => none
def ItemD.hi : ItemD → Option Int
  | .single v => some v | .closed _ u => some u | .from_ _ => none | .upto u => some u

/-- membership: both limits inclusive, an omitted limit = unbounded -/
def ItemD.Mem (v : Int) : ItemD → Prop
  | .single x => v = x
  | .closed l u => l ≤ v ∧ v ≤ u
  | .from_ l => l ≤ v
  | .upto u => v ≤ u

instance (v : Int) : (it : ItemD) → Decidable (it.Mem v)
  | .single x => inferInstanceAs (Decidable (v = x))
  | .closed l u => inferInstanceAs (Decidable (l ≤ v ∧ v ≤ u))
  | .from_ l => inferInstanceAs (Decidable (l ≤ v))
  | .upto u => inferInstanceAs (Decidable (v ≤ u))

def ItemD.WellFormed : ItemD → Prop
  | .closed l u => l ≤ u
  | _ => True

instance : (it : ItemD) → Decidable it.WellFormed
  | .closed l u => inferInstanceAs (Decidable (l ≤ u))
  | .single _ => isTrue trivial
  | .from_ _ => isTrue trivial
  | .upto _ => isTrue trivial

/-- a value is accepted by a description iff it lies inside at least one item -/
def Accepts (d : RangeDesc) (v : Int) : Prop := ∃ it ∈ d, it.Mem v

instance (d : RangeDesc) (v : Int) : Decidable (Accepts d v) :=
  inferInstanceAs (Decidable (∃ it ∈ d, it.Mem v))

/-- `lower ≤ upper` where an absent limit is unbounded -/
def optLe : Option Int → Option Int → Prop
  | some l, some u => l ≤ u
  | _, _ => True

instance : (a b : Option Int) → Decidable (optLe a b)
  | some l, some u => inferInstanceAs (Decidable (l ≤ u))
  | none, none => isTrue trivial
  | none, some _ => isTrue trivial
  | some _, none => isTrue trivial

/-- two (well-formed) items share a value -/
def ItemD.Overlaps (a b : ItemD) : Prop := optLe a.lo b.hi ∧ optLe b.lo a.hi

instance (a b : ItemD) : Decidable (a.Overlaps b) :=
  inferInstanceAs (Decidable (optLe a.lo b.hi ∧ optLe b.lo a.hi))

/-- non-overlapping items -/
def Disjoint : RangeDesc → Prop
  | [] => True
  | it :: rest => (∀ o ∈ rest, ¬ it.Overlaps o) ∧ Disjoint rest

instance instDecidableDisjoint : (d : RangeDesc) → Decidable (Disjoint d)
  | [] => isTrue trivial
  | it :: rest =>
    have := instDecidableDisjoint rest
    inferInstanceAs (Decidable ((∀ o ∈ rest, ¬ it.Overlaps o) ∧ Disjoint rest))

/-- the `(lower, upper)` tuple cutplace stores for an item -/
def ItemD.denote (it : ItemD) : Item := ⟨it.lo, it.hi⟩
def denote (d : RangeDesc) : Items := d.map ItemD.denote

/-- overall limits: minimum / maximum over all items, absent when any item is open on that side -/
def specLower (d : RangeDesc) : Option Int :=
  if d.any (fun it => it.lo.isNone) then none
  else (d.filterMap ItemD.lo).min?
def specUpper (d : RangeDesc) : Option Int :=
  if d.any (fun it => it.hi.isNone) then none
  else (d.filterMap ItemD.hi).max?

/-! ### the documented spellings -/

/-- how one limit is written -/
inductive LimitSp
  | dec                                   -- decimal digits
  | hex (bigX : Bool) (upperDigits : Bool) -- 0x.. / 0X.., digit case
  | quoted (dq : Bool)                     -- 'c' or "c", the character written literally
  | sym (caps : Bool)                      -- cr ff lf tab vt, lower or upper case
  deriving Repr, DecidableEq, Inhabited

/-- separator between limits -/
inductive SepSp | dots | colon | ellipsis
  deriving Repr, DecidableEq, Inhabited

/-- spelling of one item: limit spellings, separator, and the number of blanks after each token -/
structure ItemSp where
  lo : LimitSp := .dec
  hi : LimitSp := .dec
  sep : SepSp := .dots
  /-- blanks inserted: before the item, after a minus sign, after lower, after separator, after upper -/
  pad : Nat × Nat × Nat × Nat × Nat := (0, 0, 0, 0, 0)
  deriving Repr, DecidableEq, Inhabited

def hexDigitChar (upper : Bool) (d : Nat) : Char :=
  if d < 10 then Char.ofNat (48 + d) else Char.ofNat ((if upper then 55 else 87) + d)

def hexDigits (n : Nat) : List Nat :=
  if _h : n < 16 then [n] else hexDigits (n / 16) ++ [n % 16]
termination_by n
decreasing_by omega

def blanks (k : Nat) : Str := List.replicate k ' '

def symName (v : Int) : Str :=
  if v = 13 then "cr".toList else if v = 12 then "ff".toList else if v = 10 then "lf".toList
  else if v = 9 then "tab".toList else "vt".toList

def upperChar (c : Char) : Char := if 'a' ≤ c && c ≤ 'z' then Char.ofNat (c.toNat - 32) else c

/-- the text of one limit; `padMinus` blanks follow a minus sign -/
def renderLimit (sp : LimitSp) (padMinus : Nat) (v : Int) : Str :=
  match sp with
  | .dec => (if v < 0 then '-' :: blanks padMinus else []) ++ natRepr v.natAbs
  | .hex bigX up =>
    (if v < 0 then '-' :: blanks padMinus else []) ++
      ['0', if bigX then 'X' else 'x'] ++ (hexDigits v.natAbs).map (hexDigitChar up)
  | .quoted dq => let q := if dq then '"' else '\''; [q, Char.ofNat v.toNat, q]
  | .sym caps => if caps then (symName v).map upperChar else symName v

/-- which values a spelling can express -/
def LimitSp.Legal (sp : LimitSp) (v : Int) : Prop :=
  match sp with
  | .dec => True
  | .hex _ _ => True
  | .quoted dq =>
    -- a literally written character: printable range, valid scalar, not the quote itself, not a backslash
    32 ≤ v ∧ v < 0x110000 ∧ ¬ (0xD800 ≤ v ∧ v ≤ 0xDFFF) ∧ v ≠ 127 ∧ v ≠ 92 ∧
      v ≠ (if dq then 34 else 39)
  | .sym _ => 9 ≤ v ∧ v ≤ 13

instance (v : Int) : (sp : LimitSp) → Decidable (sp.Legal v)
  | .dec => isTrue trivial
  | .hex _ _ => isTrue trivial
  | .quoted dq => inferInstanceAs (Decidable (32 ≤ v ∧ v < 0x110000 ∧ ¬ (0xD800 ≤ v ∧ v ≤ 0xDFFF) ∧ v ≠ 127 ∧ v ≠ 92 ∧
      v ≠ (if dq then 34 else 39)))
  | .sym _ => inferInstanceAs (Decidable (9 ≤ v ∧ v ≤ 13))

def renderSep : SepSp → Str
  | .dots => ['.', '.', '.'] | .colon => [':'] | .ellipsis => [ellipsisChar]

def renderItem (it : ItemD) (sp : ItemSp) : Str :=
  let (p0, pm, p1, p2, p3) := sp.pad
  blanks p0 ++
  match it with
  | .single v => renderLimit sp.lo pm v ++ blanks p1
  | .closed l u => renderLimit sp.lo pm l ++ blanks p1 ++ renderSep sp.sep ++ blanks p2 ++ renderLimit sp.hi pm u ++ blanks p3
  | .from_ l => renderLimit sp.lo pm l ++ blanks p1 ++ renderSep sp.sep ++ blanks p2
  | .upto u => renderSep sp.sep ++ blanks p2 ++ renderLimit sp.hi pm u ++ blanks p3

def ItemSp.Legal (sp : ItemSp) (it : ItemD) : Prop :=
  match it with
  | .single v => sp.lo.Legal v
  | .closed l u => sp.lo.Legal l ∧ sp.hi.Legal u
  | .from_ l => sp.lo.Legal l
  | .upto u => sp.hi.Legal u

instance (sp : ItemSp) : (it : ItemD) → Decidable (sp.Legal it)
  | .single v => inferInstanceAs (Decidable (sp.lo.Legal v))
  | .closed l u => inferInstanceAs (Decidable (sp.lo.Legal l ∧ sp.hi.Legal u))
  | .from_ l => inferInstanceAs (Decidable (sp.lo.Legal l))
  | .upto u => inferInstanceAs (Decidable (sp.hi.Legal u))

/-- the full description: items joined by commas -/
def render : RangeDesc → List ItemSp → Str
  | [], _ => []
  | [it], sps => renderItem it (sps.headD {})
  | it :: rest, sps => renderItem it (sps.headD {}) ++ [','] ++ render rest sps.tail

def LegalSpelling : RangeDesc → List ItemSp → Prop
  | [], _ => True
  | it :: rest, sps => (sps.headD {}).Legal it ∧ LegalSpelling rest sps.tail

instance instDecidableLegalSpelling : (d : RangeDesc) → (sps : List ItemSp) → Decidable (LegalSpelling d sps)
  | [], _ => isTrue trivial
  | it :: rest, sps =>
    have := instDecidableLegalSpelling rest sps.tail
    inferInstanceAs (Decidable ((sps.headD {}).Legal it ∧ LegalSpelling rest sps.tail))

def WellFormed (d : RangeDesc) : Prop := d ≠ [] ∧ (∀ it ∈ d, it.WellFormed) ∧ Disjoint d

instance (d : RangeDesc) : Decidable (WellFormed d) :=
  inferInstanceAs (Decidable (d ≠ [] ∧ (∀ it ∈ d, it.WellFormed) ∧ Disjoint d))

end Cutplace.Spec
