import Cutplace.Model.Excel
import Cutplace.Model.DateTime
/-
Specification side of C16's dates: the proleptic Gregorian calendar stated naively (days before the
year by the leap-year rule, days before the month by summing `daysInMonth` - the same `isLeap` /
`daysInMonth` the DateTime field model uses) and Excel's serial number of a civil date.
-/
namespace Cutplace

/-- days of the months before month `m` (1-based) of year `y` -/
def daysBeforeMonth (y : Nat) : Nat → Nat
  | 0 => 0
  | 1 => 0
  | m + 2 => daysBeforeMonth y (m + 1) + daysInMonth y (m + 1)

/-- proleptic Gregorian ordinal: 0001-01-01 is day 1 (Python's `date.toordinal()`) -/
def ordinal (y m d : Nat) : Nat :=
  365 * (y - 1) + (y - 1) / 4 - (y - 1) / 100 + (y - 1) / 400 + daysBeforeMonth y m + d

/-- Excel's serial number of a civil date in the 1900 system (1899-12-30 is day 0; meaningful from 1900-03-01) -/
def excelSerial (y m d : Nat) : Nat := ordinal y m d - 693594

/-- a real calendar date -/
def ValidCivil (y m d : Nat) : Prop := 1 ≤ m ∧ m ≤ 12 ∧ 1 ≤ d ∧ d ≤ daysInMonth y m

end Cutplace
