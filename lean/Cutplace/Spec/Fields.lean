import Cutplace.Model.Fields
namespace Cutplace.Spec
open Cutplace

/-- every character lies inside the data format's allowed-characters range -/
def charsOk (f : Field) (v : Str) : Bool :=
  match f.allowed with
  | none => true
  | some r => v.all (fun c => r.validate c.toNat)

/-- number of characters inside the declared length (fixed-width: does not exceed the width) -/
def lengthWithin (f : Field) (v : Str) : Bool :=
  if f.fixed then (match f.length.lowerLimit with | some w => decide ((v.length : Int) ≤ w) | none => true)
  else f.length.validate v.length

/-- the cell counts as empty (fixed-width: consists only of blanks) -/
def emptyCell (f : Field) (v : Str) : Bool := if f.fixed then v.all (· == ' ') else v.isEmpty

/-- C03 read declaratively.  `some true`: the cell counts as empty and must be accepted with the
type's empty value; `some false`: the guards demand rejection whatever the type and rule say;
`none`: the statement is silent (the type and rule decide). -/
def guardSpec (f : Field) (v : Str) : Option Bool :=
  if emptyCell f v then
    -- a blank-only fixed cell that is too wide or contains a disallowed blank: not claimed
    if v.isEmpty || (charsOk f v && lengthWithin f v) then some f.allowEmpty else none
  else if !charsOk f v then some false
  else if !lengthWithin f v then some false
  else none

end Cutplace.Spec
