import Cutplace.Model.DataFormat
import Cutplace.Spec.Range
/-
C11 read declaratively: the documented spellings of a character, the applicability table, the value
sets, the consistency rules and the defaults.
-/
namespace Cutplace.Spec
open Cutplace

/-- how a character can be written in a data-format property -/
inductive CharSpelling
  | literal                      -- the character itself
  | decimal                      -- its code in decimal
  | hex (bigX upper : Bool)      -- 0x.. / 0X.., digit case
  | quoted (dq : Bool)           -- 'c' or "c"
  | escapedHex (dq : Bool)       -- '\xHH'
  | escapedU (dq : Bool)         -- '\uHHHH'
  | symbolic (caps : Bool)       -- cr ff lf tab vt
  deriving Repr, DecidableEq, Inhabited

def hexPad (width : Nat) (n : Nat) : Str :=
  let ds := (hexDigits n).map (hexDigitChar false)
  List.replicate (width - ds.length) '0' ++ ds

def spellChar (sp : CharSpelling) (c : Nat) : Str :=
  match sp with
  | .literal => [Char.ofNat c]
  | .decimal => natRepr c
  | .hex bigX up => ['0', if bigX then 'X' else 'x'] ++ (hexDigits c).map (hexDigitChar up)
  | .quoted dq => let q := if dq then '"' else '\''; [q, Char.ofNat c, q]
  | .escapedHex dq => let q := if dq then '"' else '\''; [q, '\\', 'x'] ++ hexPad 2 c ++ [q]
  | .escapedU dq => let q := if dq then '"' else '\''; [q, '\\', 'u'] ++ hexPad 4 c ++ [q]
  | .symbolic caps => if caps then (symName c).map upperChar else symName c

/-- which characters a spelling can express (valid scalar values only) -/
def CharSpelling.legal (sp : CharSpelling) (c : Nat) : Bool :=
  let scalar := c < 0x110000 && !(0xD800 ≤ c && c ≤ 0xDFFF)
  scalar && (match sp with
  | .literal => !isPySpace (Char.ofNat c) && !isAsciiDigit (Char.ofNat c) && c ≥ 33 && c != 127
  | .decimal => true
  | .hex _ _ => true
  | .quoted dq => c ≥ 32 && c != 127 && c != 92 && c != (if dq then 34 else 39)
  | .escapedHex _ => c < 256
  | .escapedU _ => c < 65536
  | .symbolic _ => 9 ≤ c && c ≤ 13)

/-- applicability table: which property applies to which format -/
def propertyApplies (f : Format) (name : String) : Bool :=
  match name with
  | "allowed_characters" | "encoding" | "header" => true
  | "escape_character" | "item_delimiter" | "quote_character" | "quoting" | "skip_initial_space" => f == .delimited
  | "decimal_separator" | "line_delimiter" | "thousands_separator" => f == .delimited || f == .fixed
  | "sheet" => f == .excel || f == .ods
  | _ => false

def propertyNames : List String :=
  ["allowed_characters", "encoding", "header", "escape_character", "item_delimiter", "quote_character", "quoting",
   "skip_initial_space", "decimal_separator", "line_delimiter", "thousands_separator", "sheet"]

/-- the consistency rules of a completed CID -/
def consistent (df : DataFormat) : Bool :=
  (match df.format with
   | .delimited | .fixed => df.thousandsSep != some df.decimalSep
   | _ => true) &&
  (match df.format with
   | .delimited =>
     df.itemDelim != df.quote && df.lineDelim.asChar != some df.itemDelim && df.lineDelim.asChar != some df.quote &&
       (df.lineDelim == .none || df.lineDelim.asChar != some df.escape) &&
       -- what a delimited format needs in order to be readable at all (C12)
       df.itemDelim != df.escape && df.itemDelim != '\n' && df.itemDelim != '\r'
   | _ => true)

end Cutplace.Spec
