import Cutplace.Model.Fixed
/-
C13 read declaratively: the language of well-formed fixed-width inputs and the table each denotes.
-/
namespace Cutplace.Spec
open Cutplace

/-- `row` has exactly the declared widths -/
def RowOk (ws : List Nat) (row : List Str) : Prop := row.map List.length = ws

/-- `d` is a line delimiter permitted by the setting, read with longest match: under `any` a lone CR
is only a delimiter when no LF follows it -/
def DelimOk (ld : LineDelim) (d rest : Str) : Prop :=
  match ld with
  | .none => d = []
  | .lf => d = ['\n']
  | .cr => d = ['\r']
  | .crlf => d = ['\r', '\n']
  | .any => d = ['\n'] ∨ d = ['\r', '\n'] ∨ (d = ['\r'] ∧ rest.head? ≠ some '\n')

/-- `Parses ws ld s rows`: `s` is the concatenation of `rows` (every item with its declared width)
interleaved with permitted line delimiters, the final one optional. -/
inductive Parses (ws : List Nat) (ld : LineDelim) : Str → List (List Str) → Prop
  | nil : Parses ws ld [] []
  | last (row : List Str) : RowOk ws row → Parses ws ld row.flatten [row]
  | cons (row : List Str) (d rest : Str) (rows : List (List Str)) :
      RowOk ws row → DelimOk ld d rest → Parses ws ld rest rows →
      Parses ws ld (row.flatten ++ d ++ rest) (row :: rows)

/-- split `s` into items of the widths `ws`; `none` when `s` is too short -/
def takeRow : List Nat → Str → Option (List Str × Str)
  | [], s => some ([], s)
  | w :: ws, s =>
    if s.length < w then none
    else match takeRow ws (s.drop w) with
      | some (r, rest) => some (s.take w :: r, rest)
      | none => none

/-- the delimiter at the head of `s` (longest match), and what follows it -/
def takeDelim (ld : LineDelim) (s : Str) : Option Str :=
  match ld, s with
  | .none, s => some s
  | .lf, '\n' :: r => some r
  | .cr, '\r' :: r => some r
  | .crlf, '\r' :: '\n' :: r => some r
  | .any, '\n' :: r => some r
  | .any, '\r' :: '\n' :: r => some r
  | .any, '\r' :: r => some r
  | _, _ => none

/-- executable form of the grammar: a deterministic left-to-right parse -/
def fixedParse (ws : List Nat) (ld : LineDelim) : Nat → Str → Option (List (List Str))
  | 0, _ => none
  | fuel + 1, s =>
    if s.isEmpty then some []
    else match takeRow ws s with
      | none => none
      | some (row, rest) =>
        if rest.isEmpty then some [row]
        else match takeDelim ld rest with
          | none => none
          | some rest2 => (fixedParse ws ld fuel rest2).map (row :: ·)

def fixedSpec (ws : List Nat) (ld : LineDelim) (s : Str) : Option (List (List Str)) :=
  fixedParse ws ld (s.length + 2) s

end Cutplace.Spec
