import Cutplace.Model.Ods
/-
C15 read declaratively: a document is a list of sheets, each a list of rows of cell texts; `encode`
stores it as ODF content with optional compression / mark-up features.
-/
namespace Cutplace.Spec
open Cutplace

abbrev OdsDoc := List (List (List Str))

structure OdsFeatures where
  colRuns : Bool := false      -- runs of equal adjacent cells as table:number-columns-repeated
  rowRuns : Bool := false      -- runs of equal adjacent rows as table:number-rows-repeated
  whitespace : Bool := false   -- text:s / text:tab / text:line-break for blanks, tabs, line breaks
  spans : Bool := false        -- text wrapped in text:span
  paragraphs : Bool := false   -- line breaks as separate text:p
  deriving Repr, DecidableEq, Inhabited

/-- only column runs may be switched on -/
def OdsFeatures.plain (f : OdsFeatures) : Prop :=
  f.rowRuns = false ∧ f.whitespace = false ∧ f.spans = false ∧ f.paragraphs = false

/-- run-length encode adjacent equal elements -/
def runs {α} [DecidableEq α] : List α → List (α × Nat)
  | [] => []
  | x :: xs =>
    match runs xs with
    | (y, n) :: rest => if x = y then (y, n + 1) :: rest else (x, 1) :: (y, n) :: rest
    | [] => [(x, 1)]

def expandRuns {α} : List (α × Nat) → List α
  | [] => []
  | (x, n) :: rest => List.replicate n x ++ expandRuns rest

def natStr (n : Nat) : Str := natRepr n

/-- element text as ElementTree reports it: no characters = `None` -/
def optText (s : Str) : Option Str := if s.isEmpty then none else some s

/-- the text of one paragraph as element content: children for white-space mark-up -/
def encodeInlinePlain (whitespace : Bool) (text : Str) : Option Str × List Xml :=
  if whitespace then
    -- split at the first tab / line break / double blank; what follows goes into the tail of the mark-up element
    let rec go : Nat → Str → Str → (Option Str × List Xml)
      | 0, _, acc => (optText acc.reverse, [])
      | _ + 1, [], acc => (optText acc.reverse, [])
      | fuel + 1, '\t' :: rest, acc =>
        let r := go fuel rest []
        (optText acc.reverse, .node "text:tab" [] none [] r.1 :: r.2)
      | fuel + 1, '\n' :: rest, acc =>
        let r := go fuel rest []
        (optText acc.reverse, .node "text:line-break" [] none [] r.1 :: r.2)
      | fuel + 1, ' ' :: ' ' :: rest, acc =>
        let more := rest.takeWhile (· == ' ')
        let r := go fuel (rest.drop more.length) []
        (some (' ' :: acc).reverse, .node "text:s" [("text:c", natStr (1 + more.length))] none [] r.1 :: r.2)
      | fuel + 1, c :: rest, acc => go fuel rest (c :: acc)
    go (text.length + 1) text []
  else (optText text, [])

/-- with `spans` the whole paragraph is wrapped in one `text:span`, white-space elements included -/
def encodeInline (f : OdsFeatures) (text : Str) : Option Str × List Xml :=
  if f.spans then (none, [.node "text:span" [] (encodeInlinePlain f.whitespace text).1 (encodeInlinePlain f.whitespace text).2 none])
  else encodeInlinePlain f.whitespace text

def splitLines (s : Str) : List Str :=
  let rec go : Str → Str → List Str
    | [], acc => [acc.reverse]
    | '\n' :: r, acc => acc.reverse :: go r []
    | c :: r, acc => go r (c :: acc)
  go s []

def repeatAttr (name : String) (n : Nat) : List (String × Str) := if n > 1 then [(name, natStr n)] else []

/-- the `text:p` children of a cell: none for an empty cell -/
def cellParas (f : OdsFeatures) (text : Str) : List Xml :=
  if text.isEmpty then []
  else (if f.paragraphs then splitLines text else [text]).map
    (fun p => .node "text:p" [] (encodeInline f p).1 (encodeInline f p).2 none)

def encodeCell (f : OdsFeatures) (text : Str) (repeat_ : Nat) : Xml :=
  .node "table:table-cell"
    (repeatAttr "table:number-columns-repeated" repeat_ ++ (if text.isEmpty then [] else [("office:value-type", "string".toList)]))
    none (cellParas f text) none

def encodeRow (f : OdsFeatures) (row : List Str) (repeat_ : Nat) : Xml :=
  let cells := if f.colRuns then (runs row).map (fun (t, n) => encodeCell f t n) else row.map (fun t => encodeCell f t 1)
  .node "table:table-row" (repeatAttr "table:number-rows-repeated" repeat_) none cells none

def encodeSheet (f : OdsFeatures) (name : String) (rows : List (List Str)) : Xml :=
  let rs := if f.rowRuns then (runs rows).map (fun (r, n) => encodeRow f r n) else rows.map (fun r => encodeRow f r 1)
  .node "table:table" [("table:name", name.toList)] none rs none

def encodeDoc (f : OdsFeatures) (d : OdsDoc) : Xml :=
  .node "office:document-content" [] none
    [.node "office:body" [] none
      [.node "office:spreadsheet" [] none
        (d.zipIdx.map (fun (rows, i) => encodeSheet f ("Sheet" ++ toString (i + 1)) rows)) none] none] none

/-- the rows of a sheet put into the row containers ODF knows: the first row as header rows, the next two as an outline group
(the second of them one level deeper), the rest as plain `table:table-rows` -/
def groupRows : List Xml → List Xml
  | a :: b :: c :: rest =>
    [.node "table:table-header-rows" [] none [a] none,
     .node "table:table-row-group" [] none [b, .node "table:table-row-group" [] none [c] none] none,
     .node "table:table-rows" [] none rest none]
  | rows => rows

def mapChildren (g : List Xml → List Xml) : Xml → Xml
  | .node t a x c tl => .node t a x (g c) tl

/-- every sheet of an encoded document with its rows put into containers -/
def regroupDoc (x : Xml) : Xml :=
  mapChildren (List.map (mapChildren (List.map (mapChildren (List.map (mapChildren groupRows)))))) x

/-- every second cell of a row stored as a cell covered by a merge (`table:covered-table-cell`; covered cells keep their content
and repeat count) -/
def coverCells : List Xml → List Xml
  | a :: .node _ attrs text children tail :: rest => a :: .node "table:covered-table-cell" attrs text children tail :: coverCells rest
  | cells => cells

/-- every row of every sheet of an encoded document with covered cells -/
def coverDoc (x : Xml) : Xml :=
  mapChildren (List.map (mapChildren (List.map (mapChildren (List.map (mapChildren (List.map (mapChildren coverCells)))))))) x

end Cutplace.Spec
