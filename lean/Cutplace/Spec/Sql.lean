import Cutplace.Model.Sql
namespace Cutplace.Spec
open Cutplace

/-- largest precision a `decimal` / `number` column may declare -/
def maxPrecision : Dialect → Int
  | .db2 => 31
  | _ => 38

/-- C19's reading of "able to store": the values a column of that type can hold.
`int`/`integer` is 32 bit in every dialect (cutplace's own `MAX_INTEGER`). -/
def canStore (d : Dialect) (t : SqlType) (x : Int) : Bool :=
  if t.name == "tinyint" then 0 ≤ x && x ≤ 255
  else if t.name == "smallint" then -32768 ≤ x && x ≤ 32767
  else if t.name == "int" || t.name == "integer" then -2147483648 ≤ x && x ≤ 2147483647
  else if t.name == "bigint" then -9223372036854775808 ≤ x && x ≤ 9223372036854775807
  else if t.name == "decimal" || t.name == "number" then
    match t.args with
    | p :: _ => 1 ≤ p && p ≤ maxPrecision d && decide (x.natAbs < 10 ^ p.toNat)
    | [] => false
  else false

end Cutplace.Spec
