import Cutplace.Model.Decimal
import Cutplace.Spec.Range
/-
Declarative reading of C01 for decimal ranges: limits and values are decimal literals
`[-]digits[.digits]`, denoting rational numbers; a value is accepted iff it lies in some item
(both limits inclusive, an omitted limit = unbounded), in the order of the rationals.
-/
namespace Cutplace.Spec
open Cutplace

/-- a decimal literal: sign, coefficient and number of fraction digits: `± coeff / 10^frac` -/
structure DLit where
  neg : Bool
  coeff : Nat
  frac : Nat
  deriving Repr, DecidableEq, Inhabited

/-- the rational number a literal denotes -/
def DLit.toRat (l : DLit) : Rat :=
  let v : Rat := (l.coeff : Rat) / ((10 : Rat) ^ l.frac)
  if l.neg then -v else v

/-- the `decimal.Decimal` cutplace stores for the literal -/
def DLit.toDec (l : DLit) : Dec := .fin l.neg l.coeff (-(l.frac : Int))

/-- the digits of `n`, padded with leading zeros to at least `k` digits -/
def padDigits (k n : Nat) : Str := List.replicate (k - (natRepr n).length) '0' ++ natRepr n

/-- the text of a literal: integer part, and - when there are fraction digits - a point and exactly `frac` digits.
A minus sign is followed by `padMinus` blanks. -/
def renderDLit (padMinus : Nat) (l : DLit) : Str :=
  (if l.neg then '-' :: blanks padMinus else []) ++ natRepr (l.coeff / 10 ^ l.frac) ++
    (if l.frac = 0 then [] else '.' :: padDigits l.frac (l.coeff % 10 ^ l.frac))

inductive DItemD
  | single (v : DLit)
  | closed (l u : DLit)
  | from_ (l : DLit)
  | upto (u : DLit)
  deriving Repr, DecidableEq, Inhabited

abbrev DRangeDesc := List DItemD

def DItemD.lo : DItemD → Option DLit
  | .single v => some v | .closed l _ => some l | .from_ l => some l | .upto _ => none
def DItemD.hi : DItemD → Option DLit
  | .single v => some v | .closed _ u => some u | .from_ _ => none | .upto u => some u

/-- membership of a rational value: both limits inclusive, an omitted limit = unbounded -/
def DItemD.Mem (v : Rat) : DItemD → Prop
  | .single x => v = x.toRat
  | .closed l u => l.toRat ≤ v ∧ v ≤ u.toRat
  | .from_ l => l.toRat ≤ v
  | .upto u => v ≤ u.toRat

instance (v : Rat) : (it : DItemD) → Decidable (it.Mem v)
  | .single x => inferInstanceAs (Decidable (v = x.toRat))
  | .closed l u => inferInstanceAs (Decidable (l.toRat ≤ v ∧ v ≤ u.toRat))
  | .from_ l => inferInstanceAs (Decidable (l.toRat ≤ v))
  | .upto u => inferInstanceAs (Decidable (v ≤ u.toRat))

def DItemD.WellFormed : DItemD → Prop
  | .closed l u => l.toRat ≤ u.toRat
  | _ => True

instance : (it : DItemD) → Decidable it.WellFormed
  | .closed l u => inferInstanceAs (Decidable (l.toRat ≤ u.toRat))
  | .single _ => isTrue trivial
  | .from_ _ => isTrue trivial
  | .upto _ => isTrue trivial

/-- a value is accepted by a description iff it lies inside at least one item -/
def DAccepts (d : DRangeDesc) (v : Rat) : Prop := ∃ it ∈ d, it.Mem v

instance (d : DRangeDesc) (v : Rat) : Decidable (DAccepts d v) :=
  inferInstanceAs (Decidable (∃ it ∈ d, it.Mem v))

def optLeR : Option DLit → Option DLit → Prop
  | some l, some u => l.toRat ≤ u.toRat
  | _, _ => True

instance : (a b : Option DLit) → Decidable (optLeR a b)
  | some l, some u => inferInstanceAs (Decidable (l.toRat ≤ u.toRat))
  | none, none => isTrue trivial
  | none, some _ => isTrue trivial
  | some _, none => isTrue trivial

/-- two (well-formed) items share a value -/
def DItemD.Overlaps (a b : DItemD) : Prop := optLeR a.lo b.hi ∧ optLeR b.lo a.hi

instance (a b : DItemD) : Decidable (a.Overlaps b) :=
  inferInstanceAs (Decidable (optLeR a.lo b.hi ∧ optLeR b.lo a.hi))

def DDisjoint : DRangeDesc → Prop
  | [] => True
  | it :: rest => (∀ o ∈ rest, ¬ it.Overlaps o) ∧ DDisjoint rest

instance instDecidableDDisjoint : (d : DRangeDesc) → Decidable (DDisjoint d)
  | [] => isTrue trivial
  | it :: rest =>
    have := instDecidableDDisjoint rest
    inferInstanceAs (Decidable ((∀ o ∈ rest, ¬ it.Overlaps o) ∧ DDisjoint rest))

def DWellFormed (d : DRangeDesc) : Prop := d ≠ [] ∧ (∀ it ∈ d, it.WellFormed) ∧ DDisjoint d

instance (d : DRangeDesc) : Decidable (DWellFormed d) :=
  inferInstanceAs (Decidable (d ≠ [] ∧ (∀ it ∈ d, it.WellFormed) ∧ DDisjoint d))

/-- the `(lower, upper)` tuple cutplace stores for an item -/
def DItemD.denote (it : DItemD) : DItem := ⟨it.lo.map DLit.toDec, it.hi.map DLit.toDec⟩
def ddenote (d : DRangeDesc) : List DItem := d.map DItemD.denote

/-- minimum / maximum of a non-empty list of literals in the order of the rationals (first one wins ties) -/
def minLit : List DLit → Option DLit
  | [] => none
  | x :: rest => some (rest.foldl (fun m y => if y.toRat < m.toRat then y else m) x)
def maxLit : List DLit → Option DLit
  | [] => none
  | x :: rest => some (rest.foldl (fun m y => if m.toRat < y.toRat then y else m) x)

/-- overall limits: minimum / maximum over all items, absent when any item is open on that side -/
def dSpecLower (d : DRangeDesc) : Option DLit :=
  if d.any (fun it => it.lo.isNone) then none else minLit (d.filterMap DItemD.lo)
def dSpecUpper (d : DRangeDesc) : Option DLit :=
  if d.any (fun it => it.hi.isNone) then none else maxLit (d.filterMap DItemD.hi)

/-- spelling of one decimal item: separator and blanks (before the item, after a minus sign, after lower, after
the separator, after upper) -/
structure DItemSp where
  sep : SepSp := .dots
  pad : Nat × Nat × Nat × Nat × Nat := (0, 0, 0, 0, 0)
  deriving Repr, DecidableEq, Inhabited

def renderDItem (it : DItemD) (sp : DItemSp) : Str :=
  let (p0, pm, p1, p2, p3) := sp.pad
  blanks p0 ++
  match it with
  | .single v => renderDLit pm v ++ blanks p1
  | .closed l u => renderDLit pm l ++ blanks p1 ++ renderSep sp.sep ++ blanks p2 ++ renderDLit pm u ++ blanks p3
  | .from_ l => renderDLit pm l ++ blanks p1 ++ renderSep sp.sep ++ blanks p2
  | .upto u => renderSep sp.sep ++ blanks p2 ++ renderDLit pm u ++ blanks p3

def renderD : DRangeDesc → List DItemSp → Str
  | [], _ => []
  | [it], sps => renderDItem it (sps.headD {})
  | it :: rest, sps => renderDItem it (sps.headD {}) ++ [','] ++ renderD rest sps.tail

end Cutplace.Spec
