import Cutplace.Model.Py
/-
Model of `rowio.ods_rows` over an ElementTree-shaped XML tree (the zip container and the XML parser
are parameters: a container that cannot be opened or parsed is an input `none`).
-/
namespace Cutplace

/-- an `xml.etree.ElementTree.Element`: tag, attributes, `text` (before the first child), children,
`tail` (after the element) -/
inductive Xml
  | node (tag : String) (attrs : List (String × Str)) (text : Option Str) (children : List Xml) (tail : Option Str)
  deriving Repr, Inhabited

def Xml.tag : Xml → String | .node t _ _ _ _ => t
def Xml.attrs : Xml → List (String × Str) | .node _ a _ _ _ => a
def Xml.text : Xml → Option Str | .node _ _ t _ _ => t
def Xml.children : Xml → List Xml | .node _ _ _ c _ => c

/-- `element.findall("a")`: direct children with that tag -/
def Xml.childrenTagged (x : Xml) (tag : String) : List Xml := x.children.filter (fun c => c.tag == tag)

def Xml.attr (x : Xml) (name : String) : Option Str := (x.attrs.find? (fun p => p.1 == name)).map (·.2)

inductive OdsResult
  | rows (r : List (List (Option Str)))
  | formatError
  | unsupported
  deriving Repr, Inhabited, DecidableEq

/-- outcome of collecting text: `none` = outside the model (`unsupported`), `some none` = data-format error -/
abbrev TextOut := Option (Option Str)

def TextOut.append (a b : TextOut) : TextOut :=
  match a, b with
  | none, _ => none
  | some none, none => none
  | some none, some _ => some none
  | some (some _), none => none
  | some (some _), some none => some none
  | some (some x), some (some y) => some (some (x ++ y))

mutual
/-- `"".join(_ods_text_parts(element))`: the element's own text, then for every child what it stands for and its tail -/
def textParts : Xml → TextOut
  | .node _ _ text children _ => TextOut.append (some (some (text.getD []))) (childrenParts children)

/-- the loop over the children in `_ods_text_parts` -/
def childrenParts : List Xml → TextOut
  | [] => some (some [])
  | .node tag attrs text children tail :: rest =>
    let own : TextOut :=
      if tag == "text:s" then
        -- `" " * int(count_text)`: a count below 1 gives no blank at all
        let countText : Str := ((attrs.find? (fun p => p.1 == "text:c")).map (·.2)).getD ['1']
        if !isAscii countText then none
        else match pyIntBase10 countText with
          | none => some none
          | some n => some (some (List.replicate n.toNat ' '))
      else if tag == "text:tab" then some (some ['\t'])
      else if tag == "text:line-break" then some (some ['\n'])
      else textParts (.node tag attrs text children tail)
    TextOut.append (TextOut.append own (some (some (tail.getD [])))) (childrenParts rest)
end

/-- the paragraphs of a cell joined by line feeds -/
def joinParas : List Xml → TextOut
  | [] => some (some [])
  | [p] => textParts p
  | p :: rest => TextOut.append (TextOut.append (textParts p) (some (some ['\n']))) (joinParas rest)

/-- the text cutplace takes from a cell (since the repair of the cell text extraction): every `text:p` child, the pieces
of each put together, paragraphs separated by a line feed; `""` without a paragraph -/
def cellValue (c : Xml) : TextOut := joinParas (c.childrenTagged "text:p")

/-- one `table:table-row`: `none` = `DataFormatError` (bad repeat count) -/
def odsRow (row : Xml) : Option (Option (List (Option Str))) :=
  -- outer none: unsupported (non-ASCII digits in the repeat count); inner none: format error
  let rec cells : List Xml → Option (Option (List (Option Str)))
    | [] => some (some [])
    | c :: rest =>
      let repeatedText : Str := (c.attr "table:number-columns-repeated").getD ['1']
      if !isAscii repeatedText then none
      else match pyIntBase10 repeatedText with
        | none => some none
        | some n =>
          if n < 1 then some none
          else
            match cellValue c with
            | none => none
            | some none => some none
            | some (some value) =>
              match cells rest with
              | some (some more) => some (some (List.replicate n.toNat (some value) ++ more))
              | other => other
  -- cells hidden by a merged cell (`table:covered-table-cell`) still take up a column
  cells (row.children.filter (fun c => c.tag == "table:table-cell" || c.tag == "table:covered-table-cell"))

def odsRowsOf : List Xml → Option (Option (List (List (Option Str))))
  | [] => some (some [])
  | r :: rest =>
    match odsRow r, odsRowsOf rest with
    | some (some row), some (some more) => some (some (row :: more))
    | none, _ => none
    | _, none => none
    | some none, _ => some none
    | _, some none => some none

mutual
/-- `_ods_table_rows`: the `table:table-row` elements below a table in document order, also those inside
`table:table-header-rows`, `table:table-rows` and `table:table-row-group` (any depth) -/
def tableRowsOf : Xml → List Xml
  | .node tag attrs text children tail =>
    if tag == "table:table-row" then [.node tag attrs text children tail]
    else if tag == "table:table-header-rows" || tag == "table:table-row-group" || tag == "table:table-rows" then tableRowsIn children
    else []

def tableRowsIn : List Xml → List Xml
  | [] => []
  | x :: rest => tableRowsOf x ++ tableRowsIn rest
end

/-- `list(ods_rows(path, sheet))` given the parsed content root (`none` = the archive or the XML
could not be read: data-format error).  A bad repeat count in a later row only fails when the
generator gets there; for `list(...)` that is still a data-format error. -/
def odsRows (root : Option Xml) (sheet : Nat) : OdsResult :=
  match root with
  | none => .formatError
  | some r =>
    let tables := ((r.childrenTagged "office:body").flatMap (·.childrenTagged "office:spreadsheet")).flatMap
      (·.childrenTagged "table:table")
    if tables.length < sheet || sheet < 1 then .formatError
    else match tables[sheet - 1]? with
      | none => .formatError
      | some t =>
        match odsRowsOf (tableRowsIn t.children) with
        | none => .unsupported
        | some none => .formatError
        | some (some rows) => .rows rows

end Cutplace
