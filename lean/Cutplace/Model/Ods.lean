import Cutplace.Model.Py
/-
Model of `rowio.ods_rows` over an ElementTree-shaped XML tree (the zip container and the XML parser
are parameters: a container that cannot be opened or parsed is an input `none`).
-/
namespace Cutplace

/-- an `xml.etree.ElementTree.Element`: tag, attributes, `text` (before the first child), children,
`tail` (after the element) -/
inductive Xml
  | node (tag : String) (attrs : List (String × Str)) (text : Option Str) (children : List Xml) (tail : Option Str)
  deriving Repr, Inhabited

def Xml.tag : Xml → String | .node t _ _ _ _ => t
def Xml.attrs : Xml → List (String × Str) | .node _ a _ _ _ => a
def Xml.text : Xml → Option Str | .node _ _ t _ _ => t
def Xml.children : Xml → List Xml | .node _ _ _ c _ => c

/-- `element.findall("a")`: direct children with that tag -/
def Xml.childrenTagged (x : Xml) (tag : String) : List Xml := x.children.filter (fun c => c.tag == tag)

def Xml.attr (x : Xml) (name : String) : Option Str := (x.attrs.find? (fun p => p.1 == name)).map (·.2)

inductive OdsResult
  | rows (r : List (List (Option Str)))
  | formatError
  | unsupported
  deriving Repr, Inhabited, DecidableEq

/-- the text cutplace takes from a cell: `""` without a paragraph, else the `text` of the first `text:p` -/
def cellValue (c : Xml) : Option Str :=
  match (c.childrenTagged "text:p").head? with
  | none => some []
  | some p => p.text

/-- one `table:table-row`: `none` = `DataFormatError` (bad repeat count) -/
def odsRow (row : Xml) : Option (Option (List (Option Str))) :=
  -- outer none: unsupported (non-ASCII digits in the repeat count); inner none: format error
  let rec cells : List Xml → Option (Option (List (Option Str)))
    | [] => some (some [])
    | c :: rest =>
      let repeatedText : Str := (c.attr "table:number-columns-repeated").getD ['1']
      if !isAscii repeatedText then none
      else match pyIntBase10 repeatedText with
        | none => some none
        | some n =>
          if n < 1 then some none
          else
            let value : Option Str := cellValue c
            match cells rest with
            | some (some more) => some (some (List.replicate n.toNat value ++ more))
            | other => other
  cells (row.childrenTagged "table:table-cell")

def odsRowsOf : List Xml → Option (Option (List (List (Option Str))))
  | [] => some (some [])
  | r :: rest =>
    match odsRow r, odsRowsOf rest with
    | some (some row), some (some more) => some (some (row :: more))
    | none, _ => none
    | _, none => none
    | some none, _ => some none
    | _, some none => some none

/-- `list(ods_rows(path, sheet))` given the parsed content root (`none` = the archive or the XML
could not be read: data-format error).  A bad repeat count in a later row only fails when the
generator gets there; for `list(...)` that is still a data-format error. -/
def odsRows (root : Option Xml) (sheet : Nat) : OdsResult :=
  match root with
  | none => .formatError
  | some r =>
    let tables := ((r.childrenTagged "office:body").flatMap (·.childrenTagged "office:spreadsheet")).flatMap
      (·.childrenTagged "table:table")
    if tables.length < sheet || sheet < 1 then .formatError
    else match tables[sheet - 1]? with
      | none => .formatError
      | some t =>
        match odsRowsOf (t.childrenTagged "table:table-row") with
        | none => .unsupported
        | some none => .formatError
        | some (some rows) => .rows rows

end Cutplace
