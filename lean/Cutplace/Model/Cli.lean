/-
Model of `cutplace/applications.py`: `main` (exception class -> exit code), `process` (one CID, loop
over the data paths, first unreadable file aborts, sticky failure flag).
-/
namespace Cutplace

/-- what loading the CID did -/
inductive CidLoad | ok | rejected | unreadable
  deriving Repr, DecidableEq, Inhabited

/-- what the programmatic API (`Reader(cid, path).validate_rows()` + `close()`) does with one file -/
inductive FileVerdict | accepted | rejected | unreadable
  deriving Repr, DecidableEq, Inhabited

/-- the `for data_path in data_paths` loop of `process`: `some 3` as soon as a file cannot be read,
otherwise the sticky `all_validations_were_ok` flag -/
def processFiles : List FileVerdict → Bool → Nat
  | [], allOk => if allOk then 0 else 1
  | .accepted :: rest, allOk => processFiles rest allOk
  | .rejected :: rest, _ => processFiles rest false
  | .unreadable :: _, _ => 3

/-- `applications.main(argv)`; `usage = true` when argparse rejects the arguments (SystemExit 2) -/
def cliMain (usage : Bool) (cid : CidLoad) (files : List FileVerdict) : Nat :=
  if usage then 2
  else match cid with
    | .rejected => 1
    | .unreadable => 3
    | .ok => processFiles files true

end Cutplace
