import Cutplace.Model.DataFormat
/-
Model of CPython 3.12's `_csv` writer (`join_append_data`, `csv_writerow`, lineterminator "\r\n") and
reader (`parse_process_char` with all nine states, `Reader_iternext`, `strict=True`) as cutplace
configures them in `rowio._as_delimited_keywords`, reading from a text stream opened with
`newline=''` (universal-newline line splitting without translation).  The line splitter and the
parser are fused into one character automaton (`feed`).
-/
namespace Cutplace.Csv

structure Cfg where
  delim : Char
  quote : Char
  esc : Option Char      -- escapechar (`none` when doublequote)
  dq : Bool              -- doublequote
  quoteAll : Bool        -- QUOTE_ALL (else QUOTE_MINIMAL)
  skipInitialSpace : Bool := false
  deriving Repr, DecidableEq, Inhabited

/-- `_as_delimited_keywords(data_format)` -/
def ofDataFormat (df : DataFormat) : Cfg :=
  if df.escape == df.quote then
    { delim := df.itemDelim, quote := df.quote, esc := none, dq := true, quoteAll := df.quotingAll,
      skipInitialSpace := df.skipInitialSpace }
  else
    { delim := df.itemDelim, quote := df.quote, esc := some df.escape, dq := false, quoteAll := df.quotingAll,
      skipInitialSpace := df.skipInitialSpace }

/-! ## Writer -/

def isLT (c : Char) : Bool := c == '\r' || c == '\n'

/-- `join_append_data`: the body of a field and whether it must be quoted; `none` = "need to escape,
but no escapechar set" (`csv.Error`) -/
def fieldBody (cfg : Cfg) : List Char → Option (List Char × Bool)
  | [] => some ([], false)
  | c :: cs =>
    match fieldBody cfg cs with
    | none => none
    | some (rest, q) =>
      if c == cfg.delim || some c == cfg.esc || c == cfg.quote || isLT c then
        if c == cfg.quote then
          if cfg.dq then some (c :: c :: rest, true)
          else match cfg.esc with
            | none => none
            | some e => some (e :: c :: rest, q)
        else if some c == cfg.esc then
          match cfg.esc with
          | none => none
          | some e => some (e :: c :: rest, q)
        else some (c :: rest, true)
      else some (c :: rest, q)

def renderField (cfg : Cfg) (only : Bool) (f : List Char) : Option (List Char) :=
  match fieldBody cfg f with
  | none => none
  | some (b, q) =>
    if q || cfg.quoteAll || (only && f.isEmpty) then some (cfg.quote :: b ++ [cfg.quote]) else some b

def renderFields (cfg : Cfg) (only : Bool) : List (List Char) → Bool → Option (List Char)
  | [], _ => some []
  | f :: fs, first =>
    match renderField cfg only f, renderFields cfg only fs false with
    | some a, some b => some ((if first then [] else [cfg.delim]) ++ a ++ b)
    | _, _ => none

/-- `writer.writerow(row)` -/
def renderRow (cfg : Cfg) (row : List (List Char)) : Option (List Char) :=
  match renderFields cfg (row.length == 1) row true with
  | some s => some (s ++ ['\r', '\n'])
  | none => none

def renderTable (cfg : Cfg) : List (List (List Char)) → Option (List Char)
  | [] => some []
  | r :: rs => match renderRow cfg r, renderTable cfg rs with
    | some a, some b => some (a ++ b)
    | _, _ => none

/-! ## Reader -/

inductive St
  | startRecord | startField | escapedChar | afterEscapedCrnl | inField | inQuoted | escInQuoted
  | quoteInQuoted | eatCrnl
  deriving Repr, DecidableEq, Inhabited

inductive Ev | ch (c : Char) | eol
  deriving Repr, DecidableEq

structure P where
  st : St := .startRecord
  field : List Char := []            -- reversed
  fields : List (List Char) := []    -- reversed
  deriving Repr, DecidableEq, Inhabited

def P.add (p : P) (c : Char) : P := { p with field := c :: p.field }
def P.save (p : P) : P := { p with field := [], fields := p.field.reverse :: p.fields }

def isNl : Ev → Bool
  | .ch c => c == '\n' || c == '\r'
  | .eol => false

def endLine (e : Ev) (p : P) : P :=
  { p.save with st := (match e with | .eol => .startRecord | _ => .eatCrnl) }

def stepStartField (cfg : Cfg) (e : Ev) (p : P) : Option P :=
  match e with
  | .eol => some (endLine e p)
  | .ch c =>
    if isNl e then some (endLine e p)
    else if c == cfg.quote then some { p with st := .inQuoted }
    else if some c == cfg.esc then some { p with st := .escapedChar }
    else if c == ' ' && cfg.skipInitialSpace then some p
    else if c == cfg.delim then some p.save
    else some { p.add c with st := .inField }

def stepInField (cfg : Cfg) (e : Ev) (p : P) : Option P :=
  match e with
  | .eol => some (endLine e p)
  | .ch c =>
    if isNl e then some (endLine e p)
    else if some c == cfg.esc then some { p with st := .escapedChar }
    else if c == cfg.delim then some { p.save with st := .startField }
    else some (p.add c)

/-- `parse_process_char`; `none` = `csv.Error` -/
def step (cfg : Cfg) (p : P) (e : Ev) : Option P :=
  match p.st with
  | .startRecord =>
    match e with
    | .eol => some p
    | .ch _ => if isNl e then some { p with st := .eatCrnl } else stepStartField cfg e { p with st := .startField }
  | .startField => stepStartField cfg e p
  | .escapedChar =>
    match e with
    | .eol => some { p.add '\n' with st := .inField }
    | .ch c => if isNl e then some { p.add c with st := .afterEscapedCrnl } else some { p.add c with st := .inField }
  | .afterEscapedCrnl =>
    match e with
    | .eol => some p
    | _ => stepInField cfg e p
  | .inField => stepInField cfg e p
  | .inQuoted =>
    match e with
    | .eol => some p
    | .ch c =>
      if some c == cfg.esc then some { p with st := .escInQuoted }
      else if c == cfg.quote then (if cfg.dq then some { p with st := .quoteInQuoted } else some { p with st := .inField })
      else some (p.add c)
  | .escInQuoted =>
    match e with
    | .eol => some { p.add '\n' with st := .inQuoted }
    | .ch c => some { p.add c with st := .inQuoted }
  | .quoteInQuoted =>
    match e with
    | .eol => some (endLine e p)
    | .ch c =>
      if c == cfg.quote then some { p.add c with st := .inQuoted }
      else if c == cfg.delim then some { p.save with st := .startField }
      else if isNl e then some (endLine e p)
      else none
  | .eatCrnl =>
    match e with
    | .eol => some { p with st := .startRecord }
    | .ch _ => if isNl e then some p else none

/-- state of the universal-newline line splitter: at the start of a line, after a CR whose line may
still be extended by LF, inside a line -/
inductive L | fresh | cr | mid
  deriving DecidableEq, Repr, Inhabited

structure S where
  l : L := .fresh
  p : P := {}
  out : List (List (List Char)) := []   -- reversed
  deriving Repr, DecidableEq, Inhabited

/-- deliver the end-of-line pseudo character; a record is complete when the parser is back in
`startRecord` -/
def S.eol (cfg : Cfg) (s : S) : Option S :=
  match step cfg s.p .eol with
  | none => none
  | some p' =>
    if p'.st == .startRecord then some { s with p := {}, out := p'.fields.reverse :: s.out }
    else some { s with p := p' }

def S.ch (cfg : Cfg) (s : S) (c : Char) : Option S :=
  match step cfg s.p (.ch c) with
  | none => none
  | some p' => some { s with p := p' }

/-- feed one character through the line splitter and the parser -/
def feed (cfg : Cfg) (s : S) (c : Char) : Option S :=
  match (if s.l = .cr ∧ c ≠ '\n' then s.eol cfg else some s) with
  | none => none
  | some s1 =>
    match s1.ch cfg c with
    | none => none
    | some s2 =>
      if c = '\n' then
        match s2.eol cfg with
        | none => none
        | some s3 => some { s3 with l := .fresh }
      else if c = '\r' then some { s2 with l := .cr }
      else some { s2 with l := .mid }

def feedAll (cfg : Cfg) : S → List Char → Option S
  | s, [] => some s
  | s, c :: cs =>
    match feed cfg s c with
    | none => none
    | some s' => feedAll cfg s' cs

/-- end of input: close the last line, then `Reader_iternext`'s end-of-data test (`strict`) -/
def finish (cfg : Cfg) (s : S) : Option (List (List (List Char))) :=
  match (if s.l = .fresh then some s else s.eol cfg) with
  | none => none
  | some s' =>
    if s'.p.field.length != 0 || s'.p.st == .inQuoted then none
    else some s'.out.reverse

/-- `list(csv.reader(io.StringIO(text, newline=''), **keywords))`; `none` = `csv.Error` -/
def parse (cfg : Cfg) (text : List Char) : Option (List (List (List Char))) :=
  match feedAll cfg {} text with
  | none => none
  | some s => finish cfg s

end Cutplace.Csv
