import Cutplace.Model.Range
import Cutplace.Model.Decimal
import Cutplace.Model.DateTime
import Cutplace.Model.Regex
/-
Model of `cutplace/fields.py`: the guard pipeline of `AbstractFieldFormat.validated` and the
declaration logic + `validated_value` of the built-in field types.
-/
namespace Cutplace

inductive Format | delimited | fixed | excel | ods
  deriving Repr, DecidableEq, Inhabited

/-- native value returned by `validated` -/
inductive Value
  | none
  | str (s : Str)
  | int (i : Int)
  | other (tag : Str)      -- decimals / time tuples are carried as canonical text
  deriving Repr, DecidableEq, Inhabited

/-- the type specific part of a declared field -/
inductive FieldKind
  | text
  | integer (valid : Range)
  | choice (choices : List Str)
  | constant (c : Str)
  /-- harness-defined plugin type: rejects every value containing `bad` -/
  | scripted (bad : Char)
  | decimal (decimalSep : Char) (thousandsSep : Option Char) (valid : DecimalRange)
  | datetime (fmt : List FmtTok) (hasTime : Bool) (excel : Bool)
  | pattern (rx : Rx)
  | regex (rx : Rx)
  deriving Repr, Inhabited

structure Field where
  allowEmpty : Bool
  length : Range
  fixed : Bool
  /-- `data_format.allowed_characters` -/
  allowed : Option Range
  kind : FieldKind
  deriving Repr, Inhabited

/-- `DateTimeFieldFormat.validated_value`: a date-only rule under the Excel format drops the
" 00:00:00" Excel appends to dates -/
def stripExcelTime (hasTime excel : Bool) (v : Str) : Str :=
  if !hasTime && excel && decide (v.length ≥ 9) && (v.drop (v.length - 9) == " 00:00:00".toList)
  then v.take (v.length - 9) else v

/-- `validated_value` of the built-in types: `none` = `FieldValueError`.  `unsupported` when the
cell leaves the modelled fragment of `int()`. -/
def FieldKind.validatedValue (k : FieldKind) (v : Str) : Out (Option Value) :=
  match k with
  | .text => .ok (some (.str v))
  | .integer valid =>
    if !isAscii v then .error .unsupported
    else match pyIntBase10 v with
      | none => .ok none
      | some i => .ok (if valid.validate i then some (.int i) else none)
  | .choice cs => .ok (if cs.contains v then some (.str v) else none)
  | .constant c => .ok (if v == c then some (.str v) else none)
  | .scripted bad => .ok (if v.contains bad then none else some (.str v))
  | .decimal ds ts valid =>
    match translateDecimal ds ts v false with
    | none => .ok none
    | some t =>
      match pyDecimal t with
      | .unsupported => .error .unsupported
      | .invalid => .ok none
      | .ok (.inf _) => .ok none        -- not finite: refused
      | .ok .nan => .ok none
      | .ok d =>
        match valid.validate d with
        | none => .error .invalidOperation          -- NaN compared with a limit
        | some true => .ok (some (.other d.tupleText))
        | some false => .ok none
  | .datetime fmt hasTime excel =>
    if !isAscii v then .error .unsupported
    else
      let v' := stripExcelTime hasTime excel v
      if hasDuplicateDirective fmt then .error .reError
      else match strptime fmt v' with
        | none => .ok none
        | some (y, mo, d, h, mi, sec) =>
          .ok (some (.other (natRepr y ++ "-".toList ++ natRepr mo ++ "-".toList ++ natRepr d ++ " ".toList ++
            natRepr h ++ ":".toList ++ natRepr mi ++ ":".toList ++ natRepr sec)))
  | .pattern rx => if !isAscii v then .error .unsupported else .ok (if rx.matchPrefix v then some (.str v) else none)
  | .regex rx => if !isAscii v then .error .unsupported else .ok (if rx.matchPrefix v then some (.str v) else none)

def FieldKind.emptyValue : FieldKind → Value
  | .integer _ => .none
  | .decimal _ _ _ => .none
  | .datetime _ _ _ => .none
  | _ => .str []

/-- `validate_characters`: index of the first character outside the allowed range -/
def firstDisallowed (allowed : Option Range) (v : Str) : Option Nat :=
  match allowed with
  | none => none
  | some r => v.findIdx? (fun c => !r.validate c.toNat)

/-- `validate_length` (non-raising part): does the length guard pass? -/
def Field.lengthOk (f : Field) (v : Str) : Bool :=
  if f.allowEmpty && v.isEmpty then true
  else if f.fixed then
    match f.length.lowerLimit with
    | some w => decide ((v.length : Int) ≤ w)
    | none => true     -- unreachable for CIDs read from a fixed format (length is mandatory); see `declare`
  else f.length.validate v.length

/-- outcome of `validated` with the value hook passed in (so the guard theorems hold for every
field type and rule).  `hook` returns `none` to reject. -/
def Field.validatedWith (f : Field) (hook : Str → Out (Option Value)) (emptyValue : Value) (v : Str) :
    Out (Option Value) :=
  match firstDisallowed f.allowed v with
  | some _ => .ok none
  | none =>
    let s := if f.fixed then strip v else v
    if !f.allowEmpty && s.isEmpty then .ok none
    else if !f.lengthOk v then .ok none
    else if s.isEmpty then .ok (some emptyValue) else hook s

def Field.validated (f : Field) (v : Str) : Out (Option Value) :=
  f.validatedWith f.kind.validatedValue f.kind.emptyValue v

def Field.accepts (f : Field) (v : Str) : Out Bool := (f.validated v).map Option.isSome

/-! ### declaration (`<Type>FieldFormat.__init__`) -/

/-- `_tools.token_text` -/
def tokenText (t : Tok) : Str :=
  if t.kind == .string then (t.text.drop 1).dropLast else t.text

/-- the choice-extraction loop of `ChoiceFieldFormat.__init__` -/
def choiceLoop : Nat → List Tok → List Str → Out (List Str)
  | 0, _, _ => .error .unsupported
  | _, [], _ => .error .stopIteration
  | fuel + 1, t :: ts, acc =>
    if t.isEof then .ok acc
    else if t.isComma then .error .iface
    else
      let c := tokenText t
      if c.isEmpty then .error .iface
      else match ts with
        | [] => .error .stopIteration
        | t2 :: ts2 =>
          if t2.isEof then .ok (acc ++ [c])
          else if !t2.isComma then .error .iface
          else match ts2 with
            | [] => .error .stopIteration
            | t3 :: _ => if t3.isEof then .error .iface else choiceLoop fuel ts2 (acc ++ [c])

def intLen (i : Int) : Nat := (intRepr i).length

/-- `IntegerFieldFormat.__init__` after `super().__init__`: returns the valid range -/
def declareInteger (fixed : Bool) (lengthText rule : Str) (length : Range) : Out Range := do
  let hasLength := !(strip lengthText).isEmpty
  let hasRule := !(strip rule).isEmpty
  -- length part
  let lenInfo : Option (Range × Range) ←
    if hasLength then do
      let len ←
        if fixed then
          if length.lowerLimit != length.upperLimit then .error .iface
          else match length.upperLimit with
            | none => .error .iface
            | some u => Range.parse ("1...".toList ++ intRepr u)
        else pure length
      -- a RangeValueError from the length is reported as interface error
      let lr ← match createRangeFromLength len with
        | .error (.data .range) => .error .iface
        | other => other
      pure (some (len, lr))
    else pure none
  let ruleRange : Option Range ← if hasRule then (Range.parse rule).map some else pure none
  match lenInfo, ruleRange with
  | some (len, _), some rr =>
    let limits : List Int := (rr.items.getD []).flatMap (fun it => it.lo.toList ++ it.hi.toList)
    if limits.all (fun l => len.validate (intLen l)) then pure rr else .error .iface
  | some (_, lr), none => pure lr
  | none, some rr => pure rr
  | none, none => Range.parse "-2147483648...2147483647".toList

inductive TypeName | text | integer | choice | constant | scripted (bad : Char) | decimal | datetime | pattern | regex
  deriving Repr, DecidableEq, Inhabited

/-- the data-format attributes a field declaration reads -/
structure FormatInfo where
  format : Format
  allowed : Option Range := none
  decimalSep : Char := '.'
  thousandsSep : Option Char := none
  deriving Repr, Inhabited

/-- `<Type>FieldFormat(name, allowEmpty, lengthText, rule, data_format)` -/
def declareFieldIn (ty : TypeName) (info : FormatInfo) (allowEmpty : Bool)
    (lengthText rule : Str) : Out Field := do
  let fmt := info.format
  let allowed := info.allowed
  -- Decimal passes "" to the base class and installs a DecimalRange as length afterwards
  let length ← if ty == .decimal then Range.parse [] else Range.parse lengthText
  let fixed := fmt == .fixed
  let mk (k : FieldKind) : Field := ⟨allowEmpty, length, fixed, allowed, k⟩
  match ty with
  | .text => pure (mk .text)
  | .scripted bad => pure (mk (.scripted bad))
  | .integer => do
    let valid ← declareInteger fixed lengthText rule length
    pure (mk (.integer valid))
  | .choice => do
    let toks ← liftLex (tokenizeWithoutSpace rule)
    let cs ← choiceLoop (toks.length + 1) toks []
    if !allowEmpty && cs.isEmpty then .error .iface else pure (mk (.choice cs))
  | .constant => do
    let toks ← liftLex (tokenizeWithoutSpace rule)
    let c ← match toks with
      | [] => .error .stopIteration
      | t :: ts =>
        if t.isEof then pure []
        else match ts with
          | [] => .error .stopIteration
          | t2 :: _ => if t2.isEof then pure (tokenText t) else .error .iface
    let hasEmptyRule := rule.isEmpty
    if allowEmpty && !hasEmptyRule then .error .iface
    else if !allowEmpty && hasEmptyRule then .error .iface
    else if !length.validate c.length then .error .iface
    else pure (mk (.constant c))
  | .decimal => do
    -- Excel / ODS formats have no separator properties: the defaults apply
    let (ds, ts) : Char × Option Char := if fmt == .excel || fmt == .ods then ('.', none) else (info.decimalSep, info.thousandsSep)
    let valid ← DecimalRange.parse rule (some defaultDecimalRangeText)
    -- the length counts characters: a range of integers (since 6df6362; before, a `DecimalRange`)
    let len ← Range.parse lengthText
    pure ⟨allowEmpty, len, fixed, allowed, .decimal ds ts valid⟩
  | .datetime => do
    if !isAscii rule then .error .unsupported
    let sf := translateLayout rule
    match parseFormat sf with
    | none => .error .unsupported
    | some none => pure (mk (.datetime [.lit '%'] false (fmt == .excel)))   -- stray `%`: every value fails (`ValueError`)
    | some (some toks) =>
      -- `any(directive in self.strptime_format ...)`: a substring test on the translated text
      let hasSub (pat : Str) : Bool := (List.range (sf.length + 1)).any (fun i => startsWith (sf.drop i) pat)
      let hasTime := hasSub "%H".toList || hasSub "%M".toList || hasSub "%S".toList
      -- the constructor probes `time.strptime("", format)`: a directive used twice is `re.error` -> InterfaceError
      if hasDuplicateDirective toks then .error .iface
      else pure (mk (.datetime toks hasTime (fmt == .excel)))
  | .pattern =>
    match globToRx (rule.length + 1) rule with
    | some rx => if isAscii rule then pure (mk (.pattern rx)) else .error .unsupported
    | none => .error .unsupported
  | .regex =>
    match parseRegex rule with
    | some rx => pure (mk (.regex rx))
    | none => .error .unsupported

def declareField (ty : TypeName) (fmt : Format) (allowed : Option Range) (allowEmpty : Bool)
    (lengthText rule : Str) : Out Field :=
  declareFieldIn ty { format := fmt, allowed := allowed } allowEmpty lengthText rule

end Cutplace

namespace Cutplace

/-- the guard pipeline as the engine's `Column.pre`: decided without the hook (`inl`) or hook called
with the (possibly blank-stripped) cell (`inr`) -/
def Field.pre (f : Field) (v : Str) : Sum Bool Str :=
  match firstDisallowed f.allowed v with
  | some _ => .inl false
  | none =>
    let s := if f.fixed then strip v else v
    if !f.allowEmpty && s.isEmpty then .inl false
    else if !f.lengthOk v then .inl false
    else if s.isEmpty then .inl true else .inr s

/-- `validated` factors through `pre` for every hook -/
theorem Field.validatedWith_eq_pre (f : Field) (hook : Str → Out (Option Value)) (ev : Value) (v : Str) :
    f.validatedWith hook ev v =
      (match f.pre v with
       | .inl true => .ok (some ev)
       | .inl false => .ok none
       | .inr s => hook s) := by
  unfold Field.validatedWith Field.pre
  cases firstDisallowed f.allowed v with
  | some _ => rfl
  | none =>
    simp only []
    generalize (if f.fixed = true then strip v else v) = s
    by_cases h1 : (!f.allowEmpty && s.isEmpty) = true
    · simp [h1]
    · by_cases h2 : (!f.lengthOk v) = true
      · simp [h1, h2]
      · by_cases h3 : s.isEmpty = true
        · simp [h2, h3]; split <;> rfl
        · simp [h2, h3]

end Cutplace
