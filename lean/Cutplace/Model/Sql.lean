import Cutplace.Model.Range
/-
Model of `cutplace/sql.py` (`SqlFactory.sql_fields` / `create_table_statement`, the four dialects'
`sql_type` ladders) and `IntegerFieldFormat.sql_ansi_type`.
-/
namespace Cutplace

inductive Dialect | ansi | db2 | transact | pl
  deriving Repr, DecidableEq, Inhabited

def MAX_TINYINT : Int := 255
def MAX_SMALLINT : Int := 32767
def MAX_INTEGER : Int := 2147483647
def MAX_BIGINT : Int := 9223372036854775807

/-- `sign_adjusted_limit` -/
def signAdjusted (l : Int) : Int := if l ≥ 0 then l else -(l + 1)

/-- `IntegerFieldFormat.sql_ansi_type()` for a bounded range: `("int", limit)` -/
def ansiIntLimit (lower upper : Int) : Int := max (signAdjusted lower) (signAdjusted upper)

/-- column type as rendered: name and the parenthesised arguments -/
structure SqlType where
  name : String
  args : List Int
  deriving Repr, DecidableEq, Inhabited

def intTypes : List String := ["bigint", "int", "smallint", "tinyint"]

/-- `_decimal_digits_for(limit)`: `len(str(limit + 1))`, the digits needed for any integer whose sign-adjusted limit is
`limit` (a negative limit's absolute value can be bigger by 1) -/
def decimalDigitsFor (limit : Int) : Int := ((natRepr (limit + 1).toNat).length : Nat)

/-- `dialect.sql_type(("int", limit))` followed by the rendering rule of `create_table_statement`
(no arguments for the names in `_INT_TYPES`) -/
def intColumnType (d : Dialect) (limit : Int) : SqlType :=
  let raw : String × List Int := match d with
    | .ansi => ("int", [limit])
    | .pl => if limit > MAX_INTEGER then ("number", [decimalDigitsFor limit, 0]) else ("int", [limit])
    | .transact =>
      if limit ≤ MAX_TINYINT then ("tinyint", [limit])
      else if limit ≤ MAX_SMALLINT then ("smallint", [limit])
      else if limit ≤ MAX_INTEGER then ("int", [limit])
      else if limit ≤ MAX_BIGINT then ("bigint", [limit])
      else ("decimal", [decimalDigitsFor limit, 0])
    | .db2 =>
      if limit ≤ MAX_SMALLINT then ("smallint", [limit])
      else if limit ≤ MAX_INTEGER then ("integer", [limit])
      else if limit ≤ MAX_BIGINT then ("bigint", [limit])
      else ("decimal", [decimalDigitsFor limit])
  if intTypes.contains raw.1 then ⟨raw.1, []⟩ else ⟨raw.1, raw.2⟩

/-- one column of the statement -/
structure SqlColumn where
  name : String
  quoted : Bool
  ty : SqlType
  notNull : Bool
  deriving Repr, DecidableEq, Inhabited

structure SqlField where
  name : String
  allowEmpty : Bool
  ty : SqlType          -- after the dialect mapping
  deriving Repr, DecidableEq, Inhabited

/-- `SqlFactory.sql_fields` + the column loop of `create_table_statement` -/
def createTableColumns (isKeyword : String → Bool) (fields : List SqlField) : List SqlColumn :=
  fields.map (fun f => ⟨f.name, isKeyword f.name.toLower, f.ty, !f.allowEmpty⟩)

end Cutplace
