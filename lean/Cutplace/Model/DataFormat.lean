import Cutplace.Model.Fields
/-
Model of `cutplace/data.py`: which properties exist per format, `set_property` with its per-name
dispatch, `_validated_character` / `_validated_choice` / `_validated_bool` / `_validated_int_at_least_0`
and `validate` (the `check_distinct` pairs).
-/
namespace Cutplace

inductive LineDelimSetting | any | lf | cr | crlf | none
  deriving Repr, DecidableEq, Inhabited

structure DataFormat where
  format : Format
  header : Nat := 0
  allowed : Option Range := none
  encoding : Str := "cp1252".toList
  escape : Char := '"'
  itemDelim : Char := ','
  quote : Char := '"'
  quotingAll : Bool := false
  skipInitialSpace : Bool := false
  decimalSep : Char := '.'
  lineDelim : LineDelimSetting := .any
  thousandsSep : Option Char := none
  sheet : Nat := 1
  deriving Repr, DecidableEq, Inhabited

/-- `DataFormat(format_name)`; `csv` is a synonym of `delimited` -/
def DataFormat.create (formatName : Str) : Out DataFormat :=
  let n := String.ofList formatName
  if n == "delimited" || n == "csv" then .ok { format := .delimited }
  else if n == "fixed" then .ok { format := .fixed }
  else if n == "excel" then .ok { format := .excel }
  else if n == "ods" then .ok { format := .ods }
  else .error .iface

/-- the attribute names (without the leading underscore) present in `__dict__` per format; a property
name must be one of these, otherwise `set_property` refuses it -/
def attributeNames (f : Format) : List String :=
  ["format", "header", "is_valid", "allowed_characters", "encoding"] ++
  (match f with
   | .delimited => ["escape_character", "item_delimiter", "quote_character", "quoting", "skip_initial_space",
                    "decimal_separator", "line_delimiter", "thousands_separator"]
   | .fixed => ["decimal_separator", "line_delimiter", "thousands_separator"]
   | .excel => ["sheet"]
   | .ods => ["sheet"])

/-- `int(value)` then `>= 0` -/
def validatedIntAtLeast0 (value : Str) : Out Nat :=
  if !isAscii value then .error .unsupported
  else match pyIntBase10 value with
    | none => .error .iface
    | some i => if i < 0 then .error .iface else .ok i.toNat

def validQuoteCharacters : List Char := "!\"#$%&'*+-/:;=?\\^_`~".toList

/-- the code point a single token stands for (`_validated_character`'s dispatch on the token type) -/
def tokenCode (t : Tok) : Out Int :=
  if t.kind == .name then codeForSymbolic t.text
  else if t.kind == .number then codeForNumber t.text
  else if t.kind == .string then codeForString t.text
  else match t.text with
    | [c] => .ok c.toNat
    | _ => .error .iface

/-- `_validated_character`: the code point denoted by `value` (`chr()` is applied by the caller) -/
def validatedCharacterCode (value : Str) : Out Int :=
  let stripped := strip value
  match stripped with
  | [c] => if !isAsciiDigit c then .ok c.toNat else viaTokens value
  | _ => viaTokens value
where
  viaTokens (value : Str) : Out Int :=
    match generatedTokens value with
    | .error .tokenError => .error .iface           -- caught: "must be a valid Python token"
    | .error .unsupported => .error .unsupported
    | .ok [] => .error .stopIteration
    | .ok (t :: rest) =>
      if t.isEof then .error .iface
      else
        match tokenCode t with
        | .error e => .error e
        | .ok c =>
          match rest with
          | [] => .error .stopIteration
          | t2 :: _ => if t2.isEof then .ok c else .error .iface

/-- `chr(code)` -/
def pyChr (code : Int) : Out Char :=
  if code < 0 then .error .value
  else if code ≥ 0x110000 then .error .iface     -- refused before `chr()` (repair of F8)
  else if 0xD800 ≤ code && code ≤ 0xDFFF then .error .unsupported   -- lone surrogates are not `Char`s
  else .ok (Char.ofNat code.toNat)

def validatedCharacter (value : Str) : Out Char :=
  match validatedCharacterCode value with
  | .error e => .error e
  | .ok c => pyChr c

/-- `DataFormat.set_property(name, value)`; `name` arrives lower-cased, `encodingKnown` is the verdict
of `codecs.lookup(value)` (a parameter: the codec registry is not modelled) -/
def DataFormat.setKnownProperty (df : DataFormat) (n : String) (value : Str) (encodingKnown : Bool) : Out DataFormat :=
  if n == "encoding" then
    if encodingKnown then .ok { df with encoding := value } else .error .iface
  else if n == "header" then (validatedIntAtLeast0 value).map (fun h => { df with header := h })
  else if n == "allowed_characters" then
    match Range.parse value with
    | .ok r => .ok { df with allowed := if r.items.isNone then none else some r }
    | .error .iface => .error .iface
    | .error e => .error e
  else if n == "decimal_separator" then
    match value with
    | [c] => if c == '.' || c == ',' then .ok { df with decimalSep := c } else .error .iface
    | _ => .error .iface
  else if n == "escape_character" then
    match value with
    | [c] => if c == '"' || c == '\\' then .ok { df with escape := c } else .error .iface
    | _ => .error .iface
  else if n == "item_delimiter" then
    match validatedCharacter value with
    | .error e => .error e
    | .ok c => if c.toNat == 0 then .error .iface else .ok { df with itemDelim := c }
  else if n == "line_delimiter" then
    if !isAscii value then .error .unsupported
    else
      let v := String.ofList (lower value)
      if v == "any" then .ok { df with lineDelim := .any }
      else if v == "lf" then .ok { df with lineDelim := .lf }
      else if v == "cr" then .ok { df with lineDelim := .cr }
      else if v == "crlf" then .ok { df with lineDelim := .crlf }
      else if v == "none" then
        -- only fixed data may have no line delimiter (`_VALID_LINE_DELIMITER_TEXTS`)
        if df.format == .fixed then .ok { df with lineDelim := .none } else .error .iface
      else .error .iface
  else if n == "quote_character" then
    match value with
    | [c] => if validQuoteCharacters.contains c then .ok { df with quote := c } else .error .iface
    | _ => .error .iface
  else if n == "quoting" then
    if !isAscii value then .error .unsupported
    else
      let v := String.ofList (lower value)
      if v == "all" then .ok { df with quotingAll := true }
      else if v == "minimal" then .ok { df with quotingAll := false }
      else .error .iface
  else if n == "sheet" then
    match validatedIntAtLeast0 value with
    | .error e => .error e
    | .ok s => if s ≥ 1 then .ok { df with sheet := s } else .error .iface
  else if n == "skip_initial_space" then
    if !isAscii value then .error .unsupported
    else
      let v := String.ofList (lower value)
      if v == "true" then .ok { df with skipInitialSpace := true }
      else if v == "false" then .ok { df with skipInitialSpace := false }
      else .error .iface
  else if n == "thousands_separator" then
    match value with
    | [] => .ok { df with thousandsSep := none }
    | [c] => if c == ',' || c == '.' then .ok { df with thousandsSep := some c } else .error .iface
    | _ => .error .iface
  else .error .iface          -- `format`, `is_valid`: present in __dict__ but not settable

/-- `name.replace(" ", "_")` -/
def propertyKey (name : Str) : String := String.ofList (name.map (fun c => if c == ' ' then '_' else c))

def DataFormat.setProperty (df : DataFormat) (name value : Str) (encodingKnown : Bool) : Out DataFormat :=
  if !(attributeNames df.format).contains (propertyKey name) then .error .iface
  else df.setKnownProperty (propertyKey name) value encodingKnown

/-- the character a line delimiter setting is compared with in `check_distinct` (multi-character and
symbolic settings never equal a one-character property) -/
def LineDelimSetting.asChar : LineDelimSetting → Option Char
  | .lf => some '\n'
  | .cr => some '\r'
  | _ => Option.none

/-- `DataFormat.validate()`: `true` = consistent -/
def DataFormat.validate (df : DataFormat) : Bool :=
  let decThousandsOk := df.thousandsSep != some df.decimalSep
  match df.format with
  | .delimited =>
    decThousandsOk &&
    (df.lineDelim == .none || df.lineDelim.asChar != some df.escape) &&
    df.escape != df.itemDelim &&
    df.lineDelim.asChar != some df.itemDelim &&
    df.itemDelim != df.quote &&
    !(df.itemDelim == '\n' || df.itemDelim == '\r') &&
    df.lineDelim.asChar != some df.quote
  | .fixed => decThousandsOk
  | _ => true

end Cutplace
