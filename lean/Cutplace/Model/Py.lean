/-
Python-level primitives shared by all models: exceptions, outcomes, string helpers,
decimal digits, `int()` parsing.  Core Lean only (no Mathlib) so the driver links.
-/
namespace Cutplace

abbrev Str := List Char

/-- Exception classes that can escape the modelled code. `iface`/`data` are cutplace's own
(`InterfaceError`, `DataError` and subclasses); everything else is an internal failure. -/
inductive DataKind
  | plain | field | check | format | range
  deriving Repr, DecidableEq, Inhabited

inductive PyExn
  | iface
  | data (k : DataKind)
  | tokenError | assertion | attribute | value | typeErr | unboundLocal
  | reError | invalidOperation | key | badZip | os | stopIteration | unicodeDecode | overflow
  | notImplemented
  | unsupported          -- input is outside the modelled fragment (never compared)
  deriving Repr, DecidableEq, Inhabited

def DataKind.tag : DataKind → String
  | .plain => "Row" | .field => "Field" | .check => "Check" | .format => "Format" | .range => "Range"

def PyExn.tag : PyExn → String
  | .iface => "iface"
  | .data k => "data:" ++ k.tag
  | .tokenError => "exn:TokenError" | .assertion => "exn:AssertionError"
  | .attribute => "exn:AttributeError" | .value => "exn:ValueError" | .typeErr => "exn:TypeError"
  | .unboundLocal => "exn:UnboundLocalError" | .reError => "exn:error"
  | .invalidOperation => "exn:InvalidOperation" | .key => "exn:KeyError"
  | .badZip => "exn:BadZipFile" | .os => "exn:OSError" | .stopIteration => "exn:StopIteration"
  | .unicodeDecode => "exn:UnicodeDecodeError" | .overflow => "exn:OverflowError"
  | .notImplemented => "exn:NotImplementedError"
  | .unsupported => "unsupported"

/-- A cutplace error (the only kind C10 allows to escape). -/
def PyExn.isCutplace : PyExn → Bool
  | .iface => true | .data _ => true | _ => false

abbrev Out (α : Type) := Except PyExn α

/-! ### characters -/

def isAsciiDigit (c : Char) : Bool := '0' ≤ c && c ≤ '9'
def isAsciiLetter (c : Char) : Bool := ('a' ≤ c && c ≤ 'z') || ('A' ≤ c && c ≤ 'Z')
def isHexDigit (c : Char) : Bool := isAsciiDigit c || ('a' ≤ c && c ≤ 'f') || ('A' ≤ c && c ≤ 'F')

/-- `str.isspace()` for one character (Unicode White_Space + the four separators Python adds). -/
def isPySpace (c : Char) : Bool :=
  let n := c.toNat
  (9 ≤ n && n ≤ 13) || (28 ≤ n && n ≤ 32) || n == 0x85 || n == 0xA0 || n == 0x1680 ||
  (0x2000 ≤ n && n ≤ 0x200A) || n == 0x2028 || n == 0x2029 || n == 0x202F || n == 0x205F || n == 0x3000

def lstrip : Str → Str
  | [] => []
  | c :: cs => if isPySpace c then lstrip cs else c :: cs

def rstrip (s : Str) : Str := (lstrip s.reverse).reverse
/-- `str.strip()` -/
def strip (s : Str) : Str := rstrip (lstrip s)

/-- ASCII-only `str.lower()`; non-ASCII characters are left alone (callers that need full
Unicode lowering treat non-ASCII input as outside the fragment). -/
def lowerChar (c : Char) : Char := if 'A' ≤ c && c ≤ 'Z' then Char.ofNat (c.toNat + 32) else c
def lower (s : Str) : Str := s.map lowerChar
def isAscii (s : Str) : Bool := s.all (fun c => c.toNat < 128)

/-- `s.startswith(p)` -/
def startsWith : Str → Str → Bool
  | _, [] => true
  | [], _ :: _ => false
  | c :: cs, p :: ps => c == p && startsWith cs ps

/-- `s.replace(old, new)` for non-empty `old` (left to right, non-overlapping). -/
def replaceAll (old new : Str) : Str → Str
  | [] => []
  | c :: cs =>
    if old ≠ [] ∧ startsWith (c :: cs) old then
      new ++ replaceAll old new ((c :: cs).drop old.length)
    else c :: replaceAll old new cs
termination_by s => s.length
decreasing_by
  all_goals simp_wf
  · rename_i h
    have : old.length > 0 := by
      cases old with
      | nil => exact absurd rfl h.1
      | cons _ _ => simp
    omega

/-! ### decimal digits -/

/-- decimal digits of `n`, most significant first (`str(n)` for `n ≥ 0`) -/
def digits (n : Nat) : List Nat :=
  if _h : n < 10 then [n] else digits (n / 10) ++ [n % 10]
termination_by n
decreasing_by omega

def digitChar (d : Nat) : Char := Char.ofNat (48 + d)
def natRepr (n : Nat) : Str := (digits n).map digitChar
/-- `str(i)` for a Python int -/
def intRepr (i : Int) : Str := if i < 0 then '-' :: natRepr i.natAbs else natRepr i.natAbs

def digitVal (c : Char) : Nat := c.toNat - 48
def hexVal (c : Char) : Nat :=
  if isAsciiDigit c then c.toNat - 48
  else if 'a' ≤ c && c ≤ 'f' then c.toNat - 87 else c.toNat - 55

def parseDigits (ds : List Nat) : Nat := ds.foldl (fun a d => a * 10 + d) 0
def parseBase (b : Nat) (ds : List Nat) : Nat := ds.foldl (fun a d => a * b + d) 0

/-- Strip single underscores between digits as `int()` does: `1_000` is fine, `_1`, `1_`, `1__0`
are not.  Returns `none` when the underscore placement is illegal. -/
def dropDigitUnderscores (ok : Char → Bool) : Str → Option Str
  | [] => none
  | c :: cs => if ok c then go cs [c] else none
where
  go : Str → Str → Option Str
    | [], acc => some acc.reverse
    | '_' :: d :: rest, acc => if ok d then go rest (d :: acc) else none
    | ['_'], _ => none
    | d :: rest, acc => if ok d then go rest (d :: acc) else none

/-- `int(text)` (base 10) restricted to ASCII: optional blanks around, optional sign, digits with
single underscores.  `none` = `ValueError`. -/
def splitSign : Str → Bool × Str
  | '-' :: r => (true, r)
  | '+' :: r => (false, r)
  | r => (false, r)

/-- CPython refuses to convert decimal strings of more than `sys.get_int_max_str_digits()` digits
(default 4300; underscores and the sign are not counted, leading zeros are) with `ValueError` -/
def maxStrDigits : Nat := 4300

def pyIntBase10 (s : Str) : Option Int :=
  let p := splitSign (strip s)
  match dropDigitUnderscores isAsciiDigit p.2 with
  | none => none
  | some ds =>
    if ds.length > maxStrDigits then none
    else
      let n := parseDigits (ds.map digitVal)
      some (if p.1 then - (n : Int) else (n : Int))

def isOctDigit (c : Char) : Bool := '0' ≤ c && c ≤ '7'
def isBinDigit (c : Char) : Bool := c == '0' || c == '1'

/-- `int(text, 0)` on an unsigned literal as produced by the tokenizer (`NUMBER` token text):
decimal without leading zeros (all-zero allowed), `0x`/`0o`/`0b` prefixed, underscores.
`none` = `ValueError` (floats, imaginary, malformed). -/
def pyIntBase0 (s : Str) : Option Nat :=
  let pref (ok : Char → Bool) (base : Nat) (r : Str) : Option Nat :=
    -- after a base prefix one leading underscore is allowed: 0x_1f
    let r' := match r with | '_' :: x => x | x => x
    match dropDigitUnderscores ok r' with
    | none => none
    | some ds => some (parseBase base (ds.map hexVal))
  match s with
  | '0' :: 'x' :: r => pref isHexDigit 16 r
  | '0' :: 'X' :: r => pref isHexDigit 16 r
  | '0' :: 'o' :: r => pref isOctDigit 8 r
  | '0' :: 'O' :: r => pref isOctDigit 8 r
  | '0' :: 'b' :: r => pref isBinDigit 2 r
  | '0' :: 'B' :: r => pref isBinDigit 2 r
  | _ =>
    match dropDigitUnderscores isAsciiDigit s with
    | none => none
    | some ds =>
      if ds.length > maxStrDigits then none
      else
      -- leading zeros are only allowed when the whole literal is zero
      match ds with
      | '0' :: _ :: _ => if ds.all (· == '0') then some 0 else none
      | _ => some (parseDigits (ds.map digitVal))

end Cutplace
