import Cutplace.Model.Range
/-
Model of `decimal.Decimal` as cutplace uses it (construction from text, ordering, `as_tuple`),
`ranges.DecimalRange` and the separator translation of `DecimalFieldFormat.validated_value`.
-/
namespace Cutplace

/-- a `decimal.Decimal` -/
inductive Dec
  | fin (neg : Bool) (mant : Nat) (exp : Int)    -- (-1)^neg * mant * 10^exp, `mant`'s digits as written
  | inf (neg : Bool)
  | nan                                            -- quiet or signalling: every ordering comparison raises
  deriving Repr, DecidableEq, Inhabited

/-- outcome of `decimal.Decimal(text)` -/
inductive DecParse
  | ok (d : Dec)
  | invalid              -- `decimal.InvalidOperation`
  | unsupported
  deriving Repr, DecidableEq, Inhabited

def stripUnderscores (s : Str) : Str := s.filter (· != '_')

def allDigits (s : Str) : Bool := s.all isAsciiDigit

/-- number of digits of the coefficient as `as_tuple()` shows it (leading zeros dropped, at least 1) -/
def coeffDigits (mant : Nat) : Nat := (digits mant).length

def pyDecimal (text : Str) : DecParse :=
  if !isAscii text then .unsupported
  else
    let t := stripUnderscores (strip text)
    let (neg, body) := match t with
      | '-' :: r => (true, r)
      | '+' :: r => (false, r)
      | r => (false, r)
    let lb := lower body
    if lb == "inf".toList || lb == "infinity".toList then .ok (.inf neg)
    else if startsWith lb "nan".toList then (if allDigits (lb.drop 3) then .ok .nan else .invalid)
    else if startsWith lb "snan".toList then (if allDigits (lb.drop 4) then .ok .nan else .invalid)
    else
      -- decimal-part [exponent-part]
      let (ip, r1) := spanChars isAsciiDigit body
      let (fp, r2, hasDot) := match r1 with
        | '.' :: x => let (f, y) := spanChars isAsciiDigit x; (f, y, true)
        | x => ([], x, false)
      if ip.isEmpty && fp.isEmpty then .invalid
      else
        let _ := hasDot
        let expo : Option Int := match r2 with
          | [] => some 0
          | e :: x =>
            if e == 'e' || e == 'E' then
              let (eneg, y) := match x with
                | '-' :: z => (true, z)
                | '+' :: z => (false, z)
                | z => (false, z)
              if y.isEmpty || !allDigits y then none
              else
                let v : Int := parseDigits (y.map digitVal)
                some (if eneg then -v else v)
            else none
        match expo with
        | none => .invalid
        | some e =>
          let mant := parseDigits ((ip ++ fp).map digitVal)
          let ex : Int := e - fp.length
          if ex.natAbs > 5000 then .unsupported else .ok (.fin neg mant ex)

/-- signed coefficient scaled to the exponent `e` (which must not exceed the value's own exponent) -/
def Dec.scaled (neg : Bool) (mant : Nat) (exp e : Int) : Int :=
  let v : Int := mant * (10 : Int) ^ (exp - e).toNat
  if neg then -v else v

/-- `a <= b`; `none` = `InvalidOperation` (a NaN is involved) -/
def Dec.le? : Dec → Dec → Option Bool
  | .nan, _ => none
  | _, .nan => none
  | .inf true, _ => some true
  | _, .inf false => some true
  | .inf false, .fin _ _ _ => some false
  | .inf false, .inf true => some false
  | .fin _ _ _, .inf true => some false
  | .fin n1 m1 e1, .fin n2 m2 e2 =>
    let e := min e1 e2
    some (decide (Dec.scaled n1 m1 e1 e ≤ Dec.scaled n2 m2 e2 e))

def Dec.ofInt (i : Int) : Dec := .fin (i < 0) i.natAbs 0

def Dec.negate : Dec → Dec
  | .fin n m e => .fin (!n) m e
  | .inf n => .inf (!n)
  | .nan => .nan

/-- canonical text of `as_tuple()`: sign, coefficient digits, exponent -/
def Dec.tupleText : Dec → Str
  | .fin n m e => (if n then "1".toList else "0".toList) ++ ":".toList ++ natRepr m ++ ":".toList ++ intRepr e
  | .inf n => (if n then "1".toList else "0".toList) ++ ":0:F".toList
  | .nan => "nan".toList

structure DItem where
  lo : Option Dec
  hi : Option Dec
  deriving Repr, DecidableEq, Inhabited

structure DecimalRange where
  items : Option (List DItem)
  precision : Nat := 12
  scale : Nat := 31
  lowerLimit : Option Dec := none
  upperLimit : Option Dec := none
  deriving Repr, DecidableEq, Inhabited

/-- `a < b` on decimals as Python evaluates it; a NaN makes it `false` here (limits are always finite: a NaN is
never a NUMBER token) -/
def Dec.lt (a b : Dec) : Bool :=
  match Dec.le? b a with
  | some false => true
  | _ => false

/-- the loop computing `_lower_limit` of a `DecimalRange` (same shape as `Range`'s) -/
def dLowerLimitLoop : Option Dec → Bool → List DItem → Option Dec
  | cur, _, [] => cur
  | cur, first, it :: rest =>
    let cur := if first then it.lo else cur
    let cur := match it.lo with
      | none => none
      | some l => (match cur with
                   | some c => if Dec.lt l c then some l else some c
                   | none => none)
    dLowerLimitLoop cur false rest

def dUpperLimitLoop : Option Dec → Bool → List DItem → Option Dec
  | cur, _, [] => cur
  | cur, first, it :: rest =>
    let cur := if first then it.hi else cur
    let cur := match it.hi with
      | none => none
      | some u => (match cur with
                   | some c => if Dec.lt c u then some u else some c
                   | none => none)
    dUpperLimitLoop cur false rest

def dLowerLimitOf (its : List DItem) : Option Dec := dLowerLimitLoop none true its
def dUpperLimitOf (its : List DItem) : Option Dec := dUpperLimitLoop none true its

/-- `_item_contains` for decimals; `none` = `InvalidOperation` -/
def DItem.contains? (it : DItem) (v : Dec) : Option Bool :=
  match it.lo, it.hi with
  | none, none => some false
  | none, some u => Dec.le? v u
  | some l, none => Dec.le? l v
  | some l, some u =>
    match Dec.le? l v with
    | none => none
    | some false => some false
    | some true => Dec.le? v u

/-- `DecimalRange.validate` on a decimal value: `some true` returns, `some false` raises
`RangeValueError`, `none` raises `InvalidOperation` -/
def dValidateLoop (v : Dec) : List DItem → Option Bool
  | [] => some false
  | it :: rest =>
    match it.contains? v with
    | none => none
    | some true => some true
    | some false => dValidateLoop v rest

def DecimalRange.validate (r : DecimalRange) (v : Dec) : Option Bool :=
  match r.items with
  | none => some true
  | some its => dValidateLoop v its

structure DRegs where
  lower : Option Dec := none
  upper : Option Dec := none
  ell : Bool := false
  hyph : Bool := false
  maxAfter : Nat := 0
  maxBefore : Int := 0
  deriving Repr

/-- the inner token loop of `DecimalRange.__init__` -/
def dItemLoop (r : DRegs) : List Tok → Out (DRegs × Tok × List Tok)
  | [] => .error .stopIteration
  | t :: ts =>
    if t.isEof || t.isComma then .ok (r, t, ts)
    else if t.kind == .number then
      match pyDecimal t.text with
      | .unsupported => .error .unsupported
      | .invalid => .error .iface
      | .ok d =>
        let (after, before) : Nat × Int := match d with
          | .fin _ m e => ((max 0 (-e)).toNat, (coeffDigits m : Int) + e)
          | _ => (0, 0)
        let r := { r with maxAfter := max r.maxAfter after, maxBefore := max r.maxBefore before }
        let d' := if r.hyph then d.negate else d
        let r := { r with hyph := false }
        if r.ell then
          if r.upper.isNone then dItemLoop { r with upper := some d' } ts else .error .iface
        else if r.lower.isNone then dItemLoop { r with lower := some d' } ts
        else .error .iface
    else if r.hyph then .error .iface
    else if t.kind == .op && t.text == ['-'] then dItemLoop { r with hyph := true } ts
    else if t.text == [ellipsisChar] || t.text == [':'] then dItemLoop { r with ell := true } ts
    else .error .iface

def dItemsOverlap (some other : DItem) : Option Bool :=
  let c (v : Option Dec) : Option Bool := match v with
    | none => Option.some false
    | Option.some d => some.contains? d
  match c other.lo with
  | none => none
  | Option.some true => Option.some true
  | Option.some false => c other.hi

/-- the outer loop; `prev` is the value of the Python variable `range_item` (which survives from one
iteration to the next and is unbound at first) -/
def dParseTokens : Nat → List Tok → List DItem → Option DItem → Nat → Int → Out (List DItem × Nat × Int)
  | 0, _, _, _, _, _ => .error .unsupported
  | fuel + 1, toks, acc, prev, maxAfter, maxBefore =>
    match dItemLoop { maxAfter := maxAfter, maxBefore := maxBefore } toks with
    | .error e => .error e
    | .ok (r, last, rest) =>
      if r.hyph then .error .iface
      else
        let decided : Out (Option DItem) := match r.lower, r.upper with
          | none, none => if r.ell then .error .iface else .ok none     -- no assignment: `range_item` keeps its old value
          | none, some u => .ok (some ⟨none, some u⟩)
          | some l, up =>
            if r.ell then
              match up with
              | some u =>
                (match Dec.le? l u with
                 | none => .error .invalidOperation
                 | some true => .ok (some ⟨some l, some u⟩)
                 | some false => .error .iface)     -- `lower > upper`
              | none => .ok (some ⟨some l, none⟩)
            else .ok (some ⟨some l, some l⟩)
        match decided with
        | .error e => .error e
        | .ok newItem =>
          match newItem with
          | none =>
            -- an empty item is skipped (`range_item = None` at the start of every iteration)
            if last.isEof then .ok (acc, r.maxAfter, r.maxBefore)
            else dParseTokens fuel rest acc prev r.maxAfter r.maxBefore
          | some it =>
            let ov : Option Bool := acc.foldl (fun o old => match o with
              | none => none
              | some true => some true
              | some false => dItemsOverlap old it) (some false)
            match ov with
            | none => .error .invalidOperation
            | some true => .error .iface
            | some false =>
              let acc' := acc ++ [it]
              if last.isEof then .ok (acc', r.maxAfter, r.maxBefore)
              else dParseTokens fuel rest acc' (some it) r.maxAfter r.maxBefore

def defaultDecimalRangeText : Str := "-9999999999999999999.999999999999...9999999999999999999.999999999999".toList

/-- `DecimalRange(description, default)` -/
def DecimalRange.parse (description : Str) (default : Option Str := none) : Out DecimalRange :=
  let hasDesc := !(strip description).isEmpty
  let desc? : Option Str := if hasDesc then some description else default
  match desc? with
  | none => .ok { items := none }
  | some d =>
    let d1 := replaceAll ['.', '.', '.'] [ellipsisChar] d
    match liftLex (tokenizeWithoutSpace (tokenizable none false d1)) with
    | .error e => .error e
    | .ok toks =>
      match dParseTokens (toks.length + 1) toks [] none 0 0 with
      | .error e => .error e
      | .ok (its, after, before) =>
        if before < 0 then .error .assertion      -- `assert self.scale >= self.precision`
        else .ok { items := some its, precision := after, scale := (before + after).toNat,
                   lowerLimit := dLowerLimitOf its, upperLimit := dUpperLimitOf its }

/-- the character loop of `DecimalFieldFormat.validated_value`: `none` = `FieldValueError` -/
def translateDecimal (decimalSep : Char) (thousandsSep : Option Char) : Str → Bool → Option Str
  | [], _ => some []
  | c :: cs, found =>
    if c == decimalSep then
      if found then none else (translateDecimal decimalSep thousandsSep cs true).map ('.' :: ·)
    else if thousandsSep == some c then
      if found then none else translateDecimal decimalSep thousandsSep cs found
    else (translateDecimal decimalSep thousandsSep cs found).map (c :: ·)

end Cutplace
