import Cutplace.Model.PyTok
/-
Model of `cutplace/ranges.py`: `Range.__init__` (token loop), `Range.validate`, the overall limits,
`code_for_*_token`, `create_range_from_length`.
-/
namespace Cutplace

/-- one range item `(lower, upper)`, `none` = open -/
structure Item where
  lo : Option Int
  hi : Option Int
  deriving Repr, DecidableEq, Inhabited

abbrev Items := List Item

/-- `Range._item_contains(item, value)` for a non-`None` value -/
def Item.contains (it : Item) (v : Int) : Bool :=
  match it.lo, it.hi with
  | none, none => false          -- asserted impossible in the source
  | none, some u => v ≤ u
  | some l, none => v ≥ l
  | some l, some u => v ≥ l && v ≤ u

def Item.containsOpt (it : Item) : Option Int → Bool
  | none => false
  | some v => it.contains v

/-- `Range._items_overlap(some, other)`: only the *end points of `other`* are tested -/
def itemsOverlap (some other : Item) : Bool :=
  some.containsOpt other.lo || some.containsOpt other.hi

/-- the `while not is_valid and item_index < len(items)` loop of `Range.validate` -/
def validateLoop (v : Int) : Items → Bool
  | [] => false
  | it :: rest =>
    let ok := match it.lo, it.hi with
      | none, none => false   -- unreachable (assert)
      | none, some u => v ≤ u
      | some l, none => v ≥ l
      | some l, some u => v ≥ l && v ≤ u
    if ok then true else validateLoop v rest

/-- A constructed `Range`: `items = none` is the "empty description" range accepting everything. -/
structure Range where
  items : Option Items
  lowerLimit : Option Int
  upperLimit : Option Int
  deriving Repr, DecidableEq, Inhabited

/-- `Range.validate(name, value)`: `true` = returns, `false` = raises `RangeValueError` -/
def Range.validate (r : Range) (v : Int) : Bool :=
  match r.items with
  | none => true
  | some its => validateLoop v its

/-- the loop computing `_lower_limit` -/
def lowerLimitLoop : Option Int → Bool → Items → Option Int
  | cur, _, [] => cur
  | cur, first, it :: rest =>
    let cur := if first then it.lo else cur
    let cur := match it.lo with
      | none => none
      | some l => (match cur with
                   | some c => if l < c then some l else some c
                   | none => none)
    lowerLimitLoop cur false rest

def upperLimitLoop : Option Int → Bool → Items → Option Int
  | cur, _, [] => cur
  | cur, first, it :: rest =>
    let cur := if first then it.hi else cur
    let cur := match it.hi with
      | none => none
      | some u => (match cur with
                   | some c => if u > c then some u else some c
                   | none => none)
    upperLimitLoop cur false rest

def lowerLimitOf (its : Items) : Option Int := lowerLimitLoop none true its
def upperLimitOf (its : Items) : Option Int := upperLimitLoop none true its

/-! ### token values -/

def symbolicCode (name : Str) : Option Int :=
  let l := lower name
  if l == "cr".toList then some 13 else if l == "ff".toList then some 12
  else if l == "lf".toList then some 10 else if l == "tab".toList then some 9
  else if l == "vt".toList then some 11 else none

def utf8Bytes (c : Char) : List Nat :=
  let n := c.toNat
  if n < 0x80 then [n]
  else if n < 0x800 then [0xC0 + n / 64, 0x80 + n % 64]
  else if n < 0x10000 then [0xE0 + n / 4096, 0x80 + (n / 64) % 64, 0x80 + n % 64]
  else [0xF0 + n / 262144, 0x80 + (n / 4096) % 64, 0x80 + (n / 64) % 64, 0x80 + n % 64]

def takeHex : Nat → Str → Option (Nat × Str)
  | 0, s => some (0, s)
  | k + 1, c :: cs =>
    if isHexDigit c then
      match takeHex k cs with
      | some (v, r) => some (hexVal c * 16 ^ k + v, r)
      | none => none
    else none
  | _ + 1, [] => none

/-- `bytes.decode("unicode_escape")` on the UTF-8 encoding of `s` (so each non-ASCII character
becomes its UTF-8 bytes read as Latin-1).  `\N{...}` is outside the fragment. -/
def unicodeEscape : Nat → Str → Out Str
  | 0, _ => .error .unsupported
  | _ + 1, [] => .ok []
  | fuel + 1, '\\' :: rest =>
    match rest with
    | [] => .error .unicodeDecode                     -- "\ at end of string"
    | c :: cs =>
      let simple (ch : Char) : Out Str := (unicodeEscape fuel cs).map (ch :: ·)
      if c == '\n' then unicodeEscape fuel cs
      else if c == '\\' then simple '\\' else if c == '\'' then simple '\''
      else if c == '"' then simple '"' else if c == 'a' then simple (Char.ofNat 7)
      else if c == 'b' then simple (Char.ofNat 8) else if c == 'f' then simple (Char.ofNat 12)
      else if c == 'n' then simple '\n' else if c == 'r' then simple '\r'
      else if c == 't' then simple '\t' else if c == 'v' then simple (Char.ofNat 11)
      else if isOctDigit c then
        -- up to three octal digits
        let (ds, r) := match cs with
          | d1 :: d2 :: r2 =>
            if isOctDigit d1 then (if isOctDigit d2 then ([c, d1, d2], r2) else ([c, d1], d2 :: r2))
            else ([c], cs)
          | [d1] => if isOctDigit d1 then ([c, d1], []) else ([c], cs)
          | [] => ([c], [])
        let v := parseBase 8 (ds.map digitVal)
        if v > 0xFF then .error .unsupported   -- CPython: allowed with a warning up to \777
        else (unicodeEscape fuel r).map (Char.ofNat v :: ·)
      else if c == 'x' then
        match takeHex 2 cs with
        | some (v, r) => (unicodeEscape fuel r).map (Char.ofNat v :: ·)
        | none => .error .unicodeDecode
      else if c == 'u' then
        match takeHex 4 cs with
        | some (v, r) => (unicodeEscape fuel r).map (Char.ofNat v :: ·)
        | none => .error .unicodeDecode
      else if c == 'U' then
        match takeHex 8 cs with
        | some (v, r) =>
          if v ≥ 0x110000 then .error .unicodeDecode
          else (unicodeEscape fuel r).map (Char.ofNat v :: ·)
        | none => .error .unicodeDecode
      else if c == 'N' then .error .unsupported
      else
        -- unknown escape: backslash kept (DeprecationWarning only)
        (unicodeEscape fuel (c :: cs)).map ('\\' :: ·)
  | fuel + 1, c :: cs =>
    (unicodeEscape fuel cs).map ((utf8Bytes c).map Char.ofNat ++ ·)

/-- `code_for_string_token`: `value` includes its quotes -/
def codeForString (value : Str) : Out Int :=
  match value with
  | q :: rest =>
    if (q == '\'' || q == '"') && rest ≠ [] then
      let body := rest.dropLast
      match body with
      | [c] => .ok c.toNat
      | _ =>
        match unicodeEscape (2 * body.length + 2) body with
        | .error .unicodeDecode => .error .iface       -- malformed escape sequence: refused
        | .error e => .error e
        | .ok [c] => .ok c.toNat
        | .ok _ => .error .iface
    else .error .iface                                  -- string prefix: refused
  | [] => .error .assertion

def codeForNumber (value : Str) : Out Int :=
  match pyIntBase0 value with
  | some n => .ok n
  | none => .error .iface

def codeForSymbolic (value : Str) : Out Int :=
  if !isAscii value then .error .unsupported   -- `str.lower()` outside ASCII is not modelled
  else match symbolicCode value with
    | some c => .ok c
    | none => .error .iface

/-! ### `Range.__init__` -/

structure Regs where
  lower : Option Int := none
  upper : Option Int := none
  ell : Bool := false
  hyph : Bool := false
  deriving Repr, DecidableEq

def ellipsisChar : Char := Char.ofNat 0x2026

/-- the inner `while not eof and not comma` loop; returns the registers and the token that ended
the item together with the remaining tokens -/
def itemLoop (r : Regs) : List Tok → Out (Regs × Tok × List Tok)
  | [] => .error .stopIteration
  | t :: ts =>
    if t.isEof || t.isComma then .ok (r, t, ts)
    else if t.kind == .name || t.kind == .number || t.kind == .string then
      let val : Out (Int × Bool) :=
        if t.kind == .name then (codeForSymbolic t.text).map (fun v => (v, r.hyph))
        else if t.kind == .number then
          (codeForNumber t.text).map (fun v => (if r.hyph then -v else v, false))
        else (codeForString t.text).map (fun v => (v, r.hyph))
      match val with
      | .error e => .error e
      | .ok (v, hyph') =>
        if r.ell then
          if r.upper.isNone then itemLoop { r with upper := some v, hyph := hyph' } ts
          else .error .iface
        else if r.lower.isNone then itemLoop { r with lower := some v, hyph := hyph' } ts
        else .error .iface
    else if r.hyph then .error .iface
    else if t.kind == .op && t.text == ['-'] then itemLoop { r with hyph := true } ts
    else if t.text == [ellipsisChar] || t.text == [':'] then itemLoop { r with ell := true } ts
    else .error .iface

/-- "Decide upon the result" -/
def decideItem (r : Regs) : Out (Option Item) :=
  if r.hyph then .error .iface
  else match r.lower, r.upper with
    | none, none => if r.ell then .error .iface else .ok none
    | none, some u => .ok (some ⟨none, some u⟩)
    | some l, up =>
      if r.ell then
        match up with
        | some u => if l > u then .error .iface else .ok (some ⟨some l, some u⟩)
        | none => .ok (some ⟨some l, none⟩)
      else .ok (some ⟨some l, some l⟩)

/-- the decided item joins the items found so far unless it overlaps one of them -/
def addItem (acc : Items) : Option Item → Out Items
  | none => .ok acc
  | some it => if acc.any (fun old => itemsOverlap old it) then .error .iface else .ok (acc ++ [it])

/-- the outer `while not end_reached` loop -/
def parseTokens : Nat → List Tok → Items → Out Items
  | 0, _, _ => .error .unsupported
  | fuel + 1, toks, acc =>
    match itemLoop {} toks with
    | .error e => .error e
    | .ok (r, last, rest) =>
      match decideItem r with
      | .error e => .error e
      | .ok res =>
        match addItem acc res with
        | .error e => .error e
        | .ok a => if last.isEof then .ok a else parseTokens fuel rest a

/-- `_tokenizable_description` (the Python 3.12 repair): ellipsis outside quotes becomes `:` -/
def tokenizable : Option Char → Bool → Str → Str
  | _, _, [] => []
  | none, _, c :: cs =>
    if c == '"' || c == '\'' then c :: tokenizable (some c) false cs
    else if c == ellipsisChar then ':' :: tokenizable none false cs
    else c :: tokenizable none false cs
  | some q, true, c :: cs => c :: tokenizable (some q) false cs
  | some q, false, c :: cs =>
    if c == '\\' then c :: tokenizable (some q) true cs
    else if c == q then c :: tokenizable none false cs
    else c :: tokenizable (some q) false cs

def emptyRange : Range := ⟨none, none, none⟩

def rangeOfItems (its : Items) : Range := ⟨some its, lowerLimitOf its, upperLimitOf its⟩

/-- `Range(description, default)` -/
def Range.parse (description : Str) (default : Option Str := none) : Out Range :=
  let hasDesc := !(strip description).isEmpty
  let desc? : Option Str := if hasDesc then some description else default
  match desc? with
  | none => .ok emptyRange
  | some d =>
    let d1 := replaceAll ['.', '.', '.'] [ellipsisChar] d
    match liftLex (tokenizeWithoutSpace (tokenizable none false d1)) with
    | .error e => .error e
    | .ok toks =>
      match parseTokens (toks.length + 1) toks [] with
      | .error e => .error e
      | .ok its => .ok (rangeOfItems its)

/-! ### `create_range_from_length` -/

def nines (k : Nat) : Str := List.replicate k '9'
def zeros (k : Nat) : Str := List.replicate k '0'

/-- text built for one length item; `none`‐lower/0/1 first branch etc.  Lengths are `Int` in the
source; negative values were excluded before the loop. -/
def lengthItemText (it : Item) : Str :=
  let lowSmall := match it.lo with | none => true | some l => l == 0 || l == 1
  if lowSmall then
    match it.hi with
    | none => ", ".toList
    | some u =>
      if u == 1 then "0...9, ".toList
      else ['-'] ++ nines (u - 1).toNat ++ "...".toList ++ nines u.toNat ++ ", ".toList
  else
    let l := (it.lo.getD 0)
    match it.hi with
    | none =>
      "...-1".toList ++ zeros (l - 2).toNat ++ ", 1".toList ++ zeros (l - 1).toNat ++ "..., ".toList
    | some u =>
      ['-'] ++ nines (u - 1).toNat ++ "...-1".toList ++ zeros (l - 2).toNat ++ ", 1".toList ++
        zeros (l - 1).toNat ++ "...".toList ++ nines u.toNat ++ ", ".toList

/-- `str.rstrip(" ,")` -/
def rstripBlankComma (s : Str) : Str :=
  (s.reverse.dropWhile (fun c => c == ' ' || c == ',')).reverse

def rangeTextFromLength (its : Items) : Str :=
  rstripBlankComma ((its.map lengthItemText).flatten)

/-- an item the first test of `create_range_from_length` refuses: negative lower or upper limit below 1 -/
def lengthItemBad (i : Item) : Bool :=
  (match i.lo with | some l => l < 0 | none => false) || (match i.hi with | some u => u < 1 | none => false)

def exceeds (o : Option Int) (limit : Int) : Bool := match o with | some v => v > limit | none => false

/-- `create_range_from_length(length_range)`; raises `RangeValueError` for non-positive lengths -/
def createRangeFromLength (len : Range) : Out Range :=
  match len.items with
  | none => Range.parse []
  | some its =>
    if its.any lengthItemBad then .error (.data .range)
    else
      -- `"9" * n`: beyond `sys.maxsize` CPython raises OverflowError; between "large" and that a MemoryError
      -- (or minutes of work), which the model does not follow
      if its.any (fun i => exceeds i.lo 9223372036854775808 || exceeds i.hi 9223372036854775808) then .error .overflow
      else if its.any (fun i => exceeds i.lo 10000 || exceeds i.hi 10000) then .error .unsupported
      else Range.parse (rangeTextFromLength its)

end Cutplace
