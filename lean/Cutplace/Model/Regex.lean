import Cutplace.Model.Py
/-
Model of `re` for the subset cutplace's Pattern and RegEx fields are checked on: literals, `.`,
character classes, `* + ? {m,n}` (greedy or lazy: only existence of a match matters), groups,
alternation, `^ $` under `re.IGNORECASE | re.MULTILINE`; and of `fnmatch.translate`.
Matching is a position-set simulation (no back-tracking blow-up, total).
-/
namespace Cutplace

inductive Rx
  | empty
  | chr (c : Char)
  | any (dotAll : Bool)                         -- `.`
  | cls (neg : Bool) (ranges : List (Char × Char))
  | seq (a b : Rx)
  | alt (a b : Rx)
  | star (a : Rx)
  | rep (a : Rx) (lo : Nat) (hi : Option Nat)
  | bol | eol | eos                             -- `^`, `$` (MULTILINE), `\Z`
  deriving Repr, Inhabited

def foldCase (c : Char) : Char := lowerChar c

def clsHas (ranges : List (Char × Char)) (c : Char) : Bool :=
  ranges.any (fun (lo, hi) => (lo ≤ c && c ≤ hi))

/-- IGNORECASE class membership: the character or its other-case form is in the class -/
def clsMatch (neg : Bool) (ranges : List (Char × Char)) (c : Char) : Bool :=
  let other := if 'a' ≤ c && c ≤ 'z' then Char.ofNat (c.toNat - 32) else if 'A' ≤ c && c ≤ 'Z' then Char.ofNat (c.toNat + 32) else c
  let inside := clsHas ranges c || clsHas ranges other
  if neg then !inside else inside

def dedup (l : List Nat) : List Nat := l.eraseDups

/-- all positions reachable by matching `r` from one of the positions `ps` in `s` -/
def Rx.ends (s : Array Char) : Rx → List Nat → List Nat
  | .empty, ps => ps
  | .chr c, ps => ps.filterMap (fun p => if h : p < s.size then (if foldCase s[p] == foldCase c then some (p + 1) else none) else none)
  | .any dotAll, ps => ps.filterMap (fun p => if h : p < s.size then (if dotAll || s[p] != '\n' then some (p + 1) else none) else none)
  | .cls neg rs, ps => ps.filterMap (fun p => if h : p < s.size then (if clsMatch neg rs s[p] then some (p + 1) else none) else none)
  | .seq a b, ps => b.ends s (a.ends s ps)
  | .alt a b, ps => dedup (a.ends s ps ++ b.ends s ps)
  | .star a, ps =>
    -- closure: at most size+1 rounds add new positions
    let rec loop : Nat → List Nat → List Nat → List Nat
      | 0, acc, _ => acc
      | fuel + 1, acc, frontier =>
        let next := (a.ends s frontier).filter (fun p => !acc.contains p)
        let next := dedup next
        if next.isEmpty then acc else loop fuel (acc ++ next) next
    loop (s.size + 1) (dedup ps) (dedup ps)
  | .rep a lo hi, ps =>
    let rec times : Nat → List Nat → List Nat
      | 0, qs => qs
      | k + 1, qs => times k (dedup (a.ends s qs))
    let base := times lo ps
    match hi with
    | none => (Rx.star a).ends s base
    | some h =>
      let rec upto : Nat → List Nat → List Nat → List Nat
        | 0, acc, _ => acc
        | k + 1, acc, cur =>
          let nxt := dedup (a.ends s cur)
          upto k (dedup (acc ++ nxt)) nxt
      upto (h - lo) base base
  | .bol, ps => ps.filter (fun p => p == 0 || (if h : p - 1 < s.size then s[p - 1] == '\n' else false))
  | .eol, ps => ps.filter (fun p => p == s.size || (if h : p < s.size then s[p] == '\n' else false))
  | .eos, ps => ps.filter (fun p => p == s.size)

/-- `regex.match(value)`: some prefix of the value matches -/
def Rx.matchPrefix (r : Rx) (v : Str) : Bool := !(r.ends v.toArray [0]).isEmpty

/-! ### `fnmatch.translate` -/

/-- parse a `[...]` class body after the opening bracket; `none` when there is no closing bracket -/
def globClass (s : Str) : Option (Option (Bool × List (Char × Char)) × Str) :=
  -- returns (class or `unsupported`, rest)
  let (neg, s1) := match s with | '!' :: r => (true, r) | r => (false, r)
  -- a `]` directly after the opening (or the `!`) is a literal member
  let (first, s2) : List Char × Str := match s1 with | ']' :: r => ([']'], r) | r => ([], r)
  let body := s2.takeWhile (· != ']')
  let rest := s2.drop body.length
  match rest with
  | [] => none
  | _ :: after =>
    let chars := first ++ body
    -- ranges `a-z`; anything fancy (backslashes, `--`, `&&`, `~~`, `||`, reversed ranges, `[`) is outside the model
    let rec ranges : Str → Option (List (Char × Char))
      | [] => some []
      | a :: '-' :: b :: r => if a ≤ b && a != '-' && b != '-' then (ranges r).map ((a, b) :: ·) else none
      | a :: r => if a == '\\' || a == '[' || a == '-' || a == '&' || a == '~' || a == '|' || a == '^' then none else (ranges r).map ((a, a) :: ·)
    some ((ranges chars).map (fun rs => (neg, rs)), after)

/-- `fnmatch.translate(rule)` as a regex AST: `(?s:...)\Z`; `none` = outside the model -/
def globToRx : Nat → Str → Option Rx
  | 0, _ => none
  | _, [] => some .eos
  | fuel + 1, c :: cs =>
    if c == '*' then (globToRx fuel cs).map (Rx.seq (.star (.any true)))
    else if c == '?' then (globToRx fuel cs).map (Rx.seq (.any true))
    else if c == '[' then
      match globClass cs with
      | none => (globToRx fuel cs).map (Rx.seq (.chr '['))           -- no closing bracket: a literal `[`
      | some (none, _) => none
      | some (some (neg, rs), rest) => (globToRx fuel rest).map (Rx.seq (.cls neg rs))
    else (globToRx fuel cs).map (Rx.seq (.chr c))

/-! ### a parser for the `re` subset -/

structure RxParse where
  rx : Rx
  rest : Str

def escapeClass (c : Char) : Option (Bool × List (Char × Char)) :=
  if c == 'd' then some (false, [('0', '9')]) else if c == 'D' then some (true, [('0', '9')])
  else if c == 'w' then some (false, [('a', 'z'), ('A', 'Z'), ('0', '9'), ('_', '_')])
  else if c == 'W' then some (true, [('a', 'z'), ('A', 'Z'), ('0', '9'), ('_', '_')])
  else if c == 's' then some (false, [(' ', ' '), ('\t', '\r'), (Char.ofNat 28, Char.ofNat 31)])
  else if c == 'S' then some (true, [(' ', ' '), ('\t', '\r'), (Char.ofNat 28, Char.ofNat 31)])
  else none

def isRxMeta (c : Char) : Bool := ".^$*+?{}[]\\|()".toList.contains c

/-- one optional quantifier (a trailing `?` for lazy matching does not change the language) -/
def parseQuant (a : Rx) (s : Str) : Option RxParse :=
  let lazy (r : Str) : Option Str := match r with
    | '?' :: x => some x
    | '+' :: _ => none      -- possessive
    | '*' :: _ => none
    | '{' :: _ => none
    | x => some x
  match s with
  | '*' :: r => (lazy r).map (fun x => ⟨.star a, x⟩)
  | '+' :: r => (lazy r).map (fun x => ⟨.seq a (.star a), x⟩)
  | '?' :: r => (lazy r).map (fun x => ⟨.alt a .empty, x⟩)
  | '{' :: r =>
    let lo := r.takeWhile isAsciiDigit
    match r.drop lo.length with
    | '}' :: x => if lo.isEmpty then none else
        let n := parseDigits (lo.map digitVal)
        -- (counts beyond 50 are outside the model, as for `{m,n}`: CPython refuses 2^32 - 1 and more with OverflowError)
        if n > 50 then none else
        (lazy x).map (fun y => ⟨.rep a n (some n), y⟩)
    | ',' :: x =>
      let hi := x.takeWhile isAsciiDigit
      match x.drop hi.length with
      | '}' :: y =>
        if lo.isEmpty && hi.isEmpty then none else
        let n := parseDigits (lo.map digitVal)
        let m : Option Nat := if hi.isEmpty then none else some (parseDigits (hi.map digitVal))
        if (match m with | some mm => decide (mm < n) | none => false) then none
        else if n > 50 || (match m with | some mm => decide (mm > 50) | none => false) then none
        else (lazy y).map (fun z => ⟨.rep a n m, z⟩)
      | _ => none
    | _ => none
  | _ => some ⟨a, s⟩


mutual
  /-- alternation level -/
  def parseAlt : Nat → Str → Option RxParse
    | 0, _ => none
    | fuel + 1, s =>
      match parseSeq fuel s with
      | none => none
      | some ⟨a, rest⟩ =>
        match rest with
        | '|' :: r =>
          match parseAlt fuel r with
          | none => none
          | some ⟨b, rest2⟩ => some ⟨.alt a b, rest2⟩
        | _ => some ⟨a, rest⟩
  /-- concatenation level: stops at `|`, `)` or the end -/
  def parseSeq : Nat → Str → Option RxParse
    | 0, _ => none
    | fuel + 1, s =>
      match s with
      | [] => some ⟨.empty, []⟩
      | '|' :: _ => some ⟨.empty, s⟩
      | ')' :: _ => some ⟨.empty, s⟩
      | _ =>
        match parseAtom fuel s with
        | none => none
        | some ⟨a, rest⟩ =>
          match parseQuant a rest with
          | none => none
          | some ⟨q, rest2⟩ =>
            match parseSeq fuel rest2 with
            | none => none
            | some ⟨b, rest3⟩ => some ⟨.seq q b, rest3⟩
  def parseAtom : Nat → Str → Option RxParse
    | 0, _ => none
    | fuel + 1, s =>
      match s with
      | [] => none
      | '(' :: '?' :: ':' :: r =>
        match parseAlt fuel r with
        | some ⟨a, ')' :: rest⟩ => some ⟨a, rest⟩
        | _ => none
      | '(' :: '?' :: _ => none
      | '(' :: r =>
        match parseAlt fuel r with
        | some ⟨a, ')' :: rest⟩ => some ⟨a, rest⟩
        | _ => none
      | '.' :: r => some ⟨.any false, r⟩
      | '^' :: r => some ⟨.bol, r⟩
      | '$' :: r => some ⟨.eol, r⟩
      | '\\' :: c :: r =>
        match escapeClass c with
        | some (neg, rs) => some ⟨.cls neg rs, r⟩
        | none => if isRxMeta c || c == '-' || c == '/' || c == ' ' then some ⟨.chr c, r⟩ else none
      | '[' :: r =>
        let (neg, r1) := match r with | '^' :: x => (true, x) | x => (false, x)
        let (first, r2) : List Char × Str := match r1 with | ']' :: x => ([']'], x) | x => ([], x)
        let body := r2.takeWhile (· != ']')
        match r2.drop body.length with
        | [] => none
        | _ :: after =>
          let rec ranges : Str → Option (List (Char × Char))
            | [] => some []
            | '\\' :: c :: x =>
              (match escapeClass c with
               | some (false, rs) => (ranges x).map (rs ++ ·)
               | some (true, _) => none
               | none => if isRxMeta c || c == '-' then (ranges x).map ((c, c) :: ·) else none)
            | a :: '-' :: b :: x => if a ≤ b && b != '\\' && a != '[' then (ranges x).map ((a, b) :: ·) else none
            | a :: x => if a == '[' || a == '\\' then none else (ranges x).map ((a, a) :: ·)
          (ranges (first ++ body)).map (fun rs => ⟨.cls neg rs, after⟩)
      | c :: r => if isRxMeta c then none else some ⟨.chr c, r⟩
end
/-- `re.compile(rule)` on the subset; `none` = outside the model -/
def parseRegex (rule : Str) : Option Rx :=
  if !isAscii rule then none
  else match parseAlt (4 * rule.length + 4) rule with
    | some ⟨r, []⟩ => some r
    | _ => none

end Cutplace
