import Cutplace.Model.Py
/-
Model of `cutplace/validio.py`: `BaseValidator.validate_row`, `BaseValidator.close`,
`Reader.rows` (three error modes, header / validation-limit window, counters) and `Writer`.

The engine is parametric in the per-column acceptor (`Column`) and in the check interface
(`Check σ`), so its theorems hold for every field type and every check, built-in or plugin.
Every call into a column's value hook or into a check is also recorded in a call log (C20).
-/
namespace Cutplace

abbrev Row := List Str

/-- One declared field as the engine sees it: `pre` is the guard pipeline of
`AbstractFieldFormat.validated` (`inl verdict` = decided without consulting the type's value hook,
`inr arg` = the hook is called with `arg`), `hook` the type's `validated_value` verdict. -/
structure Column where
  pre : Str → Sum Bool Str
  hook : Str → Bool

def Column.accepts (c : Column) (v : Str) : Bool :=
  match c.pre v with
  | .inl b => b
  | .inr s => c.hook s

/-- veto raised by `check_row`: optional "see also" line of an earlier row -/
structure Veto where
  seeAlso : Option Nat
  deriving Repr, DecidableEq, Inhabited

/-- `AbstractCheck` as the engine uses it. `reset` is the state after `reset()`. -/
structure Check (σ : Type) where
  reset : σ
  row : σ → Row → Nat → σ × Option Veto
  atEnd : σ → Bool

inductive Call
  | hook (col : Nat) (arg : Str)
  | reset (chk : Nat)
  | checkRow (chk : Nat) (row : Row) (line : Nat)
  | atEnd (chk : Nat)
  | cleanup (chk : Nat)
  deriving Repr, DecidableEq, Inhabited

inductive RowErr
  | count                                   -- wrong number of items (`DataError`)
  | field (col : Nat)                       -- `FieldValueError` at 0-based column
  | check (idx : Nat) (seeAlso : Option Nat) -- `CheckError` from check `idx`
  deriving Repr, DecidableEq, Inhabited

/-- the value-hook call (if any) made for cell `v` of column `c` at index `i` -/
def hookCall (i : Nat) (c : Column) (v : Str) : List Call :=
  match c.pre v with
  | .inr s => [Call.hook i s]
  | .inl _ => []

/-- the per-cell loop: index of the first rejected cell (if any) and the hook calls made -/
def validateCells : List Column → Row → Nat → Option Nat × List Call
  | c :: cs, v :: vs, i =>
    let log := hookCall i c v
    if c.accepts v then
      let r := validateCells cs vs (i + 1)
      (r.1, log ++ r.2)
    else (some i, log)
  | _, _, _ => (none, [])

/-- the row-check loop: new check states, the first veto (check index, see-also) and the calls -/
def runChecks {σ} : List (Check σ) → List σ → Row → Nat → Nat → List σ × Option (Nat × Veto) × List Call
  | c :: cs, s :: ss, row, line, i =>
    let (s', veto) := c.row s row line
    match veto with
    | some v => (s' :: ss, some (i, v), [Call.checkRow i row line])
    | none =>
      let r := runChecks cs ss row line (i + 1)
      (s' :: r.1, r.2.1, Call.checkRow i row line :: r.2.2)
  | _, sts, _, _, _ => (sts, none, [])

/-- `BaseValidator.validate_row(row)` with `location.line = line` -/
def validateRow {σ} (cols : List Column) (checks : List (Check σ)) (sts : List σ) (row : Row) (line : Nat) :
    List σ × Option RowErr × List Call :=
  if row.length ≠ cols.length then (sts, some .count, [])
  else
    match validateCells cols row 0 with
    | (some i, log) => (sts, some (.field i), log)
    | (none, log) =>
      let r := runChecks checks sts row line 0
      (r.1, r.2.1.map (fun p => RowErr.check p.1 p.2.seeAlso), log ++ r.2.2)

inductive Mode | raise | yield | continue
  deriving Repr, DecidableEq, Inhabited

inductive Event
  | row (r : Row)
  | err (line : Nat) (e : RowErr)
  deriving Repr, DecidableEq, Inhabited

def Event.isRow : Event → Bool
  | .row _ => true
  | .err _ _ => false

structure ReaderCfg where
  mode : Mode
  header : Nat
  limit : Option Nat          -- `validate_until`
  deriving Repr, DecidableEq, Inhabited

/-- how `Reader.rows()` ended -/
inductive Final
  | exhausted
  | raised (line : Nat) (e : RowErr)     -- `on_error='raise'`: the first rejection
  | format (line : Nat)                   -- the raw reader raised `DataFormatError`
  deriving Repr, DecidableEq, Inhabited

structure RState (σ : Type) where
  sts : List σ
  accepted : Nat
  rejected : Nat

structure ReadResult (σ : Type) where
  events : List Event
  final : Final
  st : RState σ
  log : List Call

/-- `is_before_validate_until` -/
def inLimit (limit : Option Nat) (rowCount : Nat) : Bool :=
  match limit with
  | none => true
  | some l => decide (rowCount ≤ l)

/-- the body of the `for row_count, row in enumerate(raw_rows, 1)` loop. `n` = rows consumed so far
(`location.line`); `fault` = the raw reader fails after the listed rows. -/
def readLoop {σ} (cfg : ReaderCfg) (cols : List Column) (checks : List (Check σ)) (fault : Bool) :
    Nat → List Row → RState σ → ReadResult σ
  | n, [], st => ⟨[], if fault then .format n else .exhausted, st, []⟩
  | n, row :: rest, st =>
    let rowCount := n + 1
    if rowCount > cfg.header then
      if inLimit cfg.limit rowCount then
        let (sts', err, log) := validateRow cols checks st.sts row n
        match err with
        | none =>
          let r := readLoop cfg cols checks fault (n + 1) rest { st with sts := sts', accepted := st.accepted + 1 }
          { r with events := .row row :: r.events, log := log ++ r.log }
        | some e =>
          match cfg.mode with
          | .raise => ⟨[], .raised n e, { st with sts := sts' }, log⟩
          | .yield =>
            let r := readLoop cfg cols checks fault (n + 1) rest { st with sts := sts', rejected := st.rejected + 1 }
            { r with events := .err n e :: r.events, log := log ++ r.log }
          | .continue =>
            let r := readLoop cfg cols checks fault (n + 1) rest { st with sts := sts', rejected := st.rejected + 1 }
            { r with log := log ++ r.log }
      else
        let r := readLoop cfg cols checks fault (n + 1) rest { st with accepted := st.accepted + 1 }
        { r with events := .row row :: r.events }
    else readLoop cfg cols checks fault (n + 1) rest st

def resetCalls (n : Nat) : List Call := (List.range n).map Call.reset

/-- `Reader.rows()` run to the end: counters zeroed, every check reset, then the loop -/
def readRows {σ} (cfg : ReaderCfg) (cols : List Column) (checks : List (Check σ)) (fault : Bool)
    (rows : List Row) (_before : List σ) : ReadResult σ :=
  let r := readLoop cfg cols checks fault 0 rows ⟨checks.map (·.reset), 0, 0⟩
  { r with log := resetCalls checks.length ++ r.log }

/-- `BaseValidator.close()`: `check_at_end` in declaration order up to the first failure, then
`cleanup` for every check.  Returns the index of the failing check. -/
def atEndLoop {σ} : List (Check σ) → List σ → Nat → Option Nat × List Call
  | c :: cs, s :: ss, i =>
    if c.atEnd s then
      let r := atEndLoop cs ss (i + 1)
      (r.1, Call.atEnd i :: r.2)
    else (some i, [Call.atEnd i])
  | _, _, _ => (none, [])

def closeValidator {σ} (checks : List (Check σ)) (sts : List σ) : Option Nat × List Call :=
  let r := atEndLoop checks sts 0
  (r.1, r.2 ++ (List.range checks.length).map Call.cleanup)

/-! ### Writer -/

structure WState (σ : Type) where
  sts : List σ
  line : Nat                 -- `delegated_writer.location.line` = rows written so far
  out : List Row             -- rows handed to the delegated writer, in order

/-- `Writer.__init__`: every check is reset (repair of F2) -/
def writerInit {σ} (checks : List (Check σ)) (_before : List σ) : WState σ × List Call :=
  (⟨checks.map (·.reset), 0, []⟩, resetCalls checks.length)

/-- `Writer.write_row(row)`: `none` = written, `some e` = raised (nothing written). `pad` is the
fixed-format padding applied to what is handed to the delegated writer. -/
def writeRow {σ} (header : Nat) (pad : Row → Row) (cols : List Column) (checks : List (Check σ))
    (w : WState σ) (row : Row) : WState σ × Option RowErr × List Call :=
  if w.line ≥ header then
    let (sts', err, log) := validateRow cols checks w.sts row w.line
    match err with
    | some e => ({ w with sts := sts' }, some e, log)
    | none => ({ sts := sts', line := w.line + 1, out := w.out ++ [pad row] }, none, log)
  else ({ w with line := w.line + 1, out := w.out ++ [pad row] }, none, [])

def writeRows {σ} (header : Nat) (pad : Row → Row) (cols : List Column) (checks : List (Check σ)) :
    WState σ → List Row → WState σ × List (Option RowErr) × List Call
  | w, [] => (w, [], [])
  | w, r :: rs =>
    let (w1, e, l1) := writeRow header pad cols checks w r
    let (w2, es, l2) := writeRows header pad cols checks w1 rs
    (w2, e :: es, l1 ++ l2)

end Cutplace

namespace Cutplace

/-! ### histories of runs sharing one CID (C08) -/

inductive Run
  /-- a started `Reader.rows()` over `rows` (an abandoned read is a read of the consumed prefix),
  closed afterwards or not -/
  | read (cfg : ReaderCfg) (fault : Bool) (rows : List Row) (close : Bool)
  /-- a `Writer` writing `rows`, closed afterwards or not -/
  | write (header : Nat) (rows : List Row) (close : Bool)
  /-- `validate(…, validate_until=0)`: `rows()` is called (counters, location and checks are reset) but no row is ever
  requested, the `with` block still closes -/
  | validate0
  deriving Repr, DecidableEq, Inhabited

def Run.isValidate0 : Run → Bool
  | .validate0 => true
  | _ => false

/-- what the statement of C08 calls the outcome of a run -/
structure RunOutcome where
  events : List Event := []
  final : Final := .exhausted
  accepted : Nat := 0
  rejected : Nat := 0
  writes : List (Option RowErr) := []
  out : List Row := []
  closeFail : Option Nat := none
  deriving Repr, DecidableEq, Inhabited

/-- one run on the check states left by whatever happened before; returns the states it leaves -/
def runOne {σ} (cols : List Column) (checks : List (Check σ)) (pad : Row → Row) (before : List σ) :
    Run → RunOutcome × List σ
  | .read cfg fault rows close =>
    let r := readRows cfg cols checks fault rows before
    let c := if close then (closeValidator checks r.st.sts).1 else none
    ({ events := r.events, final := r.final, accepted := r.st.accepted, rejected := r.st.rejected, closeFail := c },
     r.st.sts)
  | .write header rows close =>
    let w0 := (writerInit checks before).1
    let (w1, errs, _) := writeRows header pad cols checks w0 rows
    let c := if close then (closeValidator checks w1.sts).1 else none
    ({ writes := errs, out := w1.out, closeFail := c }, w1.sts)
  | .validate0 =>
    ({ closeFail := (closeValidator checks (checks.map (·.reset))).1 }, checks.map (·.reset))

def runHistory {σ} (cols : List Column) (checks : List (Check σ)) (pad : Row → Row) :
    List σ → List Run → List RunOutcome
  | _, [] => []
  | sts, r :: rs =>
    let (o, sts') := runOne cols checks pad sts r
    o :: runHistory cols checks pad sts' rs

end Cutplace
