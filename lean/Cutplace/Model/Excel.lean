import Cutplace.Model.Py
/-
Model of `rowio._excel_cell_value` / `excel_rows` over an abstract workbook (the xls/xlsx byte
formats and xlrd's parsing are parameters: the model starts from typed cells), and of
`xlrd.xldate_as_tuple` for the 1900 date system on whole seconds.
-/
namespace Cutplace

/-- a cell as xlrd presents it -/
inductive XCell
  | text (s : Str)
  | whole (z : Int)                 -- XL_CELL_NUMBER whose float value is a whole number (|z| < 10^16)
  | number (repr : Str)             -- any other number, given by Python's `str(float)` (a parameter)
  | bool (b : Bool)
  | date (days : Nat) (seconds : Nat)   -- XL_CELL_DATE: serial = days + seconds/86400, seconds < 86400
  | error (text : Str)
  | empty
  deriving Repr, DecidableEq, Inhabited

/-- civil date of a serial day number: `xlrd.xldate.xldate_as_tuple` (datemode 0) -/
def xldateCivil (xldays : Nat) : Nat × Nat × Nat :=
  let jdn := xldays + 2415080 - 61
  let yreg := ((((jdn * 4 + 274277) / 146097) * 3 / 4) + jdn + 1363) * 4 + 3
  let mp := ((yreg % 1461) / 4) * 535 + 333
  let d := ((mp % 16384) / 535) + 1
  let mp := mp / 16384
  if mp ≥ 10 then ((yreg / 1461) - 4715, mp - 9, d) else ((yreg / 1461) - 4716, mp + 3, d)

def pad2 (n : Nat) : Str := if n < 10 then '0' :: natRepr n else natRepr n
def pad4 (n : Nat) : Str := List.replicate (4 - (natRepr n).length) '0' ++ natRepr n

def timeText (seconds : Nat) : Str :=
  pad2 (seconds / 3600) ++ [':'] ++ pad2 (seconds / 60 % 60) ++ [':'] ++ pad2 (seconds % 60)

/-- `_excel_cell_value(cell, datemode)`; `none` = xlrd refuses the date (ambiguous 1900 dates before March) -/
def excelCellText : XCell → Option Str
  | .text s => some s
  | .whole z => some (intRepr z)            -- `str(5.0)` = "5.0" with the ".0" removed
  | .number r => some r
  | .bool b => some (if b then ['1'] else ['0'])
  | .date days seconds =>
    if days == 0 then some (timeText seconds)
    else if days < 61 then none
    else
      let (y, m, d) := xldateCivil days
      some (pad4 y ++ ['-'] ++ pad2 m ++ ['-'] ++ pad2 d ++ [' '] ++ timeText seconds)
  | .error t => some t
  | .empty => some []

abbrev XSheet := List (List XCell)     -- rows of a sheet, every row as wide as the sheet (`ncols`)

/-- `list(excel_rows(path, sheet))` on a parsed workbook: `none` = data-format error -/
def excelRows (sheets : List XSheet) (sheet : Nat) : Option (List (List Str)) :=
  if sheet < 1 ∨ sheet > sheets.length then none
  else match sheets[sheet - 1]? with
    | none => none
    | some sh =>
      let texts := sh.map (fun row => row.map excelCellText)
      if texts.any (fun row => row.any Option.isNone) then none
      else some (texts.map (fun row => row.map (fun c => c.getD [])))

end Cutplace
