import Cutplace.Model.DataFormat
import Cutplace.Model.Checks
/-
Model of `cutplace/interface.py`: `Cid.read` as a fold over the rows of the CID with its location
cursor, `add_data_format_row`, `add_field_format_row`, `add_check_row`, the completion tests.
-/
namespace Cutplace

inductive CheckDecl
  | unique (keyCols : List Nat)
  | distinct (col : Nat) (cmp : Cmp) (n : Int)
  | scripted (col : Nat) (veto : Str) (failAtEnd : Bool)
  deriving Repr, Inhabited

structure CidField where
  name : Str
  typeName : Str
  rule : Str
  field : Field
  deriving Repr, Inhabited

structure Cid where
  dataFormat : Option DataFormat := none
  fields : List CidField := []
  checks : List (Str × String × CheckDecl) := []     -- description, type name, declaration
  deriving Repr, Inhabited

/-- an error raised while reading a CID, with `location.line` (0-based row) at that moment;
`none` when the error carries no location -/
structure CidErr where
  exn : PyExn
  line : Option Nat
  deriving Repr, Inhabited

abbrev CidOut (α : Type) := Except CidErr α

def pythonKeywords : List String :=
  ["False", "None", "True", "and", "as", "assert", "async", "await", "break", "class", "continue", "def", "del", "elif", "else",
   "except", "finally", "for", "from", "global", "if", "import", "in", "is", "lambda", "nonlocal", "not", "or", "pass", "raise",
   "return", "try", "while", "with", "yield"]

/-- `fields.validated_field_name` -/
def validatedFieldName (s : Str) : Out Str :=
  let n := strip s
  if n.isEmpty then .error .iface
  else if pythonKeywords.contains (String.ofList n) then .error .iface
  else match n with
    | [] => .error .iface
    | c :: cs =>
      if !isAsciiLetter c then .error .iface
      else if cs.all (fun x => isAsciiLetter x || isAsciiDigit x || x == '_') then .ok n else .error .iface

/-- `_tools.validated_python_name`: `none` = `NameError` -/
def validatedPythonName (value : Str) : Out (Option Str) :=
  match generatedTokens (strip value) with
  | .error .tokenError => .error .iface
  | .error .unsupported => .error .unsupported
  | .ok (t :: rest) =>
    if t.isEof then .ok none
    else if t.kind != .name then .ok none
    else match rest with
      | t2 :: _ => if t2.isEof then .ok (some t.text) else .ok none
      | [] => .error .stopIteration
  | .ok [] => .error .stopIteration

/-- split at dots (`str.split(".")`) -/
def splitDots (s : Str) : List Str :=
  let rec go : Str → Str → List Str
    | [], acc => [acc.reverse]
    | '.' :: r, acc => acc.reverse :: go r []
    | c :: r, acc => go r (c :: acc)
  go s []

/-- the type cell of a field row -> the class-name stem looked up (`Text` when empty) -/
def fieldTypeStem (cell : Str) : Out (Option Str) :=
  let item := strip cell
  if item.isEmpty then .ok (some "Text".toList)
  else
    let parts := splitDots item
    let rec check : List Str → Out (Option Str)
      | [] => .ok (some [])
      | p :: ps =>
        match validatedPythonName p with
        | .error e => .error e
        | .ok none => .ok none
        | .ok (some n) =>
          match ps with
          | [] => .ok (some n)
          | _ => check ps
    check parts

def typeNameOf (stem : Str) (withPlugins : Bool) : Option TypeName :=
  let s := String.ofList stem
  if s == "Text" then some .text else if s == "Integer" then some .integer else if s == "Choice" then some .choice
  else if s == "Constant" then some .constant else if s == "Decimal" then some .decimal else if s == "DateTime" then some .datetime
  else if s == "Pattern" then some .pattern else if s == "RegEx" then some .regex
  else if s == "Scripted" && withPlugins then some (.scripted '!') else none

def padTo6 (cells : List Str) : List Str := (cells ++ List.replicate 6 []).take 6

/-- "Validate field length" of `add_field_format_row`: fixed width fields need one specific length of
at least 1, other formats a length without negative limits -/
def lengthDeclOk (fmt : Format) (length : Range) : Out Unit :=
  if fmt == .fixed then
    if (length.items.getD []).isEmpty then .error .iface
    else match length.lowerLimit with
      | none => .error .iface
      | some l =>
        if length.upperLimit != some l then .error .iface
        else if l < 1 then .error .iface else pure ()
  else match length.lowerLimit with
    | some l => if l < 0 then .error .iface else pure ()
    | none => match length.upperLimit with
      | some u => if u < 0 then .error .iface else pure ()
      | none => pure ()

/-- the cells of a field row up to the declared field format (`field_format.__init__`) -/
def declareCells (df : DataFormat) (cid : Cid) (cells : List Str) (withPlugins : Bool) :
    Out (Str × Str × Str × Str × Field) := do
  let items := padTo6 cells
  let name ← validatedFieldName (items.getD 0 [])
  if cid.fields.any (fun f => f.name == name) then .error .iface
  let exampleCell := items.getD 1 []
  let markCell := strip (items.getD 2 [])
  if !isAscii markCell then .error .unsupported
  let mark := lower markCell
  let allowEmpty ← if mark.isEmpty then pure false else if mark == ['x'] then pure true else .error .iface
  let lengthText := items.getD 3 []
  let stem ← fieldTypeStem (items.getD 4 [])
  let stem ← match stem with
    | none => .error .iface            -- NameError -> InterfaceError
    | some s => pure s
  let tn ← match typeNameOf stem withPlugins with
    | none => .error .iface
    | some t => pure t
  let rule := strip (items.getD 5 [])
  let info : FormatInfo := { format := df.format, allowed := df.allowed, decimalSep := df.decimalSep, thousandsSep := df.thousandsSep }
  let field ← declareFieldIn tn info allowEmpty lengthText rule
  pure (name, stem, rule, exampleCell, field)

/-- the example of a field row must be accepted by the field itself -/
def exampleOk (field : Field) (exampleCell : Str) : Out Unit :=
  if !exampleCell.isEmpty then
    match field.validated exampleCell with
    | .error e => .error e
    | .ok none => .error .iface
    | .ok (some _) => pure ()
  else pure ()

def buildFieldWith (df : DataFormat) (cid : Cid) (cells : List Str) (withPlugins : Bool) : Out CidField := do
  let (name, stem, rule, exampleCell, field) ← declareCells df cid cells withPlugins
  lengthDeclOk df.format field.length
  exampleOk field exampleCell
  pure ⟨name, stem, rule, field⟩

/-- the field declared by a field row (`add_field_format_row` up to `add_field_format`) -/
def buildField (cid : Cid) (cells : List Str) (withPlugins : Bool) : Out CidField :=
  match cid.dataFormat with
  | none => .error .iface
  | some df => buildFieldWith df cid cells withPlugins

/-- `add_field_format_row`: the new field is appended, nothing else changes -/
def addFieldRow (cid : Cid) (cells : List Str) (withPlugins : Bool) : Out Cid :=
  (buildField cid cells withPlugins).map (fun f => { cid with fields := cid.fields ++ [f] })

/-- the empty-cell squeeze of `add_check_row` -/
def squeezeRest : List Str → List Str
  | [] => []
  | t :: rest => if (strip t).isEmpty then squeezeRest rest else t :: rest

def squeezeCheckItems : List Str → List Str
  | d :: rest => d :: squeezeRest rest
  | [] => []

/-- the check declared by a check row -/
def buildCheck (cid : Cid) (cells : List Str) (withPlugins : Bool) : Out (Str × String × CheckDecl) := do
  let items := squeezeCheckItems cells
  let desc := items.getD 0 []
  let ty := items.getD 1 []
  let rule := items.getD 2 []
  if desc.isEmpty then .error .iface
  let tys := String.ofList ty
  let names := cid.fields.map (·.name)
  let decl ←
    if tys == "IsUnique" then (parseIsUnique rule names).map CheckDecl.unique
    else if tys == "DistinctCount" then (parseDistinctCount rule names).map (fun (c, cmp, n) => CheckDecl.distinct c cmp n)
    else if tys == "Scripted" && withPlugins then
      (if names.isEmpty then .error .iface
       else
        -- rule: `<field>;<veto>;<end>`
        let parts := (String.ofList rule).splitOn ";"
        match indexOfName (parts.getD 0 "").toList names with
        | some col => pure (CheckDecl.scripted col (parts.getD 1 "").toList ((parts.getD 2 "") == "fail"))
        | none => .error .unsupported)
    else .error .iface
  if cid.checks.any (fun c => c.1 == desc) then .error .iface
  pure (desc, tys, decl)

/-- `add_check_row`: the new check is appended, nothing else changes -/
def addCheckRow (cid : Cid) (cells : List Str) (withPlugins : Bool) : Out Cid :=
  (buildCheck cid cells withPlugins).map (fun c => { cid with checks := cid.checks ++ [c] })

/-- the data format after a data-format row -/
def buildDataFormat (cid : Cid) (cells : List Str) (encodingKnown : Str → Bool) : Out DataFormat := do
  let name := cells.getD 0 []
  let value := cells.getD 1 []
  if name.isEmpty then .error .iface
  if !isAscii name then .error .unsupported
  let lname := lower name
  let isFormat := lname == "format".toList
  match cid.dataFormat with
  | none =>
    if !isFormat then .error .iface
    else
      if !isAscii value then .error .unsupported
      DataFormat.create (lower value)
  | some df =>
    if isFormat then .error .iface
    else df.setProperty lname value (encodingKnown value)

/-- `add_data_format_row`: only the data format changes -/
def addDataFormatRow (cid : Cid) (cells : List Str) (encodingKnown : Str → Bool) : Out Cid :=
  (buildDataFormat cid cells encodingKnown).map (fun df => { cid with dataFormat := some df })

inductive RowKind | comment | dataFormat | field | check | unknown | unsupported
  deriving Repr, DecidableEq, Inhabited

/-- what the first cell of a row says: `row[0].lower().strip()` -/
def rowKind (row : List Str) : RowKind :=
  match row with
  | [] => .comment
  | c :: _ =>
    if !isAscii c then .unsupported
    else
      let t := strip (lower c)
      if t.isEmpty then .comment
      else if t == ['d'] then .dataFormat else if t == ['f'] then .field else if t == ['c'] then .check else .unknown

def rowData (row : List Str) : List Str := padTo6 (row.drop 1)

/-- one row of `Cid.read`'s loop -/
def readRow (cid : Cid) (row : List Str) (withPlugins : Bool) (encodingKnown : Str → Bool) : Out Cid :=
  match rowKind row with
  | .comment => .ok cid
  | .dataFormat => addDataFormatRow cid (rowData row) encodingKnown
  | .field => addFieldRow cid (rowData row) withPlugins
  | .check => addCheckRow cid (rowData row) withPlugins
  | .unknown => .error .iface
  | .unsupported => .error .unsupported

def readLoopCid (withPlugins : Bool) (encodingKnown : Str → Bool) : Cid → Nat → List (List Str) → CidOut (Cid × Nat)
  | cid, line, [] => .ok (cid, line)
  | cid, line, row :: rest =>
    match readRow cid row withPlugins encodingKnown with
    | .error e => .error ⟨e, some line⟩
    | .ok cid' => readLoopCid withPlugins encodingKnown cid' (line + 1) rest

/-- `Cid.read(path, rows)` -/
def Cid.read (rows : List (List Str)) (withPlugins : Bool := false) (encodingKnown : Str → Bool := fun _ => true) : CidOut Cid :=
  match readLoopCid withPlugins encodingKnown {} 0 rows with
  | .error e => .error e
  | .ok (cid, line) =>
    match cid.dataFormat with
    | none => .error ⟨.iface, some line⟩
    | some df =>
      if !df.validate then .error ⟨.iface, none⟩
      else if cid.fields.isEmpty then .error ⟨.iface, some line⟩
      else .ok cid

end Cutplace
