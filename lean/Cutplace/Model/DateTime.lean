import Cutplace.Model.Py
/-
Model of `DateTimeFieldFormat`: the ordered replacement of the human readable layout by strptime
directives, and `time.strptime` for the directives cutplace can emit (`%d %m %Y %y %H %M %S %%`),
literal characters and white space, including CPython's regex alternation order, the calendar
check and the two digit year pivot.
-/
namespace Cutplace

/-- `DateTimeFieldFormat.__init__`: `strptime_format` - the placeholders `%`, `DD`, `MM`, `YYYY`, `YY`, `hh`, `mm`, `ss`
are replaced in a single pass from left to right (`re.sub` over their alternation, in this order of preference) -/
def translateLayout : Str → Str
  | [] => []
  | '%' :: r => '%' :: '%' :: translateLayout r
  | 'D' :: 'D' :: r => '%' :: 'd' :: translateLayout r
  | 'M' :: 'M' :: r => '%' :: 'm' :: translateLayout r
  | 'Y' :: 'Y' :: 'Y' :: 'Y' :: r => '%' :: 'Y' :: translateLayout r
  | 'Y' :: 'Y' :: r => '%' :: 'y' :: translateLayout r
  | 'h' :: 'h' :: r => '%' :: 'H' :: translateLayout r
  | 'm' :: 'm' :: r => '%' :: 'M' :: translateLayout r
  | 's' :: 's' :: r => '%' :: 'S' :: translateLayout r
  | c :: r => c :: translateLayout r

inductive FmtTok
  | day | month | year4 | year2 | hour | minute | second
  | lit (c : Char)          -- a literal character (matched ignoring case)
  | space                   -- a run of white space in the format: `\s+`
  deriving Repr, DecidableEq, Inhabited

/-- parse a strptime format into tokens; `none` = a directive outside the model (`unsupported`),
`some none` = `ValueError` (stray `%`) -/
def parseFormat : Str → Option (Option (List FmtTok))
  | [] => some (some [])
  | '%' :: [] => some none
  | '%' :: c :: rest =>
    let tok : Option FmtTok :=
      if c == 'd' then some .day else if c == 'm' then some .month else if c == 'Y' then some .year4
      else if c == 'y' then some .year2 else if c == 'H' then some .hour else if c == 'M' then some .minute
      else if c == 'S' then some .second else if c == '%' then some (.lit '%') else none
    match tok, parseFormat rest with
    | some t, some (some ts) => some (some (t :: ts))
    | some _, some none => some none
    | some _, none => none
    | none, _ => none
  | c :: rest =>
    let t : FmtTok := if isPySpace c then .space else .lit c
    match parseFormat rest with
    | some (some ts) =>
      -- consecutive white space collapses into one `\s+`
      (match t, ts with
       | .space, .space :: _ => some (some ts)
       | _, _ => some (some (t :: ts)))
    | other => other

structure Fields where
  day : Option Nat := none
  month : Option Nat := none
  year : Option Nat := none
  hour : Nat := 0
  minute : Nat := 0
  second : Nat := 0
  deriving Repr, DecidableEq, Inhabited

def dig (c : Char) : Nat := c.toNat - 48

/-- two digits satisfying `p` at the start of the input -/
def digits2 (p : Nat → Nat → Bool) (s : Str) : List (Nat × Str) :=
  match s with
  | a :: b :: r => if isAsciiDigit a && isAsciiDigit b && p (dig a) (dig b) then [(dig a * 10 + dig b, r)] else []
  | _ => []

/-- one digit satisfying `p` at the start of the input -/
def digits1 (p : Nat → Bool) (s : Str) : List (Nat × Str) :=
  match s with
  | a :: r => if isAsciiDigit a && p (dig a) then [(dig a, r)] else []
  | _ => []

/-- a blank followed by a non-zero digit (`%d` only) -/
def blankDigit (s : Str) : List (Nat × Str) :=
  match s with
  | ' ' :: a :: r => if isAsciiDigit a && dig a ≥ 1 then [(dig a, r)] else []
  | _ => []

/-- four digits -/
def digits4 (s : Str) : List (Nat × Str) :=
  match s with
  | a :: b :: c :: d :: r =>
    if isAsciiDigit a && isAsciiDigit b && isAsciiDigit c && isAsciiDigit d then
      [(dig a * 1000 + dig b * 100 + dig c * 10 + dig d, r)] else []
  | _ => []

/-- the alternatives of one directive in CPython's regex, in its order of preference: each returns the
numeric value and the rest of the input -/
def directiveAlts (t : FmtTok) (s : Str) : List (Nat × Str) :=
  match t with
  | .day =>   -- 3[0-1]|[1-2]\d|0[1-9]|[1-9]| [1-9]
    digits2 (fun a b => a == 3 && b ≤ 1) s ++ digits2 (fun a _ => a == 1 || a == 2) s ++ digits2 (fun a b => a == 0 && b ≥ 1) s ++
      digits1 (fun a => a ≥ 1) s ++ blankDigit s
  | .month => -- 1[0-2]|0[1-9]|[1-9]
    digits2 (fun a b => a == 1 && b ≤ 2) s ++ digits2 (fun a b => a == 0 && b ≥ 1) s ++ digits1 (fun a => a ≥ 1) s
  | .year4 => digits4 s
  | .year2 => digits2 (fun _ _ => true) s
  | .hour =>  -- 2[0-3]|[0-1]\d|\d
    digits2 (fun a b => a == 2 && b ≤ 3) s ++ digits2 (fun a _ => a ≤ 1) s ++ digits1 (fun _ => true) s
  | .minute => digits2 (fun a _ => a ≤ 5) s ++ digits1 (fun _ => true) s           -- [0-5]\d|\d
  | .second => digits2 (fun a b => a == 6 && b ≤ 1) s ++ digits2 (fun a _ => a ≤ 5) s ++ digits1 (fun _ => true) s   -- 6[0-1]|[0-5]\d|\d
  | _ => []

def setField (f : Fields) (t : FmtTok) (v : Nat) : Fields :=
  match t with
  | .day => { f with day := some v }
  | .month => { f with month := some v }
  | .year4 => { f with year := some v }
  | .year2 => { f with year := some (if v ≤ 68 then 2000 + v else 1900 + v) }
  | .hour => { f with hour := v }
  | .minute => { f with minute := v }
  | .second => { f with second := v }
  | _ => f

/-- prefixes of white space of `s`, longest first (greedy `\s+` with backtracking) -/
def spaceSplits (s : Str) : List Str :=
  let n := (s.takeWhile isPySpace).length
  (List.range n).reverse.map (fun k => s.drop (k + 1))

/-- the first successful match of the whole token sequence in regex preference order (leftmost
alternative first, back-tracking); returns the fields and the unmatched rest -/
def matchToks : List FmtTok → Str → Fields → Option (Fields × Str)
  | [], s, f => some (f, s)
  | .lit c :: ts, s, f =>
    match s with
    | x :: r => if lowerChar x == lowerChar c then matchToks ts r f else none
    | [] => none
  | .space :: ts, s, f => (spaceSplits s).findSome? (fun r => matchToks ts r f)
  | t :: ts, s, f => (directiveAlts t s).findSome? (fun (v, r) => matchToks ts r (setField f t v))

def isLeap (y : Nat) : Bool := (y % 4 == 0 && y % 100 != 0) || y % 400 == 0

def daysInMonth (y m : Nat) : Nat :=
  if m == 2 then (if isLeap y then 29 else 28)
  else if m == 4 || m == 6 || m == 9 || m == 11 then 30 else 31

/-- `time.strptime(value, format)` reduced to (year, month, day, hour, minute, second); `none` = `ValueError` -/
def strptime (fmt : List FmtTok) (value : Str) : Option (Nat × Nat × Nat × Nat × Nat × Nat) :=
  match matchToks fmt value {} with
  | none => none
  | some (f, rest) =>
    if !rest.isEmpty then none     -- "unconverted data remains"
    else
      let month := f.month.getD 1
      let day := f.day.getD 1
      -- 29 February without a year is checked against a leap year, then reported as 1900
      let checkYear := match f.year with
        | some y => y
        | none => if month == 2 && day == 29 then 1904 else 1900
      let year := f.year.getD 1900
      if checkYear == 0 then none                      -- year 0 is not a valid date
      else if day ≤ daysInMonth checkYear month then some (year, month, day, f.hour, f.minute, f.second) else none

/-- a directive may occur only once in a format (`re.error: redefinition of group name`) -/
def hasDuplicateDirective (fmt : List FmtTok) : Bool :=
  let ds := fmt.filter (fun t => match t with | .lit _ => false | .space => false | _ => true)
  -- %Y and %y are different groups
  ds.length != ds.eraseDups.length

end Cutplace
