import Cutplace.Model.Py
/-
Model of `rowio.fixed_rows`: the `while has_data` loop, the per-field `read`, the short-record and
missing-field errors, `_has_data_after_skipped_line_delimiter` for the five settings and the
one-character push-back under `any`.  The text stream is a `Str`; `read(k)` takes `k` characters.
-/
namespace Cutplace

inductive LineDelim | any | lf | cr | crlf | none
  deriving Repr, DecidableEq, Inhabited

/-- `fixed_file.read(k)` -/
def readN (k : Nat) (s : Str) : Str × Str := (s.take k, s.drop k)

/-- outcome of the per-row `for field in fields` loop -/
inductive RowRead
  | eof                                  -- nothing left at the first field: `has_data = False`, no row
  | row (r : List Str) (rest : Str)      -- a complete row
  | error                                -- short record / missing fields: `DataFormatError`
  deriving Repr, DecidableEq, Inhabited

/-- the `for field_name, field_length in field_name_and_lengths` loop. `u` is the pushed-back
character (`unread_character_after_line_delimiter[0]`), `idx` = `field_index`, `acc` = `row`. -/
def readFields : List Nat → Option Char → Str → Nat → List Str → RowRead
  | [], _, s, _, acc => if acc.isEmpty then .eof else .row acc s
  | w :: ws, u, s, idx, acc =>
    let (item, rest) : Str × Str := match u with
      | Option.none => readN w s
      | some c => if w ≥ 2 then (c :: (readN (w - 1) s).1, (readN (w - 1) s).2) else ([c], s)
    if item.length == 0 then
      if idx > 0 then .error
      else
        -- end of input reached: `has_data = False`; the loop goes on but every further read is empty too
        readFields ws Option.none rest idx acc
    else if item.length == w then readFields ws Option.none rest (idx + 1) (acc ++ [item])
    else .error

/-- outcome of `_has_data_after_skipped_line_delimiter` -/
inductive DelimRead
  | more (rest : Str) (unread : Option Char)   -- `True`
  | done                                       -- `False`
  | error
  deriving Repr, DecidableEq, Inhabited

def skipDelimiter (ld : LineDelim) (s : Str) : DelimRead :=
  match ld with
  | .none => .more s Option.none
  | .crlf =>
    let (actual, rest) := readN 2 s
    if actual.isEmpty then .done
    else if actual == ['\r', '\n'] then .more rest Option.none else .error
  | .lf =>
    let (actual, rest) := readN 1 s
    if actual.isEmpty then .done
    else if actual == ['\n'] then .more rest Option.none else .error
  | .cr =>
    let (actual, rest) := readN 1 s
    if actual.isEmpty then .done
    else if actual == ['\r'] then .more rest Option.none else .error
  | .any =>
    let (actual, rest) := readN 1 s
    if actual.isEmpty then .done
    else if actual == ['\r'] then
      let (next, rest2) := readN 1 rest
      match next with
      | ['\n'] => .more rest2 Option.none
      | [] => .done
      | [c] => .more rest2 (some c)
      | _ => .error   -- unreachable: read(1) returns at most one character
    else if actual == ['\n'] then .more rest Option.none
    else .error

/-- the `while has_data` loop; `none` = `DataFormatError` -/
def fixedLoop (ws : List Nat) (ld : LineDelim) : Nat → Option Char → Str → List (List Str) → Option (List (List Str))
  | 0, _, _, _ => Option.none
  | fuel + 1, u, s, acc =>
    match readFields ws u s 0 [] with
    | .error => Option.none
    | .eof => some acc
    | .row r rest =>
      match skipDelimiter ld rest with
      | .error => Option.none
      | .done => some (acc ++ [r])
      | .more rest2 u2 => fixedLoop ws ld fuel u2 rest2 (acc ++ [r])

/-- `list(fixed_rows(io.StringIO(text, newline=''), encoding, fields, line_delimiter))` -/
def fixedRows (ws : List Nat) (ld : LineDelim) (s : Str) : Option (List (List Str)) :=
  fixedLoop ws ld (s.length + 2) Option.none s []

end Cutplace
