import Cutplace.Model.Py
/-
Model of the fragment of CPython 3.12's `tokenize.generate_tokens` that cutplace uses through
`_tools.generated_tokens` / `tokenize_without_space`: one logical line, numbers, names
(every code point ≥ 128 counts as an identifier character, as the 3.12 tokenizer does in
`extra_tokens` mode), one-line quoted strings with backslash escapes, operators, comments.
Outside the fragment the result is `unsupported`.
-/
namespace Cutplace

inductive TokKind
  | number | name | string | op | comment | endmarker | indent | newline | dedent
  deriving Repr, DecidableEq, Inhabited

structure Tok where
  kind : TokKind
  text : Str
  deriving Repr, DecidableEq, Inhabited

def Tok.isEof (t : Tok) : Bool := t.kind == .endmarker
def Tok.isComma (t : Tok) : Bool := t.kind == .op && t.text == [',']

def isIdStart (c : Char) : Bool := c == '_' || isAsciiLetter c || c.toNat ≥ 128
def isIdChar (c : Char) : Bool := isIdStart c || isAsciiDigit c

/-- longest prefix satisfying `p`, and the rest -/
def spanChars (p : Char → Bool) : Str → Str × Str
  | [] => ([], [])
  | c :: cs => if p c then let r := spanChars p cs; (c :: r.1, r.2) else ([], c :: cs)

/-- digits with single underscores between them (`digitpart` of the tokenizer) -/
def digitPart (ok : Char → Bool) : Str → Str × Str
  | [] => ([], [])
  | c :: cs => if ok c then go cs [c] else ([], c :: cs)
where
  go : Str → Str → Str × Str
    | [], acc => (acc.reverse, [])
    | '_' :: d :: rest, acc =>
        if ok d then go rest (d :: '_' :: acc) else (acc.reverse, '_' :: d :: rest)
    | d :: rest, acc => if ok d then go rest (d :: acc) else (acc.reverse, d :: rest)

inductive LexErr | tokenError | unsupported
  deriving Repr, DecidableEq

/-- a literal with base prefix `pre` (`0x`, `0o`, `0b`): optional underscore, digits, no identifier character after -/
def lexBased (pre : Str) (ok : Char → Bool) (r : Str) : Except LexErr (Str × Str) :=
  let (u, r1) := match r with | '_' :: x => (['_'], x) | x => ([], x)
  let (ds, r2) := digitPart ok r1
  if ds.isEmpty then .error .unsupported            -- "0x" without digits: CPython error
  else match r2 with
    | c :: _ => if isIdChar c then .error .unsupported else .ok (pre ++ u ++ ds, r2)
    | [] => .ok (pre ++ u ++ ds, r2)

/-- integer part of a decimal literal (empty when the literal starts with `.`) -/
def lexIntPart (s : Str) : Str × Str :=
  match s with
  | '.' :: _ => (([] : Str), s)
  | _ => digitPart isAsciiDigit s

/-- fraction: (text, rest, is a float) -/
def lexFraction (r1 : Str) : Str × Str × Bool :=
  match r1 with
  | '.' :: x => let (d, y) := digitPart isAsciiDigit x; ('.' :: d, y, true)
  | x => ([], x, false)

/-- exponent: (text, rest, is a float) -/
def lexExponent (r2 : Str) : Except LexErr (Str × Str × Bool) :=
  match r2 with
  | e :: x =>
    if e == 'e' || e == 'E' then
      let (sg, y) := match x with
        | '+' :: z => (['+'], z)
        | '-' :: z => (['-'], z)
        | z => ([], z)
      let (d, z) := digitPart isAsciiDigit y
      if d.isEmpty then .error .unsupported else .ok (e :: sg ++ d, z, true)
    else .ok ([], r2, false)
  | [] => .ok ([], r2, false)

/-- imaginary suffix / trailing junk -/
def lexNumberTail (r3 : Str) : Except LexErr (Str × Str) :=
  match r3 with
  | c :: x =>
    if c == 'j' || c == 'J' then
      (match x with
       | d :: _ => if isIdChar d then .error .unsupported else .ok ([c], x)
       | [] => .ok ([c], x))
    else if isIdChar c then .error .unsupported else .ok ([], r3)
  | [] => .ok ([], r3)

/-- leading zeros in a non-zero decimal integer literal are a tokenizer error -/
def badLeadingZero (ip : Str) : Bool :=
  match ip with
  | '0' :: _ :: _ => ip.any (fun c => '1' ≤ c && c ≤ '9')
  | _ => false

def lexDecimal (s : Str) : Except LexErr (Str × Str) :=
  let (ip, r1) := lexIntPart s
  let (fp, r2, isFloat1) := lexFraction r1
  match lexExponent r2 with
  | .error e => .error e
  | .ok (ep, r3, isFloat2) =>
    let isFloat := isFloat1 || isFloat2
    match lexNumberTail r3 with
    | .error e => .error e
    | .ok (jp, r4) =>
      let txt := ip ++ fp ++ ep ++ jp
      if !isFloat && jp.isEmpty && badLeadingZero ip then .error .unsupported else .ok (txt, r4)

/-- NUMBER token starting at `s` (first char is a digit, or `.` followed by a digit):
returns (token text, rest). -/
def lexNumber (s : Str) : Except LexErr (Str × Str) :=
  match s with
  | '0' :: 'x' :: r => lexBased ['0','x'] isHexDigit r
  | '0' :: 'X' :: r => lexBased ['0','X'] isHexDigit r
  | '0' :: 'o' :: r => lexBased ['0','o'] isOctDigit r
  | '0' :: 'O' :: r => lexBased ['0','O'] isOctDigit r
  | '0' :: 'b' :: r => lexBased ['0','b'] isBinDigit r
  | '0' :: 'B' :: r => lexBased ['0','B'] isBinDigit r
  | _ => lexDecimal s

/-- body of a one-line string after the opening quote `q`: returns (body incl. closing quote, rest) -/
def lexStringBody (q : Char) : Str → Except LexErr (Str × Str)
  | [] => .error .tokenError
  | '\\' :: [] => .error .tokenError
  | '\\' :: c :: rest =>
    match lexStringBody q rest with
    | .ok (b, r) => .ok ('\\' :: c :: b, r)
    | .error e => .error e
  | c :: rest =>
    if c == q then .ok ([c], rest)
    else match lexStringBody q rest with
      | .ok (b, r) => .ok (c :: b, r)
      | .error e => .error e

def ops3 : List Str := ["**=", "//=", ">>=", "<<=", "...", "!="].map String.toList
def ops2 : List Str := ["<>", "**", "//", ">>", "<<", "<=", ">=", "==", "!=", "->", "+=", "-=", "*=",
  "/=", "%=", "&=", "|=", "^=", ":=", "@="].map String.toList
def ops1 : Str := "+-*/%&|^~<>()[]{},:.;@=!$?`".toList

def matchOp (s : Str) : Option Str := (ops3 ++ ops2).find? (fun o => startsWith s o)

def stringPrefixes : List Str := ["r", "u", "b", "br", "rb", "f", "fr", "rf"].map String.toList

/-- Main loop.  `depth` = open brackets. -/
def lexLoop : Nat → Str → Nat → List Tok → Except LexErr (List Tok)
  | 0, _, _, _ => .error .unsupported
  | fuel + 1, s, depth, acc =>
    match s with
    | [] =>
      if depth > 0 then .error .tokenError
      else .ok (acc.reverse ++ [⟨.endmarker, []⟩])
    | c :: cs =>
      if c == ' ' || c == '\t' then lexLoop fuel cs depth acc
      else if c == '#' then
        if depth > 0 then .error .tokenError
        else .ok (acc.reverse ++ [⟨.comment, s⟩, ⟨.endmarker, []⟩])
      else if c == '\\' then .error .unsupported
      else if isAsciiDigit c || (c == '.' && (match cs with | d :: _ => isAsciiDigit d | [] => false)) then
        match lexNumber s with
        | .error e => .error e
        | .ok (txt, rest) =>
          if rest.length < s.length then
            lexLoop fuel rest depth (⟨.number, txt⟩ :: acc)
          else .error .unsupported
      else if isIdStart c then
        let (w, rest) := spanChars isIdChar s
        let isPrefix := stringPrefixes.contains (lower w) &&
          (match rest with | q :: _ => q == '\'' || q == '"' | [] => false)
        if isPrefix then .error .unsupported
        else if rest.length < s.length then
          lexLoop fuel rest depth (⟨.name, w⟩ :: acc)
        else .error .unsupported
      else if c == '\'' || c == '"' then
        if startsWith cs [c, c] then .error .unsupported
        else match lexStringBody c cs with
          | .error e => .error e
          | .ok (b, rest) =>
            if rest.length < s.length then
              lexLoop fuel rest depth (⟨.string, c :: b⟩ :: acc)
            else .error .unsupported
      else match matchOp s with
        | some o =>
          lexLoop fuel (s.drop o.length) depth (⟨.op, o⟩ :: acc)
        | none =>
          if ops1.contains c then
            if c == '(' || c == '[' || c == '{' then
              lexLoop fuel cs (depth + 1) (⟨.op, [c]⟩ :: acc)
            else if c == ')' || c == ']' || c == '}' then
              if depth == 0 then .error .unsupported
              else lexLoop fuel cs (depth - 1) (⟨.op, [c]⟩ :: acc)
            else lexLoop fuel cs depth (⟨.op, [c]⟩ :: acc)
          else .error .unsupported

/-- `_tools.generated_tokens(text)` restricted to the fragment (the trailing NEWLINE/INDENT/DEDENT
noise, which both `generated_tokens` and its callers skip, is not produced). Line breaks, form
feeds are outside the fragment. -/
def lexAll (s : Str) : Except LexErr (List Tok) :=
  if s.any (fun c => c == '\n' || c == '\r' || c == '\x0c') then .error .unsupported
  else lexLoop (s.length + 1) s 0 []

/-- `_tools.tokenize_without_space(text)`: drops tokens whose text is blank (a NAME made only of
non-ASCII white space such as U+00A0 is such a token), keeps the end marker. -/
def tokenizeWithoutSpace (s : Str) : Except LexErr (List Tok) :=
  match lexAll s with
  | .error e => .error e
  | .ok ts => .ok (ts.filter (fun t => t.kind == .endmarker || !(strip t.text).isEmpty))

def liftLex {α} (r : Except LexErr α) : Out α :=
  match r with
  | .ok a => .ok a
  | .error .tokenError => .error .iface        -- `generated_tokens` turns tokenize.TokenError into an InterfaceError
  | .error .unsupported => .error .unsupported

end Cutplace

namespace Cutplace

/-- `_tools.generated_tokens(text)` including the INDENT / NEWLINE / DEDENT tokens a leading blank
produces (callers such as `IsUniqueCheck` and `DataFormat._validated_character` see them).  With
leading white space CPython emits `INDENT … NEWLINE DEDENT ENDMARKER`, and `generated_tokens`
then no longer finds the NEWLINE in the last-but-one position, so it stays. -/
def generatedTokens (s : Str) : Except LexErr (List Tok) :=
  match lexAll s with
  | .error e => .error e
  | .ok ts =>
    let (ws, rest) := spanChars (fun c => c == ' ' || c == '\t') s
    let blankLine := match rest with | [] => true | c :: _ => c == '#'
    if ws.isEmpty || blankLine then .ok ts
    else .ok ([⟨.indent, ws⟩] ++ ts.dropLast ++ [⟨.newline, []⟩, ⟨.dedent, []⟩, ⟨.endmarker, []⟩])

/-- number of characters before the end of the first token of `s` (for `DistinctCountCheck`, which
slices the rule at the end column of its first token) -/
def firstTokenEnd (s : Str) : Nat :=
  let (ws, rest) := spanChars (fun c => c == ' ' || c == '\t') s
  match lexAll rest with
  | .ok (t :: _) => ws.length + t.text.length
  | _ => 0

end Cutplace
