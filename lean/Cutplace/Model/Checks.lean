import Cutplace.Model.Engine
import Cutplace.Model.PyTok
/-
Model of `cutplace/checks.py`: `IsUniqueCheck`, `DistinctCountCheck` (state, `check_row`,
`check_at_end`, rule parsing) and the harness's scripted plugin check.
-/
namespace Cutplace

/-- per-run state of the built-in checks (one sum type so a CID's checks share `σ`) -/
inductive CState
  | unique (seen : List (List Str × Nat))     -- key -> line of first occurrence, insertion order
  | distinct (vals : List Str)                -- distinct values seen so far
  | unit
  deriving Repr, DecidableEq, Inhabited

def lookupKey (k : List Str) : List (List Str × Nat) → Option Nat
  | [] => none
  | (k', l) :: rest => if k' == k then some l else lookupKey k rest

/-- the tuple of key-field values of a row -/
def keyOf (keyCols : List Nat) (row : Row) : List Str := keyCols.map (fun i => row.getD i [])

/-- `IsUniqueCheck` over the columns `keyCols` -/
def isUniqueCheck (keyCols : List Nat) : Check CState where
  reset := .unique []
  row := fun st row line =>
    match st with
    | .unique seen =>
      let key := keyOf keyCols row
      match lookupKey key seen with
      | some first => (st, some ⟨some first⟩)
      | none => (.unique (seen ++ [(key, line)]), none)
    | other => (other, none)
  atEnd := fun _ => true

inductive Cmp | lt | le | eq | ne | ge | gt
  deriving Repr, DecidableEq, Inhabited

def Cmp.eval (c : Cmp) (a b : Int) : Bool :=
  match c with
  | .lt => a < b | .le => a ≤ b | .eq => a == b | .ne => a != b | .ge => a ≥ b | .gt => a > b

/-- `DistinctCountCheck` `field <cmp> n` over column `col` -/
def distinctCountCheck (col : Nat) (cmp : Cmp) (n : Int) : Check CState where
  reset := .distinct []
  row := fun st row _ =>
    match st with
    | .distinct vals =>
      let v := row.getD col []
      (if vals.contains v then st else .distinct (vals ++ [v]), none)
    | other => (other, none)
  atEnd := fun st =>
    match st with
    | .distinct vals => cmp.eval vals.length n
    | _ => true

/-- index of the first occurrence of `pat` in `s` -/
def containsSub (pat : Str) : Str → Bool
  | [] => pat.isEmpty
  | c :: cs => startsWith (c :: cs) pat || containsSub pat cs

/-- harness plugin: vetoes rows whose column `col` contains `veto` (when non-empty), fails at the
end when `failAtEnd` -/
def scriptedCheck (col : Nat) (veto : Str) (failAtEnd : Bool) : Check CState where
  reset := .unit
  row := fun st row _ =>
    (st, if !veto.isEmpty && containsSub veto (row.getD col []) then some ⟨none⟩ else none)
  atEnd := fun _ => !failAtEnd

/-! ### rule parsing -/

def indexOfName (name : Str) (names : List Str) : Option Nat :=
  let i := names.findIdx (· == name)
  if i < names.length then some i else none

/-- `IsUniqueCheck.__init__`: the token loop over `generated_tokens(rule)` -/
def isUniqueLoop (names : List Str) : Nat → List Tok → Bool → List Str → Out (List Str)
  | 0, _, _, _ => .error .unsupported
  | _, [], _, _ => .error .stopIteration
  | fuel + 1, t :: ts, afterComma, acc =>
    if t.isEof then .ok acc
    else if afterComma then
      if t.kind != .name then .error .iface
      else match indexOfName t.text names with
        | none => .error .iface
        | some _ =>
          if acc.contains t.text then .error .iface
          else isUniqueLoop names fuel ts false (acc ++ [t.text])
    else if !t.isComma then .error .iface
    else isUniqueLoop names fuel ts true acc

def parseIsUnique (rule : Str) (names : List Str) : Out (List Nat) := do
  if names.isEmpty then .error .iface
  let toks ← liftLex (generatedTokens rule)
  let ks ← isUniqueLoop names (toks.length + 1) toks true []
  if ks.isEmpty then .error .iface
  else pure (ks.filterMap (fun k => indexOfName k names))

/-- `DistinctCountCheck.__init__` on the fragment `<field> <cmp> <integer>`; other Python
expressions are outside the model -/
def parseDistinctCount (rule : Str) (names : List Str) : Out (Nat × Cmp × Int) := do
  if names.isEmpty then .error .iface
  let toks ← liftLex (generatedTokens rule)
  match toks with
  | [] => .error .stopIteration
  | t :: _ =>
    if t.kind != .name then .error .iface
    else match indexOfName t.text names with
      | none => .error .iface
      | some col =>
        -- the expression evaluated is "count" ++ rule[end of first token:]
        let rest := rule.drop (firstTokenEnd rule)
        match liftLex (tokenizeWithoutSpace rest) with
        | .error e => .error e
        | .ok [op, num, eof] =>
          if !eof.isEof || op.kind != .op || num.kind != .number then .error .unsupported
          else
            let cmp : Option Cmp :=
              if op.text == "<".toList then some .lt else if op.text == "<=".toList then some .le
              else if op.text == "==".toList then some .eq else if op.text == "!=".toList then some .ne
              else if op.text == ">=".toList then some .ge else if op.text == ">".toList then some .gt
              else none
            match cmp, pyIntBase0 num.text with
            | some c, some n => pure (col, c, (n : Int))
            | _, _ => .error .unsupported
        | .ok _ => .error .unsupported

end Cutplace

namespace Cutplace

/-- a check applied to a sequence of (row, line) pairs that reach it, threading its state:
the vetoes it raises and the state it ends in -/
def seqVerdicts {σ} (c : Check σ) : σ → List (Row × Nat) → List (Option Veto) × σ
  | s, [] => ([], s)
  | s, (row, line) :: rest =>
    let (s', v) := c.row s row line
    let r := seqVerdicts c s' rest
    (v :: r.1, r.2)

end Cutplace
