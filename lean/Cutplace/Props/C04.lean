import Cutplace.Proofs.EngineLemmas
import Cutplace.Props.C06
/-
C04  A row is accepted iff all cells and row checks pass; errors name the culprit.
-/
namespace Cutplace.Props
open Cutplace

variable {σ : Type}

/-- A row is accepted iff it has exactly as many items as there are fields, every item is accepted
by the field in the same position, and no row check vetoes it (for every column list — i.e. every
field type — every check list and every check state). -/
theorem C04_row_iff (cols : List Column) (checks : List (Check σ)) (sts : List σ) (row : Row) (line : Nat) :
    (validateRow cols checks sts row line).2.1 = none ↔
      row.length = cols.length ∧ (∀ p ∈ cols.zip row, p.1.accepts p.2 = true) ∧
        (runChecks checks sts row line 0).2.1 = none := by
  unfold validateRow
  by_cases hlen : row.length = cols.length
  · simp only [hlen, ne_eq, not_true_eq_false, if_false, true_and]
    have hc := validateCells_culprit cols row 0
    generalize hvc : validateCells cols row 0 = vc at hc
    obtain ⟨culprit, log⟩ := vc
    simp only at hc
    cases hf : (cols.zip row).findIdx? rejects with
    | none =>
      rw [hf] at hc; simp only [Option.map_none] at hc; subst hc
      simp only [Option.map_eq_none_iff]
      rw [List.findIdx?_eq_none_iff] at hf
      constructor
      · intro h; exact ⟨fun p hp => by simpa [rejects] using hf p hp, h⟩
      · intro h; exact h.2
    | some k =>
      rw [hf] at hc; simp only [Option.map_some] at hc; subst hc
      simp only [reduceCtorEq, false_iff, not_and]
      intro hall
      rw [List.findIdx?_eq_some_iff_getElem] at hf
      obtain ⟨hk, hrej, _⟩ := hf
      have hacc := hall _ (List.getElem_mem hk)
      exfalso
      unfold rejects at hrej
      rw [hacc] at hrej
      exact absurd hrej (by decide)
  · simp [hlen]

/-- A wrong number of items is reported as a plain data error for that row; no field and no check is consulted. -/
theorem C04_count_error (cols : List Column) (checks : List (Check σ)) (sts : List σ) (row : Row) (line : Nat)
    (h : row.length ≠ cols.length) :
    validateRow cols checks sts row line = (sts, some .count, []) := by
  simp [validateRow, h]

/-- A field rejection names the *first* offending column: every earlier cell is accepted by its
field, the named one is not. -/
theorem C04_culprit (cols : List Column) (checks : List (Check σ)) (sts : List σ) (row : Row) (line j : Nat)
    (h : (validateRow cols checks sts row line).2.1 = some (.field j)) :
    row.length = cols.length ∧ ∃ hj : j < (cols.zip row).length,
      ((cols.zip row)[j].1.accepts (cols.zip row)[j].2 = false) ∧
      ∀ i (hi : i < j), ((cols.zip row)[i]'(by omega)).1.accepts ((cols.zip row)[i]'(by omega)).2 = true := by
  unfold validateRow at h
  by_cases hlen : row.length = cols.length
  · refine ⟨hlen, ?_⟩
    simp only [hlen, ne_eq, not_true_eq_false, if_false] at h
    have hc := validateCells_culprit cols row 0
    generalize hvc : validateCells cols row 0 = vc at hc h
    obtain ⟨culprit, log⟩ := vc
    simp only at hc h
    cases culprit with
    | none =>
      simp only at h
      cases hr : (runChecks checks sts row line 0).2.1 <;> simp [hr] at h
    | some k =>
      simp only [Option.some.injEq, RowErr.field.injEq] at h
      subst h
      cases hf : (cols.zip row).findIdx? rejects with
      | none => rw [hf] at hc; simp at hc
      | some k' =>
        rw [hf] at hc; simp only [Option.map_some, Nat.add_zero, Option.some.injEq] at hc; subst hc
        rw [List.findIdx?_eq_some_iff_getElem] at hf
        obtain ⟨hk, hrej, hbefore⟩ := hf
        refine ⟨hk, by simpa [rejects] using hrej, ?_⟩
        intro i hi
        have := hbefore i hi
        simpa [rejects] using this
  · simp [hlen] at h

/-- A check rejection is reported only when every cell was accepted. -/
theorem C04_check_error_after_fields (cols : List Column) (checks : List (Check σ)) (sts : List σ) (row : Row)
    (line idx : Nat) (see : Option Nat)
    (h : (validateRow cols checks sts row line).2.1 = some (.check idx see)) :
    row.length = cols.length ∧ (∀ p ∈ cols.zip row, p.1.accepts p.2 = true) := by
  unfold validateRow at h
  by_cases hlen : row.length = cols.length
  · refine ⟨hlen, ?_⟩
    simp only [hlen, ne_eq, not_true_eq_false, if_false] at h
    have hc := validateCells_culprit cols row 0
    generalize hvc : validateCells cols row 0 = vc at hc h
    obtain ⟨culprit, log⟩ := vc
    simp only at hc h
    cases culprit with
    | some k => simp at h
    | none =>
      cases hf : (cols.zip row).findIdx? rejects with
      | some k' => rw [hf] at hc; simp at hc
      | none =>
        rw [List.findIdx?_eq_none_iff] at hf
        intro p hp
        simpa [rejects] using hf p hp
  · simp [hlen] at h

/-- Every error yielded for a data set carries the 0-based line of its raw row (header rows are
counted): this is `C06_yield_order`, restated for the error events. -/
theorem C04_reader_line (header : Nat) (limit : Option Nat) (cols : List Column) (checks : List (Check σ))
    (fault : Bool) (n : Nat) (rows : List Row) (st : RState σ) :
    EventsMatch header n rows (readLoop ⟨.yield, header, limit⟩ cols checks fault n rows st).events :=
  C06_yield_order header limit cols checks fault n rows st

/-- non-vacuity -/
example :
    let good : Column := ⟨fun v => .inr v, fun v => v != ['x']⟩
    (validateRow (σ := Unit) [good, good, good] [] [] [['a'], ['x'], ['x']] 5).2.1 = some (.field 1) := by decide

end Cutplace.Props
