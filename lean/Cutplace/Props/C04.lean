import Cutplace.Model.Engine
namespace Cutplace.Props
theorem C04_placeholder : True := trivial
end Cutplace.Props
