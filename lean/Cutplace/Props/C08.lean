import Cutplace.Model.Checks
/-
C08  Validation outcomes do not depend on what the CID was used for before.
-/
namespace Cutplace.Props
open Cutplace

variable {σ : Type}

/-- A started read behaves identically whatever state the checks were left in (reachable or not):
its first step resets every check. -/
theorem C08_reader_fresh (cfg : ReaderCfg) (cols : List Column) (checks : List (Check σ)) (fault : Bool)
    (rows : List Row) (s1 s2 : List σ) :
    (readRows cfg cols checks fault rows s1).events = (readRows cfg cols checks fault rows s2).events ∧
    (readRows cfg cols checks fault rows s1).final = (readRows cfg cols checks fault rows s2).final ∧
    (readRows cfg cols checks fault rows s1).st.sts = (readRows cfg cols checks fault rows s2).st.sts ∧
    (readRows cfg cols checks fault rows s1).log = (readRows cfg cols checks fault rows s2).log :=
  ⟨rfl, rfl, rfl, rfl⟩

/-- The same for a writer (after the repair that resets the checks in `Writer.__init__`). -/
theorem C08_writer_fresh (checks : List (Check σ)) (s1 s2 : List σ) :
    (writerInit checks s1).1.sts = (writerInit checks s2).1.sts ∧ (writerInit checks s1).2 = (writerInit checks s2).2 :=
  ⟨rfl, rfl⟩

/-- one run's outcome and the state it leaves do not depend on the state it starts from - reads, writes, and
`validate(…, validate_until=0)`, which calls `rows()` without ever requesting a row (since the repair that makes
`rows()` reset at once) -/
theorem C08_run_fresh (cols : List Column) (checks : List (Check σ)) (pad : Row → Row) (s1 s2 : List σ) (r : Run) :
    runOne cols checks pad s1 r = runOne cols checks pad s2 r := by
  cases r with
  | read cfg fault rows close => rfl
  | write header rows close => rfl
  | validate0 => rfl

/-- **For any history of runs on one CID** - reads, writes, runs that ended in an error, were abandoned (a read of the
consumed prefix), were never closed, or validated no row at all - every run's outcome equals the outcome of the same
run on a freshly loaded CID, whatever state the history started from. -/
theorem C08_history (cols : List Column) (checks : List (Check σ)) (pad : Row → Row) (sts : List σ) (runs : List Run) :
    runHistory cols checks pad sts runs =
      runs.map (fun r => (runOne cols checks pad (checks.map (·.reset)) r).1) := by
  induction runs generalizing sts with
  | nil => rfl
  | cons r rs ih =>
    simp only [runHistory, List.map_cons]
    rw [C08_run_fresh cols checks pad sts (checks.map (·.reset)) r]
    congr 1
    exact ih _

/-- `validate(cid, data, validate_until=0)` after any history: the end-of-data verdict is the one of a data set
without rows (before the repair it was computed on the state left by the previous run: finding
C08:validate-until-0:stale-end-check, fixed) -/
theorem C08_validate0_fresh (cols : List Column) (checks : List (Check σ)) (pad : Row → Row) (sts : List σ) :
    (runOne cols checks pad sts .validate0).1 = { closeFail := (closeValidator checks (checks.map (·.reset))).1 } := rfl

/-- non-vacuity: a history of an unclosed read with duplicates, a write and a clean read -/
example :
    let col : Column := ⟨fun v => .inr v, fun _ => true⟩
    let rows : List Row := [[['1']], [['1']]]
    runHistory [col] [isUniqueCheck [0]] id [.unique [([['1']], 7)]]
        [.read ⟨.yield, 0, none⟩ false rows false, .write 0 rows true, .read ⟨.continue, 0, none⟩ false [[['1']]] true]
      = [{ events := [.row [['1']], .err 1 (.check 0 (some 0))], accepted := 1, rejected := 1 },
         { writes := [none, some (.check 0 (some 0))], out := [[['1']]] },
         { events := [.row [['1']]], accepted := 1 }] := by decide

end Cutplace.Props
