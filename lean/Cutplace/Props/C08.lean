import Cutplace.Model.Checks
namespace Cutplace.Props
theorem C08_placeholder : True := trivial
end Cutplace.Props
