import Cutplace.Proofs.RangeLemmas
/-
C01  Range descriptions accept exactly the values they describe.
Property theorems only; helper lemmas live in `Cutplace/Proofs/`.
-/
namespace Cutplace.Props
open Cutplace Cutplace.Spec

/-- A value is accepted by the stored items of a description iff it lies inside at least one item,
both limits inclusive, an omitted limit meaning unbounded — for every description (any number of
items, any magnitudes) and every integer. -/
theorem C01_validate_iff (d : RangeDesc) (v : Int) :
    (rangeOfItems (denote d)).validate v = true ↔ Accepts d v := by
  simp only [Range.validate, rangeOfItems, validateLoop_iff, Accepts, denote, List.mem_map]
  constructor
  · rintro ⟨_, ⟨it, hit, rfl⟩, hc⟩
    exact ⟨it, hit, (contains_denote_iff it v).mp hc⟩
  · rintro ⟨it, hit, hm⟩
    exact ⟨it.denote, ⟨it, hit, rfl⟩, (contains_denote_iff it v).mpr hm⟩

/-- The same for arbitrary stored item lists (whatever produced them). -/
theorem C01_validate_items_iff (its : Items) (v : Int) :
    (rangeOfItems its).validate v = true ↔ ∃ it ∈ its, it.contains v = true := by
  simp [Range.validate, rangeOfItems, validateLoop_iff]

/-- The empty description accepts every value. -/
theorem C01_empty_accepts_all (v : Int) : emptyRange.validate v = true := rfl

/-- The overall lower limit is absent exactly when some item is open below (non-empty lists). -/
theorem C01_lower_absent_iff (its : Items) (h : its ≠ []) :
    lowerLimitOf its = none ↔ ∃ it ∈ its, it.lo = none := by
  cases its with
  | nil => exact absurd rfl h
  | cons it rest =>
    unfold lowerLimitOf lowerLimitLoop
    cases hlo : it.lo with
    | none => simp [lowerLoop_none, hlo]
    | some l => simp [lowerLoop_some_none_iff, hlo]

/-- When present, the overall lower limit is the minimum of the items' lower limits: a lower
bound of all of them that one of them attains. -/
theorem C01_lower_is_min (its : Items) (m : Int) (h : lowerLimitOf its = some m) :
    (∀ it ∈ its, ∃ l, it.lo = some l ∧ m ≤ l) ∧ ∃ it ∈ its, it.lo = some m := by
  cases its with
  | nil => simp [lowerLimitOf, lowerLimitLoop] at h
  | cons it rest =>
    unfold lowerLimitOf lowerLimitLoop at h
    cases hlo : it.lo with
    | none => simp [hlo, lowerLoop_none] at h
    | some l =>
      simp [hlo] at h
      obtain ⟨h1, h2, h3⟩ := lowerLoop_some_spec l m rest h
      refine ⟨?_, ?_⟩
      · intro it' hit'
        rcases List.mem_cons.mp hit' with rfl | hr
        · exact ⟨l, hlo, h1⟩
        · exact h2 it' hr
      · rcases h3 with rfl | ⟨it', hit', heq⟩
        · exact ⟨it, by simp, hlo⟩
        · exact ⟨it', by simp [hit'], heq⟩

theorem C01_upper_absent_iff (its : Items) (h : its ≠ []) :
    upperLimitOf its = none ↔ ∃ it ∈ its, it.hi = none := by
  cases its with
  | nil => exact absurd rfl h
  | cons it rest =>
    unfold upperLimitOf upperLimitLoop
    cases hhi : it.hi with
    | none => simp [upperLoop_none, hhi]
    | some l => simp [upperLoop_some_none_iff, hhi]

theorem C01_upper_is_max (its : Items) (m : Int) (h : upperLimitOf its = some m) :
    (∀ it ∈ its, ∃ u, it.hi = some u ∧ u ≤ m) ∧ ∃ it ∈ its, it.hi = some m := by
  cases its with
  | nil => simp [upperLimitOf, upperLimitLoop] at h
  | cons it rest =>
    unfold upperLimitOf upperLimitLoop at h
    cases hhi : it.hi with
    | none => simp [hhi, upperLoop_none] at h
    | some l =>
      simp [hhi] at h
      obtain ⟨h1, h2, h3⟩ := upperLoop_some_spec l m rest h
      refine ⟨?_, ?_⟩
      · intro it' hit'
        rcases List.mem_cons.mp hit' with rfl | hr
        · exact ⟨l, hhi, h1⟩
        · exact h2 it' hr
      · rcases h3 with rfl | ⟨it', hit', heq⟩
        · exact ⟨it, by simp, hhi⟩
        · exact ⟨it', by simp [hit'], heq⟩

/-- non-vacuity: a three item description with open ends meets the hypotheses and is decided -/
example : Accepts [.upto (-5), .single 0, .closed 3 9] 4 ∧ ¬ Accepts [.upto (-5), .single 0, .closed 3 9] 2 ∧
    lowerLimitOf (denote [.upto (-5), .single 0, .closed 3 9]) = none ∧
    upperLimitOf (denote [.upto (-5), .single 0, .closed 3 9]) = some 9 := by decide

end Cutplace.Props
