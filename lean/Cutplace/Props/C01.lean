import Cutplace.Proofs.RangeLemmas
import Cutplace.Proofs.RangeParse
import Cutplace.Proofs.DecRange
/-
C01  Range descriptions accept exactly the values they describe.
Property theorems only; helper lemmas live in `Cutplace/Proofs/`.
-/
namespace Cutplace.Props
open Cutplace Cutplace.Spec

/-- A value is accepted by the stored items of a description iff it lies inside at least one item,
both limits inclusive, an omitted limit meaning unbounded — for every description (any number of
items, any magnitudes) and every integer. -/
theorem C01_validate_iff (d : RangeDesc) (v : Int) :
    (rangeOfItems (denote d)).validate v = true ↔ Accepts d v := by
  simp only [Range.validate, rangeOfItems, validateLoop_iff, Accepts, denote, List.mem_map]
  constructor
  · rintro ⟨_, ⟨it, hit, rfl⟩, hc⟩
    exact ⟨it, hit, (contains_denote_iff it v).mp hc⟩
  · rintro ⟨it, hit, hm⟩
    exact ⟨it.denote, ⟨it, hit, rfl⟩, (contains_denote_iff it v).mpr hm⟩

/-- The same for arbitrary stored item lists (whatever produced them). -/
theorem C01_validate_items_iff (its : Items) (v : Int) :
    (rangeOfItems its).validate v = true ↔ ∃ it ∈ its, it.contains v = true := by
  simp [Range.validate, rangeOfItems, validateLoop_iff]

/-- The empty description accepts every value. -/
theorem C01_empty_accepts_all (v : Int) : emptyRange.validate v = true := rfl

/-- The overall lower limit is absent exactly when some item is open below (non-empty lists). -/
theorem C01_lower_absent_iff (its : Items) (h : its ≠ []) :
    lowerLimitOf its = none ↔ ∃ it ∈ its, it.lo = none := by
  cases its with
  | nil => exact absurd rfl h
  | cons it rest =>
    unfold lowerLimitOf lowerLimitLoop
    cases hlo : it.lo with
    | none => simp [lowerLoop_none, hlo]
    | some l => simp [lowerLoop_some_none_iff, hlo]

/-- When present, the overall lower limit is the minimum of the items' lower limits: a lower
bound of all of them that one of them attains. -/
theorem C01_lower_is_min (its : Items) (m : Int) (h : lowerLimitOf its = some m) :
    (∀ it ∈ its, ∃ l, it.lo = some l ∧ m ≤ l) ∧ ∃ it ∈ its, it.lo = some m := by
  cases its with
  | nil => simp [lowerLimitOf, lowerLimitLoop] at h
  | cons it rest =>
    unfold lowerLimitOf lowerLimitLoop at h
    cases hlo : it.lo with
    | none => simp [hlo, lowerLoop_none] at h
    | some l =>
      simp [hlo] at h
      obtain ⟨h1, h2, h3⟩ := lowerLoop_some_spec l m rest h
      refine ⟨?_, ?_⟩
      · intro it' hit'
        rcases List.mem_cons.mp hit' with rfl | hr
        · exact ⟨l, hlo, h1⟩
        · exact h2 it' hr
      · rcases h3 with rfl | ⟨it', hit', heq⟩
        · exact ⟨it, by simp, hlo⟩
        · exact ⟨it', by simp [hit'], heq⟩

theorem C01_upper_absent_iff (its : Items) (h : its ≠ []) :
    upperLimitOf its = none ↔ ∃ it ∈ its, it.hi = none := by
  cases its with
  | nil => exact absurd rfl h
  | cons it rest =>
    unfold upperLimitOf upperLimitLoop
    cases hhi : it.hi with
    | none => simp [upperLoop_none, hhi]
    | some l => simp [upperLoop_some_none_iff, hhi]

theorem C01_upper_is_max (its : Items) (m : Int) (h : upperLimitOf its = some m) :
    (∀ it ∈ its, ∃ u, it.hi = some u ∧ u ≤ m) ∧ ∃ it ∈ its, it.hi = some m := by
  cases its with
  | nil => simp [upperLimitOf, upperLimitLoop] at h
  | cons it rest =>
    unfold upperLimitOf upperLimitLoop at h
    cases hhi : it.hi with
    | none => simp [hhi, upperLoop_none] at h
    | some l =>
      simp [hhi] at h
      obtain ⟨h1, h2, h3⟩ := upperLoop_some_spec l m rest h
      refine ⟨?_, ?_⟩
      · intro it' hit'
        rcases List.mem_cons.mp hit' with rfl | hr
        · exact ⟨l, hhi, h1⟩
        · exact h2 it' hr
      · rcases h3 with rfl | ⟨it', hit', heq⟩
        · exact ⟨it, by simp, hhi⟩
        · exact ⟨it', by simp [hit'], heq⟩

/-- **Every well-formed description is accepted and means what it says.**  For every description
with at least one item, `lower ≤ upper` in each item and pairwise disjoint items, written in any
legal spelling (limits as decimal or `0x` hexadecimal integers with optional minus sign, as quoted
single characters or as the symbolic names cr/ff/lf/tab/vt; `...`, `:` or `…` as separator; any
number of blanks around the tokens), `Range(text)` succeeds, accepts a value exactly when it lies in
one of the items, and stores the items in the order written.  Limits are bounded by CPython's
`int()` conversion limit of 4300 decimal digits (`BoundedLimits`); beyond it the real code refuses
the text (see the known finding). -/
theorem C01_parse_render (d : RangeDesc) (sps : List ItemSp) (hw : WellFormed d) (hl : LegalSpelling d sps)
    (hb : BoundedLimits d) (default : Option Str) :
    ∃ r, Range.parse (render d sps) default = .ok r ∧ r.items = some (denote d) ∧
      (∀ v, r.validate v = true ↔ Accepts d v) ∧
      r.lowerLimit = lowerLimitOf (denote d) ∧ r.upperLimit = upperLimitOf (denote d) :=
  ⟨rangeOfItems (denote d), parse_render d sps hw hl (convertible_of_bounded d sps hb) default, rfl,
    fun v => C01_validate_iff d v, rfl, rfl⟩

/-- non-vacuity of `C01_parse_render`: a description using every spelling meets its hypotheses -/
example :
    let d : RangeDesc := [.upto (-5), .single 65, .closed 9 13, .from_ 100]
    let sps : List ItemSp := [⟨.dec, .dec, .ellipsis, (1, 2, 0, 1, 0)⟩, ⟨.quoted true, .dec, .dots, (0, 0, 1, 0, 0)⟩,
      ⟨.sym false, .sym true, .colon, (1, 0, 1, 1, 1)⟩, ⟨.hex true false, .dec, .dots, (0, 0, 0, 0, 2)⟩]
    WellFormed d ∧ LegalSpelling d sps ∧
      render d sps = " … -  5,\"A\" , tab : CR ,0X64...".toList := by
  refine ⟨by decide, by decide, by decide +kernel⟩

/-- non-vacuity: a three item description with open ends meets the hypotheses and is decided -/
example : Accepts [.upto (-5), .single 0, .closed 3 9] 4 ∧ ¬ Accepts [.upto (-5), .single 0, .closed 3 9] 2 ∧
    lowerLimitOf (denote [.upto (-5), .single 0, .closed 3 9]) = none ∧
    upperLimitOf (denote [.upto (-5), .single 0, .closed 3 9]) = some 9 := by decide

/-! ### decimal ranges -/

/-- `<=` between two `decimal.Decimal` values, as the model of `DecimalRange` evaluates it (coefficients scaled to the
smaller exponent), is `≤` between the rational numbers `± coefficient * 10^exponent` they denote - for every
coefficient and every exponent, positive or negative. -/
theorem C01_decimal_order (n1 : Bool) (m1 : Nat) (e1 : Int) (n2 : Bool) (m2 : Nat) (e2 : Int) :
    Dec.le? (.fin n1 m1 e1) (.fin n2 m2 e2) = some (decide ((Dec.fin n1 m1 e1).toRat ≤ (Dec.fin n2 m2 e2).toRat)) :=
  le?_fin n1 m1 e1 n2 m2 e2

/-- **Decimal ranges obey the same rule**: a decimal value is accepted by the stored items of a decimal range iff it
lies inside at least one item, both limits inclusive, an omitted limit meaning unbounded, in the order of the rational
numbers - whatever the number of fraction digits limits and value are written with (`1.5`, `1.50` and `1.500` are the
same value). -/
theorem C01_decimal_validate_iff (d : DRangeDesc) (v : DLit) :
    ({ items := some (ddenote d) } : DecimalRange).validate v.toDec = some true ↔ DAccepts d v.toRat := by
  simp only [DecimalRange.validate, dValidateLoop_denote, Option.some.injEq, decide_eq_true_eq]

/-- a decimal range never fails with `InvalidOperation` on a literal value: it accepts or refuses -/
theorem C01_decimal_validate_total (d : DRangeDesc) (v : DLit) :
    ∃ b, ({ items := some (ddenote d) } : DecimalRange).validate v.toDec = some b :=
  ⟨_, dValidateLoop_denote d v⟩

/-- the overall lower limit of a decimal range is absent iff some item is open below -/
theorem C01_decimal_lower_absent_iff (its : List DItem) (h : its ≠ []) :
    dLowerLimitOf its = none ↔ ∃ it ∈ its, it.lo = none := by
  cases its with
  | nil => exact absurd rfl h
  | cons it rest =>
    unfold dLowerLimitOf dLowerLimitLoop
    cases hlo : it.lo with
    | none => simp [dLowerLoop_none, hlo]
    | some l => simp [dLowerLoop_some_none_iff, hlo]

/-- otherwise it is the minimum of the lower limits, in the order of the rationals, and is attained -/
theorem C01_decimal_lower_is_min (its : List DItem) (hf : AllFinite its) (m : Dec) (h : dLowerLimitOf its = some m) :
    (∀ it ∈ its, ∃ l, it.lo = some l ∧ m.toRat ≤ l.toRat) ∧ ∃ it ∈ its, it.lo = some m := by
  cases its with
  | nil => simp [dLowerLimitOf, dLowerLimitLoop] at h
  | cons it rest =>
    unfold dLowerLimitOf dLowerLimitLoop at h
    cases hlo : it.lo with
    | none => simp [hlo, dLowerLoop_none] at h
    | some l =>
      simp [hlo] at h
      have hlf : l.isFin = true := (hf it List.mem_cons_self).1 l hlo
      obtain ⟨h1, h2, h3⟩ := dLowerLoop_some_spec l m rest hlf (fun o ho => hf o (List.mem_cons_of_mem _ ho)) h
      refine ⟨?_, ?_⟩
      · intro it' hit'
        rcases List.mem_cons.mp hit' with rfl | hr
        · exact ⟨l, hlo, h1⟩
        · exact h2 it' hr
      · rcases h3 with rfl | ⟨it', hit', heq⟩
        · exact ⟨it, by simp, hlo⟩
        · exact ⟨it', by simp [hit'], heq⟩

theorem C01_decimal_upper_absent_iff (its : List DItem) (h : its ≠ []) :
    dUpperLimitOf its = none ↔ ∃ it ∈ its, it.hi = none := by
  cases its with
  | nil => exact absurd rfl h
  | cons it rest =>
    unfold dUpperLimitOf dUpperLimitLoop
    cases hhi : it.hi with
    | none => simp [dUpperLoop_none, hhi]
    | some l => simp [dUpperLoop_some_none_iff, hhi]

theorem C01_decimal_upper_is_max (its : List DItem) (hf : AllFinite its) (m : Dec) (h : dUpperLimitOf its = some m) :
    (∀ it ∈ its, ∃ u, it.hi = some u ∧ u.toRat ≤ m.toRat) ∧ ∃ it ∈ its, it.hi = some m := by
  cases its with
  | nil => simp [dUpperLimitOf, dUpperLimitLoop] at h
  | cons it rest =>
    unfold dUpperLimitOf dUpperLimitLoop at h
    cases hhi : it.hi with
    | none => simp [hhi, dUpperLoop_none] at h
    | some l =>
      simp [hhi] at h
      have hlf : l.isFin = true := (hf it List.mem_cons_self).2 l hhi
      obtain ⟨h1, h2, h3⟩ := dUpperLoop_some_spec l m rest hlf (fun o ho => hf o (List.mem_cons_of_mem _ ho)) h
      refine ⟨?_, ?_⟩
      · intro it' hit'
        rcases List.mem_cons.mp hit' with rfl | hr
        · exact ⟨l, hhi, h1⟩
        · exact h2 it' hr
      · rcases h3 with rfl | ⟨it', hit', heq⟩
        · exact ⟨it, by simp, hhi⟩
        · exact ⟨it', by simp [hit'], heq⟩

/-- non-vacuity: `-1.50...0.25, 2` accepts -1.5 and 0.250, refuses 0.26; limits -1.50 and 2; the items are finite -/
example :
    let d : DRangeDesc := [.closed ⟨true, 150, 2⟩ ⟨false, 25, 2⟩, .single ⟨false, 2, 0⟩]
    DAccepts d (DLit.toRat ⟨true, 15, 1⟩) ∧ DAccepts d (DLit.toRat ⟨false, 250, 3⟩) ∧ ¬ DAccepts d (DLit.toRat ⟨false, 26, 2⟩) ∧
      dLowerLimitOf (ddenote d) = some (.fin true 150 (-2)) ∧ dUpperLimitOf (ddenote d) = some (.fin false 2 0) ∧
      AllFinite (ddenote d) := by
  refine ⟨by decide +kernel, by decide +kernel, by decide +kernel, by decide +kernel, by decide +kernel, allFinite_ddenote _⟩

/-- `Range(description, default)`: a blank description stands for the default (which the code asserts not to be blank),
any other description is used as it is -/
theorem C01_default (description dflt : Str) (hd : (strip dflt).isEmpty = false) :
    ((strip description).isEmpty = true → Range.parse description (some dflt) = Range.parse dflt) ∧
    ((strip description).isEmpty = false → Range.parse description (some dflt) = Range.parse description) := by
  constructor
  · intro h
    simp [Range.parse, h, hd]
  · intro h
    simp [Range.parse, h]

end Cutplace.Props
