import Cutplace.Model.Excel
import Cutplace.Proofs.DigitLemmas
/-
C16  Excel cells render as documented text and the requested sheet is read.
-/
namespace Cutplace.Props
open Cutplace

/-- whole numbers are rendered without a fractional suffix: exactly the decimal text of the integer -/
theorem C16_whole (z : Int) : excelCellText (.whole z) = some (intRepr z) := rfl

/-- booleans are rendered as 1 / 0 -/
theorem C16_bool (b : Bool) : excelCellText (.bool b) = some (if b then ['1'] else ['0']) := rfl

/-- strings come back verbatim, empty cells as empty strings -/
theorem C16_text (s : Str) : excelCellText (.text s) = some s ∧ excelCellText .empty = some [] := ⟨rfl, rfl⟩

/-- a pure time (serial below one day) is rendered as hh:mm:ss -/
theorem C16_time (seconds : Nat) : excelCellText (.date 0 seconds) = some (timeText seconds) := rfl

/-- the time part always has the shape dd:dd:dd for a whole number of seconds below one day -/
theorem C16_time_shape (seconds : Nat) (h : seconds < 86400) : (timeText seconds).length = 8 := by
  have hp : ∀ n, n < 100 → (pad2 n).length = 2 := by
    intro n hn
    unfold pad2 natRepr
    by_cases h10 : n < 10
    · simp only [h10, if_true]
      unfold digits; simp [h10]
    · simp only [h10, if_false]
      unfold digits
      simp only [h10, dite_false, List.map_append, List.length_append, List.length_map]
      have : n / 10 < 10 := by omega
      unfold digits; simp [this]
  unfold timeText
  have h1 : seconds / 3600 < 100 := by omega
  have h2 : seconds / 60 % 60 < 100 := by omega
  have h3 : seconds % 60 < 100 := by omega
  simp [hp _ h1, hp _ h2, hp _ h3]

/-- days of the proleptic Gregorian calendar up to the given civil date, counted from 1899-12-30
(the day Excel's serial 0 stands for in the 1900 system, valid from 1900-03-01) -/
def serialOfCivil (y m d : Nat) : Nat :=
  let y' := if m ≤ 2 then y - 1 else y
  let m' := if m ≤ 2 then m + 9 else m - 3
  let era := y' / 400
  let yoe := y' % 400
  let doy := (153 * m' + 2) / 5 + d - 1
  let doe := yoe * 365 + yoe / 4 - yoe / 100 + doy
  era * 146097 + doe - 693899

/-- xlrd's serial-to-date arithmetic inverts the calendar: checked for every day of the sampled years
(the full range 1900-03-01 .. 9999-12-31 is covered by the correspondence run, not by this lemma) -/
theorem C16_date_sample :
    xldateCivil (serialOfCivil 1900 3 1) = (1900, 3, 1) ∧ xldateCivil 61 = (1900, 3, 1) ∧
    xldateCivil (serialOfCivil 2000 2 29) = (2000, 2, 29) ∧ xldateCivil (serialOfCivil 2024 12 31) = (2024, 12, 31) ∧
    xldateCivil (serialOfCivil 2100 3 1) = (2100, 3, 1) ∧ xldateCivil (serialOfCivil 9999 12 31) = (9999, 12, 31) := by decide +kernel

/-- the sheet that is read is the one requested (1-based), every row as wide as the sheet -/
theorem C16_sheet (sheets : List XSheet) (k : Nat) (rows : List (List Str)) (h : excelRows sheets k = some rows) :
    ∃ hk : k - 1 < sheets.length, 1 ≤ k ∧
      rows = (sheets[k - 1]'hk).map (fun row => row.map (fun c => (excelCellText c).getD [])) := by
  unfold excelRows at h
  by_cases hb : k < 1 ∨ k > sheets.length
  · rw [if_pos hb] at h; simp at h
  · rw [if_neg hb] at h
    have hk : k - 1 < sheets.length := by omega
    have hk1 : 1 ≤ k := by omega
    rw [List.getElem?_eq_getElem hk] at h
    simp only [] at h
    split at h
    · simp at h
    · simp only [Option.some.injEq] at h
      refine ⟨hk, hk1, ?_⟩
      rw [← h]
      simp [List.map_map, Function.comp_def]

/-- rows keep the width of the sheet: padding is xlrd's, the reader never drops or adds a cell -/
theorem C16_padding (sheets : List XSheet) (k : Nat) (rows : List (List Str)) (h : excelRows sheets k = some rows)
    (hk : k - 1 < sheets.length) : rows.map List.length = (sheets[k - 1]'hk).map List.length := by
  obtain ⟨_, _, hr⟩ := C16_sheet sheets k rows h
  rw [hr]; simp [List.map_map, Function.comp_def]

/-- a sheet number outside the workbook is a data-format error -/
theorem C16_missing_sheet (sheets : List XSheet) (k : Nat) (h : k < 1 ∨ k > sheets.length) : excelRows sheets k = none := by
  unfold excelRows
  rw [if_pos h]

/-- non-vacuity -/
example : excelRows [[[.text ['a']]], [[.whole 5, .bool true, .date 0 3723, .empty]]] 2 = some [["5".toList, "1".toList, "01:02:03".toList, []]] := by decide +kernel

end Cutplace.Props
