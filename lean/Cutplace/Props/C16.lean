import Cutplace.Model.Excel
import Cutplace.Proofs.DigitLemmas
import Cutplace.Proofs.ExcelDate
/-
C16  Excel cells render as documented text and the requested sheet is read.
-/
namespace Cutplace.Props
open Cutplace

/-- whole numbers are rendered without a fractional suffix: exactly the decimal text of the integer -/
theorem C16_whole (z : Int) : excelCellText (.whole z) = some (intRepr z) := rfl

/-- booleans are rendered as 1 / 0 -/
theorem C16_bool (b : Bool) : excelCellText (.bool b) = some (if b then ['1'] else ['0']) := rfl

/-- strings come back verbatim, empty cells as empty strings -/
theorem C16_text (s : Str) : excelCellText (.text s) = some s ∧ excelCellText .empty = some [] := ⟨rfl, rfl⟩

/-- a pure time (serial below one day) is rendered as hh:mm:ss -/
theorem C16_time (seconds : Nat) : excelCellText (.date 0 seconds) = some (timeText seconds) := rfl

/-- the time part always has the shape dd:dd:dd for a whole number of seconds below one day -/
theorem C16_time_shape (seconds : Nat) (h : seconds < 86400) : (timeText seconds).length = 8 := by
  have hp : ∀ n, n < 100 → (pad2 n).length = 2 := by
    intro n hn
    unfold pad2 natRepr
    by_cases h10 : n < 10
    · simp only [h10, if_true]
      unfold digits; simp [h10]
    · simp only [h10, if_false]
      unfold digits
      simp only [h10, dite_false, List.map_append, List.length_append, List.length_map]
      have : n / 10 < 10 := by omega
      unfold digits; simp [this]
  unfold timeText
  have h1 : seconds / 3600 < 100 := by omega
  have h2 : seconds / 60 % 60 < 100 := by omega
  have h3 : seconds % 60 < 100 := by omega
  simp [hp _ h1, hp _ h2, hp _ h3]

/-- days of the proleptic Gregorian calendar up to the given civil date, counted from 1899-12-30
(the day Excel's serial 0 stands for in the 1900 system, valid from 1900-03-01) -/
def serialOfCivil (y m d : Nat) : Nat :=
  let y' := if m ≤ 2 then y - 1 else y
  let m' := if m ≤ 2 then m + 9 else m - 3
  let era := y' / 400
  let yoe := y' % 400
  let doy := (153 * m' + 2) / 5 + d - 1
  let doe := yoe * 365 + yoe / 4 - yoe / 100 + doy
  era * 146097 + doe - 693899

/-- concrete instances (kept as a cross-check of `serialOfCivil`, the closed-form day count used by the harness) -/
theorem C16_date_sample :
    xldateCivil (serialOfCivil 1900 3 1) = (1900, 3, 1) ∧ xldateCivil 61 = (1900, 3, 1) ∧
    xldateCivil (serialOfCivil 2000 2 29) = (2000, 2, 29) ∧ xldateCivil (serialOfCivil 2024 12 31) = (2024, 12, 31) ∧
    xldateCivil (serialOfCivil 2100 3 1) = (2100, 3, 1) ∧ xldateCivil (serialOfCivil 9999 12 31) = (9999, 12, 31) := by decide +kernel

/-- `_excel_cell_value` on a date cell, unfolded -/
theorem excelCellText_date_unfold (days seconds : Nat) :
    excelCellText (.date days seconds) =
      (if days == 0 then some (timeText seconds)
       else if days < 61 then none
       else
        let (y, m, d) := xldateCivil days
        some (pad4 y ++ ['-'] ++ pad2 m ++ ['-'] ++ pad2 d ++ [' '] ++ timeText seconds)) := rfl

/-- rendering of a date cell whose day number xlrd converts to `(y, m, d)` -/
theorem excelCellText_date (days seconds y m d : Nat) (h61 : 61 ≤ days) (hc : xldateCivil days = (y, m, d)) :
    excelCellText (.date days seconds)
      = some (pad4 y ++ ['-'] ++ pad2 m ++ ['-'] ++ pad2 d ++ [' '] ++ timeText seconds) := by
  rw [excelCellText_date_unfold]
  have h0 : ¬ (days == 0) = true := by
    intro h; have := eq_of_beq h; omega
  have hlt : ¬ days < 61 := by omega
  rw [if_neg h0, if_neg hlt, hc]

/-- dates: for every real calendar date from 1900-03-01 on (no upper bound on the year) and every number of seconds,
the cell whose serial number is that day is rendered as `YYYY-MM-DD hh:mm:ss` of exactly that date.  `excelSerial` is
the naive calendar count (`Proofs/ExcelDate.lean`: days before the year by the leap-year rule, days before the month by
summing `daysInMonth`), `xldateCivil` is xlrd's Julian-day arithmetic. -/
theorem C16_date (y m d seconds : Nat) (hv : ValidCivil y m d) (h1900 : 1900 < y ∨ (y = 1900 ∧ 3 ≤ m)) :
    excelCellText (.date (excelSerial y m d) seconds)
      = some (pad4 y ++ ['-'] ++ pad2 m ++ ['-'] ++ pad2 d ++ [' '] ++ timeText seconds) := by
  obtain ⟨hciv, h61⟩ := xldateCivil_excelSerial y m d hv h1900
  exact excelCellText_date _ seconds y m d h61 hciv

/-- the serial numbers of consecutive days of a month are consecutive, and the first admissible date is serial 61 -/
theorem C16_serial_anchor : excelSerial 1900 3 1 = 61 ∧ excelSerial 2024 2 29 = 45351 ∧ excelSerial 9999 12 31 = 2958465 :=
  ⟨by decide +kernel, by decide +kernel, by decide +kernel⟩

/-- non-vacuity of `C16_date`: 29 February 2024 is a real date after 1900-03-01 -/
example : ValidCivil 2024 2 29 ∧ (1900 < 2024 ∨ (2024 = 1900 ∧ 3 ≤ 2)) := by
  refine ⟨⟨by decide, by decide, by decide, by decide⟩, Or.inl (by decide)⟩

/-- the sheet that is read is the one requested (1-based), every row as wide as the sheet -/
theorem C16_sheet (sheets : List XSheet) (k : Nat) (rows : List (List Str)) (h : excelRows sheets k = some rows) :
    ∃ hk : k - 1 < sheets.length, 1 ≤ k ∧
      rows = (sheets[k - 1]'hk).map (fun row => row.map (fun c => (excelCellText c).getD [])) := by
  unfold excelRows at h
  by_cases hb : k < 1 ∨ k > sheets.length
  · rw [if_pos hb] at h; simp at h
  · rw [if_neg hb] at h
    have hk : k - 1 < sheets.length := by omega
    have hk1 : 1 ≤ k := by omega
    rw [List.getElem?_eq_getElem hk] at h
    simp only [] at h
    split at h
    · simp at h
    · simp only [Option.some.injEq] at h
      refine ⟨hk, hk1, ?_⟩
      rw [← h]
      simp [List.map_map, Function.comp_def]

/-- rows keep the width of the sheet: padding is xlrd's, the reader never drops or adds a cell -/
theorem C16_padding (sheets : List XSheet) (k : Nat) (rows : List (List Str)) (h : excelRows sheets k = some rows)
    (hk : k - 1 < sheets.length) : rows.map List.length = (sheets[k - 1]'hk).map List.length := by
  obtain ⟨_, _, hr⟩ := C16_sheet sheets k rows h
  rw [hr]; simp [List.map_map, Function.comp_def]

/-- a sheet number outside the workbook is a data-format error -/
theorem C16_missing_sheet (sheets : List XSheet) (k : Nat) (h : k < 1 ∨ k > sheets.length) : excelRows sheets k = none := by
  unfold excelRows
  rw [if_pos h]

/-- non-vacuity -/
example : excelRows [[[.text ['a']]], [[.whole 5, .bool true, .date 0 3723, .empty]]] 2 = some [["5".toList, "1".toList, "01:02:03".toList, []]] := by decide +kernel

end Cutplace.Props
