import Cutplace.Model.Cid
/-
C09  CIDs are accepted iff structurally sound; rejections name the offending row.

`Cid.read` is the transcription of `interface.Cid.read`: a fold over the rows with a line cursor.
Proved here, for every row list and every configuration of the per-row models: rows with an empty
first cell are ignored, cells beyond the parsed columns are ignored, the row marker is
case-insensitive, a row only ever appends one field / one check or updates the data format (so field
order is the order of the field rows), every rejection raised while reading carries the line of the
row that caused it, and an accepted CID has a format and at least one field.  That each of the ~55
catalogued defects is rejected at its row is established by the exhaustive correspondence.
-/
namespace Cutplace.Props
open Cutplace

/-- the row marker decides how a row is treated: empty (or blank) first cell = comment -/
theorem C09_comment_row_ignored (cid : Cid) (row : List Str) (w : Bool) (e : Str → Bool)
    (h : rowKind row = .comment) : readRow cid row w e = .ok cid := by
  simp [readRow, h]

/-- add `k` to the line of an outcome of the row loop -/
def shiftLine (k : Nat) : CidOut (Cid × Nat) → CidOut (Cid × Nat)
  | .ok (c, l) => .ok (c, l + k)
  | .error ⟨x, l⟩ => .error ⟨x, l.map (· + k)⟩

/-- the row loop does not depend on the starting line except for the reported lines -/
theorem readLoop_shift (w : Bool) (e : Str → Bool) (cid : Cid) (line k : Nat) (rows : List (List Str)) :
    readLoopCid w e cid (line + k) rows = shiftLine k (readLoopCid w e cid line rows) := by
  induction rows generalizing cid line with
  | nil => simp [readLoopCid, shiftLine]
  | cons row rest ih =>
    simp only [readLoopCid]
    cases readRow cid row w e with
    | error x => simp [shiftLine]
    | ok cid' =>
      have := ih cid' (line + 1)
      simp only []
      rw [show line + k + 1 = line + 1 + k by omega]
      exact this

theorem readLoop_append (w : Bool) (e : Str → Bool) (cid : Cid) (line : Nat) (a b : List (List Str)) :
    readLoopCid w e cid line (a ++ b) =
      (match readLoopCid w e cid line a with
       | .ok (c, l) => readLoopCid w e c l b
       | .error x => .error x) := by
  induction a generalizing cid line with
  | nil => simp [readLoopCid]
  | cons row rest ih =>
    simp only [List.cons_append, readLoopCid]
    cases readRow cid row w e with
    | error x => rfl
    | ok cid' => exact ih cid' (line + 1)

/-- **Comment rows are ignored.** Inserting a row whose first cell is empty or blank anywhere in a
CID changes neither whether it is accepted nor the interface it defines; every line reported for a
later row moves by one. -/
theorem C09_decoration_comment (w : Bool) (e : Str → Bool) (cid : Cid) (line : Nat)
    (pre post : List (List Str)) (c : List Str) (h : rowKind c = .comment) :
    readLoopCid w e cid line (pre ++ c :: post) =
      (match readLoopCid w e cid line pre with
       | .ok (c1, l) => shiftLine 1 (readLoopCid w e c1 l post)
       | .error x => .error x) := by
  rw [readLoop_append]
  cases readLoopCid w e cid line pre with
  | error x => rfl
  | ok p =>
    obtain ⟨c1, l⟩ := p
    simp only [readLoopCid, C09_comment_row_ignored c1 c w e h]
    exact readLoop_shift w e c1 l 1 post

/-- **Cells beyond the parsed columns are ignored**: a row that already has its marker and six data
cells behaves the same whatever follows. -/
theorem C09_trailing_cells_ignored (cid : Cid) (row extra : List Str) (w : Bool) (e : Str → Bool)
    (h : 7 ≤ row.length) : readRow cid (row ++ extra) w e = readRow cid row w e := by
  have hk : rowKind (row ++ extra) = rowKind row := by
    cases row with
    | nil => simp at h
    | cons c cs => rfl
  have hd : rowData (row ++ extra) = rowData row := by
    unfold rowData padTo6
    have h6 : 6 ≤ (row.drop 1).length := by simp; omega
    rw [List.drop_append_of_le_length (by omega)]
    rw [List.append_assoc, List.take_append_of_le_length h6, List.take_append_of_le_length h6]
  simp only [readRow, hk, hd]

/-- **The row marker is case-insensitive and may be surrounded by blanks**: only `strip(lower(cell))` matters. -/
theorem C09_marker_case_insensitive (c c' : Str) (r r' : List Str) (ha : isAscii c = true) (ha' : isAscii c' = true)
    (h : strip (lower c) = strip (lower c')) : rowKind (c :: r) = rowKind (c' :: r') := by
  simp [rowKind, ha, ha', h]

/-- **A row changes only its own part of the interface, by appending**: field rows append exactly
one field (so fields keep the order of their rows), check rows append exactly one check, data-format
rows only touch the data format, comment rows nothing. -/
theorem C09_row_effect (cid cid' : Cid) (row : List Str) (w : Bool) (e : Str → Bool)
    (h : readRow cid row w e = .ok cid') :
    (rowKind row = .comment ∧ cid' = cid) ∨
    (rowKind row = .dataFormat ∧ cid'.fields = cid.fields ∧ cid'.checks = cid.checks ∧ cid'.dataFormat.isSome) ∨
    (rowKind row = .field ∧ (∃ f, cid'.fields = cid.fields ++ [f]) ∧ cid'.checks = cid.checks ∧ cid'.dataFormat = cid.dataFormat) ∨
    (rowKind row = .check ∧ (∃ c, cid'.checks = cid.checks ++ [c]) ∧ cid'.fields = cid.fields ∧ cid'.dataFormat = cid.dataFormat) := by
  unfold readRow at h
  cases hk : rowKind row with
  | comment => simp [hk] at h; exact Or.inl ⟨rfl, h.symm⟩
  | dataFormat =>
    simp only [hk, addDataFormatRow] at h
    cases hb : buildDataFormat cid (rowData row) e with
    | error x => simp [hb, Except.map] at h
    | ok df =>
      simp [hb, Except.map] at h; subst h
      exact Or.inr (Or.inl ⟨rfl, rfl, rfl, rfl⟩)
  | field =>
    simp only [hk, addFieldRow] at h
    cases hb : buildField cid (rowData row) w with
    | error x => simp [hb, Except.map] at h
    | ok f =>
      simp [hb, Except.map] at h; subst h
      exact Or.inr (Or.inr (Or.inl ⟨rfl, ⟨f, rfl⟩, rfl, rfl⟩))
  | check =>
    simp only [hk, addCheckRow] at h
    cases hb : buildCheck cid (rowData row) w with
    | error x => simp [hb, Except.map] at h
    | ok c =>
      simp [hb, Except.map] at h; subst h
      exact Or.inr (Or.inr (Or.inr ⟨rfl, ⟨c, rfl⟩, rfl, rfl⟩))
  | unknown => simp [hk] at h
  | unsupported => simp [hk] at h

/-- **A rejection names the offending row**: an error raised while reading the rows carries a line
inside the row list, namely the position of the row whose processing failed. -/
theorem C09_rejection_names_row (w : Bool) (e : Str → Bool) (cid : Cid) (line : Nat) (rows : List (List Str))
    (err : CidErr) (h : readLoopCid w e cid line rows = .error err) :
    ∃ k, err.line = some (line + k) ∧ k < rows.length := by
  induction rows generalizing cid line with
  | nil => simp [readLoopCid] at h
  | cons row rest ih =>
    simp only [readLoopCid] at h
    cases hr : readRow cid row w e with
    | error x =>
      simp only [hr, Except.error.injEq] at h
      exact ⟨0, by subst h; simp, by simp⟩
    | ok cid' =>
      simp only [hr] at h
      obtain ⟨k, hk1, hk2⟩ := ih cid' (line + 1) h
      exact ⟨k + 1, by rw [hk1]; congr 1; omega, by simp; omega⟩

/-- **An accepted CID is complete and consistent**: it has a data format that passes the
consistency rules and at least one field. -/
theorem C09_accepted_is_complete (rows : List (List Str)) (w : Bool) (e : Str → Bool) (cid : Cid)
    (h : Cid.read rows w e = .ok cid) :
    (∃ df, cid.dataFormat = some df ∧ df.validate = true) ∧ cid.fields ≠ [] := by
  unfold Cid.read at h
  cases hl : readLoopCid w e {} 0 rows with
  | error x => simp [hl] at h
  | ok p =>
    obtain ⟨c, l⟩ := p
    simp only [hl] at h
    cases hd : c.dataFormat with
    | none => simp [hd] at h
    | some df =>
      simp only [hd] at h
      by_cases hv : df.validate = true
      · simp only [hv, Bool.not_true, Bool.false_eq_true, if_false] at h
        by_cases hf : c.fields.isEmpty = true
        · simp [hf] at h
        · simp only [hf, Bool.false_eq_true, if_false, Except.ok.injEq] at h
          subst h
          exact ⟨⟨df, hd, hv⟩, by intro hnil; simp [hnil] at hf⟩
      · simp [hv] at h

/-- A field row before any data-format row, and a check row before any field, are refused. -/
theorem C09_field_needs_format (cid : Cid) (cells : List Str) (w : Bool) (h : cid.dataFormat = none) :
    addFieldRow cid cells w = .error .iface := by
  simp [addFieldRow, buildField, h, bind, Except.bind, Except.map]

theorem Out.bind_ok {α β : Type} (x : Out α) (f : α → Out β) (b : β) (h : x >>= f = .ok b) :
    ∃ a, x = .ok a ∧ f a = .ok b := by
  cases x with
  | error e => simp [bind, Except.bind] at h
  | ok a => exact ⟨a, rfl, by simpa [bind, Except.bind] using h⟩

/-- the length check of a field row, read off: in fixed format one specific length of at least 1
(lists such as `3, 5`, ranges and open ends are refused), elsewhere no negative limit -/
theorem C09_length_decl (fmt : Format) (length : Range) (h : lengthDeclOk fmt length = .ok ()) :
    (fmt = .fixed → ∃ l, length.lowerLimit = some l ∧ length.upperLimit = some l ∧ 1 ≤ l ∧ length.items.getD [] ≠ []) ∧
    (fmt ≠ .fixed → (∀ l, length.lowerLimit = some l → 0 ≤ l) ∧
                     (length.lowerLimit = none → ∀ u, length.upperLimit = some u → 0 ≤ u)) := by
  unfold lengthDeclOk at h
  constructor
  · intro hf
    subst hf
    simp only [beq_self_eq_true, if_true] at h
    split at h
    · simp at h
    · rename_i hne
      split at h
      · simp at h
      · rename_i l hl
        split at h
        · simp at h
        · rename_i hu
          split at h
          · simp at h
          · rename_i h1
            refine ⟨l, hl, by simpa using hu, by omega, ?_⟩
            intro hnil; simp [hnil] at hne
  · intro hf
    have : (fmt == Format.fixed) = false := by cases fmt <;> simp_all
    simp only [this, Bool.false_eq_true, if_false] at h
    split at h
    · rename_i l hl
      split at h
      · simp at h
      · rename_i h0
        exact ⟨fun l' e => (by rw [hl] at e; cases e; omega), fun e => (by rw [hl] at e; cases e)⟩
    · rename_i hl
      split at h
      · rename_i u hu
        split at h
        · simp at h
        · rename_i h0
          exact ⟨fun l' e => (by rw [hl] at e; cases e), fun _ u' e => (by rw [hu] at e; cases e; omega)⟩
      · rename_i hu
        exact ⟨fun l' e => (by rw [hl] at e; cases e), fun _ u' e => (by rw [hu] at e; cases e)⟩

/-- **Fixed width fields have one specific length.** A field row accepted into a fixed-format CID
declares a length whose lower and upper limit are the same number, at least 1. -/
theorem C09_fixed_length_exact (cid : Cid) (cells : List Str) (w : Bool) (f : CidField) (df : DataFormat)
    (hdf : cid.dataFormat = some df) (hfix : df.format = .fixed) (h : buildField cid cells w = .ok f) :
    ∃ l, f.field.length.lowerLimit = some l ∧ f.field.length.upperLimit = some l ∧ 1 ≤ l := by
  unfold buildField at h
  simp only [hdf] at h
  unfold buildFieldWith at h
  obtain ⟨⟨name, stem, rule, ex, field⟩, _, h⟩ := Out.bind_ok _ _ _ h
  obtain ⟨u, hlen, h⟩ := Out.bind_ok _ _ _ h
  obtain ⟨_, _, h⟩ := Out.bind_ok _ _ _ h
  simp only [pure, Except.pure, Except.ok.injEq] at h
  subst h
  obtain ⟨l, h1, h2, h3, _⟩ := (C09_length_decl _ _ hlen).1 hfix
  exact ⟨l, h1, h2, h3⟩

/-- non-vacuity: a decorated three-row CID is read with its field -/
example :
    (Cid.read [["d".toList, "Format".toList, "Delimited".toList], [[]], [" F ".toList, "name".toList, [], [], [], [], [], "trailing".toList]]).map
      (fun c => c.fields.map (·.name)) = .ok ["name".toList] := by rfl

/-- non-vacuity of `C09_fixed_length_exact` and its converse on examples: `5` is accepted in a fixed
CID; a list, a range and an open end are refused at that row -/
example :
    ((Cid.read [["D".toList, "Format".toList, "Fixed".toList], ["F".toList, "name".toList, [], [], "5".toList]]).toOption.map
      (fun c => c.fields.map (·.field.length.lowerLimit))) = some [some 5] := by decide +kernel
example :
    ["3, 5", "2...4", "...-1, 3...", "0"].map (fun l =>
      (Cid.read [["D".toList, "Format".toList, "Fixed".toList], ["F".toList, "name".toList, [], [], l.toList]]).toOption.isSome)
      = [false, false, false, false] := by decide +kernel

end Cutplace.Props
