import Cutplace.Model.Cid
import Cutplace.Props.C18
import Cutplace.Proofs.RangeTotal
import Cutplace.Proofs.CidTotal
/-
C10  CID and data problems surface as cutplace errors, never as internal failures.

In the model every function returns `Out α = Except PyExn α`, and every `assert`, `int()`, `chr()`,
`Decimal()`, tokenizer or codec call whose failure depends on CID or data content is a branch that
returns the Python exception class the code would raise.  C10 says that, for the content-dependent
paths, only `iface` / `data _` may come out.  Proved here: the parts whose error sets are small enough
to enumerate (field names, the data-format rows, the row dispatch, the command line's exit code).
`C10_cid_read_total` then covers the whole of `Cid.read`: for every list of rows, the model ends in
a CID, an `InterfaceError`, the recorded `OverflowError` finding, or "outside the modelled fragment";
`C10_field_value_total` says that no value can make a field of a CID that was read raise anything
but a (data) rejection.  That the model predicts the class the real code raises is the
correspondence's job (the exhaustive hostile-value enumeration compares them for every cell of
every row kind).
-/
namespace Cutplace.Props
open Cutplace

/-- the only errors C10 tolerates from the model: cutplace's own, or "outside the modelled fragment" -/
def Tolerated (e : PyExn) : Prop := e.isCutplace = true ∨ e = .unsupported

/-- field names: whatever the cell contains, the outcome is a name or an interface error -/
theorem C10_field_name_total (s : Str) (e : PyExn) (h : validatedFieldName s = .error e) : e = .iface := by
  have key : validatedFieldName s = .error .iface ∨ ∃ n, validatedFieldName s = .ok n := by
    unfold validatedFieldName
    simp only []
    split
    · left; rfl
    · split
      · left; rfl
      · split
        · left; rfl
        · split
          · left; rfl
          · split
            · right; exact ⟨_, rfl⟩
            · left; rfl
  rcases key with k | ⟨n, k⟩
  · rw [k] at h; injection h with h; exact h.symm
  · rw [k] at h; simp at h

/-- the integer-valued properties (Header, Sheet): a number, or an interface error -/
theorem C10_int_property_total (value : Str) (e : PyExn) (h : validatedIntAtLeast0 value = .error e) : Tolerated e := by
  unfold validatedIntAtLeast0 at h
  split at h
  · right; simpa using h.symm
  · split at h
    · left; have : e = .iface := by simpa using h.symm
      subst this; rfl
    · split at h
      · left; have : e = .iface := by simpa using h.symm
        subst this; rfl
      · simp at h

/-- the row dispatch: an unknown row marker is an interface error, comment rows never fail -/
theorem C10_row_dispatch (cid : Cid) (row : List Str) (w : Bool) (enc : Str → Bool) :
    (rowKind row = .unknown → readRow cid row w enc = .error .iface) ∧
    (rowKind row = .comment → readRow cid row w enc = .ok cid) := by
  constructor <;> (intro h; simp [readRow, h])

/-- **A range description can only be refused as an interface error.** Whatever a CID cell hands to
`Range()` — a length, an Integer rule, "Allowed characters" — and whatever the default is, the
tokenizer (`tokenize.TokenError` is converted), the value conversions (`int`, `unicode_escape`,
symbolic names), the token loop and the overlap test either succeed or raise `InterfaceError`;
`StopIteration`, `AssertionError`, `UnicodeDecodeError` and the like are unreachable.  (`unsupported`
marks descriptions outside the modelled tokenizer fragment, which the correspondence never compares.) -/
theorem C10_range_total (description : Str) (default : Option Str) (e : PyExn)
    (h : Range.parse description default = .error e) : e = .iface ∨ e = .unsupported :=
  Range.parse_clean description default e h

/-- **A decimal range description can only be refused as an interface error**: the `Decimal()` conversions
of its NUMBER tokens never yield a NaN or an infinity, so no comparison of limits raises
`decimal.InvalidOperation`, the token list always ends in the end marker (no `StopIteration`), and the
`assert` on precision and scale holds. -/
theorem C10_decimal_range_total (description : Str) (default : Option Str) (e : PyExn)
    (h : DecimalRange.parse description default = .error e) : e = .iface ∨ e = .unsupported :=
  DecimalRange.parse_clean description default e h

/-- **Declaring a field of any type, with any length and rule cell, fails only as an interface error** -
or with the `OverflowError` of an absurdly long Integer length, which is the recorded finding. -/
theorem C10_field_declaration_total (ty : TypeName) (info : FormatInfo) (allowEmpty : Bool) (lengthText rule : Str) (e : PyExn)
    (h : declareFieldIn ty info allowEmpty lengthText rule = .error e) : e = .iface ∨ e = .unsupported ∨ e = .overflow :=
  declareFieldIn_clean ty info allowEmpty lengthText rule e h

/-- **The whole of `Cid.read`**: whatever the rows of an interface definition contain - any number of
rows, any cells, in any order - reading them ends in a CID, in an `InterfaceError`, in the recorded
`OverflowError`, or outside the modelled fragment.  No `StopIteration`, `AssertionError`,
`ValueError` (`chr()` of a negative code), `InvalidOperation`, `re.error`, `UnicodeDecodeError`,
`TokenError`, `KeyError`... can come out, from any row kind. -/
theorem C10_cid_read_total (rows : List (List Str)) (w : Bool) (enc : Str → Bool) (e : CidErr)
    (h : Cid.read rows w enc = .error e) : e.exn = .iface ∨ e.exn = .unsupported ∨ e.exn = .overflow :=
  (Cid.read_good rows w enc).1 e h

/-- **No data value can make a field of a CID that was read fail internally**: for every CID `Cid.read`
accepts, every field of it and every cell text, validation returns a value or a rejection (`none`, the
`FieldValueError` that becomes a `DataError`); `InvalidOperation` (a NaN compared with a limit) and
`re.error` (a format directive used twice) are excluded by what the declaration guarantees. -/
theorem C10_field_value_total (rows : List (List Str)) (w : Bool) (enc : Str → Bool) (cid : Cid)
    (h : Cid.read rows w enc = .ok cid) (f : CidField) (hf : f ∈ cid.fields) (v : Str) (e : PyExn)
    (he : f.field.validated v = .error e) : e = .unsupported :=
  Field.validated_errors f.field ((Cid.read_good rows w enc).2 cid h f hf) v e he

/-- a field row before the data format, and a data-format row that does not start with Format, are
interface errors (not assertion failures) -/
theorem C10_order_errors (cid : Cid) (cells : List Str) (w : Bool) (enc : Str → Bool) (h : cid.dataFormat = none) :
    addFieldRow cid cells w = .error .iface ∧
    (∀ name value rest, cells = name :: value :: rest → name ≠ [] → isAscii name = true → lower name ≠ "format".toList →
      addDataFormatRow cid cells enc = .error .iface) := by
  constructor
  · simp [addFieldRow, buildField, h, bind, Except.bind, Except.map]
  · intro name value rest hc hne ha hl
    subst hc
    have hne' : name.isEmpty = false := by cases name <;> simp_all
    have hl2 : lower name ≠ ['f', 'o', 'r', 'm', 'a', 't'] := hl
    simp [addDataFormatRow, buildDataFormat, h, bind, Except.bind, Except.map, hne', ha, hl2]

/-- the command line never answers any combination of CID / file outcomes with exit code 4 -/
theorem C10_cli_never_4 (usage : Bool) (cid : CidLoad) (files : List FileVerdict) : cliMain usage cid files ≠ 4 :=
  C18_never_four usage cid files

/-- non-vacuity: a CID that is read, and one that is refused because of a hostile decimal rule -/
example : (match Cid.read [["d".toList, "format".toList, "delimited".toList],
    ["f".toList, "amount".toList, [], [], [], "Decimal".toList, "0.5...9.75".toList]] with
    | .ok cid => cid.fields.length == 1 | _ => false) = true := by decide +kernel
example : (match Cid.read [["d".toList, "format".toList, "delimited".toList],
    ["f".toList, "amount".toList, [], [], [], "Decimal".toList, "9...1".toList]] with
    | .error ⟨.iface, some 1⟩ => true | _ => false) = true := by decide +kernel

/-- non-vacuity: a hostile field name -/
example : validatedFieldName "cl ass".toList = .error .iface := by rfl

end Cutplace.Props
