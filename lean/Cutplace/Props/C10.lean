import Cutplace.Model.Cid
import Cutplace.Props.C18
import Cutplace.Proofs.RangeTotal
/-
C10  CID and data problems surface as cutplace errors, never as internal failures.

In the model every function returns `Out α = Except PyExn α`, and every `assert`, `int()`, `chr()`,
`Decimal()`, tokenizer or codec call whose failure depends on CID or data content is a branch that
returns the Python exception class the code would raise.  C10 says that, for the content-dependent
paths, only `iface` / `data _` may come out.  Proved here: the parts whose error sets are small enough
to enumerate (field names, the data-format rows, the row dispatch, the command line's exit code).
For the remaining paths (ranges, field declarations, checks) the claim rests on the exhaustive
hostile-value enumeration, in which the model's predicted exception class is compared with the class
the real code raises for every cell of every row kind.
-/
namespace Cutplace.Props
open Cutplace

/-- the only errors C10 tolerates from the model: cutplace's own, or "outside the modelled fragment" -/
def Tolerated (e : PyExn) : Prop := e.isCutplace = true ∨ e = .unsupported

/-- field names: whatever the cell contains, the outcome is a name or an interface error -/
theorem C10_field_name_total (s : Str) (e : PyExn) (h : validatedFieldName s = .error e) : e = .iface := by
  have key : validatedFieldName s = .error .iface ∨ ∃ n, validatedFieldName s = .ok n := by
    unfold validatedFieldName
    simp only []
    split
    · left; rfl
    · split
      · left; rfl
      · split
        · left; rfl
        · split
          · left; rfl
          · split
            · right; exact ⟨_, rfl⟩
            · left; rfl
  rcases key with k | ⟨n, k⟩
  · rw [k] at h; injection h with h; exact h.symm
  · rw [k] at h; simp at h

/-- the integer-valued properties (Header, Sheet): a number, or an interface error -/
theorem C10_int_property_total (value : Str) (e : PyExn) (h : validatedIntAtLeast0 value = .error e) : Tolerated e := by
  unfold validatedIntAtLeast0 at h
  split at h
  · right; simpa using h.symm
  · split at h
    · left; have : e = .iface := by simpa using h.symm
      subst this; rfl
    · split at h
      · left; have : e = .iface := by simpa using h.symm
        subst this; rfl
      · simp at h

/-- the row dispatch: an unknown row marker is an interface error, comment rows never fail -/
theorem C10_row_dispatch (cid : Cid) (row : List Str) (w : Bool) (enc : Str → Bool) :
    (rowKind row = .unknown → readRow cid row w enc = .error .iface) ∧
    (rowKind row = .comment → readRow cid row w enc = .ok cid) := by
  constructor <;> (intro h; simp [readRow, h])

/-- **A range description can only be refused as an interface error.** Whatever a CID cell hands to
`Range()` — a length, an Integer rule, "Allowed characters" — and whatever the default is, the
tokenizer (`tokenize.TokenError` is converted), the value conversions (`int`, `unicode_escape`,
symbolic names), the token loop and the overlap test either succeed or raise `InterfaceError`;
`StopIteration`, `AssertionError`, `UnicodeDecodeError` and the like are unreachable.  (`unsupported`
marks descriptions outside the modelled tokenizer fragment, which the correspondence never compares.) -/
theorem C10_range_total (description : Str) (default : Option Str) (e : PyExn)
    (h : Range.parse description default = .error e) : e = .iface ∨ e = .unsupported :=
  Range.parse_clean description default e h

/-- a field row before the data format, and a data-format row that does not start with Format, are
interface errors (not assertion failures) -/
theorem C10_order_errors (cid : Cid) (cells : List Str) (w : Bool) (enc : Str → Bool) (h : cid.dataFormat = none) :
    addFieldRow cid cells w = .error .iface ∧
    (∀ name value rest, cells = name :: value :: rest → name ≠ [] → isAscii name = true → lower name ≠ "format".toList →
      addDataFormatRow cid cells enc = .error .iface) := by
  constructor
  · simp [addFieldRow, buildField, h, bind, Except.bind, Except.map]
  · intro name value rest hc hne ha hl
    subst hc
    have hne' : name.isEmpty = false := by cases name <;> simp_all
    have hl2 : lower name ≠ ['f', 'o', 'r', 'm', 'a', 't'] := hl
    simp [addDataFormatRow, buildDataFormat, h, bind, Except.bind, Except.map, hne', ha, hl2]

/-- the command line never answers any combination of CID / file outcomes with exit code 4 -/
theorem C10_cli_never_4 (usage : Bool) (cid : CidLoad) (files : List FileVerdict) : cliMain usage cid files ≠ 4 :=
  C18_never_four usage cid files

/-- non-vacuity: a hostile field name -/
example : validatedFieldName "cl ass".toList = .error .iface := by rfl

end Cutplace.Props
