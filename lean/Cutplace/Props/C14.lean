import Cutplace.Proofs.EngineLemmas
/-
C14  A validating writer emits only conforming rows; its output validates again.
-/
namespace Cutplace.Props
open Cutplace

variable {σ : Type}

/-- the rows handed to the delegated writer: those whose verdict is "written", padded -/
def emitted (pad : Row → Row) : List Row → List (Option RowErr) → List Row
  | r :: rs, none :: es => pad r :: emitted pad rs es
  | _ :: rs, some _ :: es => emitted pad rs es
  | _, _ => []

/-- A rejected `write_row` emits nothing and leaves the line counter unchanged (so the writer can go
on); an accepted one emits exactly the padded row and advances the line by one. -/
theorem C14_write_row (header : Nat) (pad : Row → Row) (cols : List Column) (checks : List (Check σ))
    (w : WState σ) (row : Row) :
    let r := writeRow header pad cols checks w row
    (∀ e, r.2.1 = some e → r.1.out = w.out ∧ r.1.line = w.line) ∧
    (r.2.1 = none → r.1.out = w.out ++ [pad row] ∧ r.1.line = w.line + 1) := by
  unfold writeRow
  by_cases hh : w.line ≥ header
  · simp only [hh, if_true]
    generalize validateRow cols checks w.sts row w.line = vr
    obtain ⟨sts', err, log⟩ := vr
    cases err <;> simp
  · simp [hh]

/-- The output of any sequence of writes is exactly the accepted rows, padded, in order. -/
theorem C14_emits_accepted (header : Nat) (pad : Row → Row) (cols : List Column) (checks : List (Check σ))
    (w : WState σ) (rows : List Row) :
    let r := writeRows header pad cols checks w rows
    r.1.out = w.out ++ emitted pad rows r.2.1 ∧ r.2.1.length = rows.length := by
  induction rows generalizing w with
  | nil => simp [writeRows, emitted]
  | cons row rest ih =>
    simp only [writeRows]
    have h1 := C14_write_row header pad cols checks w row
    generalize writeRow header pad cols checks w row = wr at h1
    obtain ⟨w1, e, l1⟩ := wr
    have h2 := ih w1
    generalize writeRows header pad cols checks w1 rest = wrs at h2
    obtain ⟨w2, es, l2⟩ := wrs
    simp only [] at h1 h2 ⊢
    obtain ⟨hrej, hacc⟩ := h1
    obtain ⟨ho, hl⟩ := h2
    cases e with
    | none =>
      obtain ⟨ho1, _⟩ := hacc rfl
      simp [emitted, ho, ho1, hl]
    | some err =>
      obtain ⟨ho1, _⟩ := hrej err rfl
      simp [emitted, ho, ho1, hl]

/-- The verdict of a write inside the validated window is the verdict of `validate_row` on that row in
the state reached: a row is written iff it conforms (C04's characterisation applies). -/
theorem C14_verdict_is_validation (header : Nat) (pad : Row → Row) (cols : List Column) (checks : List (Check σ))
    (w : WState σ) (row : Row) (h : w.line ≥ header) :
    (writeRow header pad cols checks w row).2.1 = (validateRow cols checks w.sts row w.line).2.1 := by
  unfold writeRow
  simp only [h, if_true]
  generalize validateRow cols checks w.sts row w.line = vr
  obtain ⟨sts', err, log⟩ := vr
  cases err <;> rfl

/-- fixed-width padding: every emitted item is the value followed by blanks up to the field width -/
def padCells (widths : List Nat) (row : Row) : Row :=
  (row.zip widths).map (fun (c, w) => c ++ List.replicate (w - c.length) ' ')

theorem C14_padding (widths : List Nat) (row : Row) (h : row.length = widths.length)
    (hfit : ∀ p ∈ row.zip widths, p.1.length ≤ p.2) :
    (padCells widths row).map List.length = widths := by
  induction row generalizing widths with
  | nil => cases widths <;> simp_all [padCells]
  | cons c cs ih =>
    cases widths with
    | nil => simp at h
    | cons w ws =>
      simp only [List.length_cons, Nat.add_right_cancel_iff] at h
      have hc : c.length ≤ w := hfit (c, w) (by simp)
      have := ih ws h (fun p hp => hfit p (by simp [hp]))
      simp only [padCells, List.zip_cons_cons, List.map_cons, List.length_append, List.length_replicate] at this ⊢
      rw [this]
      congr 1; omega

/-- non-vacuity: accepted, rejected (field), accepted -/
example :
    let col : Column := ⟨fun v => .inr v, fun v => v != ['x']⟩
    (writeRows (σ := Unit) 0 id [col] [] ⟨[], 0, []⟩ [[['a']], [['x']], [['b']]]).1.out = [[['a']], [['b']]] := by decide

/-- **Writing is incremental; a writer can go on after a rejection.** Writing the rows `a ++ b` is writing `a` and then writing `b`
with the writer as `a` left it - whatever was rejected in `a`: same final writer state (rows emitted, line, check states), the
verdicts of `a` followed by those of `b`, the calls of `a` followed by those of `b`. -/
theorem C14_incremental (header : Nat) (pad : Row → Row) (cols : List Column) (checks : List (Check σ)) (w : WState σ) (a b : List Row) :
    writeRows header pad cols checks w (a ++ b) =
      ((writeRows header pad cols checks (writeRows header pad cols checks w a).1 b).1,
       (writeRows header pad cols checks w a).2.1 ++ (writeRows header pad cols checks (writeRows header pad cols checks w a).1 b).2.1,
       (writeRows header pad cols checks w a).2.2 ++ (writeRows header pad cols checks (writeRows header pad cols checks w a).1 b).2.2) := by
  induction a generalizing w with
  | nil => simp [writeRows]
  | cons r rest ih =>
    rw [List.cons_append, writeRows, writeRows]
    simp only []
    rw [ih]
    simp only [List.cons_append, List.append_assoc]

end Cutplace.Props
