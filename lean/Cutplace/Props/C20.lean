import Cutplace.Proofs.EngineLemmas
import Cutplace.Proofs.FieldLemmas
import Cutplace.Props.C07
/-
C20  User-defined field formats and checks are driven by the documented call protocol.
The engine model records every call it makes into a column's value hook or into a check; the
theorems describe that log for every table, configuration and plugin behaviour.
-/
namespace Cutplace.Props
open Cutplace Cutplace.Spec

variable {σ : Type}

/-- Calls made for one validated row: nothing for a wrong item count; otherwise value hooks in
column order up to and including the first rejected cell (only for cells whose guards pass), and —
only if every cell was accepted — `check_row` for the checks in declaration order up to and
including the first one that vetoes. -/
theorem C20_row_log (cols : List Column) (checks : List (Check σ)) (sts : List σ) (row : Row) (line : Nat) :
    (row.length ≠ cols.length → (validateRow cols checks sts row line).2.2 = []) ∧
    (row.length = cols.length →
      ∃ k, (validateRow cols checks sts row line).2.2 =
          hookCallsFrom 0 (cols.zip row) ++
            (if (cols.zip row).findIdx? rejects = none then (List.range' 0 k).map (fun j => Call.checkRow j row line) else [])
        ∧ k ≤ checks.length) := by
  constructor
  · intro h; simp [validateRow, h]
  · intro h
    unfold validateRow
    simp only [h, ne_eq, not_true_eq_false, if_false]
    have hc := validateCells_culprit cols row 0
    have hl := validateCells_log cols row 0
    generalize validateCells cols row 0 = vc at hc hl
    obtain ⟨culprit, log⟩ := vc
    simp only at hc hl
    subst hl
    cases hf : (cols.zip row).findIdx? rejects with
    | some j =>
      rw [hf] at hc; simp only [Option.map_some] at hc; subst hc
      exact ⟨0, by simp, by omega⟩
    | none =>
      rw [hf] at hc; simp only [Option.map_none] at hc; subst hc
      obtain ⟨k, h1, h2, _⟩ := runChecks_log checks sts row line 0
      exact ⟨k, by simp [h1], h2⟩

/-- A value hook is never called beyond the first rejected cell of a row, and hooks are called in
column order: the hook part of the log is `hookCallsFrom`, which stops after the first rejection. -/
theorem C20_hooks_stop_at_culprit (i : Nat) (p : Column × Str) (ps : List (Column × Str))
    (h : rejects p = true) : hookCallsFrom i (p :: ps) = hookCall i p.1 p.2 := by
  simp [hookCallsFrom, h]

/-- The argument of every value-hook call of a built-in-guarded field satisfies the documented
preconditions (non-empty, allowed characters only, length inside the declaration, blanks stripped in
fixed format). -/
theorem C20_hook_precondition (f : Field) (v s : Str) (h : f.pre v = .inr s) :
    s ≠ [] ∧ charsOk f v = true ∧ f.lengthOk v = true ∧ s = (if f.fixed then strip v else v) := by
  unfold Field.pre at h
  cases hfd : firstDisallowed f.allowed v with
  | some i => simp [hfd] at h
  | none =>
    have hch := (firstDisallowed_none_iff f v).mp hfd
    simp only [hfd] at h
    generalize (if f.fixed = true then strip v else v) = t at h ⊢
    by_cases h1 : (!f.allowEmpty && t.isEmpty) = true
    · simp [h1] at h
    · by_cases h2 : (!f.lengthOk v) = true
      · simp [h2] at h
      · by_cases h3 : t.isEmpty = true
        · simp [h2, h3] at h; split at h <;> simp at h
        · simp [h2, h3] at h
          subst h
          refine ⟨?_, hch, by simpa using h2, rfl⟩
          intro ht; subst ht; simp at h3

/-- Every check is reset exactly once, in declaration order, before anything else happens, and
never again during the run. -/
theorem C20_resets_first (cfg : ReaderCfg) (cols : List Column) (checks : List (Check σ)) (fault : Bool)
    (rows : List Row) (before : List σ) :
    ∃ rest, (readRows cfg cols checks fault rows before).log = resetCalls checks.length ++ rest ∧
      ∀ c ∈ rest, c.isReset = false := by
  refine ⟨(readLoop cfg cols checks fault 0 rows ⟨checks.map (·.reset), 0, 0⟩).log, rfl, ?_⟩
  generalize (⟨checks.map (·.reset), 0, 0⟩ : RState σ) = st
  generalize (0 : Nat) = n
  induction rows generalizing n st with
  | nil => simp [readLoop]
  | cons row rest ih =>
    rw [readLoop]
    have hrow : ∀ (sts : List σ), ∀ c ∈ (validateRow cols checks sts row n).2.2, c.isReset = false := by
      intro sts c hc
      by_cases hlen : row.length = cols.length
      · obtain ⟨k, hk, _⟩ := (C20_row_log cols checks sts row n).2 hlen
        rw [hk] at hc
        simp only [List.mem_append] at hc
        rcases hc with hc | hc
        · have := hookCallsFrom_isHook 0 _ c hc
          cases c <;> simp_all [Call.isHook, Call.isReset]
        · split at hc
          · simp only [List.mem_map] at hc
            obtain ⟨j, _, rfl⟩ := hc
            rfl
          · simp at hc
      · rw [(C20_row_log cols checks sts row n).1 hlen] at hc
        simp at hc
    by_cases hh : n + 1 > cfg.header
    · simp only [hh, if_true]
      by_cases hl : inLimit cfg.limit (n + 1) = true
      · simp only [hl, if_true]
        have hr := hrow st.sts
        generalize validateRow cols checks st.sts row n = vr at hr
        obtain ⟨sts', err, log⟩ := vr
        simp only [] at hr ⊢
        cases err with
        | none =>
          intro c hc
          simp only [List.mem_append] at hc
          rcases hc with hc | hc
          · exact hr c hc
          · exact ih _ _ c hc
        | some e =>
          cases cfg.mode with
          | raise => exact hr
          | yield =>
            intro c hc
            simp only [List.mem_append] at hc
            rcases hc with hc | hc
            · exact hr c hc
            · exact ih _ _ c hc
          | «continue» =>
            intro c hc
            simp only [List.mem_append] at hc
            rcases hc with hc | hc
            · exact hr c hc
            · exact ih _ _ c hc
      · simp only [hl, Bool.false_eq_true, if_false]
        exact ih _ _
    · simp only [hh, if_false]
      exact ih _ _

/-- Rows in the header cause no calls at all (`C07_header_skip`), rows beyond the validation limit
cause no calls at all (`C07_beyond_limit`). -/
theorem C20_no_calls_outside_window (cfg : ReaderCfg) (cols : List Column) (checks : List (Check σ)) (fault : Bool)
    (l n : Nat) (rows : List Row) (st : RState σ) (hl : cfg.limit = some l) (hn : l ≤ n) (hh : cfg.header ≤ n) :
    (readLoop cfg cols checks fault n rows st).log = [] :=
  (C07_beyond_limit cfg cols checks fault l n rows st hl hn hh).2.1

/-- Closing asks every check for its end-of-data verdict once, in declaration order, up to the first
failure; after that every check is cleaned up exactly once, in declaration order. -/
theorem C20_close_protocol (checks : List (Check σ)) (sts : List σ) :
    ∃ k, (closeValidator checks sts).2 =
        (List.range' 0 k).map Call.atEnd ++ (List.range checks.length).map Call.cleanup ∧
      k ≤ checks.length ∧
      (match (closeValidator checks sts).1 with
       | some j => j + 1 = k
       | none => k = min checks.length sts.length) := by
  obtain ⟨k, h1, h2, h3⟩ := atEndLoop_log checks sts 0
  refine ⟨k, by simp [closeValidator, h1], h2, ?_⟩
  simp only [closeValidator]
  cases hr : (atEndLoop checks sts 0).1 with
  | none => simp [hr] at h3 ⊢; exact h3
  | some j => simp [hr] at h3 ⊢; omega

/-- class-name resolution: the last dotted component of the declared type plus the suffix -/
def lastDotted (s : Str) : Str :=
  (s.reverse.takeWhile (· != '.')).reverse

def resolveClass (registered : List Str) (qualifier suffix : Str) : Option Str :=
  let n := lastDotted qualifier ++ suffix
  if registered.contains n then some n else none

theorem C20_resolution (registered : List Str) (qualifier suffix n : Str) :
    resolveClass registered qualifier suffix = some n ↔ n = lastDotted qualifier ++ suffix ∧ n ∈ registered := by
  unfold resolveClass
  simp only []
  split
  · rename_i h
    simp only [Option.some.injEq]
    constructor
    · intro e; subst e; exact ⟨rfl, by simpa using h⟩
    · intro e; exact e.1.symm
  · rename_i h
    simp only [reduceCtorEq, false_iff, not_and]
    intro e; subst e; simpa using h

/-- non-vacuity: three columns, the second cell rejected: hooks for columns 0 and 1 only, no check called -/
example :
    let col : Column := ⟨fun v => .inr v, fun v => v != ['x']⟩
    let chk : Check Unit := ⟨(), fun s _ _ => (s, none), fun _ => true⟩
    (validateRow [col, col, col] [chk] [()] [['a'], ['x'], ['b']] 4).2.2
      = [.hook 0 ['a'], .hook 1 ['x']] := by decide

end Cutplace.Props
