import Cutplace.Model.Checks
namespace Cutplace.Props
theorem C20_placeholder : True := trivial
end Cutplace.Props
